module verif/sa

go 1.23

require (
	github.com/scottyw/tetromino v0.0.0
	golang.org/x/tools v0.29.0
)

require (
	github.com/go-gl/gl v0.0.0-20190320180904-bf2b1f2f34d7 // indirect
	github.com/go-gl/glfw v0.0.0-20200222043503-6f7a984d4dc4 // indirect
	github.com/gordonklaus/portaudio v0.0.0-20180817120803-00e7307ccd93 // indirect
	golang.org/x/mod v0.22.0 // indirect
	golang.org/x/sync v0.10.0 // indirect
)

replace github.com/scottyw/tetromino => /repo

replace github.com/go-gl/glfw => ./stubs/glfw

replace github.com/go-gl/gl => ./stubs/gl

replace github.com/gordonklaus/portaudio => ./stubs/portaudio
