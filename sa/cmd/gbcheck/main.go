package main

import (
	"fmt"
	"os"
	"runtime/debug"
	"runtime/pprof"
	"sort"
	"strings"
	"time"

	"verif/sa/internal/ai"
	"verif/sa/internal/load"
	"verif/sa/internal/world"
)

func main() {
	if len(os.Args) < 2 {
		fmt.Fprintln(os.Stderr, "usage: gbcheck <property-id|world> [quick|thorough] ...")
		os.Exit(2)
	}
	t0 := time.Now()
	debug.SetGCPercent(800)
	dir := os.Getenv("GBCHECK_DIR")
	if dir == "" {
		dir = "/verif/sa"
	}
	if pf := os.Getenv("GBPROF"); pf != "" {
		f, _ := os.Create(pf)
		pprof.StartCPUProfile(f)
		defer pprof.StopCPUProfile()
	}
	switch os.Args[1] {
	case "world":
		p, err := load.Load(dir)
		if err != nil {
			fmt.Fprintln(os.Stderr, err)
			os.Exit(2)
		}
		fmt.Printf("loaded packages=%d funcs=%d instrs=%d in %v\n", len(p.Pkgs), len(p.Funcs), p.NumInstr, time.Since(t0))
		w, err := world.Build(p)
		if err != nil {
			fmt.Fprintln(os.Stderr, "world:", err)
			os.Exit(2)
		}
		fmt.Printf("world built in %v: objects=%d entries=%d rounds=%d inv-cells=%d stats=%+v\n", time.Since(t0), len(w.It.Objects), len(w.Entries), w.Rounds, len(w.Inv), w.It.Stats)
		for _, u := range w.Undecided {
			fmt.Println("  undecided:", u)
		}
		kinds := map[string]int{}
		for _, e := range w.Entries {
			kinds[e.Kind]++
			if e.Kind != "table" || len(os.Args) > 2 {
				fmt.Printf("  entry %-14s %s\n", e.Kind, e.Name)
			}
		}
		fmt.Println("entry kinds:", kinds)
		if len(os.Args) > 2 {
			filter := os.Args[2]
			var keys []string
			for k, v := range w.Inv {
				o := w.It.ObjectByIDFast(k.Obj)
				s := fmt.Sprintf("%s%s = %s", o.Name, k.Path, ai.ValueString(v))
				if strings.Contains(s, filter) {
					keys = append(keys, s)
				}
			}
			sort.Strings(keys)
			for _, k := range keys {
				fmt.Println("  inv", k)
			}
		}
	default:
		fmt.Fprintln(os.Stderr, "unknown command", os.Args[1])
		os.Exit(2)
	}
}
