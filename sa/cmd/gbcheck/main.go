// gbcheck decides the tetromino properties by static analysis of /repo's current
// working tree. Usage:
//
//	gbcheck <C01..C26> quick|thorough     run one property check
//	gbcheck <id> --explain <replay.json>  print the diagnostic of one finding
//	gbcheck world [filter]                debugging: print the abstract machine
package main

import (
	"fmt"
	"os"
	"os/exec"
	"runtime/debug"
	"runtime/pprof"
	"sort"
	"strconv"
	"strings"
	"time"

	"verif/sa/internal/ai"
	"verif/sa/internal/checks"
	"verif/sa/internal/load"
	"verif/sa/internal/report"
	"verif/sa/internal/world"
)

func main() {
	if len(os.Args) < 2 {
		fmt.Fprintln(os.Stderr, "usage: gbcheck <property-id|world> [quick|thorough] ...")
		os.Exit(2)
	}
	t0 := time.Now()
	debug.SetGCPercent(100)
	verifDir := os.Getenv("VERIF_DIR")
	if verifDir == "" {
		verifDir = "/verif"
	}
	dir := verifDir + "/sa"
	if pf := os.Getenv("GBPROF"); pf != "" {
		f, _ := os.Create(pf)
		pprof.StartCPUProfile(f)
		defer pprof.StopCPUProfile()
	}
	if os.Getenv("GBCHECK_INT32") != "" {
		ai.IntIs32 = true
	}
	cmd := os.Args[1]
	if len(os.Args) >= 4 && os.Args[2] == "--explain" {
		b, err := os.ReadFile(os.Args[3])
		if err != nil {
			fmt.Fprintln(os.Stderr, err)
			os.Exit(2)
		}
		fmt.Println(string(b))
		fmt.Println("To re-run the rule on the current tree: ./check", cmd, "quick")
		return
	}
	p, err := load.Load(dir, "verif/sa/selftest/positive")
	if err != nil {
		failClosed(cmd, verifDir, "load", err)
	}
	switch cmd {
	case "world":
		fmt.Printf("loaded packages=%d funcs=%d instrs=%d in %v\n", len(p.Pkgs), len(p.Funcs), p.NumInstr, time.Since(t0))
		w, err := world.Build(p)
		if err != nil {
			fmt.Fprintln(os.Stderr, "world:", err)
			os.Exit(2)
		}
		fmt.Printf("world built in %v: objects=%d entries=%d rounds=%d inv-cells=%d stats=%+v\n", time.Since(t0), len(w.It.Objects), len(w.Entries), w.Rounds, len(w.Inv), w.It.Stats)
		for _, u := range w.Undecided {
			fmt.Println("  undecided:", u)
		}
		kinds := map[string]int{}
		for _, e := range w.Entries {
			kinds[e.Kind]++
			if e.Kind != "table" || len(os.Args) > 3 {
				fmt.Printf("  entry %-14s %s\n", e.Kind, e.Name)
			}
		}
		fmt.Println("entry kinds:", kinds)
		if len(os.Args) > 2 {
			filter := os.Args[2]
			var keys []string
			for k, v := range w.Inv {
				o := w.It.ObjectByIDFast(k.Obj)
				s := fmt.Sprintf("%s%s = %s", o.Name, k.Path, ai.ValueString(v))
				if strings.Contains(s, filter) {
					keys = append(keys, s)
				}
			}
			sort.Strings(keys)
			for _, k := range keys {
				fmt.Println("  inv", k)
			}
		}
		return
	}
	if cmd == "eval" && len(os.Args) >= 4 {
		w, err := world.Build(p)
		if err != nil {
			fmt.Fprintln(os.Stderr, "world:", err)
			os.Exit(2)
		}
		for _, l := range checks.DebugEval(&checks.Ctx{P: p, W: w, Tier: "quick"}, os.Args[2], os.Args[3]) {
			fmt.Println(l)
		}
		return
	}
	if cmd == "ppu" && len(os.Args) >= 5 {
		w, err := world.Build(p)
		if err != nil {
			fmt.Fprintln(os.Stderr, "world:", err)
			os.Exit(2)
		}
		T, _ := strconv.Atoi(os.Args[2])
		md, _ := strconv.Atoi(os.Args[3])
		ly, _ := strconv.Atoi(os.Args[4])
		for _, l := range checks.DebugPPU(&checks.Ctx{P: p, W: w, Tier: "quick"}, int64(T), int64(md), int64(ly), len(os.Args) > 5) {
			fmt.Println(l)
		}
		return
	}
	if cmd == "decoder" {
		w, err := world.Build(p)
		if err != nil {
			fmt.Fprintln(os.Stderr, "world:", err)
			os.Exit(2)
		}
		for _, l := range checks.DumpDecoder(&checks.Ctx{P: p, W: w, Tier: "quick"}) {
			fmt.Println(l)
		}
		return
	}
	if cmd == "rows" {
		w, err := world.Build(p)
		if err != nil {
			fmt.Fprintln(os.Stderr, "world:", err)
			os.Exit(2)
		}
		for _, l := range checks.DumpRows(&checks.Ctx{P: p, W: w, Tier: "quick"}) {
			fmt.Println(l)
		}
		return
	}
	if cmd == "multi" && len(os.Args) >= 3 {
		// several properties on one load (used by tools/seed_matrix.py): prints "RESULT <id> <exit code>" per property
		w, err := world.Build(p)
		if err != nil {
			fmt.Println("RESULT * 2 world:", err)
			os.Exit(2)
		}
		outDir := verifDir
		if o := os.Getenv("GBCHECK_OUT"); o != "" {
			outDir = o
		}
		worst := 0
		ctx := &checks.Ctx{P: p, W: w, Tier: "quick"} // shared: sibling rule sets adopted by several checks are evaluated once
		for _, id := range strings.Split(os.Args[2], ",") {
			fn, ok := checks.Registry[id]
			if !ok {
				continue
			}
			var res *report.Result
			func() {
				defer func() {
					if rec := recover(); rec != nil {
						res = report.New(id, "other", "static analysis")
						res.Fail("undecided", "internal", "checker-panic", "", fmt.Sprintf("the checker panicked: %v", rec))
					}
				}()
				res = fn(ctx)
			}()
			code := report.Finish(res, report.Meta{Tier: "quick", VerifDir: verifDir, OutDir: outDir, Cmd: "./check " + id + " quick"})
			fmt.Printf("RESULT %s %d\n", id, code)
			if code > worst {
				worst = code
			}
		}
		os.Exit(worst)
	}
	fn, ok := checks.Registry[cmd]
	if !ok {
		fmt.Fprintln(os.Stderr, "unknown property", cmd, "- known:", checks.IDs())
		os.Exit(2)
	}
	tier := "quick"
	if len(os.Args) > 2 {
		tier = os.Args[2]
	}
	if tier != "quick" && tier != "thorough" {
		fmt.Fprintln(os.Stderr, "tier must be quick or thorough")
		os.Exit(2)
	}
	w, err := world.Build(p)
	if err != nil {
		failClosed(cmd, verifDir, "world", err)
	}
	ctx := &checks.Ctx{P: p, W: w, Tier: tier}
	var res *report.Result
	func() {
		defer func() {
			if rec := recover(); rec != nil {
				res = report.New(cmd, "other", "static analysis")
				res.Fail("undecided", "internal", "checker-panic", "", fmt.Sprintf("the checker panicked: %v\n%s", rec, debug.Stack()))
			}
		}()
		res = fn(ctx)
	}()
	if len(w.Undecided) > 0 {
		res.Extra["world_undecided"] = w.Undecided
	}
	seed, _ := strconv.Atoi(os.Getenv("VERIF_SEED"))
	outDir := verifDir
	if o := os.Getenv("GBCHECK_OUT"); o != "" {
		outDir = o // scratch runs of the thorough tier write their evidence and replay files elsewhere
	}
	if tier == "thorough" && os.Getenv("GBCHECK_REPO") == "" {
		checks.Thorough(ctx, cmd, res, verifDir)
	}
	meta := report.Meta{Tier: tier, Seed: seed, Wall: time.Since(t0), VerifDir: verifDir, OutDir: outDir,
		Packages: len(p.Pkgs), Functions: len(p.Funcs), Instrs: p.NumInstr, Commit: repoState(),
		Cmd:       "./check " + cmd + " " + tier,
		WorldInfo: map[string]interface{}{"objects": len(w.It.Objects), "entries": len(w.Entries), "inference_rounds": w.Rounds, "invariant_cells": len(w.Inv), "int_width": intWidth()}}
	code := report.Finish(res, meta)
	pprof.StopCPUProfile()
	os.Exit(code)
}

func intWidth() int {
	if ai.IntIs32 {
		return 32
	}
	return 64
}

func repoState() string {
	out, err := exec.Command("git", "-C", "/repo", "rev-parse", "--short", "HEAD").Output()
	if err != nil {
		return "unknown"
	}
	s := strings.TrimSpace(string(out))
	if st, err := exec.Command("git", "-C", "/repo", "status", "--porcelain").Output(); err == nil && len(strings.TrimSpace(string(st))) > 0 {
		s += "+dirty"
	}
	return s
}

// failClosed reports that the analysis could not see its subject.
func failClosed(prop, verifDir, stage string, err error) {
	fmt.Fprintln(os.Stderr, err)
	if _, ok := checks.Registry[prop]; !ok {
		os.Exit(2)
	}
	res := report.New(prop, "other", "static analysis")
	res.Explanation = "the program could not be loaded/analysed; a checker that cannot see its subject must not pass"
	res.Fail("unresolved", "load", stage+"-failed", "", err.Error())
	tier := "quick"
	if len(os.Args) > 2 {
		tier = os.Args[2]
	}
	os.Exit(report.Finish(res, report.Meta{Tier: tier, VerifDir: verifDir, Cmd: "./check " + prop + " " + tier}))
}
