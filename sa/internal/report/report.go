// Package report holds what a check produces (findings, obligations, samples)
// and turns it into the interface files: evidence JSON, replay files, the
// VIOLATION / KNOWN-FINDING lines and the exit status.
package report

import (
	"bufio"
	"encoding/json"
	"fmt"
	"os"
	"path/filepath"
	"sort"
	"strings"
	"time"
)

// Finding is one reported construct. (Property, Rule, Construct) is its identity;
// it never contains line numbers so that the known-findings file survives edits.
type Finding struct {
	Property  string `json:"property"`
	Rule      string `json:"rule"`
	Construct string `json:"construct"`
	Kind      string `json:"kind"` // violation | undecided | unresolved
	Where     string `json:"where"`
	Detail    string `json:"detail"`
}

// Result is what one property check returns.
type Result struct {
	Property    string
	Level       string // proof | other
	Technique   string
	Explanation string
	Rules       []string // rule id: what it decides
	Findings    []Finding
	Obligations int
	Discharged  int
	Assumed     []string       // reviewed assumptions used (each with reason)
	Instances   map[string]int // per rule: how many sites/instances were analysed
	Samples     []interface{}
	NotDecided  []string
	Assumptions []string
	TrustedBase []string
	CrossRef    map[string]interface{}
	Extra       map[string]interface{}
}

func New(prop, level, technique string) *Result {
	return &Result{Property: prop, Level: level, Technique: technique, Instances: map[string]int{}, CrossRef: map[string]interface{}{}, Extra: map[string]interface{}{}}
}

// Ob records one obligation; ok=false adds a violation finding.
func (r *Result) Ob(rule string, ok bool, construct, where, detail string) {
	r.Obligations++
	r.Instances[rule]++
	if ok {
		r.Discharged++
		return
	}
	r.Findings = append(r.Findings, Finding{Property: r.Property, Rule: rule, Construct: construct, Kind: "violation", Where: where, Detail: detail})
}

// Fail adds a non-obligation finding (undecided / unresolved anchors fail closed).
func (r *Result) Fail(kind, rule, construct, where, detail string) {
	r.Obligations++
	r.Instances[rule]++
	r.Findings = append(r.Findings, Finding{Property: r.Property, Rule: rule, Construct: construct, Kind: kind, Where: where, Detail: detail})
}

func (r *Result) Sample(v interface{}) {
	if len(r.Samples) < 12 {
		r.Samples = append(r.Samples, v)
	}
}

func (r *Result) Rule(id, what string) { r.Rules = append(r.Rules, id+": "+what) }

// Known is one line of known_findings.jsonl.
type Known struct {
	Status    string `json:"status"` // known | fixed
	Property  string `json:"property"`
	Rule      string `json:"rule"`
	Construct string `json:"construct"`
	What      string `json:"what"`
	Commit    string `json:"commit,omitempty"`
}

func LoadKnown(path string) ([]Known, error) {
	f, err := os.Open(path)
	if err != nil {
		if os.IsNotExist(err) {
			return nil, nil
		}
		return nil, err
	}
	defer f.Close()
	var out []Known
	sc := bufio.NewScanner(f)
	sc.Buffer(make([]byte, 1<<20), 1<<20)
	for sc.Scan() {
		line := strings.TrimSpace(sc.Text())
		if line == "" || strings.HasPrefix(line, "#") {
			continue
		}
		var k Known
		if err := json.Unmarshal([]byte(line), &k); err != nil {
			return nil, fmt.Errorf("known findings: %v in %q", err, line)
		}
		out = append(out, k)
	}
	return out, sc.Err()
}

// Floors: expect.json maps property -> rule -> minimum instance count.
func LoadFloors(path string) (map[string]map[string]int, error) {
	b, err := os.ReadFile(path)
	if err != nil {
		if os.IsNotExist(err) {
			return nil, nil
		}
		return nil, err
	}
	var m map[string]map[string]int
	if err := json.Unmarshal(b, &m); err != nil {
		return nil, err
	}
	return m, nil
}

type Meta struct {
	Tier      string
	Seed      int
	Wall      time.Duration
	VerifDir  string
	OutDir    string // where evidence and replay files are written (default VerifDir)
	Packages  int
	Functions int
	Instrs    int
	Commit    string
	Cmd       string
	WorldInfo map[string]interface{}
}

// Finish applies floors and known findings, writes evidence and replay files,
// prints the interface lines and returns the exit code.
func Finish(r *Result, m Meta) int {
	if m.OutDir == "" {
		m.OutDir = m.VerifDir
	}
	floors, err := LoadFloors(filepath.Join(m.VerifDir, "expect.json"))
	if err != nil {
		fmt.Println("cannot read expect.json:", err)
		return 2
	}
	for rule, min := range floors[r.Property] {
		if r.Instances[rule] < min {
			r.Fail("unresolved", rule, "floor:"+rule, "", fmt.Sprintf("rule %s analysed %d instances, fewer than the %d confirmed by hand: the rule no longer sees its subject (fail closed)", rule, r.Instances[rule], min))
		}
	}
	known, err := LoadKnown(filepath.Join(m.VerifDir, "known_findings.jsonl"))
	if err != nil {
		fmt.Println("cannot read known_findings.jsonl:", err)
		return 2
	}
	// dedupe findings by identity
	seen := map[string]bool{}
	var fs []Finding
	for _, f := range r.Findings {
		k := f.Rule + "|" + f.Construct
		if seen[k] {
			continue
		}
		seen[k] = true
		fs = append(fs, f)
	}
	sort.Slice(fs, func(i, j int) bool {
		if fs[i].Rule != fs[j].Rule {
			return fs[i].Rule < fs[j].Rule
		}
		return fs[i].Construct < fs[j].Construct
	})
	var newF, knownF []Finding
	for _, f := range fs {
		isKnown := false
		for _, k := range known {
			if k.Status == "known" && k.Property == f.Property && k.Rule == f.Rule && k.Construct == f.Construct {
				isKnown = true
				break
			}
		}
		if isKnown {
			knownF = append(knownF, f)
		} else {
			newF = append(newF, f)
		}
	}
	for _, f := range knownF {
		fmt.Printf("KNOWN-FINDING: property=%s %s [%s] %s: %s\n", f.Property, f.Construct, f.Rule, f.Where, oneLine(f.Detail))
	}
	replayDir := filepath.Join(m.OutDir, "replay")
	os.MkdirAll(replayDir, 0o755)
	// clear old replay files of this property
	if old, _ := filepath.Glob(filepath.Join(replayDir, r.Property+"-*.json")); old != nil {
		for _, o := range old {
			os.Remove(o)
		}
	}
	for i, f := range newF {
		path := filepath.Join(replayDir, fmt.Sprintf("%s-%d.json", r.Property, i+1))
		b, _ := json.MarshalIndent(map[string]interface{}{"finding": f, "tier": m.Tier, "explain": "gbcheck " + r.Property + " --explain " + path}, "", " ")
		os.WriteFile(path, b, 0o644)
		fmt.Printf("VIOLATION property=%s replay=%s\n", r.Property, path)
		fmt.Printf("  %s [%s/%s] %s\n    %s\n", f.Construct, f.Rule, f.Kind, f.Where, oneLine(f.Detail))
	}
	writeEvidence(r, m, newF, knownF)
	fmt.Printf("%s %s: obligations=%d discharged=%d findings=%d known=%d wall=%.1fs\n", r.Property, m.Tier, r.Obligations, r.Discharged, len(newF), len(knownF), m.Wall.Seconds())
	if len(newF) > 0 {
		return 1
	}
	return 0
}

func oneLine(s string) string {
	s = strings.ReplaceAll(s, "\n", " ")
	if len(s) > 400 {
		s = s[:400] + "..."
	}
	return s
}

func writeEvidence(r *Result, m Meta, newF, knownF []Finding) {
	level := r.Level
	cov := map[string]interface{}{
		"explanation":          r.Explanation,
		"rules":                r.Rules,
		"obligations":          r.Obligations,
		"discharged":           r.Discharged,
		"instances_per_rule":   r.Instances,
		"samples":              r.Samples,
		"not_decided":          r.NotDecided,
		"assumed_reviewed":     r.Assumed,
		"checker_cmd":          m.Cmd,
		"trusted_base":         r.TrustedBase,
		"packages_analysed":    m.Packages,
		"functions_analysed":   m.Functions,
		"ssa_instructions":     m.Instrs,
		"world":                m.WorldInfo,
		"cross_reference":      r.CrossRef,
		"known_findings_seen":  knownF,
		"new_findings":         newF,
		"technique":            r.Technique,
		"repo_commit_analysed": m.Commit,
	}
	for k, v := range r.Extra {
		cov[k] = v
	}
	if len(r.Samples) == 0 {
		cov["samples"] = []interface{}{"(no obligations)"}
	}
	if r.Assumptions == nil {
		r.Assumptions = append([]string{}, r.TrustedBase...)
	}
	if r.TrustedBase == nil {
		cov["trusted_base"] = []string{}
	}
	if level == "proof" && r.Discharged != r.Obligations {
		// a proof-level claim with an undischarged obligation is reported as such
		cov["explanation"] = r.Explanation + " [NOT ALL OBLIGATIONS DISCHARGED ON THIS RUN]"
	}
	ev := map[string]interface{}{
		"property_id": r.Property,
		"tier":        m.Tier,
		"seed":        m.Seed,
		"level":       level,
		"coverage":    cov,
		"assumptions": r.Assumptions,
		"wall_s":      m.Wall.Seconds(),
		"violations":  len(newF),
	}
	dir := filepath.Join(m.OutDir, "evidence")
	os.MkdirAll(dir, 0o755)
	b, _ := json.MarshalIndent(ev, "", " ")
	tmp := filepath.Join(dir, r.Property+".json.tmp")
	os.WriteFile(tmp, b, 0o644)
	os.Rename(tmp, filepath.Join(dir, r.Property+".json"))
}
