// Package world builds the abstract machine the checks reason about: the object
// graph allocated by gameboy.New, the run-phase entry points, and the inferred
// step-boundary invariants (the "generic state").
package world

import (
	"fmt"
	"go/types"
	"os"
	"sort"
	"strings"

	"golang.org/x/tools/go/ssa"

	"verif/sa/internal/ai"
	"verif/sa/internal/load"
)

// Entry is one atomic step of the run phase, evaluated from the generic state.
type Entry struct {
	Name string
	Fn   *ssa.Function
	Args []ai.Value // nil entries are replaced by fresh symbolic parameters
	Bind []ai.Value
	Kind string // "loop-callee", "table", "host-callback", "api"
}

type World struct {
	P  *load.Program
	It *ai.Interp

	InitHeap *ai.Heap // after package initialisation and gameboy.New
	Generic  *ai.Heap // generic step-boundary state
	Inv      map[ai.CellKey]ai.Value

	GB      *ai.Ptr // the Gameboy object
	Entries []Entry
	Rounds  int

	NewFn, RunFn, RunFrameFn *ssa.Function

	refs        map[*ssa.Function][]*ssa.Function
	Reach       map[*ssa.Function]bool // reachable from run-phase entries
	ReachNew    map[*ssa.Function]bool // reachable from New / package init
	Undecided   []string
	HostFuncs   []*ai.Func // function values handed to host libraries during construction
	paramSyms   map[string]ai.Sym
	Log         []string
	ObjByType   map[string][]*ai.Object
	NObjInit    int // objects with larger IDs were allocated after construction
	CutFns      map[*ssa.Function]bool
	NObjPkgInit int      // objects with IDs up to this were created by package initialisation
	PkgInitHeap *ai.Heap // heap after package initialisation, before New
	Config      ai.Value // the symbolic Config passed to New
}

func (w *World) logf(format string, a ...interface{}) {
	w.Log = append(w.Log, fmt.Sprintf(format, a...))
}

// IsRepo reports whether a types.Package belongs to the repository.
func IsRepo(p *types.Package) bool {
	return p != nil && (p.Path() == load.ModulePath || strings.HasPrefix(p.Path(), load.ModulePath+"/"))
}

// Build loads nothing itself: it takes the loaded program and constructs the world.
func Build(p *load.Program) (*World, error) {
	w := &World{P: p, Inv: map[ai.CellKey]ai.Value{}, paramSyms: map[string]ai.Sym{}, ObjByType: map[string][]*ai.Object{}}
	w.It = ai.NewInterp(p.SSA, IsRepo)
	w.It.CollectThresholds(p.Funcs)
	w.It.PreciseMap = w.lookupTableMaps()
	w.NewFn = p.Func("gameboy", "New")
	w.RunFn = p.Func("gameboy", "(*Gameboy).Run")
	if w.NewFn == nil || w.RunFn == nil {
		return nil, fmt.Errorf("anchor gameboy.New / (*Gameboy).Run not found (fail closed)")
	}
	w.buildRefs()
	if err := w.construct(); err != nil {
		return nil, err
	}
	if err := w.findEntries(); err != nil {
		return nil, err
	}
	w.computeReach()
	if err := w.infer(); err != nil {
		return nil, err
	}
	return w, nil
}

// ---------------------------------------------------------------------------
// reference graph

func (w *World) buildRefs() {
	w.refs = map[*ssa.Function][]*ssa.Function{}
	// interface methods implemented by repository types
	impls := map[string][]*ssa.Function{}
	for _, fn := range w.P.Funcs {
		if fn.Signature.Recv() != nil && fn.Synthetic == "" {
			impls[fn.Name()] = append(impls[fn.Name()], fn)
		}
	}
	for _, fn := range w.P.Funcs {
		seen := map[*ssa.Function]bool{}
		add := func(g *ssa.Function) {
			if g != nil && !seen[g] {
				seen[g] = true
				w.refs[fn] = append(w.refs[fn], g)
			}
		}
		for _, af := range fn.AnonFuncs {
			add(af)
		}
		for _, b := range fn.Blocks {
			for _, ins := range b.Instrs {
				for _, op := range ins.Operands(nil) {
					if g, ok := (*op).(*ssa.Function); ok {
						add(g)
					}
				}
				if c, ok := ins.(ssa.CallInstruction); ok && c.Common().IsInvoke() {
					m := c.Common().Method
					for _, g := range impls[m.Name()] {
						if types.Identical(g.Signature.Params(), m.Type().(*types.Signature).Params()) {
							add(g)
						}
					}
				}
			}
		}
	}
}

func (w *World) reachFrom(roots []*ssa.Function) map[*ssa.Function]bool {
	seen := map[*ssa.Function]bool{}
	var walk func(f *ssa.Function)
	walk = func(f *ssa.Function) {
		if f == nil || seen[f] {
			return
		}
		seen[f] = true
		for _, g := range w.refs[f] {
			walk(g)
		}
	}
	for _, r := range roots {
		walk(r)
	}
	return seen
}

func (w *World) computeReach() {
	var roots []*ssa.Function
	for _, e := range w.Entries {
		roots = append(roots, e.Fn)
		for _, b := range e.Bind {
			if f, ok := b.(*ai.Func); ok {
				roots = append(roots, f.Fn)
			}
		}
	}
	w.Reach = w.reachFrom(roots)
	nroots := []*ssa.Function{w.NewFn}
	for _, sp := range w.P.SSAPkgs {
		if f := sp.Func("init"); f != nil {
			nroots = append(nroots, f)
		}
	}
	w.ReachNew = w.reachFrom(nroots)
}

// ConstructionOnly reports functions that run only while the machine is built.
func (w *World) ConstructionOnly(fn *ssa.Function) bool {
	return w.ReachNew[fn] && !w.Reach[fn]
}

// ---------------------------------------------------------------------------
// construction

func (w *World) symParam(name string, t types.Type) ai.Value {
	it := w.It
	switch u := t.Underlying().(type) {
	case *types.Basic:
		switch {
		case u.Info()&types.IsBoolean != 0:
			s := it.NewSym(name, ai.CellKey{})
			return ai.NewSymBool(s)
		case u.Info()&types.IsInteger != 0:
			s := it.NewSym(name, ai.CellKey{})
			wd, sg := ai.TypeShape(t)
			return ai.NewSymInt(wd, sg, s)
		}
	case *types.Struct:
		m := map[string]ai.Value{}
		for i := 0; i < u.NumFields(); i++ {
			f := u.Field(i)
			if _, isStruct := f.Type().Underlying().(*types.Struct); isStruct {
				sub := w.symParam(name+"."+f.Name(), f.Type()).(*ai.Agg)
				for k, v := range sub.M {
					m["."+f.Name()+k] = v
				}
				continue
			}
			m["."+f.Name()] = w.symParam(name+"."+f.Name(), f.Type())
		}
		return &ai.Agg{T: t, M: m}
	}
	s := it.NewSym(name, ai.CellKey{})
	return &ai.Top{T: t, D: ai.Deps{s}}
}

func (w *World) construct() error {
	it := w.It
	st := it.NewState()
	var undec []string
	it.Hooks.Undecided = func(_ *ai.State, at ssa.Instruction, what string) {
		undec = append(undec, what+" @ "+w.Pos(at))
	}
	it.Hooks.Extern = func(st *ai.State, at ssa.Instruction, name string, args []ai.Value) {
		for _, a := range args {
			collectFuncs(a, &w.HostFuncs)
			if sl, ok := a.(*ai.Slice); ok {
				// variadic ...interface{} arguments live in a backing array
				for _, v := range st.RawCells(sl.Obj) {
					collectFuncs(v, &w.HostFuncs)
				}
			}
		}
	}
	// every package-level variable of the repository gets its object before any code runs
	{
		var gs []*ssa.Global
		for _, sp := range w.P.SSAPkgs {
			for _, m := range sp.Members {
				if g, ok := m.(*ssa.Global); ok {
					gs = append(gs, g)
				}
			}
		}
		sort.Slice(gs, func(i, j int) bool { return gs[i].String() < gs[j].String() })
		for _, g := range gs {
			it.GlobalObject(g)
		}
	}
	// package initialisation (main's init calls every dependency's init)
	var mainInit *ssa.Function
	if sp := w.P.Pkg(""); sp != nil {
		mainInit = sp.Func("init")
	}
	if mainInit == nil {
		return fmt.Errorf("main package init not found (fail closed)")
	}
	_, st = it.CallFunction(st, mainInit, nil, nil)
	if st == nil {
		return fmt.Errorf("package initialisation has no returning path (fail closed)")
	}
	w.NObjPkgInit = len(it.Objects)
	w.PkgInitHeap = st.Freeze()
	st = it.StateOn(w.PkgInitHeap)
	cfgT := w.NewFn.Params[0].Type()
	cfg := w.symParam("config", cfgT)
	w.Config = cfg
	ret, st2 := it.CallFunction(st, w.NewFn, []ai.Value{cfg}, nil)
	if st2 == nil {
		return fmt.Errorf("gameboy.New has no returning path (fail closed)")
	}
	gb, ok := ret.(*ai.Ptr)
	if !ok {
		return fmt.Errorf("gameboy.New does not return a single object: %s", ai.ValueString(ret))
	}
	w.GB = gb
	w.InitHeap = st2.Freeze()
	it.Hooks.Undecided = nil
	it.Hooks.Extern = nil
	w.Undecided = append(w.Undecided, undec...)
	for _, o := range it.Objects {
		w.ObjByType[o.TypeKey] = append(w.ObjByType[o.TypeKey], o)
	}
	w.NObjInit = len(it.Objects)
	return nil
}

func collectFuncs(v ai.Value, out *[]*ai.Func) {
	switch x := v.(type) {
	case *ai.Func:
		*out = append(*out, x)
	case *ai.Iface:
		collectFuncs(x.V, out)
	case *ai.Multi:
		for _, a := range x.Alts {
			collectFuncs(a, out)
		}
	}
}

// Pos renders the position of an instruction.
func (w *World) Pos(at ssa.Instruction) string {
	if at == nil {
		return "?"
	}
	p := w.P.SSA.Fset.Position(at.Pos())
	fn := ""
	if at.Parent() != nil {
		fn = at.Parent().String()
	}
	if !p.IsValid() {
		// find nearest instruction with a position in the same block
		if b := at.Block(); b != nil {
			for _, ins := range b.Instrs {
				if q := w.P.SSA.Fset.Position(ins.Pos()); q.IsValid() {
					p = q
					break
				}
			}
		}
	}
	file := p.Filename
	if strings.HasPrefix(file, load.RepoDir+"/") {
		file = file[len(load.RepoDir)+1:]
	} else if i := strings.Index(file, "/repo/"); i >= 0 {
		file = file[i+6:]
	}
	return fmt.Sprintf("%s:%d (%s)", file, p.Line, shortName(fn))
}

func shortName(s string) string {
	s = strings.ReplaceAll(s, load.ModulePath+"/gameboy/", "")
	s = strings.ReplaceAll(s, load.ModulePath+"/", "")
	return s
}

// ---------------------------------------------------------------------------
// entries

func (w *World) findEntries() error {
	it := w.It
	st := it.StateOn(w.InitHeap)
	// Run's callees and, for callees that loop, their callees: the per-cycle steps.
	seenFn := map[*ssa.Function]bool{}
	var expand func(fn *ssa.Function, recv ai.Value, depth int)
	addEntry := func(name string, fn *ssa.Function, args, bind []ai.Value, kind string) {
		w.Entries = append(w.Entries, Entry{Name: name, Fn: fn, Args: args, Bind: bind, Kind: kind})
	}
	expand = func(fn *ssa.Function, recv ai.Value, depth int) {
		if seenFn[fn] || depth > 3 {
			return
		}
		seenFn[fn] = true
		env := map[ssa.Value]ai.Value{}
		if len(fn.Params) > 0 && recv != nil {
			env[fn.Params[0]] = recv
		}
		for _, b := range fn.Blocks {
			for _, ins := range b.Instrs {
				var common *ssa.CallCommon
				switch c := ins.(type) {
				case *ssa.Call:
					common = c.Common()
				case *ssa.Defer:
					common = c.Common()
				}
				if common == nil || common.IsInvoke() {
					continue
				}
				callee, ok := common.Value.(*ssa.Function)
				if !ok || !IsRepo(pkgOf(callee)) {
					continue
				}
				var args []ai.Value
				for _, a := range common.Args {
					args = append(args, w.pureEval(st, env, a))
				}
				if hasLoop(callee) && callee.Pkg == fn.Pkg && len(args) > 0 {
					if callee.Name() == w.RunFn.Name() {
						continue
					}
					w.RunFrameFn = callee
					expand(callee, args[0], depth+1)
					continue
				}
				// a helper of the machine itself called from the frame function (the per-cycle body factored out):
				// its callees are the per-cycle steps
				if depth >= 1 && len(args) > 0 && callee.Pkg == fn.Pkg && callee.Signature.Recv() != nil && fn.Signature.Recv() != nil &&
					types.Identical(callee.Signature.Recv().Type(), fn.Signature.Recv().Type()) && len(callee.Blocks) > 0 {
					expand(callee, args[0], depth+1)
					continue
				}
				// only the receiver is fixed; other parameters are symbolic
				fixed := make([]ai.Value, len(args))
				if len(args) > 0 && callee.Signature.Recv() != nil {
					fixed[0] = args[0]
				}
				addEntry(shortName(callee.String()), callee, fixed, nil, "loop-callee")
			}
		}
	}
	expand(w.RunFn, w.GB, 0)
	if w.RunFrameFn == nil {
		return fmt.Errorf("frame loop (looping callee of Run) not found (fail closed)")
	}
	// function values stored in the machine after construction: dispatch tables etc.
	seen := map[string]bool{}
	var tableFuncs []*ai.Func
	for _, o := range it.Objects {
		cells := st.RawCells(o)
		keys := make([]string, 0, len(cells))
		for k := range cells {
			keys = append(keys, k)
		}
		sort.Strings(keys)
		for _, k := range keys {
			var fs []*ai.Func
			collectFuncs(cells[k], &fs)
			for _, f := range fs {
				id := funcID(f)
				if !seen[id] && IsRepo(pkgOf(f.Fn)) {
					seen[id] = true
					tableFuncs = append(tableFuncs, f)
				}
			}
		}
	}
	for _, f := range tableFuncs {
		addEntry("table:"+funcID(f), f.Fn, nil, f.Bind, "table")
		// closures that capture other closures (isFinishedEarly's check)
		for _, b := range f.Bind {
			if g, ok := b.(*ai.Func); ok && !seen[funcID(g)] && IsRepo(pkgOf(g.Fn)) {
				seen[funcID(g)] = true
				addEntry("table:"+funcID(g), g.Fn, nil, g.Bind, "table")
			}
		}
	}
	for _, f := range w.HostFuncs {
		if !seen[funcID(f)] && IsRepo(pkgOf(f.Fn)) {
			seen[funcID(f)] = true
			addEntry("host:"+funcID(f), f.Fn, nil, f.Bind, "host-callback")
		}
	}
	// exported methods of the Gameboy object and of the components it owns that
	// nothing in the repository calls are API for embedding programs.
	return nil
}

func pkgOf(fn *ssa.Function) *types.Package {
	if fn.Pkg != nil {
		return fn.Pkg.Pkg
	}
	if fn.Parent() != nil {
		return pkgOf(fn.Parent())
	}
	if o := fn.Object(); o != nil {
		return o.Pkg()
	}
	if len(fn.FreeVars) > 0 {
		t := fn.FreeVars[0].Type()
		if p, ok := t.(*types.Pointer); ok {
			t = p.Elem()
		}
		if n, ok := t.(*types.Named); ok {
			return n.Obj().Pkg()
		}
	}
	return nil
}

func funcID(f *ai.Func) string {
	s := shortName(f.Fn.String())
	for _, b := range f.Bind {
		s += "|" + ai.ValueString(b)
	}
	return s
}

func hasLoop(fn *ssa.Function) bool {
	for _, b := range fn.Blocks {
		for _, s := range b.Succs {
			if s.Dominates(b) {
				return true
			}
		}
	}
	return false
}

// pureEval evaluates loads of fields reachable from bound parameters (used to
// resolve the receivers of the calls in the frame loop).
func (w *World) pureEval(st *ai.State, env map[ssa.Value]ai.Value, v ssa.Value) ai.Value {
	if r, ok := env[v]; ok {
		return r
	}
	switch x := v.(type) {
	case *ssa.FieldAddr:
		base := w.pureEval(st, env, x.X)
		if p, ok := base.(*ai.Ptr); ok {
			stt := x.X.Type().Underlying().(*types.Pointer).Elem().Underlying().(*types.Struct)
			f := stt.Field(x.Field)
			return &ai.Ptr{Obj: p.Obj, Path: p.Path + "." + f.Name(), Elem: f.Type()}
		}
	case *ssa.UnOp:
		base := w.pureEval(st, env, x.X)
		if p, ok := base.(*ai.Ptr); ok {
			return st.LoadPtr(p)
		}
	case *ssa.Const:
		return nil
	}
	return nil
}

// ---------------------------------------------------------------------------
// invariant inference

// generalise strips relational content from a value so that it can serve as a
// step-boundary invariant.
func (w *World) generalise(v ai.Value) ai.Value {
	switch x := v.(type) {
	case *ai.Int:
		return ai.StripInt(x)
	case *ai.Bool:
		return ai.StripBool(x)
	case *ai.Float:
		return &ai.Float{Lo: x.Lo, Hi: x.Hi}
	case *ai.Top:
		return &ai.Top{T: x.T}
	case *ai.Str:
		if x.Known {
			return &ai.Str{Known: true, S: x.S}
		}
		return &ai.Str{}
	case *ai.Slice:
		return &ai.Slice{Obj: x.Obj, Path: x.Path, Off: ai.StripInt(x.Off), Len: ai.StripLen(x.Len), Elem: x.Elem}
	case *ai.Iface:
		return &ai.Iface{T: x.T, V: w.generalise(x.V)}
	case *ai.Multi:
		alts := make([]ai.Value, len(x.Alts))
		for i, a := range x.Alts {
			alts[i] = w.generalise(a)
		}
		return &ai.Multi{Alts: alts}
	case *ai.Ptr:
		if len(x.Idx) > 0 {
			idx := make([]*ai.Int, len(x.Idx))
			for i, a := range x.Idx {
				idx[i] = ai.StripInt(a)
			}
			return &ai.Ptr{Obj: x.Obj, Path: x.Path, Idx: idx, Elem: x.Elem}
		}
	case *ai.Func:
		bind := make([]ai.Value, len(x.Bind))
		for i, b := range x.Bind {
			bind[i] = w.generalise(b)
		}
		return &ai.Func{Fn: x.Fn, Bind: bind}
	}
	return v
}

// classKey is the granularity of the read/write dependence tracking between
// inference rounds: object + path with indices abstracted.
func classKey(obj int, path string) string { return fmt.Sprintf("%d%s", obj, ai.NormPath(path)) }

func (w *World) infer() error {
	it := w.It
	// initial invariant: the state right after construction
	init := it.StateOn(w.InitHeap)
	for _, o := range it.Objects {
		if o.Mode == ai.ModeOpaque {
			continue
		}
		for k, v := range init.RawCells(o) {
			w.Inv[ai.CellKey{Obj: o.ID, Path: k}] = w.generalise(v)
			if os.Getenv("GBDEBUG") == "init" && (k == ".rom" || k == ".ram") {
				fmt.Printf("init %s%s = %s -> %s\n", o.Name, k, ai.ValueString(v), ai.ValueString(w.Inv[ai.CellKey{Obj: o.ID, Path: k}]))
			}
		}
	}
	// the memory decoder is a component boundary: callers see it as "any step of
	// the decoder", the decoder itself is an entry evaluated on symbolic address/value
	w.CutFns = map[*ssa.Function]bool{}
	for _, name := range []string{"(*Mapper).Read", "(*Mapper).Write"} {
		fn := w.P.Func("gameboy/memory", name)
		if fn == nil {
			return fmt.Errorf("anchor memory.%s not found (fail closed)", name)
		}
		w.CutFns[fn] = true
		recv := w.mapperPtr()
		if recv == nil {
			return fmt.Errorf("the Mapper object of the machine was not found (fail closed)")
		}
		w.Entries = append(w.Entries, Entry{Name: shortName(fn.String()), Fn: fn, Args: []ai.Value{recv}, Kind: "decoder"})
	}
	reads := make([]map[string]bool, len(w.Entries))
	var lastChanged map[string]bool
	undecAll := map[string]bool{}
	for round := 0; round < 60; round++ {
		w.Rounds = round + 1
		w.Generic = w.materialise()
		nchanged := 0
		changedNow := map[string]bool{}
		var curReads map[string]bool
		acc := func(st *ai.State) {
			if st == nil {
				return
			}
			for _, id := range st.TouchedObjects() {
				o := it.ObjectByIDFast(id)
				if o == nil || id > w.NObjInit || st.ModeOf(o) == ai.ModeOpaque {
					continue
				}
				for k, v := range st.RawCells(o) {
					key := ai.CellKey{Obj: id, Path: k}
					nv := w.generalise(v)
					old, ok := w.Inv[key]
					if !ok {
						// first write to a cell that read as zero/default so far
						lt := ai.LeafTypeAt(o.T, k)
						if lt == nil {
							continue
						}
						old = w.generalise(it.StateOn(w.InitHeap).LoadPtr(&ai.Ptr{Obj: o, Path: k, Elem: lt}))
					}
					if it.ValueLeq(nv, old) {
						if !ok {
							w.Inv[key] = old
						}
						continue
					}
					j := it.Join(old, nv, nil, nil)
					if oi, ok1 := old.(*ai.Int); ok1 && round >= 2 {
						if ni, ok2 := j.(*ai.Int); ok2 {
							j = ai.WidenInt(oi, ni, it.CellThr[key])
						}
					}
					w.Inv[key] = w.generalise(j)
					changedNow[classKey(id, k)] = true
					nchanged++
					if os.Getenv("GBDEBUG") != "" && round >= 8 && nchanged < 6 {
						fmt.Printf("round %d: %s%s: %s\n", round, o.Name, k, ai.IntervalString(w.Inv[key]))
					}
				}
			}
		}
		keepLocal := func(o *ai.Object) bool { return o.ID > w.NObjInit }
		it.Hooks = ai.Hooks{
			Undecided: func(_ *ai.State, at ssa.Instruction, what string) { undecAll[what+" @ "+w.Pos(at)] = true },
			UnknownCall: func(st *ai.State, at ssa.Instruction) *ai.State {
				acc(st)
				return st.Rebase(w.Generic, keepLocal)
			},
			Load: func(_ *ai.State, _ ssa.Instruction, p *ai.Ptr, _ ai.Value) {
				if p.Obj.ID <= w.NObjInit {
					curReads[classKey(p.Obj.ID, p.Path)] = true
				}
			},
		}
		for fn := range w.CutFns {
			fn := fn
			it.Intercepts[fn] = func(st *ai.State, at ssa.Instruction, args []ai.Value) (ai.Value, *ai.State) {
				acc(st)
				curReads["<decoder>"] = true
				var rt types.Type
				if fn.Signature.Results().Len() == 1 {
					rt = fn.Signature.Results().At(0).Type()
				}
				var res ai.Value
				if rt != nil {
					res = ai.TopOf(it, rt, w.decoderSym())
				}
				return res, st.Rebase(w.Generic, keepLocal)
			}
		}
		evaluated := 0
		for i := range w.Entries {
			e := &w.Entries[i]
			if round > 0 && reads[i] != nil {
				need := false
				for k := range lastChanged {
					if reads[i][k] {
						need = true
						break
					}
				}
				// callers of the decoder see every decoder effect through the invariant
				if !need && reads[i]["<decoder>"] {
					for k := range lastChanged {
						if reads[i][k] {
							need = true
						}
					}
				}
				if !need {
					continue
				}
			}
			evaluated++
			curReads = map[string]bool{}
			if w.CutFns[e.Fn] {
				// the decoder itself is evaluated for real
				delete(it.Intercepts, e.Fn)
			}
			post := w.RunEntry(e, nil)
			if w.CutFns[e.Fn] {
				fn := e.Fn
				it.Intercepts[fn] = nil
				delete(it.Intercepts, fn)
				// restore the cut for the remaining entries of this round
				fnc := fn
				it.Intercepts[fnc] = func(st *ai.State, at ssa.Instruction, args []ai.Value) (ai.Value, *ai.State) {
					acc(st)
					curReads["<decoder>"] = true
					var res ai.Value
					if fnc.Signature.Results().Len() == 1 {
						res = ai.TopOf(it, fnc.Signature.Results().At(0).Type(), w.decoderSym())
					}
					return res, st.Rebase(w.Generic, keepLocal)
				}
			}
			acc(post)
			reads[i] = curReads
		}
		it.Hooks = ai.Hooks{}
		if os.Getenv("GBDEBUG") != "" {
			fmt.Printf("round %d: %d entries evaluated, %d cells changed\n", round, evaluated, nchanged)
		}
		lastChanged = changedNow
		if nchanged == 0 {
			break
		}
	}
	// Refinement (sound one-shot narrowing): at a step boundary a cell holds its
	// initial value or a value some store put there during a step that started in
	// a state covered by the invariant, so Inv may be intersected with
	// Init ⊔ (all values stored when evaluating every entry from Inv).
	for pass := 0; pass < 2; pass++ {
		w.Generic = w.materialise()
		stored := map[ai.CellKey]ai.Value{}
		weak := map[ai.CellKey]bool{}
		keepLocal := func(o *ai.Object) bool { return o.ID > w.NObjInit }
		it.Hooks = ai.Hooks{
			Undecided:   func(_ *ai.State, at ssa.Instruction, what string) { undecAll[what+" @ "+w.Pos(at)] = true },
			UnknownCall: func(st *ai.State, at ssa.Instruction) *ai.State { return st.Rebase(w.Generic, keepLocal) },
			Store: func(_ *ai.State, _ ssa.Instruction, p *ai.Ptr, keys []ai.CellKey, v ai.Value, strong bool) {
				for _, k := range keys {
					if k.Obj > w.NObjInit {
						continue
					}
					if !strong {
						weak[k] = true
						continue
					}
					if old, ok := stored[k]; ok {
						stored[k] = w.generalise(it.Join(old, v, nil, nil))
					} else {
						stored[k] = w.generalise(v)
					}
				}
			},
		}
		for i := range w.Entries {
			e := &w.Entries[i]
			if !w.CutFns[e.Fn] {
				for fn := range w.CutFns {
					fnc := fn
					it.Intercepts[fnc] = func(st *ai.State, at ssa.Instruction, args []ai.Value) (ai.Value, *ai.State) {
						var res ai.Value
						if fnc.Signature.Results().Len() == 1 {
							res = ai.TopOf(it, fnc.Signature.Results().At(0).Type(), w.decoderSym())
						}
						return res, st.Rebase(w.Generic, keepLocal)
					}
				}
			}
			w.RunEntry(e, nil)
			for fn := range w.CutFns {
				delete(it.Intercepts, fn)
			}
		}
		it.Hooks = ai.Hooks{}
		narrowed := 0
		initSt := it.StateOn(w.InitHeap)
		for key, sv := range stored {
			if weak[key] {
				continue
			}
			cur, ok := w.Inv[key].(*ai.Int)
			si, ok2 := sv.(*ai.Int)
			if !ok || !ok2 {
				continue
			}
			o := it.ObjectByIDFast(key.Obj)
			lt := ai.LeafTypeAt(o.T, key.Path)
			if lt == nil {
				continue
			}
			iv, ok3 := w.generalise(initSt.LoadPtr(&ai.Ptr{Obj: o, Path: key.Path, Elem: lt})).(*ai.Int)
			if !ok3 {
				continue
			}
			cand := ai.StripInt(ai.JoinInt(iv, si, nil, nil))
			if m := ai.MeetInt(cur, cand); m != nil && !(m.Lo == cur.Lo && m.Hi == cur.Hi && m.KnownZeros() == cur.KnownZeros() && m.KnownOnes() == cur.KnownOnes()) {
				w.Inv[key] = m
				narrowed++
			}
		}
		if os.Getenv("GBDEBUG") != "" {
			fmt.Printf("refinement pass %d: %d cells narrowed\n", pass, narrowed)
		}
		if narrowed == 0 {
			break
		}
	}
	w.Generic = w.materialise()
	for k := range undecAll {
		w.Undecided = append(w.Undecided, k)
	}
	sort.Strings(w.Undecided)
	return nil
}

func (w *World) decoderSym() ai.Deps {
	return ai.Deps{w.paramSym("<memory decoder result>")}
}

// mapperPtr finds the machine's Mapper object (the receiver of the frame loop's decoder step).
func (w *World) mapperPtr() ai.Value {
	for _, e := range w.Entries {
		if len(e.Args) > 0 && e.Args[0] != nil {
			if p, ok := e.Args[0].(*ai.Ptr); ok && p.Obj.TypeKey == "memory.Mapper" {
				return p
			}
		}
	}
	// no entry takes the Mapper as its receiver (the loop reaches it only through another
	// component): the machine still has exactly one
	if os := w.ObjByType["memory.Mapper"]; len(os) == 1 {
		return &ai.Ptr{Obj: os[0], Elem: os[0].T}
	}
	return nil
}

// RunEntry evaluates one entry from the generic state (or from st if given).
func (w *World) RunEntry(e *Entry, st *ai.State) *ai.State {
	it := w.It
	if st == nil {
		st = it.StateOn(w.Generic)
	}
	args := w.EntryArgs(e)
	_, post := it.CallFunction(st, e.Fn, args, e.Bind)
	return post
}

// EntryArgs returns the arguments of an entry: fixed receivers plus symbolic parameters.
func (w *World) EntryArgs(e *Entry) []ai.Value {
	args := make([]ai.Value, len(e.Fn.Params))
	for i, p := range e.Fn.Params {
		if i < len(e.Args) && e.Args[i] != nil {
			args[i] = e.Args[i]
			// a method is entered only with a non-nil receiver: callers test optional
			// components (display, speakers) before calling (checked by C26)
			if m, ok := args[i].(*ai.Multi); ok && i == 0 {
				var alts []ai.Value
				for _, a := range m.Alts {
					if _, isNil := a.(*ai.NilV); !isNil {
						alts = append(alts, a)
					}
				}
				if len(alts) == 1 {
					args[i] = alts[0]
				} else if len(alts) > 1 {
					args[i] = &ai.Multi{Alts: alts}
				}
			}
			continue
		}
		args[i] = w.ParamValue(e.Fn, i, p.Type())
	}
	return args
}

// ParamValue returns the (memoised) symbolic value of parameter i of fn.
func (w *World) ParamValue(fn *ssa.Function, i int, t types.Type) ai.Value {
	name := fmt.Sprintf("%s#%s", shortName(fn.String()), fn.Params[i].Name())
	it := w.It
	switch u := t.Underlying().(type) {
	case *types.Basic:
		switch {
		case u.Info()&types.IsBoolean != 0:
			return ai.NewSymBool(w.paramSym(name))
		case u.Info()&types.IsInteger != 0:
			wd, sg := ai.TypeShape(t)
			return ai.NewSymInt(wd, sg, w.paramSym(name))
		}
	}
	_ = it
	return &ai.Top{T: t, D: ai.Deps{w.paramSym(name)}}
}

func (w *World) paramSym(name string) ai.Sym {
	if s, ok := w.paramSyms[name]; ok {
		return s
	}
	s := w.It.NewSym("param:"+name, ai.CellKey{})
	w.paramSyms[name] = s
	return s
}

// ParamSym exposes the symbol of a named parameter ("pkg.(*T).M#name").
func (w *World) ParamSym(fn *ssa.Function, i int) ai.Sym {
	return w.paramSym(fmt.Sprintf("%s#%s", shortName(fn.String()), fn.Params[i].Name()))
}

// materialise turns the invariant map into a frozen generic heap in which every
// non-constant scalar is a named symbolic input constrained by its invariant.
func (w *World) materialise() *ai.Heap {
	it := w.It
	st := it.StateOn(w.InitHeap)
	for key, v := range w.Inv {
		o := it.ObjectByIDFast(key.Obj)
		if o == nil {
			continue
		}
		st.SetCell(o, key.Path, it.Symbolise(o, key.Path, v))
	}
	return st.Freeze()
}

// lookupTableMaps returns the predicate "maps of this type are only ever filled by package
// initialisers": such maps are lookup tables and are modelled entry by entry; a map type that any
// other function updates, or deletes from, stays opaque.
func (w *World) lookupTableMaps() func(types.Type) bool {
	mutated := map[string]bool{}
	for _, fn := range w.P.Funcs {
		inInit := fn.Name() == "init" || strings.HasPrefix(fn.Name(), "init#") || (fn.Parent() != nil && strings.HasPrefix(fn.Parent().Name(), "init"))
		for _, b := range fn.Blocks {
			for _, ins := range b.Instrs {
				switch x := ins.(type) {
				case *ssa.MapUpdate:
					if !inInit {
						mutated[x.Map.Type().String()] = true
					}
				case *ssa.Call:
					if bi, ok := x.Call.Value.(*ssa.Builtin); ok && bi.Name() == "delete" && len(x.Call.Args) > 0 {
						mutated[x.Call.Args[0].Type().String()] = true
					}
				}
			}
		}
	}
	return func(t types.Type) bool { return !mutated[t.String()] }
}
