package world

import (
	"golang.org/x/tools/go/ssa"

	"verif/sa/internal/ai"
)

// ReachFrom exposes reference-graph reachability (over-approximate call graph).
func (w *World) ReachFrom(roots []*ssa.Function) map[*ssa.Function]bool { return w.reachFrom(roots) }

// Refs returns the functions mentioned by fn (callees, closures, method values, interface implementations).
func (w *World) Refs(fn *ssa.Function) []*ssa.Function { return w.refs[fn] }

// FuncID exposes the identity string used in entry names.
func FuncID(f *ai.Func) string { return funcID(f) }
