package world

import "golang.org/x/tools/go/ssa"

// ReachFrom exposes reference-graph reachability (over-approximate call graph).
func (w *World) ReachFrom(roots []*ssa.Function) map[*ssa.Function]bool { return w.reachFrom(roots) }

// Refs returns the functions mentioned by fn (callees, closures, method values, interface implementations).
func (w *World) Refs(fn *ssa.Function) []*ssa.Function { return w.refs[fn] }
