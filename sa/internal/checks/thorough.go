package checks

import (
	"encoding/json"
	"fmt"
	"os"
	"os/exec"
	"path/filepath"
	"sort"
	"strings"
	"sync"

	"verif/sa/internal/load"
	"verif/sa/internal/report"
)

// seedResult is what the thorough tier records for one seeded variant of the current tree.
type seedResult struct {
	Seed     string   `json:"seed"`
	Summary  string   `json:"summary"`
	Applies  bool     `json:"applies_to_current_tree"`
	Detected bool     `json:"detected"`
	Expected bool     `json:"expected_to_be_detected_by_this_check"`
	Findings []string `json:"findings,omitempty"`
}

// Thorough runs the deeper exploration of one property on top of the quick rules:
//  1. the same rules with Go's int taken as 32 bits wide (the repository builds for 32-bit
//     targets too; bounds and overflow arguments must hold there): findings count;
//  2. liveness of the rules on THIS tree: every seeded change kept under /verif/seeded that
//     this property's check is recorded to detect (seeded/detection.json) is applied to a scratch
//     copy of the current working tree of the repository, analysed, and removed again; the
//     outcome is recorded in the evidence and never changes the verdict (a seeded change that
//     no longer applies to an edited tree is not a property violation).
func Thorough(c *Ctx, prop string, res *report.Result, verifDir string) {
	self, err := os.Executable()
	if err != nil {
		res.Extra["thorough_error"] = err.Error()
		return
	}
	// ---- 1. 32-bit int
	if os.Getenv("GBCHECK_INT32") == "" {
		out, err := os.MkdirTemp("", "gbcheck-int32")
		if err == nil {
			cmd := exec.Command(self, prop, "quick")
			cmd.Env = append(os.Environ(), "GBCHECK_INT32=1", "GBCHECK_OUT="+out, "VERIF_DIR="+verifDir)
			b, _ := cmd.CombinedOutput()
			code := cmd.ProcessState.ExitCode()
			var lines []string
			for _, l := range strings.Split(string(b), "\n") {
				if strings.HasPrefix(l, "  ") && !strings.HasPrefix(l, "    ") {
					lines = append(lines, strings.TrimSpace(l))
				}
			}
			res.Ob("int32", code == 0, "the same rules with 32-bit int", "", fmt.Sprintf("exit %d: %s", code, strings.Join(lines, " | ")))
			res.Rule("int32", "every rule of this check also holds when Go's int is 32 bits wide")
			os.RemoveAll(out)
		}
	}
	// ---- 2. seeded variants
	det := map[string][]string{}
	if b, err := os.ReadFile(filepath.Join(verifDir, "seeded", "detection.json")); err == nil {
		json.Unmarshal(b, &det)
	}
	dirs, _ := filepath.Glob(filepath.Join(verifDir, "seeded", "*"))
	type job struct {
		dir      string
		expected bool
	}
	var jobs []job
	for _, d := range dirs {
		id := filepath.Base(d)
		if _, err := os.Stat(filepath.Join(d, "patch.diff")); err != nil {
			continue
		}
		expected := false
		for _, p := range det[id] {
			if p == prop {
				expected = true
			}
		}
		if expected || strings.HasPrefix(id, prop+"-") {
			jobs = append(jobs, job{d, expected})
		}
	}
	sort.Slice(jobs, func(i, j int) bool { return jobs[i].dir < jobs[j].dir })
	results := make([]seedResult, len(jobs))
	sem := make(chan struct{}, 6)
	var wg sync.WaitGroup
	for i, j := range jobs {
		wg.Add(1)
		go func(i int, j job) {
			defer wg.Done()
			sem <- struct{}{}
			defer func() { <-sem }()
			results[i] = runSeed(self, prop, j.dir, verifDir)
			results[i].Expected = j.expected
		}(i, j)
	}
	wg.Wait()
	nDet, nExp, nApplies := 0, 0, 0
	for _, r := range results {
		if r.Applies {
			nApplies++
		}
		if r.Detected {
			nDet++
		}
		if r.Expected {
			nExp++
		}
	}
	res.Extra["seeded_variants"] = results
	res.Extra["seeded_variants_summary"] = fmt.Sprintf("%d seeded changes tried on scratch copies of the current tree: %d apply, %d detected (%d expected to be detected by this check)", len(results), nApplies, nDet, nExp)
}

func runSeed(self, prop, seedDir, verifDir string) seedResult {
	r := seedResult{Seed: filepath.Base(seedDir)}
	var meta struct {
		Summary string `json:"summary"`
	}
	if b, err := os.ReadFile(filepath.Join(seedDir, "meta.json")); err == nil {
		json.Unmarshal(b, &meta)
	}
	r.Summary = meta.Summary
	if len(r.Summary) > 200 {
		r.Summary = r.Summary[:200] + "..."
	}
	tmp, err := os.MkdirTemp("", "gbcheck-seed")
	if err != nil {
		return r
	}
	defer os.RemoveAll(tmp)
	repo := filepath.Join(tmp, "repo")
	out := filepath.Join(tmp, "out")
	os.MkdirAll(repo, 0o755)
	os.MkdirAll(out, 0o755)
	// copy the CURRENT working tree (without history or test data, which the analysis never reads)
	cp := exec.Command("rsync", "-a", "--exclude", ".git", "--exclude", "testdata", "--exclude", "testresults", "--exclude", "screenshots", load.RepoDir+"/", repo+"/")
	if err := cp.Run(); err != nil {
		return r
	}
	patch := exec.Command("patch", "-p1", "-s", "-f", "-d", repo, "-i", filepath.Join(seedDir, "patch.diff"))
	if err := patch.Run(); err != nil {
		return r // the seeded change no longer applies to this tree
	}
	r.Applies = true
	cmd := exec.Command(self, prop, "quick")
	cmd.Env = append(os.Environ(), "GBCHECK_REPO="+repo, "GBCHECK_OUT="+out, "VERIF_DIR="+verifDir)
	b, _ := cmd.CombinedOutput()
	r.Detected = cmd.ProcessState.ExitCode() == 1 && strings.Contains(string(b), "VIOLATION property="+prop)
	for _, l := range strings.Split(string(b), "\n") {
		if strings.HasPrefix(l, "  ") && !strings.HasPrefix(l, "    ") && len(r.Findings) < 4 {
			r.Findings = append(r.Findings, strings.TrimSpace(l))
		}
	}
	return r
}
