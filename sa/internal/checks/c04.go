package checks

import (
	"fmt"
	"go/types"
	"sort"
	"strings"

	"golang.org/x/tools/go/ssa"

	"verif/sa/internal/ai"
	"verif/sa/internal/report"
	"verif/sa/internal/world"
)

func init() {
	register("C04", checkC04)
	register("C05", checkC05)
}

// memCall is one decoder call observed while evaluating CPU code with the decoder cut.
type memCall struct {
	Write bool
	Addr  *ai.Int
	Val   *ai.Int
}

// intrModel holds the interrupt machinery located by role.
type intrModel struct {
	m        *Machine
	Ints     *ai.Object
	Req, En  [5]string // cell paths of IF / IE bit k in the Interrupts object
	ImePath  string
	CheckFn  *ssa.Function // the boundary check returning an interrupt sequence or nil
	Handle   *ai.Func      // the dispatch routine (last entry of every interrupt sequence)
	Seqs     map[int64]*ai.Slice
	SeqSubs  map[int64][]ai.Value
	Latches  map[string]bool
	HaltSubs []*ai.Func
}

// evalCPU evaluates CPU code from st with the decoder cut (state is kept; reads yield `read`).
func (c *Ctx) evalCPU(st *ai.State, fn *ssa.Function, args, bind []ai.Value, read ai.Value) (*DecEval, []memCall) {
	it := c.W.It
	var calls []memCall
	for f := range c.W.CutFns {
		fnc := f
		it.Intercepts[fnc] = func(s *ai.State, _ ssa.Instruction, a []ai.Value) (ai.Value, *ai.State) {
			mc := memCall{Write: fnc.Signature.Results().Len() == 0}
			if len(a) > 1 {
				mc.Addr, _ = a[1].(*ai.Int)
			}
			if len(a) > 2 {
				mc.Val, _ = a[2].(*ai.Int)
			}
			calls = append(calls, mc)
			if mc.Write {
				return nil, s
			}
			if read != nil {
				return read, s
			}
			return ai.NewTopInt(8, false, nil), s
		}
	}
	defer func() {
		for f := range c.W.CutFns {
			delete(it.Intercepts, f)
		}
	}()
	ev := newEval()
	full := make([]ai.Value, len(fn.Params))
	for i, p := range fn.Params {
		if i < len(args) && args[i] != nil {
			full[i] = args[i]
		} else {
			full[i] = c.W.ParamValue(fn, i, p.Type())
		}
	}
	if len(bind) > 0 {
		full = args
	}
	it.Hooks = c.observeHooks(ev)
	keepLocal := func(o *ai.Object) bool { return o.ID > c.W.NObjInit }
	it.Hooks.UnknownCall = func(s *ai.State, at ssa.Instruction) *ai.State { return s.Rebase(c.W.Generic, keepLocal) }
	res, post := it.CallFunction(st, fn, full, bind)
	it.Hooks = ai.Hooks{}
	ev.Result, ev.Post = res, post
	return ev, calls
}

func (c *Ctx) interruptModel(r *report.Result, rule string) *intrModel {
	it := c.W.It
	m := c.machine()
	if len(m.Errors) > 0 {
		r.Fail("unresolved", rule, "machine", "", strings.Join(m.Errors, "; "))
		return nil
	}
	im := &intrModel{m: m, Ints: m.Ints, Seqs: map[int64]*ai.Slice{}, SeqSubs: map[int64][]ai.Value{}}
	// IF / IE bits by provenance of the register writes
	for _, reg := range []struct {
		addr int
		dst  *[5]string
	}{{0xFF0F, &im.Req}, {0xFFFF, &im.En}} {
		ev := c.evalDecoder(true, reg.addr, reg.addr, nil, nil)
		for _, p := range c.storedCellsOf(ev, m.Ints) {
			if b := c.cellBool(ev.Post, m.Ints, p); b != nil && b.B.K == ai.BSrc && b.B.S == ev.ValSym && !b.B.Neg && b.B.J < 5 {
				reg.dst[b.B.J] = p
			}
		}
		for k := 0; k < 5; k++ {
			if reg.dst[k] == "" {
				r.Fail("unresolved", rule, fmt.Sprintf("bit %d of register %04X", k, reg.addr), "", "no boolean cell of the interrupt object takes that bit of the written value")
				return nil
			}
		}
	}
	for _, p := range c.boolCellsOf(m.Ints) {
		if p == ".ime" {
			im.ImePath = p
		}
	}
	if im.ImePath == "" {
		r.Fail("unresolved", rule, "master enable", "", "the interrupt object has no boolean cell ime")
		return nil
	}
	for _, b := range m.NextFn.Blocks {
		for _, ins := range b.Instrs {
			if call, ok := ins.(*ssa.Call); ok {
				if callee, ok := call.Call.Value.(*ssa.Function); ok && callee.Signature.Results().Len() == 1 && isFuncSlice(callee.Signature.Results().At(0).Type()) {
					im.CheckFn = callee
				}
			}
		}
	}
	if im.CheckFn == nil {
		r.Fail("unresolved", rule, "boundary check", "", "the fetch routine calls no routine returning an interrupt sequence")
		return nil
	}
	// the sequences: every []func() the check can return
	res, _ := it.CallFunction(it.StateOn(c.W.Generic), im.CheckFn, []ai.Value{ptrTo(m.CPU)}, nil)
	var alts []ai.Value
	if mv, ok := res.(*ai.Multi); ok {
		alts = mv.Alts
	} else {
		alts = []ai.Value{res}
	}
	st := it.StateOn(c.W.Generic)
	for _, a := range alts {
		s, ok := a.(*ai.Slice)
		if !ok {
			continue
		}
		n, ok := s.Len.Const()
		if !ok {
			continue
		}
		im.Seqs[n] = s
		for i := int64(0); i < n; i++ {
			im.SeqSubs[n] = append(im.SeqSubs[n], st.LoadPtr(&ai.Ptr{Obj: s.Obj, Path: fmt.Sprintf("%s[%d]", s.Path, i), Elem: s.Elem}))
		}
	}
	for _, subs := range im.SeqSubs {
		if f, ok := subs[len(subs)-1].(*ai.Func); ok {
			im.Handle = f
		}
	}
	if im.Handle == nil {
		r.Fail("unresolved", rule, "dispatch routine", firstPos(c, im.CheckFn), "no interrupt sequence ends in a resolvable routine")
		return nil
	}
	im.Latches = c.imeLatches(m)
	return im
}

// setIEIF fixes the ten IE/IF cells from two 5-bit masks.
func (im *intrModel) setIEIF(st *ai.State, ie, iff int) {
	for k := 0; k < 5; k++ {
		st.SetCell(im.Ints, im.En[k], ai.NewConstBool(ie>>uint(k)&1 == 1))
		st.SetCell(im.Ints, im.Req[k], ai.NewConstBool(iff>>uint(k)&1 == 1))
	}
}

func boolConst(b *ai.Bool) (bool, bool) {
	if b == nil {
		return false, false
	}
	return b.Const()
}

func checkC04(c *Ctx) *report.Result {
	r := report.New("C04", "other", "boolean decision tables by abstract evaluation (all IE x IF x IME x halted valuations, every other state symbolic) of the boundary check and the dispatch routine; bit provenance of the pushed return address; row summaries of EI/DI/RETI; fetch-routine evaluation for the EI delay; who-may-clear analysis of IF over every run-phase entry")
	r.Explanation = "Interrupt dispatch here is three small routines: the boundary check (called first by the fetch routine), the interrupt sequences it returns (rows of no-ops ending in the dispatch routine) and the dispatch routine. IE/IF bits are located by the provenance of the FFFF/FF0F writes. (check) The boundary check is evaluated for all 2^5 x 2^5 IE/IF valuations x IME x halted with everything else symbolic: it must return the 5-entry sequence iff IME and (IE & IF) != 0 (6 entries when halted, 1 entry when halted with IME clear), nothing otherwise, clear 'halted' exactly when it returns a sequence and store nothing else. (seq) Every entry before the last of a sequence is a no-op and the last is the dispatch routine, so the dispatch takes effect in the 5th (6th) machine cycle; the fetch routine installs the returned sequence without fetching. (dispatch) For all 1024 valuations with IME set the dispatch routine clears IME, clears exactly the IF bit of the lowest-numbered pending interrupt and no other IE/IF bit, sets PC to 0x40+8k, writes the old PC's high byte at SP-1 and low byte at SP-2 (bit provenance) and leaves SP-2; with IME clear it does nothing at all. (ei) The EI row does not touch IME; it sets a latch which the fetch routine consumes after running the boundary check: with the latch set, IME clear and every interrupt pending the fetch routine still fetches the next instruction and only then leaves IME set; the DI row leaves IME and the latch clear; the RETI row leaves IME set. (if) No code other than the dispatch routine and the FF0F write ever clears an IF bit."
	r.Rule("I-check", "boundary check decision table over IE x IF x IME x halted (4096 valuations): sequence returned, halted cleared, no other store")
	r.Rule("I-seq", "interrupt sequences: lengths 5 / 6 / 1, all entries but the last are no-ops, the last is the dispatch routine; the fetch routine installs the sequence at cycle 0 without fetching")
	r.Rule("I-dispatch", "dispatch routine over IE x IF (1024 valuations) x IME: priority, vector 0x40+8k, exactly that IF bit cleared, IME cleared, PC pushed high byte first at SP-1/SP-2; no effect when IME is clear")
	r.Rule("I-ei", "EI does not set IME itself; the latch is consumed by the fetch routine after the boundary check; DI clears IME and the latch at once; RETI sets IME at once")
	r.Rule("I-if", "IF bits are cleared only by the dispatch routine and by the FF0F write")
	r.NotDecided = []string{"requests raised at arbitrary machine-cycle offsets relative to the boundary (timing of the sources: C12, C14)", "IF/IE writes racing with the 5-cycle dispatch sequence"}
	r.TrustedBase = []string{"documented interrupt table (bit k <-> vector 0x40+8k, priority by bit number)", "go/ssa, abstract interpreter", "lemmas S1-S3 of C02 (one row entry per machine cycle)"}
	it := c.W.It
	im := c.interruptModel(r, "I-check")
	if im == nil {
		return r
	}
	m := im.m
	cpu := m.CPU
	where := firstPos(c, im.CheckFn)

	// ---- I-seq
	lens := []int64{}
	for n := range im.Seqs {
		lens = append(lens, n)
	}
	sort.Slice(lens, func(i, j int) bool { return lens[i] < lens[j] })
	r.Ob("I-seq", len(lens) == 3 && lens[0] == 1 && lens[1] == 5 && lens[2] == 6, "interrupt sequence lengths", where, fmt.Sprintf("lengths %v, documented 1 (wake without dispatch), 5 (dispatch), 6 (dispatch from HALT)", lens))
	for _, n := range lens {
		subs := im.SeqSubs[n]
		ok := true
		var bad []string
		for i, s := range subs {
			f, isF := s.(*ai.Func)
			if !isF {
				ok = false
				continue
			}
			if i < len(subs)-1 {
				if !c.isNoop(f) {
					ok = false
					bad = append(bad, fmt.Sprintf("entry %d (%s) has an effect", i, fnName(f.Fn)))
				}
			} else {
				ok = ok && unwrapBound(f.Fn) == unwrapBound(im.Handle.Fn)
			}
		}
		r.Ob("I-seq", ok, fmt.Sprintf("sequence of length %d: no-ops then the dispatch routine", n), where, "an entry before the last has an effect, or the last entry is not the dispatch routine: "+strings.Join(bad, "; "))
	}
	// the fetch routine installs the sequence without fetching
	if s5 := im.Seqs[5]; s5 != nil {
		st := c.quietState(m)
		it.Intercepts[im.CheckFn] = func(s *ai.State, _ ssa.Instruction, _ []ai.Value) (ai.Value, *ai.State) { return s5, s }
		pcS := c.symCell(st, cpu, ".pc")
		// the early-exit predicate of the previous instruction must not survive into the sequence
		predField := ""
		if stt, ok := cpu.T.Underlying().(*types.Struct); ok {
			for i := 0; i < stt.NumFields(); i++ {
				if f := stt.Field(i); isEarlyType(f.Type()) {
					predField = "." + f.Name()
					st.SetCell(cpu, predField, &ai.Top{T: f.Type()})
				}
			}
		}
		ev, calls := c.evalCPU(st, m.NextFn, []ai.Value{ptrTo(cpu)}, nil, nil)
		delete(it.Intercepts, im.CheckFn)
		if predField != "" && ev.Post != nil {
			_, isNil := ev.Post.LoadPtr(&ai.Ptr{Obj: cpu, Path: predField, Elem: ai.LeafTypeAt(cpu.T, predField)}).(*ai.NilV)
			r.Ob("I-seq", isNil, "fetch routine clears the early-exit predicate when it installs an interrupt sequence", firstPos(c, m.NextFn), "the previous instruction's early-exit predicate stays in force during the dispatch sequence: the sequence ends early or runs past its end")
		}
		pc := c.cellInt(ev.Post, cpu, ".pc")
		okPC := pc != nil && pc.HasBase && pc.Base == pcS && pc.Off == 0
		installed := false
		cyc0 := false
		if ev.Post != nil {
			for path, v := range ev.Post.RawCells(cpu) {
				if sl, ok := v.(*ai.Slice); ok && sl.Obj == s5.Obj && sl.Path == s5.Path && !strings.Contains(path, "Interrupt") {
					installed = true
				}
			}
			if cy := c.cellInt(ev.Post, cpu, ".currentCycle"); cy != nil {
				cv, isc := cy.Const()
				cyc0 = isc && cv == 0
			}
		}
		idle, idleC := boolConst(asBool(ev.Result))
		r.Ob("I-seq", len(calls) == 0 && okPC && installed && cyc0 && idleC && !idle, "fetch routine installs a returned sequence at cycle 0 without fetching", firstPos(c, m.NextFn), fmt.Sprintf("decoder calls %d, pc unchanged %v, sequence installed %v, cycle reset %v", len(calls), okPC, installed, cyc0))
	}

	// ---- I-check
	{
		bad := []string{}
		n := 0
		for ime := 0; ime < 2; ime++ {
			for halted := 0; halted < 2; halted++ {
				for ie := 0; ie < 32; ie++ {
					for iff := 0; iff < 32; iff++ {
						st := it.StateOn(c.W.Generic)
						im.setIEIF(st, ie, iff)
						st.SetCell(im.Ints, im.ImePath, ai.NewConstBool(ime == 1))
						st.SetCell(cpu, ".halted", ai.NewConstBool(halted == 1))
						ev, calls := c.evalCPU(st, im.CheckFn, []ai.Value{ptrTo(cpu)}, nil, nil)
						n++
						pending := ie&iff != 0
						wantLen := int64(0)
						switch {
						case pending && ime == 1 && halted == 1:
							wantLen = 6
						case pending && ime == 1:
							wantLen = 5
						case pending && halted == 1:
							wantLen = 1
						}
						gotLen := int64(-1)
						switch x := ev.Result.(type) {
						case *ai.NilV:
							gotLen = 0
						case *ai.Slice:
							if l, ok := x.Len.Const(); ok {
								gotLen = l
							}
						}
						h, hc := boolConst(c.cellBool(ev.Post, cpu, ".halted"))
						wantH := halted == 1 && wantLen == 0
						extra := storedOutside(ev, c.cellLabel(ai.CellKey{Obj: cpu.ID, Path: ".halted"}))
						if gotLen != wantLen || !hc || h != wantH || len(extra) > 0 || len(calls) > 0 {
							if len(bad) < 4 {
								bad = append(bad, fmt.Sprintf("IE=%02X IF=%02X IME=%d halted=%d: returns sequence of length %d (documented %d), halted afterwards %v (documented %v), other stores %v", ie, iff, ime, halted, gotLen, wantLen, h, wantH, extra))
							}
						}
					}
				}
			}
		}
		r.Ob("I-check", len(bad) == 0, "boundary check decision table (4096 valuations)", where, strings.Join(bad, "; "))
		r.Instances["I-check"] += n
		r.Sample(map[string]interface{}{"rule": "I-check", "valuations": n, "example": "IE=01 IF=01 IME=1 halted=0 -> 5-entry sequence"})
	}

	// ---- I-dispatch
	{
		bad := []string{}
		n := 0
		hw := firstPos(c, im.Handle.Fn)
		for ie := 0; ie < 32; ie++ {
			for iff := 0; iff < 32; iff++ {
				if ie&iff == 0 {
					continue
				}
				k := 0
				for (ie&iff)>>uint(k)&1 == 0 {
					k++
				}
				st := it.StateOn(c.W.Generic)
				im.setIEIF(st, ie, iff)
				st.SetCell(im.Ints, im.ImePath, ai.NewConstBool(true))
				pcS := c.symCell(st, cpu, ".pc")
				spS := c.symCell(st, cpu, ".sp")
				ev, calls := c.evalCPU(st, im.Handle.Fn, nil, im.Handle.Bind, nil)
				n++
				var why []string
				if v, ok := boolConst(c.cellBool(ev.Post, im.Ints, im.ImePath)); !ok || v {
					why = append(why, "IME not cleared")
				}
				for j := 0; j < 5; j++ {
					rq, rc := boolConst(c.cellBool(ev.Post, im.Ints, im.Req[j]))
					en, ec := boolConst(c.cellBool(ev.Post, im.Ints, im.En[j]))
					wantR := iff>>uint(j)&1 == 1 && j != k
					if !rc || rq != wantR {
						why = append(why, fmt.Sprintf("IF bit %d afterwards %v, documented %v", j, rq, wantR))
					}
					if !ec || en != (ie>>uint(j)&1 == 1) {
						why = append(why, fmt.Sprintf("IE bit %d changed", j))
					}
				}
				if pc := c.cellInt(ev.Post, cpu, ".pc"); pc == nil || !pc.IsConst() || pc.Lo != int64(0x40+8*k) {
					why = append(why, fmt.Sprintf("PC afterwards %s, documented %#x", ai.ValueString(pc), 0x40+8*k))
				}
				if sp := c.cellInt(ev.Post, cpu, ".sp"); sp == nil || !sp.HasBase || sp.Base != spS || uint16(sp.Off) != 0xFFFE {
					why = append(why, "SP afterwards "+ai.ValueString(sp)+", documented SP-2")
				}
				if len(calls) != 2 || !calls[0].Write || !calls[1].Write {
					why = append(why, fmt.Sprintf("%d memory accesses, documented two writes", len(calls)))
				} else {
					for i, mc := range calls {
						okA := mc.Addr != nil && mc.Addr.HasBase && mc.Addr.Base == spS && uint16(mc.Addr.Off) == uint16(0xFFFF-i)
						okV := mc.Val != nil
						for b := 0; okV && b < 8; b++ {
							okV = isSrcBit(mc.Val.Bits[b], pcS, b+8*(1-i))
						}
						if !okA || !okV {
							why = append(why, fmt.Sprintf("stack write %d: address %s value %s; documented SP-%d <- %s byte of the old PC", i+1, ai.ValueString(mc.Addr), ai.ValueString(mc.Val), i+1, []string{"high", "low"}[i]))
						}
					}
				}
				if len(why) > 0 && len(bad) < 4 {
					bad = append(bad, fmt.Sprintf("IE=%02X IF=%02X: %s", ie, iff, strings.Join(why, ", ")))
				}
				if ie == 0x1f && iff == 0x14 {
					r.Sample(map[string]interface{}{"rule": "I-dispatch", "IE": "1F", "IF": "14", "dispatched_bit": k, "pc_after": fmt.Sprintf("%#x", 0x40+8*k)})
				}
			}
		}
		r.Ob("I-dispatch", len(bad) == 0, "dispatch routine with IME set (all valuations with a pending interrupt)", hw, strings.Join(bad, "; "))
		r.Instances["I-dispatch"] += n
		// IME clear: no effect at all
		st := it.StateOn(c.W.Generic)
		st.SetCell(im.Ints, im.ImePath, ai.NewConstBool(false))
		ev, calls := c.evalCPU(st, im.Handle.Fn, nil, im.Handle.Bind, nil)
		r.Ob("I-dispatch", len(ev.Stores) == 0 && len(calls) == 0 && ev.Post != nil, "dispatch routine with IME clear has no effect", hw, fmt.Sprintf("stores %v, memory accesses %d", keysOf(ev.Stores), len(calls)))
	}

	// ---- I-ei
	{
		latches := sortedKeys(im.Latches)
		imeName := "interrupts" + im.ImePath
		rowOf := func(op int) *Row { return m.Base[op] }
		ei, di, reti := rowOf(0xFB), rowOf(0xF3), rowOf(0xD9)
		rw := func(row *Row) string {
			if row != nil && row.Slice != nil {
				if s, ok := row.Slice.Obj.Site.(ssa.Instruction); ok {
					return c.pos(s)
				}
			}
			return ""
		}
		_, eiWritesIME := ei.Written[imeName]
		eiLatch := false
		for _, l := range latches {
			if v, ok := ei.Written[l]; ok {
				if b, isB := v.(*ai.Bool); isB {
					if t, isc := b.Const(); isc && t {
						eiLatch = true
					}
				}
			}
		}
		r.Ob("I-ei", !eiWritesIME && eiLatch && len(latches) > 0, "EI leaves IME alone and arms the latch", rw(ei), fmt.Sprintf("EI row writes %v; latches found by role: %v (an EI that sets IME itself lets a pending interrupt be dispatched before the next instruction)", keysOf(ei.Written), latches))
		diIME, diC := boolConst(asBool(di.Written[imeName]))
		diLatchClear := true
		for _, l := range latches {
			v, wrote := di.Written[l]
			if !wrote {
				diLatchClear = false
				continue
			}
			t, isc := boolConst(asBool(v))
			diLatchClear = diLatchClear && isc && !t
		}
		r.Ob("I-ei", diC && !diIME && diLatchClear, "DI clears IME and the latch immediately", rw(di), fmt.Sprintf("DI row writes %v", describeWritten(di)))
		rIME, rC := boolConst(asBool(reti.Written[imeName]))
		r.Ob("I-ei", rC && rIME, "RETI sets IME immediately", rw(reti), fmt.Sprintf("RETI row writes %v", describeWritten(reti)))
		// the latch is consumed after the boundary check
		for _, l := range latches {
			st := c.quietState(m)
			im.setIEIF(st, 0x1f, 0x1f)
			st.SetCell(im.Ints, im.ImePath, ai.NewConstBool(false))
			st.SetCell(cpu, "."+l, ai.NewConstBool(true))
			ev, calls := c.evalCPU(st, m.NextFn, []ai.Value{ptrTo(cpu)}, nil, ai.NewConstInt(8, false, 0x00))
			fetched := len(calls) >= 1 && !calls[0].Write
			imeAfter, ic := boolConst(c.cellBool(ev.Post, im.Ints, im.ImePath))
			lAfter, lc := boolConst(c.cellBool(ev.Post, cpu, "."+l))
			seqInstalled := false
			if ev.Post != nil {
				if sl, ok := ev.Post.LoadPtr(&ai.Ptr{Obj: cpu, Path: ".currentSubinstructions", Elem: ai.LeafTypeAt(cpu.T, ".currentSubinstructions")}).(*ai.Slice); ok {
					for _, s := range im.Seqs {
						if s.Obj == sl.Obj && s.Path == sl.Path {
							seqInstalled = true
						}
					}
				}
			}
			r.Ob("I-ei", fetched && !seqInstalled && ic && imeAfter && lc && !lAfter, "boundary after EI: the next instruction is fetched, then IME is set ("+l+")", firstPos(c, m.NextFn), fmt.Sprintf("with the latch set, IME clear and all interrupts pending: instruction fetched %v, interrupt sequence installed %v, IME afterwards %v, latch afterwards %v", fetched, seqInstalled, imeAfter, lAfter))
			// and with the latch clear IME stays clear
			st = c.quietState(m)
			im.setIEIF(st, 0x1f, 0x1f)
			st.SetCell(im.Ints, im.ImePath, ai.NewConstBool(false))
			ev, _ = c.evalCPU(st, m.NextFn, []ai.Value{ptrTo(cpu)}, nil, ai.NewConstInt(8, false, 0x00))
			imeAfter, ic = boolConst(c.cellBool(ev.Post, im.Ints, im.ImePath))
			r.Ob("I-ei", ic && !imeAfter, "boundary without a preceding EI leaves IME clear", firstPos(c, m.NextFn), "")
			// EI executed while IME is already set, and the boundary starts a dispatch: the latch is consumed at
			// this boundary all the same (otherwise it would re-enable IME when the handler's first instruction is fetched)
			st = c.quietState(m)
			im.setIEIF(st, 0x1f, 0x1f)
			st.SetCell(im.Ints, im.ImePath, ai.NewConstBool(true))
			st.SetCell(cpu, "."+l, ai.NewConstBool(true))
			ev, calls = c.evalCPU(st, m.NextFn, []ai.Value{ptrTo(cpu)}, nil, ai.NewConstInt(8, false, 0x00))
			lAfter, lc = boolConst(c.cellBool(ev.Post, cpu, "."+l))
			r.Ob("I-ei", lc && !lAfter && len(calls) == 0, "boundary after a redundant EI that starts a dispatch consumes the latch ("+l+")", firstPos(c, m.NextFn), fmt.Sprintf("with the latch set, IME set and all interrupts pending: latch afterwards %v (constant %v), memory accesses %d; a latch that survives the dispatch sets IME again inside the handler", lAfter, lc, len(calls)))
		}
	}

	// ---- I-if: who clears IF bits
	{
		reqCell := map[string]bool{}
		for k := 0; k < 5; k++ {
			reqCell[im.Req[k]] = true
		}
		viol := map[string]string{}
		n := 0
		c.evalAllEntries(ai.Hooks{
			Store: func(_ *ai.State, at ssa.Instruction, p *ai.Ptr, keys []ai.CellKey, v ai.Value, _ bool) {
				for _, k := range keys {
					if k.Obj != im.Ints.ID || !reqCell[k.Path] {
						continue
					}
					n++
					if t, isc := boolConst(asBool(v)); isc && t {
						continue // a request being raised
					}
					ok := false
					for _, f := range it.Stack {
						if unwrapBound(f) == unwrapBound(im.Handle.Fn) {
							ok = true
						}
					}
					// the FF0F write handler: the store's value is a bit of the written byte
					if b := asBool(v); b != nil && b.B.K == ai.BSrc {
						ok = true
					}
					if !ok {
						viol[fnName(outerFn(at.Parent()))+" clears "+k.Path] = c.pos(at)
					}
				}
			},
		}, func(*world.Entry, *ai.State) {})
		for k, pos := range viol {
			r.Ob("I-if", false, k, pos, "an IF bit is cleared outside the dispatch routine and the FF0F write")
		}
		r.Ob("I-if", n > 0, "stores to IF bits examined over every run-phase entry", "", fmt.Sprintf("%d stores", n))
		r.Instances["I-if"] += n
	}
	r.Rule("I-boundary", "the boundary check is made at the start of a machine cycle, by the fetch routine, before that cycle's sub-instruction and never after it (rule S1 of C02 re-stated): it sees every request raised up to the end of the previous machine cycle")
	adopt(r, c.sibling("C02"), map[string]string{"S1": "I-boundary"}, "a check made at the end of the completing instruction's last cycle misses a request a peripheral raises in that cycle: no dispatch at the boundary although IME, IE and IF allow it")
	r.Rule("I-halt", "the address pushed when an interrupt is taken out of HALT is that of the instruction after HALT: HALT's own decision table (H-halt of C05 re-stated: it sets halted or the halt-bug flag and nothing else - in particular it does not move PC)")
	adopt(r, c.sibling("C05"), map[string]string{"H-halt": "I-halt"}, "a HALT that rewinds PC makes the dispatch push the address of the HALT instead of the next instruction")
	return r
}

func asBool(v ai.Value) *ai.Bool {
	b, _ := v.(*ai.Bool)
	return b
}

func describeWritten(row *Row) []string {
	var out []string
	for k, v := range row.Written {
		out = append(out, k+"="+ai.ValueString(v))
	}
	sort.Strings(out)
	return out
}

func checkC05(c *Ctx) *report.Result {
	r := report.New("C05", "other", "boolean decision tables by abstract evaluation of the HALT routine, the boundary check and the fetch routine (all IE x IF x IME valuations, other state symbolic); ownership of the halted / halt-bug flags over every run-phase entry")
	r.Explanation = "HALT behaviour is the case analysis of three routines over IME, 'some enabled interrupt requested' and the two CPU flags halted / halt-bug. (halt) The HALT row's routine is evaluated for all 1024 IE/IF valuations x IME: with IME set, or with nothing pending, it sets halted and nothing else; with IME clear and something pending it sets the halt-bug flag and nothing else. (idle) While halted and nothing pending the fetch routine reports idle without fetching and changes no state, and the machine-cycle step then executes no row entry (lemma S1 of C02). (wake) The boundary check's table (rule I-check of C04, re-evaluated here) returns the 6-entry sequence (one machine cycle longer than a normal dispatch) when halted with IME set, and the 1-entry sequence when halted with IME clear, whose only entry is the dispatch routine, which does nothing while IME is clear - so the request is neither dispatched nor cleared and execution resumes at the next instruction. (bug) With the halt-bug flag set the fetch routine fetches the opcode but does not advance PC and clears the flag; with it clear PC advances by one. (own) The two flags are stored only by the HALT routine, the boundary check and the fetch routine."
	r.Rule("H-halt", "HALT routine decision table over IE x IF x IME (2048 valuations): halted / halt-bug set as documented, no other store")
	r.Rule("H-idle", "halted and nothing pending: the fetch routine reports idle, performs no memory access and stores nothing")
	r.Rule("H-wake", "halted and pending: 6-entry sequence with IME set (one more than the 5 of a normal dispatch), 1-entry sequence with IME clear whose entry has no effect while IME is clear; halted is cleared")
	r.Rule("H-bug", "halt-bug flag set: opcode fetched, PC not advanced, flag cleared; flag clear: PC advanced by one")
	r.Rule("H-own", "halted and halt-bug are stored only by the HALT routine, the boundary check and the fetch routine")
	r.NotDecided = []string{"how long the CPU idles (depends on when a source raises its request: C12, C14)", "STOP"}
	r.TrustedBase = []string{"go/ssa, abstract interpreter", "lemmas S1-S3 of C02"}
	it := c.W.It
	im := c.interruptModel(r, "H-halt")
	if im == nil {
		return r
	}
	m := im.m
	cpu := m.CPU
	row := m.Base[0x76]
	if row == nil || len(row.Subs) != 1 {
		r.Fail("unresolved", "H-halt", "HALT row", "", "opcode 0x76 has no single-entry row")
		return r
	}
	haltF, ok := row.Subs[0].(*ai.Func)
	if !ok {
		r.Fail("unresolved", "H-halt", "HALT routine", "", "row entry is not a resolved function")
		return r
	}
	hw := firstPos(c, haltF.Fn)
	lblHalted := c.cellLabel(ai.CellKey{Obj: cpu.ID, Path: ".halted"})
	lblBug := c.cellLabel(ai.CellKey{Obj: cpu.ID, Path: ".haltbug"})
	// ---- H-halt
	{
		bad := []string{}
		n := 0
		for ime := 0; ime < 2; ime++ {
			for ie := 0; ie < 32; ie++ {
				for iff := 0; iff < 32; iff++ {
					st := it.StateOn(c.W.Generic)
					im.setIEIF(st, ie, iff)
					st.SetCell(im.Ints, im.ImePath, ai.NewConstBool(ime == 1))
					st.SetCell(cpu, ".halted", ai.NewConstBool(false))
					st.SetCell(cpu, ".haltbug", ai.NewConstBool(false))
					ev, calls := c.evalCPU(st, haltF.Fn, nil, haltF.Bind, nil)
					n++
					h, hc := boolConst(c.cellBool(ev.Post, cpu, ".halted"))
					b, bc := boolConst(c.cellBool(ev.Post, cpu, ".haltbug"))
					wantBug := ime == 0 && ie&iff != 0
					extra := storedOutside(ev, lblHalted, lblBug)
					if !hc || !bc || h != !wantBug || b != wantBug || len(extra) > 0 || len(calls) > 0 {
						if len(bad) < 4 {
							bad = append(bad, fmt.Sprintf("IE=%02X IF=%02X IME=%d: halted=%v halt-bug=%v (documented %v / %v), other stores %v", ie, iff, ime, h, b, !wantBug, wantBug, extra))
						}
					}
				}
			}
		}
		r.Ob("H-halt", len(bad) == 0, "HALT decision table (2048 valuations)", hw, strings.Join(bad, "; "))
		r.Instances["H-halt"] += n
		r.Sample(map[string]interface{}{"rule": "H-halt", "valuations": n, "example": "IME=0 IE&IF!=0 -> halt-bug set, not halted"})
	}
	// ---- H-idle
	{
		st := c.quietState(m)
		im.setIEIF(st, 0x1f, 0x00)
		st.SetCell(cpu, ".halted", ai.NewConstBool(true))
		ev, calls := c.evalCPU(st, m.NextFn, []ai.Value{ptrTo(cpu)}, nil, nil)
		idle, ic := boolConst(asBool(ev.Result))
		var live []string
		for k, v := range ev.Stores {
			// re-storing the latch with its own value (false) is not a change
			if t, isc := boolConst(asBool(v)); isc && !t && strings.HasPrefix(k, c.cellLabel(ai.CellKey{Obj: cpu.ID, Path: ""})) && im.Latches[strings.TrimPrefix(k, c.cellLabel(ai.CellKey{Obj: cpu.ID, Path: "."}))] {
				continue
			}
			live = append(live, k)
		}
		sort.Strings(live)
		r.Ob("H-idle", ic && idle && len(calls) == 0 && len(live) == 0, "halted, nothing pending: idle without fetching", firstPos(c, m.NextFn), fmt.Sprintf("reports idle %v, memory accesses %d, stores %v", idle, len(calls), live))
	}
	// ---- H-wake
	{
		for ime := 0; ime < 2; ime++ {
			st := it.StateOn(c.W.Generic)
			im.setIEIF(st, 0x04, 0x04)
			st.SetCell(im.Ints, im.ImePath, ai.NewConstBool(ime == 1))
			st.SetCell(cpu, ".halted", ai.NewConstBool(true))
			ev, _ := c.evalCPU(st, im.CheckFn, []ai.Value{ptrTo(cpu)}, nil, nil)
			want := int64(1)
			if ime == 1 {
				want = 6
			}
			got := int64(-1)
			if s, ok := ev.Result.(*ai.Slice); ok {
				got, _ = s.Len.Const()
			}
			h, hc := boolConst(c.cellBool(ev.Post, cpu, ".halted"))
			r.Ob("H-wake", got == want && hc && !h, fmt.Sprintf("halted, request pending, IME=%d: %d-entry sequence and halted cleared", ime, want), firstPos(c, im.CheckFn), fmt.Sprintf("sequence length %d, halted afterwards %v", got, h))
		}
		_, has5 := im.Seqs[5]
		_, has6 := im.Seqs[6]
		r.Ob("H-wake", has5 && has6, "dispatch from HALT takes one machine cycle more than a normal dispatch", firstPos(c, im.CheckFn), "")
		if subs := im.SeqSubs[1]; len(subs) == 1 {
			if f, ok := subs[0].(*ai.Func); ok {
				st := it.StateOn(c.W.Generic)
				st.SetCell(im.Ints, im.ImePath, ai.NewConstBool(false))
				ev, calls := c.evalCPU(st, f.Fn, nil, f.Bind, nil)
				r.Ob("H-wake", len(ev.Stores) == 0 && len(calls) == 0, "wake with IME clear neither dispatches nor clears the request", firstPos(c, f.Fn), fmt.Sprintf("stores %v", keysOf(ev.Stores)))
			}
		}
	}
	// ---- H-bug (for every opcode byte the fetch may return: the byte after HALT can be anything, HALT itself included)
	for _, bug := range []bool{true, false} {
		wantOff := int64(1)
		if bug {
			wantOff = 0
		}
		var bad []string
		n := 0
		for op := 0; op < 256; op++ {
			if op == 0xCB {
				continue
			}
			st := c.quietState(m)
			im.setIEIF(st, 0, 0)
			st.SetCell(cpu, ".haltbug", ai.NewConstBool(bug))
			pcS := c.symCell(st, cpu, ".pc")
			ev, calls := c.evalCPU(st, m.NextFn, []ai.Value{ptrTo(cpu)}, nil, ai.NewConstInt(8, false, int64(op)))
			n++
			pc := c.cellInt(ev.Post, cpu, ".pc")
			b, bc := boolConst(c.cellBool(ev.Post, cpu, ".haltbug"))
			fetchOK := len(calls) >= 1 && !calls[0].Write && calls[0].Addr != nil && calls[0].Addr.HasBase && calls[0].Addr.Base == pcS && calls[0].Addr.Off == 0
			if !(pc != nil && pc.HasBase && pc.Base == pcS && pc.Off == wantOff && bc && !b && fetchOK) && len(bad) < 4 {
				bad = append(bad, fmt.Sprintf("opcode %02X: pc' = %s, flag' = %v, opcode fetched at pc %v", op, ai.ValueString(pc), b, fetchOK))
			}
		}
		r.Ob("H-bug", len(bad) == 0 && n == 255, fmt.Sprintf("fetch with halt-bug flag %v: PC advances by %d, flag clear afterwards, whatever the opcode byte (255 values)", bug, wantOff), firstPos(c, m.NextFn), strings.Join(bad, "; "))
		r.Instances["H-bug"] += n
	}
	// the same with a CB prefix after HALT: the prefix byte is read twice (decoded as CB CB), PC ends one past it
	for _, bug := range []bool{true, false} {
		st := c.quietState(m)
		im.setIEIF(st, 0, 0)
		st.SetCell(cpu, ".haltbug", ai.NewConstBool(bug))
		pcS := c.symCell(st, cpu, ".pc")
		ev, calls := c.evalCPU(st, m.NextFn, []ai.Value{ptrTo(cpu)}, nil, ai.NewConstInt(8, false, 0xCB))
		pc := c.cellInt(ev.Post, cpu, ".pc")
		wantPC, wantSecond := int64(2), int64(1)
		if bug {
			wantPC, wantSecond = 1, 0
		}
		okReads := len(calls) >= 2 && !calls[0].Write && !calls[1].Write && calls[0].Addr != nil && calls[1].Addr != nil &&
			calls[0].Addr.HasBase && calls[0].Addr.Base == pcS && calls[0].Addr.Off == 0 &&
			calls[1].Addr.HasBase && calls[1].Addr.Base == pcS && calls[1].Addr.Off == wantSecond
		b, bc := boolConst(c.cellBool(ev.Post, cpu, ".haltbug"))
		r.Ob("H-bug", pc != nil && pc.HasBase && pc.Base == pcS && pc.Off == wantPC && okReads && bc && !b, fmt.Sprintf("fetch of a CB prefix with halt-bug flag %v: second byte read at PC+%d, PC advances by %d", bug, wantSecond, wantPC), firstPos(c, m.NextFn), fmt.Sprintf("pc' = %s, reads %d", ai.ValueString(pc), len(calls)))
	}
	// ---- H-own
	{
		allowed := map[*ssa.Function]bool{haltF.Fn: true, unwrapBound(haltF.Fn): true, im.CheckFn: true, m.NextFn: true}
		viol := map[string]string{}
		n := 0
		c.evalAllEntries(ai.Hooks{
			Store: func(_ *ai.State, at ssa.Instruction, p *ai.Ptr, keys []ai.CellKey, _ ai.Value, _ bool) {
				for _, k := range keys {
					if k.Obj == cpu.ID && (k.Path == ".halted" || k.Path == ".haltbug") {
						n++
						names := map[string]bool{}
						for f := range allowed {
							names[fnName(f)] = true
						}
						if !allowed[outerFn(at.Parent())] && !c.onStack(names) {
							viol[fnName(outerFn(at.Parent()))+" stores "+k.Path] = c.pos(at)
						}
					}
				}
			},
		}, func(*world.Entry, *ai.State) {})
		for k, pos := range viol {
			r.Ob("H-own", false, k, pos, "only the HALT routine, the boundary check and the fetch routine may store the halted / halt-bug flags")
		}
		r.Ob("H-own", n > 0, "stores to halted / halt-bug examined over every run-phase entry", "", fmt.Sprintf("%d stores", n))
		r.Instances["H-own"] += n
	}
	r.Rule("H-step", "the CPU step - which polls for the wake-up while halted - is called once per machine cycle whatever the CPU state (rule L2 of C26 re-stated)")
	adopt(r, c.sibling("C26"), map[string]string{"L2": "H-step"}, "a halted CPU that is not stepped never sees the request that should end HALT")
	r.Rule("H-dispatch", "the dispatch out of HALT clears exactly the IF bit of the interrupt it serves (I-dispatch of C04 re-stated)")
	adopt(r, c.sibling("C04"), map[string]string{"I-dispatch": "H-dispatch"}, "a wake-up dispatch that leaves the served request set is taken again after RETI: the instruction after HALT is never reached")
	return r
}

// unwrapBound returns the method a bound-method wrapper calls (fn itself otherwise).
func unwrapBound(fn *ssa.Function) *ssa.Function {
	if fn == nil || !strings.HasSuffix(fn.Name(), "$bound") {
		return fn
	}
	for _, b := range fn.Blocks {
		for _, ins := range b.Instrs {
			if call, ok := ins.(*ssa.Call); ok {
				if callee := call.Common().StaticCallee(); callee != nil {
					return callee
				}
			}
		}
	}
	return fn
}
