package checks

import (
	"fmt"
	"os"
	"sort"

	"verif/sa/internal/ai"
)

// dumpCells prints an object's cells in a state when GBDEBUG matches tag (debugging aid).
func (c *Ctx) dumpCells(tag string, st *ai.State, o *ai.Object) {
	if os.Getenv("GBDEBUG") != tag || st == nil {
		return
	}
	cells := st.RawCells(o)
	var ks []string
	for k := range cells {
		ks = append(ks, k)
	}
	sort.Strings(ks)
	for _, k := range ks {
		fmt.Printf("  [%s] %s%s = %s\n", tag, o.Name, k, ai.ValueString(cells[k]))
	}
}
