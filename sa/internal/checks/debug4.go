package checks

import (
	"fmt"
	"os"
	"sort"

	"verif/sa/internal/ai"
)

// dumpCells prints an object's cells in a state when GBDEBUG matches tag (debugging aid).
func (c *Ctx) dumpCells(tag string, st *ai.State, o *ai.Object) {
	if os.Getenv("GBDEBUG") != tag || st == nil {
		return
	}
	cells := st.RawCells(o)
	var ks []string
	for k := range cells {
		ks = append(ks, k)
	}
	sort.Strings(ks)
	for _, k := range ks {
		fmt.Printf("  [%s] %s%s = %s\n", tag, o.Name, k, ai.ValueString(cells[k]))
	}
}

// DebugPPU prints one step of the PPU model (debugging aid).
func DebugPPU(c *Ctx, T, mode, ly int64, first bool) []string {
	m := c.ppuModel()
	var out []string
	out = append(out, fmt.Sprintf("errors=%v heavy=%d enabled=%s", m.Errors, len(m.Heavy), m.Enabled))
	for f := range m.Heavy {
		out = append(out, "heavy "+fnName(f))
	}
	st := m.step(ppuState{T: T, Mode: mode, LY: ly, FirstLine: first})
	out = append(out, fmt.Sprintf("%+v", *st))
	return out
}
