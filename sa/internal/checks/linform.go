package checks

import (
	"fmt"
	"go/constant"
	"go/token"
	"go/types"
	"sort"
	"strings"

	"golang.org/x/tools/go/ssa"
)

// linForm is the affine normal form of an SSA integer expression:
// sum(coef[leaf] * leaf) + K, all arithmetic modulo 2^W of the expression's
// type.  Leaves are loads of fields (named by their access path), parameters
// and anything the form cannot look into.  It is computed from the SSA value
// graph, inlining single-return static callees, so the spelling of the source
// (x*4, x<<2, a helper function, a named constant) does not matter.
type linForm struct {
	Coef map[string]int64
	K    int64
	OK   bool   // false: the expression is not affine in its leaves
	Why  string // reason when !OK
}

func (l linForm) String() string {
	if !l.OK {
		return "non-affine(" + l.Why + ")"
	}
	var ks []string
	for k := range l.Coef {
		ks = append(ks, k)
	}
	sort.Strings(ks)
	var parts []string
	for _, k := range ks {
		if l.Coef[k] != 0 {
			parts = append(parts, fmt.Sprintf("%d*%s", l.Coef[k], k))
		}
	}
	parts = append(parts, fmt.Sprint(l.K))
	return strings.Join(parts, " + ")
}

func linConst(k int64) linForm { return linForm{Coef: map[string]int64{}, K: k, OK: true} }
func linLeaf(name string) linForm {
	return linForm{Coef: map[string]int64{name: 1}, OK: true}
}
func linBad(why string) linForm { return linForm{Why: why} }

func (a linForm) add(b linForm, sign int64) linForm {
	if !a.OK {
		return a
	}
	if !b.OK {
		return b
	}
	r := linConst(a.K + sign*b.K)
	for k, v := range a.Coef {
		r.Coef[k] += v
	}
	for k, v := range b.Coef {
		r.Coef[k] += sign * v
	}
	return r
}

func (a linForm) scale(m int64) linForm {
	if !a.OK {
		return a
	}
	r := linConst(a.K * m)
	for k, v := range a.Coef {
		r.Coef[k] = v * m
	}
	return r
}

func (a linForm) isConst() (int64, bool) {
	if !a.OK {
		return 0, false
	}
	for _, v := range a.Coef {
		if v != 0 {
			return 0, false
		}
	}
	return a.K, true
}

// reduce brings constants and coefficients into [0, 2^w) resp. the symmetric range.
func (a linForm) reduce(w int) linForm {
	if !a.OK || w >= 63 {
		return a
	}
	m := int64(1) << uint(w)
	norm := func(x int64) int64 {
		x %= m
		if x < 0 {
			x += m
		}
		return x
	}
	r := linConst(norm(a.K))
	for k, v := range a.Coef {
		v = norm(v)
		if v > m/2 {
			v -= m
		}
		if v != 0 {
			r.Coef[k] = v
		}
	}
	return r
}

// linOf computes the affine form of v; env maps parameters of inlined callees.
func linOf(v ssa.Value, env map[ssa.Value]linForm, depth int) linForm {
	if depth > 10 {
		return linBad("too deep")
	}
	if env != nil {
		if l, ok := env[v]; ok {
			return l
		}
	}
	switch x := v.(type) {
	case *ssa.Const:
		if x.Value != nil && x.Value.Kind() == constant.Int {
			if i, ok := constant.Int64Val(x.Value); ok {
				return linConst(i)
			}
		}
		return linBad("non-integer constant")
	case *ssa.Parameter:
		return linLeaf("param:" + x.Name())
	case *ssa.BinOp:
		a, b := linOf(x.X, env, depth+1), linOf(x.Y, env, depth+1)
		switch x.Op {
		case token.ADD:
			return a.add(b, 1)
		case token.SUB:
			return a.add(b, -1)
		case token.MUL:
			if k, ok := b.isConst(); ok {
				return a.scale(k)
			}
			if k, ok := a.isConst(); ok {
				return b.scale(k)
			}
			return linLeaf("(" + leafExpr(x, env) + ")")
		case token.SHL:
			if k, ok := b.isConst(); ok && k >= 0 && k < 62 {
				return a.scale(int64(1) << uint(k))
			}
			return linLeaf("(" + leafExpr(x, env) + ")")
		}
		return linLeaf("(" + leafExpr(x, env) + ")")
	case *ssa.UnOp:
		switch x.Op {
		case token.MUL:
			return linLeaf(leafExpr(x, env))
		case token.SUB:
			return linOf(x.X, env, depth+1).scale(-1)
		}
		return linLeaf("(" + leafExpr(x, env) + ")")
	case *ssa.Convert:
		// widening integer conversions keep the value; narrowing ones reduce modulo the
		// target width, which the final reduce() accounts for when the caller works in that width
		if isIntType(x.Type()) && isIntType(x.X.Type()) {
			return linOf(x.X, env, depth+1)
		}
		return linBad("conversion")
	case *ssa.ChangeType:
		return linOf(x.X, env, depth+1)
	case *ssa.Call:
		fn := x.Common().StaticCallee()
		if fn == nil || len(fn.Blocks) == 0 {
			return linBad("dynamic call")
		}
		var ret *ssa.Return
		for _, b := range fn.Blocks {
			for _, ins := range b.Instrs {
				if r, ok := ins.(*ssa.Return); ok {
					if ret != nil {
						return linLeaf(leafExpr(x, env))
					}
					ret = r
				}
			}
		}
		if ret == nil || len(ret.Results) != 1 {
			return linBad("call without a single result")
		}
		env2 := map[ssa.Value]linForm{}
		for i, p := range fn.Params {
			if i < len(x.Common().Args) {
				env2[p] = linLeafOrForm(x.Common().Args[i], env, depth+1)
			}
		}
		return linOf(ret.Results[0], env2, depth+1)
	case *ssa.Phi:
		return linLeaf(leafExpr(x, env))
	}
	return linBad(fmt.Sprintf("%T", v))
}

// linLeafOrForm: pointer-typed arguments (receivers) become named leaves so that
// field loads through them can be rendered relative to the caller's names.
func linLeafOrForm(v ssa.Value, env map[ssa.Value]linForm, depth int) linForm {
	if _, isPtr := v.Type().Underlying().(*types.Pointer); isPtr {
		return linLeaf(leafExpr(v, env))
	}
	return linOf(v, env, depth)
}

func isIntType(t types.Type) bool {
	b, ok := t.Underlying().(*types.Basic)
	return ok && b.Info()&types.IsInteger != 0
}

// leafExpr renders a leaf; parameters bound to a single pointer leaf by env are substituted.
func leafExpr(v ssa.Value, env map[ssa.Value]linForm) string {
	switch x := v.(type) {
	case *ssa.Parameter:
		if env != nil {
			if l, ok := env[x]; ok && l.OK && len(l.Coef) == 1 && l.K == 0 {
				for k := range l.Coef {
					return k
				}
			}
		}
		return x.Name()
	case *ssa.UnOp:
		if x.Op == token.MUL {
			return leafExpr(x.X, env)
		}
		return x.Op.String() + leafExpr(x.X, env)
	case *ssa.FieldAddr:
		st := x.X.Type().Underlying().(*types.Pointer).Elem().Underlying().(*types.Struct)
		return leafExpr(x.X, env) + "." + st.Field(x.Field).Name()
	case *ssa.Field:
		st := x.X.Type().Underlying().(*types.Struct)
		return leafExpr(x.X, env) + "." + st.Field(x.Field).Name()
	case *ssa.BinOp:
		return leafExpr(x.X, env) + " " + x.Op.String() + " " + leafExpr(x.Y, env)
	case *ssa.Convert:
		return leafExpr(x.X, env)
	case *ssa.ChangeType:
		return leafExpr(x.X, env)
	case *ssa.Const:
		return exprString(x)
	}
	return exprString(v)
}

// relTo rewrites the leaves of a form relative to a prefix ("a.ch1.frequency" with prefix "a.ch1" -> ".frequency").
func (a linForm) relTo(prefix string) linForm {
	if !a.OK {
		return a
	}
	r := linConst(a.K)
	for k, v := range a.Coef {
		if strings.HasPrefix(k, prefix+".") {
			k = k[len(prefix):]
		}
		r.Coef[k] += v
	}
	return r
}

func (a linForm) equal(b linForm) bool {
	if !a.OK || !b.OK || a.K != b.K {
		return false
	}
	for k, v := range a.Coef {
		if v != 0 && b.Coef[k] != v {
			return false
		}
	}
	for k, v := range b.Coef {
		if v != 0 && a.Coef[k] != v {
			return false
		}
	}
	return true
}
