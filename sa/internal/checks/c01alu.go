package checks

import (
	"fmt"
	"go/token"

	"verif/sa/internal/ai"
	"verif/sa/internal/report"
)

// runRow evaluates the entries of a dispatch row one after the other from a prepared state; every
// decoder read yields `read` (nil: an unknown byte).
func (c *Ctx) runRow(m *Machine, row *Row, setup func(st *ai.State), read ai.Value) (*ai.State, []memCall, bool) {
	it := c.W.It
	st := it.StateOn(c.W.Generic)
	if setup != nil {
		setup(st)
	}
	var all []memCall
	for _, sub := range row.Subs {
		f, isF := sub.(*ai.Func)
		if !isF {
			return nil, nil, false
		}
		ev, calls := c.evalCPU(st, f.Fn, nil, f.Bind, read)
		if ev.Post == nil {
			return nil, nil, false
		}
		all = append(all, calls...)
		st = ev.Post
	}
	return st, all, true
}

// linWant accumulates an expected linear form over whole register symbols and single bits.
type linWant struct {
	coef map[ai.LinKey]int64
	k    int64
	text string
}

func newWant(text string) *linWant { return &linWant{coef: map[ai.LinKey]int64{}, text: text} }
func (w *linWant) sym(s ai.Sym, width int, c int64) *linWant {
	ai.SymWhole(w.coef, s, width, c)
	return w
}
func (w *linWant) bit(s ai.Sym, j int, c int64) *linWant {
	w.coef[ai.LinKey{S: s, J: j}] += c
	return w
}

// symBits adds bits lo..hi-1 of symbol s, bit j weighted c << (j-lo).
func (w *linWant) symBits(s ai.Sym, lo, hi int, c int64) *linWant {
	for j := lo; j < hi; j++ {
		w.coef[ai.LinKey{S: s, J: j}] += c << uint(j-lo)
	}
	return w
}
func (w *linWant) add(k int64) *linWant { w.k += k; return w }

// checkALU decides the arithmetic results of the instruction set as linear forms over the input
// registers: for all register values at once, the value left in the destination is congruent to the
// documented expression modulo the destination's width.
func (c *Ctx) checkALU(r *report.Result, m *Machine) {
	it := c.W.It
	sym := func(reg string) ai.Sym { return c.symOf(m, reg) }
	fs := sym("f")
	where := func(row *Row) string {
		if row != nil && len(row.Subs) > 0 {
			if f, ok := row.Subs[len(row.Subs)-1].(*ai.Func); ok {
				return firstPos(c, f.Fn)
			}
		}
		return ""
	}
	ob := func(op int, what string, got *ai.Int, mod int, w *linWant) {
		row := m.Base[op]
		ok := got != nil && ai.LinEqual(got, mod, w.coef, w.k)
		r.Ob("F-alu", ok, fmt.Sprintf("opcode 0x%02X %s", op, what), where(row), fmt.Sprintf("value is %s; documented %s (mod 2^%d)", ai.LinString(it, got), w.text, mod))
	}
	operandSym := it.NewSym("operand", ai.CellKey{})
	operand := func() *ai.Int { return ai.NewSymInt(8, false, operandSym) }
	regOf := func(z int) (string, bool) { // operand register name, or memory
		if z == 6 {
			return "", true
		}
		return r8names[z], false
	}
	// operand term of an 8-bit ALU instruction
	addOperand := func(w *linWant, z int, imm bool, c int64) {
		if imm || z == 6 {
			w.sym(operandSym, 8, c)
		} else {
			w.sym(sym(r8names[z]), 8, c)
		}
	}
	// ---- 8-bit ALU: ADD ADC SUB SBC (A, r / (HL) / d8)
	for y := 0; y < 4; y++ {
		for z := 0; z < 9; z++ {
			op := 0x80 | y<<3 | z
			imm := z == 8
			if imm {
				op = 0xC6 | y<<3
			}
			row := m.Base[op]
			if row == nil || !row.FetchOK {
				r.Fail("unresolved", "F-alu", fmt.Sprintf("opcode 0x%02X", op), "", "row not found")
				continue
			}
			post, _, ok := c.runRow(m, row, nil, operand())
			if !ok {
				r.Fail("undecided", "F-alu", fmt.Sprintf("opcode 0x%02X", op), where(row), "row has no post-state")
				continue
			}
			sign := int64(1)
			if y >= 2 {
				sign = -1
			}
			name := []string{"A + operand", "A + operand + carry", "A - operand", "A - operand - carry"}[y]
			w := newWant(name).sym(sym("a"), 8, 1)
			addOperand(w, z%8, imm, sign)
			if y == 1 || y == 3 {
				w.bit(fs, 4, sign)
			}
			ob(op, "result in A", c.cellInt(post, m.CPU, ".a"), 8, w)
		}
	}
	// ---- AND XOR OR: bit i of the result is that function of bit i of A and bit i of the operand
	for y := 4; y < 7; y++ {
		opn := []string{"and", "xor", "or"}[y-4]
		for z := 0; z < 9; z++ {
			op := 0x80 | y<<3 | z
			imm := z == 8
			if imm {
				op = 0xC6 | y<<3
			}
			row := m.Base[op]
			if row == nil || !row.FetchOK {
				r.Fail("unresolved", "F-alu", fmt.Sprintf("opcode 0x%02X", op), "", "row not found")
				continue
			}
			post, _, ok := c.runRow(m, row, nil, operand())
			got := c.cellInt(post, m.CPU, ".a")
			osym := operandSym
			if !imm && z != 6 {
				osym = sym(r8names[z])
			}
			good := ok && got != nil
			var bad []string
			for i := 0; i < 8 && good; i++ {
				want := ai.BitOp2(opn, srcBit(sym("a"), i), srcBit(osym, i))
				if got.Bits[i] != want {
					bad = append(bad, fmt.Sprintf("bit %d is %s, documented %s", i, got.Bits[i].String(), want.String()))
				}
			}
			r.Ob("F-alu", good && len(bad) == 0, fmt.Sprintf("opcode 0x%02X result in A, bit by bit (%s)", op, opn), where(row), fmt.Sprintf("%v", bad))
		}
	}
	// ---- INC r / DEC r (registers; (HL) through the written byte)
	for y := 0; y < 8; y++ {
		for d := 0; d < 2; d++ {
			op := y<<3 | 4 | d
			row := m.Base[op]
			if row == nil || !row.FetchOK {
				continue
			}
			delta := int64(1 - 2*d)
			reg, mem := regOf(y)
			post, calls, ok := c.runRow(m, row, nil, operand())
			if !ok {
				r.Fail("undecided", "F-alu", fmt.Sprintf("opcode 0x%02X", op), where(row), "row has no post-state")
				continue
			}
			if mem {
				var wr *ai.Int
				for _, mc := range calls {
					if mc.Write {
						wr = mc.Val
					}
				}
				ob(op, "byte written to (HL)", wr, 8, newWant(fmt.Sprintf("(HL) %+d", delta)).sym(operandSym, 8, 1).add(delta))
			} else {
				ob(op, "result in "+reg, c.cellInt(post, m.CPU, "."+reg), 8, newWant(fmt.Sprintf("%s %+d", reg, delta)).sym(sym(reg), 8, 1).add(delta))
			}
		}
	}
	// ---- INC rr / DEC rr
	pairs := [][2]string{{"b", "c"}, {"d", "e"}, {"h", "l"}}
	for p, pr := range pairs {
		for d := 0; d < 2; d++ {
			op := p<<4 | 0x03 | d<<3
			row := m.Base[op]
			if row == nil || !row.FetchOK {
				continue
			}
			delta := int64(1 - 2*d)
			hi, lo := pr[0], pr[1]
			post, _, ok := c.runRow(m, row, nil, nil)
			if ok {
				ob(op, "low byte "+lo, c.cellInt(post, m.CPU, "."+lo), 8, newWant(fmt.Sprintf("%s %+d", lo, delta)).sym(sym(lo), 8, 1).add(delta))
			}
			// the high byte moves exactly when the low byte wraps
			edge := int64(0xFF)
			restLo, restHi := int64(0), int64(0xFE)
			if d == 1 {
				edge, restLo, restHi = 0, 1, 0xFF
			}
			post, _, ok = c.runRow(m, row, func(st *ai.State) { st.SetCell(m.CPU, "."+lo, ai.NewConstInt(8, false, edge)) }, nil)
			if ok {
				ob(op, fmt.Sprintf("high byte %s when %s = %02X", hi, lo, edge), c.cellInt(post, m.CPU, "."+hi), 8, newWant(fmt.Sprintf("%s %+d", hi, delta)).sym(sym(hi), 8, 1).add(delta))
			}
			post, _, ok = c.runRow(m, row, func(st *ai.State) {
				st.SetCell(m.CPU, "."+lo, ai.NarrowInt(c.cellInt(st, m.CPU, "."+lo), restLo, restHi))
			}, nil)
			if ok {
				ob(op, fmt.Sprintf("high byte %s when %s in %02X-%02X", hi, lo, restLo, restHi), c.cellInt(post, m.CPU, "."+hi), 8, newWant(hi+" unchanged").sym(sym(hi), 8, 1))
			}
		}
	}
	for d := 0; d < 2; d++ {
		op := 0x33 | d<<3
		if row := m.Base[op]; row != nil && row.FetchOK {
			delta := int64(1 - 2*d)
			if post, _, ok := c.runRow(m, row, nil, nil); ok {
				ob(op, "SP", c.cellInt(post, m.CPU, ".sp"), 16, newWant(fmt.Sprintf("SP %+d", delta)).sym(sym("sp"), 16, 1).add(delta))
			}
		}
	}
	// ---- ADD HL,rr: low byte for all values; high byte with L = 00 (no carry out of the low byte)
	for p := 0; p < 4; p++ {
		op := p<<4 | 0x09
		row := m.Base[op]
		if row == nil || !row.FetchOK {
			continue
		}
		wl := newWant("L + low byte of the operand").sym(sym("l"), 8, 1)
		wh := newWant("H + high byte of the operand (L = 00)").sym(sym("h"), 8, 1)
		switch p {
		case 0, 1:
			wl.sym(sym(pairs[p][1]), 8, 1)
			wh.sym(sym(pairs[p][0]), 8, 1)
		case 2:
			wl.sym(sym("l"), 8, 1)
			wh.sym(sym("h"), 8, 1)
		case 3:
			wl.symBits(sym("sp"), 0, 8, 1)
			wh.symBits(sym("sp"), 8, 16, 1)
		}
		if post, _, ok := c.runRow(m, row, nil, nil); ok {
			ob(op, "low byte L", c.cellInt(post, m.CPU, ".l"), 8, wl)
		}
		if post, _, ok := c.runRow(m, row, func(st *ai.State) { st.SetCell(m.CPU, ".l", ai.NewConstInt(8, false, 0)) }, nil); ok {
			ob(op, "high byte H when L = 00", c.cellInt(post, m.CPU, ".h"), 8, wh)
		}
	}
	// ---- relative jumps and SP-relative arithmetic, by operand class (the sign extension is linear on each)
	type eclass struct {
		lo, hi int64
		bias   int64
	}
	classes := []eclass{{0x00, 0x7F, 0}, {0x80, 0x80, -256}, {0x81, 0xFF, -256}}
	eOf := func(cl eclass) *ai.Int {
		if cl.lo == cl.hi {
			return ai.NewConstInt(8, false, cl.lo)
		}
		return ai.NarrowInt(operand(), cl.lo, cl.hi)
	}
	eTerm := func(w *linWant, cl eclass) *linWant {
		if cl.lo == cl.hi {
			return w.add(cl.lo + cl.bias)
		}
		return w.sym(operandSym, 8, 1).add(cl.bias)
	}
	for _, jr := range []struct {
		op   int
		bit  int
		want bool
	}{{0x18, -1, false}, {0x20, 7, false}, {0x28, 7, true}, {0x30, 4, false}, {0x38, 4, true}} {
		row := m.Base[jr.op]
		if row == nil || !row.FetchOK {
			continue
		}
		for _, cl := range classes {
			post, _, ok := c.runRow(m, row, func(st *ai.State) {
				if jr.bit >= 0 {
					st.SetCell(m.CPU, ".f", ai.WithBit(c.cellInt(st, m.CPU, ".f"), jr.bit, jr.want))
				}
			}, eOf(cl))
			if !ok {
				r.Fail("undecided", "F-alu", fmt.Sprintf("opcode 0x%02X", jr.op), where(row), "row has no post-state")
				continue
			}
			// pc at the start of the row is the address after the opcode; the operand fetch adds one
			w := eTerm(newWant("PC + 1 + sign-extended operand (taken)").sym(sym("pc"), 16, 1).add(1), cl)
			ob(jr.op, fmt.Sprintf("PC for operand %02X-%02X", cl.lo, cl.hi), c.cellInt(post, m.CPU, ".pc"), 16, w)
		}
	}
	for _, cl := range classes {
		if row := m.Base[0xE8]; row != nil && row.FetchOK {
			if post, _, ok := c.runRow(m, row, nil, eOf(cl)); ok {
				ob(0xE8, fmt.Sprintf("SP for operand %02X-%02X", cl.lo, cl.hi), c.cellInt(post, m.CPU, ".sp"), 16, eTerm(newWant("SP + sign-extended operand").sym(sym("sp"), 16, 1), cl))
			}
		}
		if row := m.Base[0xF8]; row != nil && row.FetchOK {
			if post, _, ok := c.runRow(m, row, nil, eOf(cl)); ok {
				ob(0xF8, fmt.Sprintf("L for operand %02X-%02X", cl.lo, cl.hi), c.cellInt(post, m.CPU, ".l"), 8, eTerm(newWant("low byte of SP + operand").symBits(sym("sp"), 0, 8, 1), cl))
			}
		}
	}
}

// checkDAA decides DAA as a decision table: N, H, C constant, the low nibble of A constant, the high
// nibble symbolic within one of three classes (0-8, 9, A-F: the documented conditions "A > 99" and
// "low nibble > 9" are constant on each).  The adjusted A must be 16*hi + lo + adjustment (mod 256) as a
// linear form in the symbolic high nibble, the carry as documented, H clear, N unchanged.
func (c *Ctx) checkDAA(r *report.Result, m *Machine) {
	it := c.W.It
	row := m.Base[0x27]
	if row == nil || !row.FetchOK {
		r.Fail("unresolved", "F-daa", "opcode 0x27", "", "row not found")
		return
	}
	where := ""
	if f, ok := row.Subs[len(row.Subs)-1].(*ai.Func); ok {
		where = firstPos(c, f.Fn)
	}
	hiSym := it.NewSym("A.high-nibble", ai.CellKey{})
	var bad []string
	n := 0
	for flags := 0; flags < 8; flags++ {
		N, H, C := flags&4 != 0, flags&2 != 0, flags&1 != 0
		for lo := int64(0); lo < 16; lo++ {
			for _, hc := range [][2]int64{{0, 8}, {9, 9}, {10, 15}} {
				n++
				above99 := hc[0] > 9 || (hc[0] == 9 && lo > 9)
				adj, carry := int64(0), C
				if !N {
					if H || lo > 9 {
						adj += 6
					}
					if C || above99 {
						adj += 0x60
						carry = true
					}
				} else {
					if H {
						adj -= 6
					}
					if C {
						adj -= 0x60
					}
				}
				post, _, ok := c.runRow(m, row, func(st *ai.State) {
					var a *ai.Int
					if hc[0] == hc[1] {
						a = ai.NewConstInt(8, false, hc[0]<<4|lo)
					} else {
						hi := ai.NarrowInt(ai.NewSymInt(8, false, hiSym), hc[0], hc[1])
						sh, _ := ai.BinInt(token.SHL, hi, ai.NewConstInt(8, false, 4))
						a, _ = ai.BinInt(token.ADD, sh, ai.NewConstInt(8, false, lo))
					}
					st.SetCell(m.CPU, ".a", a)
					f := c.cellInt(st, m.CPU, ".f")
					f = ai.WithBit(ai.WithBit(ai.WithBit(f, 6, N), 5, H), 4, C)
					st.SetCell(m.CPU, ".f", f)
				}, nil)
				name := fmt.Sprintf("N=%v H=%v C=%v A=%X-%X|%X", b2i(N), b2i(H), b2i(C), hc[0], hc[1], lo)
				if !ok {
					bad = append(bad, name+": no post-state")
					continue
				}
				got := c.cellInt(post, m.CPU, ".a")
				fv := c.cellInt(post, m.CPU, ".f")
				var okA bool
				if hc[0] == hc[1] {
					cv, isc := constOf(got)
					okA = isc && cv == ((hc[0]<<4|lo)+adj)&0xFF
				} else {
					okA = got != nil && ai.LinEqual(got, 8, newWant("").sym(hiSym, 8, 16).coef, lo+adj)
				}
				okF := fv != nil && fv.Bits[4].K == constBit(carry) && fv.Bits[5].K == ai.BZero && fv.Bits[6].K == constBit(N)
				// Z where the documented result is zero for every / for no high nibble of the class
				zeros, nonzeros := 0, 0
				for hi := hc[0]; hi <= hc[1]; hi++ {
					if ((hi<<4|lo)+adj)&0xFF == 0 {
						zeros++
					} else {
						nonzeros++
					}
				}
				okZ := true
				if fv != nil && zeros == 0 {
					okZ = fv.Bits[7].K == ai.BZero
				} else if fv != nil && nonzeros == 0 {
					okZ = fv.Bits[7].K == ai.BOne
				}
				if !(okA && okF && okZ) && len(bad) < 6 {
					bad = append(bad, fmt.Sprintf("%s: A' = %s (documented A%+d mod 256), F' = %s (documented C=%d H=0 N=%d)", name, ai.LinString(it, got), adj, ai.ValueString(fv), b2i(carry), b2i(N)))
				} else if !(okA && okF && okZ) {
					bad = append(bad, name)
				}
			}
		}
	}
	detail := ""
	if len(bad) > 6 {
		detail = fmt.Sprintf("%v ... %d cases in all", bad[:6], len(bad))
	} else {
		detail = fmt.Sprint(bad)
	}
	r.Ob("F-daa", len(bad) == 0 && n == 384, "DAA decision table (N x H x C x low nibble x high-nibble class: 384 cases)", where, detail)
	r.Instances["F-daa"] += n
}

func b2i(b bool) int {
	if b {
		return 1
	}
	return 0
}

func constBit(b bool) uint8 {
	if b {
		return ai.BOne
	}
	return ai.BZero
}
