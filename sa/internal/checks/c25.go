package checks

import (
	"fmt"
	"sort"
	"strings"

	"golang.org/x/tools/go/ssa"

	"verif/sa/internal/ai"
	"verif/sa/internal/report"
	"verif/sa/internal/world"
)

func init() {
	register("C25", checkC25)
}

// sharedWrite describes one store into state that outlives an instance.
type sharedWrite struct {
	Obj   *ai.Object
	Fn    *ssa.Function
	At    ssa.Instruction
	Phase string // "construction" | "run"
	Entry string
	Via   string // the library routine the pointer was handed to, for writes that are not plain stores
}

// externOnlyReads: library routines that do not write through the pointers they are given.
func externOnlyReads(name string) bool {
	for _, p := range []string{"fmt.Print", "fmt.Sprint", "fmt.Fprint", "fmt.Errorf", "log.Print", "log.Fatal", "log.Panic"} {
		if strings.HasPrefix(name, p) {
			return true
		}
	}
	return false
}

// findSharedWrites evaluates New and every run-phase entry and reports every
// store whose target object was created by package initialisation (package-level
// variables and the memory they point to): that state is shared by all instances.
func findSharedWrites(c *Ctx) (writes, unresolved []sharedWrite, stores int) {
	it := c.W.It
	limit := c.W.NObjPkgInit
	phase := "construction"
	entry := "gameboy.New"
	hook := func(_ *ai.State, at ssa.Instruction, p *ai.Ptr, keys []ai.CellKey, _ ai.Value, _ bool) {
		stores++
		if p == nil && storesIntoHostBuffer(c, at) {
			return // the buffer a host library passed to its callback (audio output): host memory, not emulator state
		}
		if p == nil {
			// a store whose target the interpreter cannot resolve may hit shared memory: fail closed
			unresolved = append(unresolved, sharedWrite{Fn: outerFn(at.Parent()), At: at, Phase: phase, Entry: entry})
			return
		}
		// (opaque objects summarise values whose contents are not modelled; a map update on one is still a write
		// into that very map)
		if p.Obj.ID <= limit && (p.Obj.Mode != ai.ModeOpaque || strings.HasSuffix(p.Path, "{*}")) {
			writes = append(writes, sharedWrite{Obj: p.Obj, Fn: outerFn(at.Parent()), At: at, Phase: phase, Entry: entry})
		}
	}
	// a library routine handed a pointer into init-time memory may write through it (an image's SetRGBA, a
	// buffer's Write ...): that is a store the interpreter does not see as one.  Reading routines are listed.
	var sharedOf func(v ai.Value, out *[]*ai.Object)
	sharedOf = func(v ai.Value, out *[]*ai.Object) {
		switch x := v.(type) {
		case *ai.Ptr:
			if x.Obj != nil && x.Obj.ID <= limit {
				*out = append(*out, x.Obj)
			}
		case *ai.Slice:
			if x.Obj != nil && x.Obj.ID <= limit {
				*out = append(*out, x.Obj)
			}
		case *ai.Multi:
			for _, a := range x.Alts {
				sharedOf(a, out)
			}
		}
	}
	extern := func(_ *ai.State, at ssa.Instruction, name string, args []ai.Value) {
		if externOnlyReads(name) {
			return
		}
		var objs []*ai.Object
		for _, a := range args {
			sharedOf(a, &objs)
		}
		for _, o := range objs {
			stores++
			writes = append(writes, sharedWrite{Obj: o, Fn: outerFn(at.Parent()), At: at, Phase: phase, Entry: entry, Via: name})
		}
	}
	it.Hooks = ai.Hooks{Store: hook, Extern: extern}
	st := it.StateOn(c.W.PkgInitHeap)
	it.CallFunction(st, c.W.NewFn, []ai.Value{c.W.Config}, nil)
	it.Hooks = ai.Hooks{}
	phase = "run"
	c.evalAllEntries(ai.Hooks{Store: hook, Extern: extern}, nil)
	// entry attribution is not needed for identity
	return writes, unresolved, stores
}

func repoGlobals(c *Ctx) []*ssa.Global {
	var out []*ssa.Global
	for _, sp := range c.P.SSAPkgs {
		for _, m := range sp.Members {
			if g, ok := m.(*ssa.Global); ok && !strings.HasPrefix(g.Name(), "init$") {
				out = append(out, g)
			}
		}
	}
	sort.Slice(out, func(i, j int) bool { return out[i].String() < out[j].String() })
	return out
}

func checkC25(c *Ctx) *report.Result {
	r := report.New("C25", "other", "ownership (who-may-write) analysis over the resolved program: abstract evaluation of New and of every run-phase entry, reporting stores into package-level state")
	r.Explanation = "Every store executed by gameboy.New and by every run-phase entry (frame-loop steps, every closure in the dispatch tables, host callbacks, the memory decoder) is resolved to its abstract target object by the interpreter; a target created during package initialisation (a package-level variable or memory reachable only from one) is state shared by all instances in the process. Instance state itself is allocated by New on every call (singleton objects per instance in the abstract heap), so the absence of such stores decides independence modulo host libraries and a caller-supplied serial writer."
	r.Rule("G1", "inventory: every package-level variable of the repository is classified (immutable after package init / written later)")
	r.Rule("G2", "no store executed by New or by a run-phase entry targets memory created by package initialisation")
	r.NotDecided = []string{"behaviour of host libraries (GL, audio) shared by instances", "a serial writer shared by the caller between two configurations"}
	r.TrustedBase = []string{"go/types, go/ssa (x/tools v0.29.0)", "the abstract interpreter's pointer resolution (allocation-site objects)", "API stubs for glfw/gl/portaudio"}

	globals := repoGlobals(c)
	writes, unresolved, stores := findSharedWrites(c)
	seenU := map[string]bool{}
	for _, u := range unresolved {
		key := fnName(u.Fn)
		if seenU[key] {
			continue
		}
		seenU[key] = true
		r.Fail("undecided", "G2", "store through an unresolved pointer in "+key, c.pos(u.At), "the target of this store (executed during "+u.Phase+") cannot be resolved to an allocation site, so it may be memory shared between instances (for example a value taken out of a package-level map or interface)")
	}
	r.Extra["stores_examined"] = stores
	written := map[string][]sharedWrite{}
	for _, w := range writes {
		name := globalName(w.Obj)
		if name == "" {
			name = "init-time memory " + w.Obj.Name
		}
		written[name] = append(written[name], w)
	}
	for _, g := range globals {
		name := g.Pkg.Pkg.Name() + "." + g.Name()
		ws := written[name]
		r.Obligations++
		r.Instances["G1"]++
		if len(ws) == 0 {
			r.Discharged++
			r.Sample(map[string]interface{}{"variable": name, "class": "not written after package initialisation"})
		}
	}
	// one finding per (variable, writing function)
	seen := map[string]bool{}
	names := make([]string, 0, len(written))
	for n := range written {
		names = append(names, n)
	}
	sort.Strings(names)
	for _, n := range names {
		for _, w := range written[n] {
			key := n + " <- " + fnName(w.Fn)
			if seen[key] {
				continue
			}
			seen[key] = true
			r.Instances["G2"]++
			r.Findings = append(r.Findings, report.Finding{Property: "C25", Rule: "G2", Kind: "violation",
				Construct: fmt.Sprintf("package-level state %s written by %s", n, fnName(w.Fn)),
				Where:     c.pos(w.At),
				Detail:    fmt.Sprintf("store during %s writes %s, which is created once per process and shared by every emulator instance; a second instance observes or overwrites it", w.Phase, n)})
		}
	}
	r.Instances["G2"] += stores
	r.Obligations++
	if len(writes) == 0 {
		r.Discharged++
	}
	return r
}

var _ = world.IsRepo

// storesIntoHostBuffer: the store's address is an element of a slice/pointer parameter of a
// function that the constructor handed to a host library as a callback.
func storesIntoHostBuffer(c *Ctx, at ssa.Instruction) bool {
	st, ok := at.(*ssa.Store)
	if !ok {
		return false
	}
	v := st.Addr
	for i := 0; i < 8; i++ {
		switch x := v.(type) {
		case *ssa.IndexAddr:
			v = x.X
			continue
		case *ssa.FieldAddr:
			v = x.X
			continue
		case *ssa.Parameter:
			fn := x.Parent()
			for _, e := range c.W.Entries {
				if e.Kind == "host-callback" && unwrapBound(e.Fn) == fn {
					return true
				}
			}
			return false
		}
		break
	}
	return false
}
