package checks

import (
	"fmt"
	"go/types"
	"sort"
	"strings"

	"golang.org/x/tools/go/ssa"

	"verif/sa/internal/ai"
	"verif/sa/internal/oracle"
	"verif/sa/internal/report"
)

func init() {
	register("C01", checkC01)
}

// non-architectural CPU state that rows may touch, each with its reason
var c01Ignore = map[string]string{
	"mooneyeDebugBreakpoint": "debug flag set by the test-ROM breakpoint opcode LD B,B; not architectural state",
}

func canonDep(d string) string {
	switch {
	case strings.HasPrefix(d, "mem@"):
		return d // resolved by caller into mem / imm
	case d == "interrupts.ime":
		return "ime"
	}
	return d
}

func checkC01(c *Ctx) *report.Result {
	r := report.New("C01", "other", "per-opcode abstract evaluation of the dispatch rows (write frame, dependence sets, flag classes, bit-exact results where the known-bits domain is exact) against the documented SM83 table; inductive known-bits invariant for F")
	r.Explanation = "Each of the 512 rows (as installed by the fetch routine for its opcode byte) is evaluated entry by entry from the generic machine state with the memory decoder cut. From the post-state the check derives (1) the write frame: exactly the documented registers, flags, scratch bytes and (for the documented opcodes) OAM-bug bookkeeping change; (2) operand binding: every output depends on each documented input and on nothing outside the instruction's documented inputs; (3) flag discipline: each of Z N H C is untouched / constant 0 / constant 1 / computed exactly as documented; (4) bit-exact results for the instructions whose effect the known-bits domain represents exactly (all loads, CPL, SWAP, every rotate and shift with its carry-out, RES/SET, BIT's Z flag, SCF/CCF, PUSH/POP data, RST vectors, JP/CALL targets); (5) F's low nibble is zero in every reachable state (inferred inductive invariant, with every store to F checked); (6) exhaustiveness: every row entry is a resolved function and exactly the 11 undefined opcodes stop the process."
	r.Rule("F-frame", "W(row) restricted to architectural state == documented outputs (registers, sp, pc, ime, halted/haltbug/stopped); OAM-bug bookkeeping only where documented; scratch bytes free")
	r.Rule("F-deps", "each documented output depends on every documented input; no output depends on a register outside the instruction's documented inputs")
	r.Rule("F-flags", "per flag: untouched / 0 / 1 / computed class equals the documented class")
	r.Rule("F-exact", "bit-exact result for loads, CPL, SWAP, rotates/shifts (+carry out), RES/SET, BIT, SCF/CCF, PUSH/POP, RST/JP/CALL targets")
	r.Rule("F-nibble", "every store to F has known-zero low nibble assuming the invariant; the inferred invariant of F has bits 0-3 zero")
	r.Rule("F-exh", "every row entry resolves to a function; process exit exactly in the rows of the 11 undefined opcodes")
	r.NotDecided = []string{"values of computed results and flags of ADD/ADC/SUB/SBC/CP/INC/DEC/DAA/ADD HL/ADD SP (arithmetic over values)", "AND/OR/XOR result values", "the byte stored in memory by the decoder (C06/C07)"}
	r.TrustedBase = []string{"documented SM83 table (oracle.Base/CB)", "go/ssa, abstract interpreter", "lemma S2 of C02 (the row evaluated is the row dispatched)"}
	m := c.machine()
	for _, e := range m.Errors {
		r.Fail("unresolved", "anchors", "machine", "", e)
	}
	if len(m.Errors) > 0 {
		return r
	}
	// the instruction's effect includes which condition a conditional opcode tests and which
	// memory cell it accesses: those clauses are decided by the rule sets of C02 / C03, evaluated here
	r.Rule("F-cond", "conditional opcodes test their documented condition (rule L-cond of C02, evaluated on this tree)")
	r.Rule("F-mem", "data accesses go to the documented address class with the documented byte order and read-modify-write data flow (rules M-sched, M-order, M-rmw of C03, evaluated on this tree)")
	r.Rule("F-alu", "arithmetic results as linear forms over the input registers, for all values at once: ADD/ADC/SUB/SBC A,x = A +- x +- carry (mod 256) for all nine operand forms; INC/DEC r and (HL); INC/DEC rr incl. the carry into the high byte; ADD HL,rr low byte and (with L=00) high byte; JR e / JR cc,e target PC+1+sext(e) for e in 00-7F, 80, 81-FF; ADD SP,e; LD HL,SP+e low byte")
	c.checkALU(r, m)
	r.Rule("F-daa", "DAA: for every N, H, C, low nibble of A and high-nibble class (0-8, 9, A-F) the adjusted A is A + adjustment (mod 256) as a linear form in the high nibble, with the documented adjustment (06 / 60 / 66 / -06 / -60 / -66 / 0), carry, H = 0, N unchanged, and Z where it is determined")
	c.checkDAA(r, m)
	adopt(r, c.sibling("C02"), map[string]string{"L-cond": "F-cond", "S5": "F-cond"}, "an instruction that tests the wrong flag has the wrong effect on PC/SP/memory for some flag state")
	adopt(r, c.sibling("C03"), map[string]string{"M-sched": "F-mem", "M-order": "F-mem", "M-rmw": "F-mem"}, "an access to the wrong address or with swapped bytes changes the wrong memory cell")
	r.Rule("F-carry", "half-carry and carry/borrow at their thresholds (constants and intervals on both sides) for ADD/ADC/SUB/SBC/CP A,r, INC/DEC r, ADD HL,rr, ADD SP,e and LD HL,SP+e")
	c.checkCarry(r, m)
	it := c.W.It
	arch := map[string]bool{"a": true, "b": true, "c": true, "d": true, "e": true, "h": true, "l": true, "sp": true, "pc": true, "ime": true, "halted": true, "haltbug": true, "stopped": true}
	// scratch bytes: the uint8 cells the fetch routine zeroes at every fetch
	scratch := c.scratchCells(m)
	latches := c.imeLatches(m)
	r.Extra["ime_latches"] = sortedKeys(latches)
	r.Extra["scratch_cells"] = sortedKeys(scratch)
	base, cb := oracle.Base(), oracle.CB()
	exits := 0
	for page := 0; page < 2; page++ {
		for k := 0; k < 256; k++ {
			doc, row := base[k], m.Base[k]
			name := fmt.Sprintf("opcode 0x%02X", k)
			if page == 1 {
				doc, row = cb[k], m.CB[k]
				name = fmt.Sprintf("opcode CB 0x%02X", k)
			}
			if row == nil || (page == 0 && k == 0xcb) {
				continue
			}
			name += " (" + doc.Mnemonic + ")"
			where := ""
			if row.Slice != nil {
				if s, ok := row.Slice.Obj.Site.(ssa.Instruction); ok {
					where = c.pos(s)
				}
			}
			// exhaustiveness
			resolved := row.FetchOK && len(row.Subs) > 0
			for _, s := range row.Subs {
				if _, ok := s.(*ai.Func); !ok {
					resolved = false
				}
			}
			r.Ob("F-exh", resolved, name+" row resolved", where, fmt.Sprintf("row entries: %v; undecided: %v", row.SubNames, row.Undecided))
			if !resolved {
				continue
			}
			if row.Exits {
				exits++
			}
			r.Ob("F-exh", row.Exits == doc.Undefined, name+" process exit", where, fmt.Sprintf("row reaches a process exit: %v; documented undefined opcode: %v", row.Exits, doc.Undefined))
			if doc.Undefined {
				continue
			}
			if len(row.Undecided) > 0 {
				r.Fail("undecided", "F-frame", name, where, fmt.Sprintf("%v", row.Undecided))
				continue
			}
			// ---- frame
			want := map[string]bool{}
			for _, o := range doc.Out {
				want[o] = true
			}
			got := map[string]bool{}
			var extra []string
			for cell := range row.Written {
				n := cell
				if n == "interrupts.ime" || latches[n] {
					n = "ime" // the master enable and the latch that delays EI are one piece of state here (C04 owns the delay)
				}
				switch {
				case n == "f":
				case arch[n]:
					got[n] = true
				case scratch[n]:
				case strings.HasPrefix(n, "oam."):
					if !doc.OAMBug {
						extra = append(extra, n)
					}
				case c01Ignore[n] != "":
				default:
					extra = append(extra, n)
				}
			}
			var missing, surplus []string
			for o := range want {
				if !got[o] {
					missing = append(missing, o)
				}
			}
			for o := range got {
				if !want[o] {
					surplus = append(surplus, o)
				}
			}
			if !doc.Prefixed && k>>6 == 2 && k&7 == 7 {
				missing = nil // A op A may leave A unchanged (AND A,A / OR A,A)
			}
			sort.Strings(missing)
			sort.Strings(surplus)
			sort.Strings(extra)
			r.Ob("F-frame", len(missing) == 0 && len(surplus) == 0 && len(extra) == 0, name+" write frame", where,
				fmt.Sprintf("row %v: documented outputs never written %v; state written but not documented %v; other state touched %v", row.SubNames, missing, surplus, extra))
			// ---- flags
			fl := row.FlagClass
			if _, wrote := row.Written["f"]; !wrote {
				fl = [4]byte{'-', '-', '-', '-'}
			}
			flagsOK := fl == doc.Flags
			sameOperand := !doc.Prefixed && k>>6 == 2 && k&7 == 7
			if sameOperand {
				// A op A: a documented computed flag may legitimately fold to a constant
				flagsOK = true
				for i := range fl {
					if fl[i] != doc.Flags[i] && !(doc.Flags[i] == '*' && (fl[i] == '0' || fl[i] == '1')) {
						flagsOK = false
					}
				}
			}
			r.Ob("F-flags", flagsOK, name+" flags", where, fmt.Sprintf("flag effects Z N H C = %s, documented %s", string(fl[:]), string(doc.Flags[:])))
			// ---- deps
			if !sameOperand {
				c.checkDeps(r, m, doc, row, name, where)
			}
			// ---- bit-exact
			c.checkExact(r, m, doc, row, name, where)
			if k%41 == 0 {
				var wr []string
				for n := range row.Written {
					wr = append(wr, n+"<-"+strings.Join(row.Deps[n], ","))
				}
				sort.Strings(wr)
				r.Sample(map[string]interface{}{"opcode": name, "row": row.SubNames, "writes": wr, "flags": string(fl[:]), "documented_flags": string(doc.Flags[:]), "documented_outputs": doc.Out})
			}
		}
	}
	// the unreachable base row of the prefix byte must stop as well (never dispatched)
	r.Ob("F-exh", exits == 11, "rows that stop the process", "", fmt.Sprintf("%d dispatchable rows reach a process exit, documented 11 undefined opcodes", exits))
	c.checkFNibble(r, m)
	_ = it
	r.Rule("F-bus", "what a load reads and a store writes: plain memory, mirrors, void regions and register read-back as decided by C06 (A-plain, A-mirror, A-void, B-readback, B-ones re-stated) - an instruction's effect is defined over the memory the decoder presents")
	adopt(r, c.sibling("C06"), map[string]string{"A-plain": "F-bus", "A-mirror": "F-bus", "A-void": "F-bus", "B-readback": "F-bus", "B-ones": "F-bus"}, "a load that does not return the byte last stored at that address gives the instruction the wrong operand")
	return r
}

// scratchCells: CPU byte cells the fetch routine resets to zero at every fetch.
func (c *Ctx) scratchCells(m *Machine) map[string]bool {
	if m.Scratch == nil {
		return map[string]bool{}
	}
	return m.Scratch
}

// resolveDeps maps raw dependence names of a row to architectural input names.
func resolveDeps(row *Row, deps []string) map[string]bool {
	out := map[string]bool{}
	for _, d := range deps {
		switch {
		case strings.HasPrefix(d, "mem@"):
			var cyc int
			fmt.Sscanf(d, "mem@%d", &cyc)
			if row.ImmCycles[cyc] {
				out["imm"] = true
			} else {
				out["mem"] = true
			}
		case d == "interrupts.ime":
			out["ime"] = true
		default:
			out[d] = true
		}
	}
	return out
}

func (c *Ctx) checkDeps(r *report.Result, m *Machine, doc oracle.Op, row *Row, name, where string) {
	regs := map[string]bool{"a": true, "b": true, "c": true, "d": true, "e": true, "h": true, "l": true, "sp": true, "pc": true, "f": true, "mem": true, "imm": true}
	all := map[string]bool{}
	norm := func(in string) string {
		if strings.HasPrefix(in, "f") && len(in) == 2 {
			return "f"
		}
		return in
	}
	for _, ins := range doc.In {
		for _, in := range ins {
			all[norm(in)] = true
		}
	}
	// the flag register is read-modify-written by the flag helpers
	outputs := []string{}
	for o := range doc.In {
		outputs = append(outputs, o)
	}
	sort.Strings(outputs)
	for _, o := range outputs {
		var actual map[string]bool
		switch o {
		case "mem":
			actual = map[string]bool{}
			for _, a := range row.Acc {
				if a.Kind == 'W' && a.Class != "PC" {
					for d := range resolveDeps(row, a.ValDeps) {
						actual[d] = true
					}
				}
			}
		default:
			v, ok := row.Written[o]
			if !ok {
				continue // the frame rule reports missing outputs
			}
			_ = v
			actual = resolveDeps(row, row.Deps[o])
		}
		var missing, foreign []string
		for _, in := range doc.In[o] {
			if !actual[norm(in)] {
				missing = append(missing, in)
			}
		}
		for a := range actual {
			if regs[a] && !all[a] && !(o == "f" && a == "f") {
				foreign = append(foreign, a)
			}
		}
		sort.Strings(missing)
		sort.Strings(foreign)
		r.Ob("F-deps", len(missing) == 0 && len(foreign) == 0, name+" inputs of "+o, where,
			fmt.Sprintf("new %s depends on %v; documented inputs %v (missing %v, undocumented %v)", o, sortedKeys(actual), doc.In[o], missing, foreign))
	}
}

// bits returns the bit vector of a cell's post value.
func postInt(row *Row, cell string) *ai.Int {
	v, _ := row.Written[cell].(*ai.Int)
	return v
}

func (c *Ctx) symOf(m *Machine, cell string) ai.Sym {
	s, _ := c.W.It.CellSym(m.CPU, "."+cell)
	return s
}

// srcBits builds the expected bit vector "bit i = bit perm[i] of cell (negated if neg)".
func srcBit(s ai.Sym, j int) ai.Bit { return ai.Bit{K: ai.BSrc, S: s, J: uint8(j)} }

func bitsEqual(a []ai.Bit, b []ai.Bit) bool {
	if len(a) != len(b) {
		return false
	}
	for i := range a {
		if a[i] != b[i] {
			return false
		}
	}
	return true
}

func bitsString(b []ai.Bit) string {
	var parts []string
	for i := len(b) - 1; i >= 0; i-- {
		parts = append(parts, b[i].String())
	}
	return strings.Join(parts, " ")
}

var r8names = []string{"b", "c", "d", "e", "h", "l", "(hl)", "a"}

func (c *Ctx) checkExact(r *report.Result, m *Machine, doc oracle.Op, row *Row, name, where string) {
	it := c.W.It
	fs := c.symOf(m, "f")
	k := doc.Code
	x, y, z := k>>6, (k>>3)&7, k&7
	// value of an operand "before": register cell symbol bits, or the byte read from memory / operand
	memSym := func(cycle int) (ai.Sym, bool) {
		for i := ai.Sym(len(it.Syms) - 1); i > 0; i-- {
			if it.Syms[i].Name == fmt.Sprintf("mem@%d", cycle) {
				return i, true
			}
			if len(it.Syms)-int(i) > 64 {
				break
			}
		}
		return 0, false
	}
	_ = memSym
	expect := func(what string, got *ai.Int, want []ai.Bit) {
		ok := got != nil && bitsEqual(got.Bits, want)
		gs := "<not written>"
		if got != nil {
			gs = bitsString(got.Bits)
		}
		r.Ob("F-exact", ok, name+" "+what, where, fmt.Sprintf("%s bits (msb first) are [%s], documented [%s]", what, gs, bitsString(want)))
	}
	regBits := func(cell string) []ai.Bit {
		s := c.symOf(m, cell)
		out := make([]ai.Bit, 8)
		for i := range out {
			out[i] = srcBit(s, i)
		}
		return out
	}
	flagBit := func(i int) ai.Bit {
		if fv := postInt(row, "f"); fv != nil {
			return fv.Bits[i]
		}
		return srcBit(fs, i)
	}
	expectFlag := func(what string, bit int, want ai.Bit) {
		got := flagBit(bit)
		r.Ob("F-exact", got == want, name+" "+what, where, fmt.Sprintf("%s is %s, documented %s", what, got.String(), want.String()))
	}
	if !doc.Prefixed {
		// bytes handed to the decoder by the plain stores, in write order: each is a copy of a documented source
		{
			word := func(cell string, lo int) []ai.Bit {
				sy := c.symOf(m, cell)
				out := make([]ai.Bit, 8)
				for i := range out {
					out[i] = srcBit(sy, lo+i)
				}
				return out
			}
			immSym := it.NewSym("operand byte", ai.CellKey{})
			var wantW [][]ai.Bit
			switch {
			case k == 0x02 || k == 0x12 || k == 0x22 || k == 0x32 || k == 0xe0 || k == 0xe2 || k == 0xea:
				wantW = [][]ai.Bit{regBits("a")}
			case x == 1 && y == 6 && z != 6:
				wantW = [][]ai.Bit{regBits(r8names[z])}
			case k == 0x36:
				wantW = [][]ai.Bit{word("", -1)}
				for i := range wantW[0] {
					wantW[0][i] = srcBit(immSym, i)
				}
			case k == 0x08:
				wantW = [][]ai.Bit{word("sp", 0), word("sp", 8)}
			case x == 3 && z == 5 && y&1 == 0: // PUSH rr
				hi, lo := []string{"b", "d", "h", "a"}[y>>1], []string{"c", "e", "l", "f"}[y>>1]
				wantW = [][]ai.Bit{regBits(hi), regBits(lo)}
			case x == 3 && z == 7: // RST pushes the address of the next instruction (pc after the fetch)
				wantW = [][]ai.Bit{word("pc", 8), word("pc", 0)}
			}
			if wantW != nil {
				_, calls, ok := c.runRow(m, row, nil, ai.NewSymInt(8, false, immSym))
				var got []*ai.Int
				for _, mc := range calls {
					if mc.Write {
						got = append(got, mc.Val)
					}
				}
				good := ok && len(got) == len(wantW)
				var gs, ws []string
				for i := range wantW {
					ws = append(ws, "["+bitsString(wantW[i])+"]")
					if i < len(got) && got[i] != nil {
						gs = append(gs, "["+bitsString(got[i].Bits)+"]")
						for b := 0; b < 8; b++ {
							w, g := wantW[i][b], got[i].Bits[b]
							// (F's low nibble is 0 by invariant: PUSH AF may push it as stored or as constant 0)
							if g != w && !(k == 0xf5 && i == 1 && b < 4 && g.K == ai.BZero) {
								good = false
							}
						}
					} else {
						good = false
					}
				}
				r.Ob("F-exact", good, name+" stored bytes", where, fmt.Sprintf("bytes written (msb first, in write order) %v, documented %v", gs, ws))
			}
		}
		switch {
		case x == 1 && k != 0x76 && y != 6 && z != 6 && y != z:
			expect("register "+r8names[y], postInt(row, r8names[y]), regBits(r8names[z]))
		case k == 0x2f: // CPL
			want := regBits("a")
			for i := range want {
				want[i] = want[i].Not()
			}
			expect("register a", postInt(row, "a"), want)
		case k == 0x37: // SCF
			expectFlag("carry flag", 4, ai.Bit{K: ai.BOne})
		case k == 0x3f: // CCF
			expectFlag("carry flag", 4, srcBit(fs, 4).Not())
		case k == 0x07 || k == 0x0f || k == 0x17 || k == 0x1f:
			c.checkRotate(r, m, row, name, where, []int{0, 1, 2, 3}[(k>>3)&3], "a", true)
		case x == 3 && z == 7: // RST
			if pv := postInt(row, "pc"); pv != nil {
				cv, isc := pv.Const()
				r.Ob("F-exact", isc && cv == int64(y*8), name+" vector", where, fmt.Sprintf("pc becomes %s, documented %#04x", pv.String(), y*8))
			} else {
				r.Ob("F-exact", false, name+" vector", where, "pc not written")
			}
		case k == 0xe9: // JP HL
			want := append(regBits("l"), regBits("h")...)
			expect("pc", postInt(row, "pc"), want)
		case k == 0xf9: // LD SP,HL
			want := append(regBits("l"), regBits("h")...)
			expect("sp", postInt(row, "sp"), want)
		}
		return
	}
	reg := r8names[z]
	if z == 6 {
		// memory operand: the byte written back to (HL) as a function of the byte read, bit for bit
		if x == 1 {
			return // BIT n,(HL) writes nothing
		}
		opSym := it.NewSym("(HL)", ai.CellKey{})
		post, calls, ok := c.runRow(m, row, nil, ai.NewSymInt(8, false, opSym))
		var wr *ai.Int
		for _, mc := range calls {
			if mc.Write {
				wr = mc.Val
			}
		}
		src := make([]ai.Bit, 8)
		for i := range src {
			src[i] = srcBit(opSym, i)
		}
		cin := srcBit(fs, 4)
		want := make([]ai.Bit, 8)
		zero, one := ai.Bit{K: ai.BZero}, ai.Bit{K: ai.BOne}
		for i := 0; i < 8; i++ {
			switch {
			case x == 2:
				want[i] = src[i]
				if i == y {
					want[i] = zero
				}
			case x == 3:
				want[i] = src[i]
				if i == y {
					want[i] = one
				}
			case y == 0: // RLC
				want[i] = src[(i+7)%8]
			case y == 1: // RRC
				want[i] = src[(i+1)%8]
			case y == 2: // RL
				if i == 0 {
					want[i] = cin
				} else {
					want[i] = src[i-1]
				}
			case y == 3: // RR
				if i == 7 {
					want[i] = cin
				} else {
					want[i] = src[i+1]
				}
			case y == 4: // SLA
				if i == 0 {
					want[i] = zero
				} else {
					want[i] = src[i-1]
				}
			case y == 5: // SRA
				if i == 7 {
					want[i] = src[7]
				} else {
					want[i] = src[i+1]
				}
			case y == 6: // SWAP
				want[i] = src[(i+4)%8]
			case y == 7: // SRL
				if i == 7 {
					want[i] = zero
				} else {
					want[i] = src[i+1]
				}
			}
		}
		_ = post
		if !ok {
			wr = nil
		}
		expect("byte written to (HL)", wr, want)
		return
	}
	switch x {
	case 0:
		if y == 6 { // SWAP
			src := regBits(reg)
			want := make([]ai.Bit, 8)
			for i := 0; i < 8; i++ {
				want[i] = src[(i+4)%8]
			}
			expect("register "+reg, postInt(row, reg), want)
			return
		}
		c.checkRotate(r, m, row, name, where, y, reg, false)
	case 1: // BIT y,r : Z = !bit
		expectFlag("zero flag", 7, srcBit(c.symOf(m, reg), y).Not())
	case 2, 3:
		want := regBits(reg)
		if x == 2 {
			want[y] = ai.Bit{K: ai.BZero}
		} else {
			want[y] = ai.Bit{K: ai.BOne}
		}
		expect("register "+reg, postInt(row, reg), want)
	}
}

// checkRotate verifies RLC RRC RL RR SLA SRA SRL (kind 0..5,7) bit by bit, with the carry out.
func (c *Ctx) checkRotate(r *report.Result, m *Machine, row *Row, name, where string, kind int, reg string, accumulator bool) {
	s := c.symOf(m, reg)
	fs := c.symOf(m, "f")
	src := make([]ai.Bit, 8)
	for i := range src {
		src[i] = srcBit(s, i)
	}
	carryIn := srcBit(fs, 4)
	want := make([]ai.Bit, 8)
	var carryOut ai.Bit
	switch kind {
	case 0: // RLC
		for i := 1; i < 8; i++ {
			want[i] = src[i-1]
		}
		want[0], carryOut = src[7], src[7]
	case 1: // RRC
		for i := 0; i < 7; i++ {
			want[i] = src[i+1]
		}
		want[7], carryOut = src[0], src[0]
	case 2: // RL
		for i := 1; i < 8; i++ {
			want[i] = src[i-1]
		}
		want[0], carryOut = carryIn, src[7]
	case 3: // RR
		for i := 0; i < 7; i++ {
			want[i] = src[i+1]
		}
		want[7], carryOut = carryIn, src[0]
	case 4: // SLA
		for i := 1; i < 8; i++ {
			want[i] = src[i-1]
		}
		want[0], carryOut = ai.Bit{K: ai.BZero}, src[7]
	case 5: // SRA
		for i := 0; i < 7; i++ {
			want[i] = src[i+1]
		}
		want[7], carryOut = src[7], src[0]
	case 7: // SRL
		for i := 0; i < 7; i++ {
			want[i] = src[i+1]
		}
		want[7], carryOut = ai.Bit{K: ai.BZero}, src[0]
	default:
		return
	}
	got := postInt(row, reg)
	ok := got != nil && bitsEqual(got.Bits, want)
	gs := "<not written>"
	if got != nil {
		gs = bitsString(got.Bits)
	}
	r.Ob("F-exact", ok, name+" result", where, fmt.Sprintf("register %s bits (msb first) are [%s], documented [%s]", reg, gs, bitsString(want)))
	if fv := postInt(row, "f"); fv != nil {
		r.Ob("F-exact", fv.Bits[4] == carryOut, name+" carry out", where, fmt.Sprintf("carry flag is %s, documented %s", fv.Bits[4].String(), carryOut.String()))
	} else {
		r.Ob("F-exact", false, name+" carry out", where, "F not written")
	}
	_ = accumulator
}

// checkFNibble: every store to F keeps the low nibble zero (inductive), and the inferred invariant says so.
func (c *Ctx) checkFNibble(r *report.Result, m *Machine) {
	it := c.W.It
	inv, _ := c.W.Inv[ai.CellKey{Obj: m.CPU.ID, Path: ".f"}].(*ai.Int)
	okInv := inv != nil && inv.KnownZeros()&0x0f == 0x0f
	r.Ob("F-nibble", okInv, "invariant of F", "", fmt.Sprintf("inferred step-boundary invariant of F: %s; bits 0-3 must be known zero", ai.ValueString(inv)))
	type site struct {
		at ssa.Instruction
		ok bool
		v  string
	}
	sites := map[ssa.Instruction]*site{}
	hook := ai.Hooks{Store: func(_ *ai.State, at ssa.Instruction, p *ai.Ptr, keys []ai.CellKey, v ai.Value, _ bool) {
		if p == nil || p.Obj != m.CPU || p.Path != ".f" {
			return
		}
		iv, _ := v.(*ai.Int)
		ok := iv != nil && iv.KnownZeros()&0x0f == 0x0f
		s := sites[at]
		if s == nil {
			s = &site{at: at, ok: true}
			sites[at] = s
		}
		if !ok {
			s.ok = false
			s.v = ai.ValueString(v)
		}
	}}
	restore := c.cutDecoder(nil)
	c.evalAllEntries(hook, nil)
	restore()
	// the initial value written by construction
	init := it.StateOn(c.W.InitHeap).LoadPtr(&ai.Ptr{Obj: m.CPU, Path: ".f"})
	if iv, ok := init.(*ai.Int); ok {
		r.Ob("F-nibble", iv.KnownZeros()&0x0f == 0x0f, "initial value of F", "", "F after construction is "+ai.ValueString(init))
	}
	for _, s := range sites {
		r.Ob("F-nibble", s.ok, "store to F in "+fnName(outerFn(s.at.Parent())), c.pos(s.at), "the stored value "+s.v+" may have a non-zero low nibble")
	}
}

// imeLatches finds the boolean CPU cells that delay EI: a cell L such that the
// fetch routine, entered with L set and the master enable clear, leaves the
// master enable set and L clear (and, entered with L clear, leaves the master
// enable clear).  Found by role, so the field's name does not matter.
func (c *Ctx) imeLatches(m *Machine) map[string]bool {
	out := map[string]bool{}
	it := c.W.It
	stt, _ := m.CPU.T.Underlying().(*types.Struct)
	if stt == nil || m.NextFn == nil || m.Ints == nil {
		return out
	}
	imePath := ""
	for _, p := range c.boolCellsOf(m.Ints) {
		if strings.HasSuffix(p, ".ime") {
			imePath = p
		}
	}
	if imePath == "" {
		return out
	}
	run := func(field string, set bool) (ime, latch *ai.Bool) {
		st := c.quietState(m)
		st.SetCell(m.Ints, imePath, ai.NewConstBool(false))
		st.SetCell(m.CPU, "."+field, ai.NewConstBool(set))
		for fn := range c.W.CutFns {
			fnc := fn
			it.Intercepts[fnc] = func(s *ai.State, _ ssa.Instruction, _ []ai.Value) (ai.Value, *ai.State) {
				if fnc.Signature.Results().Len() == 0 {
					return nil, s
				}
				return ai.NewTopInt(8, false, nil), s
			}
			defer delete(it.Intercepts, fnc)
		}
		keepLocal := func(o *ai.Object) bool { return o.ID > c.W.NObjInit }
		it.Hooks = ai.Hooks{UnknownCall: func(s *ai.State, at ssa.Instruction) *ai.State { return s.Rebase(c.W.Generic, keepLocal) }}
		defer func() { it.Hooks = ai.Hooks{} }()
		_, post := it.CallFunction(st, m.NextFn, []ai.Value{ptrTo(m.CPU)}, nil)
		if post == nil {
			return nil, nil
		}
		return c.cellBool(post, m.Ints, imePath), c.cellBool(post, m.CPU, "."+field)
	}
	isC := func(b *ai.Bool, want bool) bool {
		if b == nil {
			return false
		}
		v, ok := b.Const()
		return ok && v == want
	}
	for i := 0; i < stt.NumFields(); i++ {
		f := stt.Field(i)
		if !isBool(f.Type()) {
			continue
		}
		ime1, l1 := run(f.Name(), true)
		ime0, _ := run(f.Name(), false)
		if isC(ime1, true) && isC(l1, false) && isC(ime0, false) {
			out[f.Name()] = true
		}
	}
	return out
}

// carryCase is one abstract input class at a carry/borrow threshold with the documented H and C flags.
type carryCase struct {
	Op      int    // base-page opcode
	What    string // register setup in words
	Set     map[string][2]int64
	CarryIn int   // -1: leave F symbolic; 0/1: C flag before the instruction
	Operand int64 // immediate operand byte (-1 none)
	H, C    int   // documented flag after: 0, 1, or -1 (untouched / not checked)
}

func carryCases() []carryCase {
	iv := func(lo, hi int64) [2]int64 { return [2]int64{lo, hi} }
	k := func(v int64) [2]int64 { return [2]int64{v, v} }
	var cs []carryCase
	add := func(op int, what string, set map[string][2]int64, cin int, operand int64, h, c int) {
		cs = append(cs, carryCase{op, what, set, cin, operand, h, c})
	}
	// ADD A,B / ADC A,B
	for _, op := range []int{0x80, 0x88} {
		add(op, "A=00, B in 00-0F", map[string][2]int64{"a": k(0), "b": iv(0, 0x0f)}, 0, -1, 0, 0)
		add(op, "A=01, B=0F", map[string][2]int64{"a": k(1), "b": k(0x0f)}, 0, -1, 1, 0)
		add(op, "A=08, B=07", map[string][2]int64{"a": k(8), "b": k(7)}, 0, -1, 0, 0)
		add(op, "A=08, B=08", map[string][2]int64{"a": k(8), "b": k(8)}, 0, -1, 1, 0)
		add(op, "A=00, B in 00-FF", map[string][2]int64{"a": k(0), "b": iv(0, 0xff)}, 0, -1, -1, 0)
		add(op, "A=01, B=FF", map[string][2]int64{"a": k(1), "b": k(0xff)}, 0, -1, 1, 1)
		add(op, "A=80, B in 80-FF", map[string][2]int64{"a": k(0x80), "b": iv(0x80, 0xff)}, 0, -1, -1, 1)
		add(op, "A=80, B in 00-7F", map[string][2]int64{"a": k(0x80), "b": iv(0, 0x7f)}, 0, -1, -1, 0)
	}
	add(0x88, "A=00, B=0F, carry in", map[string][2]int64{"a": k(0), "b": k(0x0f)}, 1, -1, 1, 0)
	add(0x88, "A=00, B in 00-0E, carry in", map[string][2]int64{"a": k(0), "b": iv(0, 0x0e)}, 1, -1, 0, 0)
	add(0x88, "A=00, B=FF, carry in", map[string][2]int64{"a": k(0), "b": k(0xff)}, 1, -1, 1, 1)
	add(0x88, "A=00, B in 00-FE, carry in", map[string][2]int64{"a": k(0), "b": iv(0, 0xfe)}, 1, -1, -1, 0)
	// SUB B / CP B / SBC A,B
	for _, op := range []int{0x90, 0xB8, 0x98} {
		add(op, "A=10, B in 01-0F", map[string][2]int64{"a": k(0x10), "b": iv(1, 0x0f)}, 0, -1, 1, 0)
		add(op, "A=1F, B in 00-0F", map[string][2]int64{"a": k(0x1f), "b": iv(0, 0x0f)}, 0, -1, 0, 0)
		add(op, "A=05, B=05", map[string][2]int64{"a": k(5), "b": k(5)}, 0, -1, 0, 0)
		add(op, "A=05, B=06", map[string][2]int64{"a": k(5), "b": k(6)}, 0, -1, 1, 1)
		add(op, "A=00, B in 01-FF", map[string][2]int64{"a": k(0), "b": iv(1, 0xff)}, 0, -1, -1, 1)
		add(op, "A=FF, B in 00-FF", map[string][2]int64{"a": k(0xff), "b": iv(0, 0xff)}, 0, -1, 0, 0)
		add(op, "A=80, B=80", map[string][2]int64{"a": k(0x80), "b": k(0x80)}, 0, -1, 0, 0)
		add(op, "A=80, B=81", map[string][2]int64{"a": k(0x80), "b": k(0x81)}, 0, -1, 1, 1)
	}
	add(0x98, "A=05, B=04, carry in", map[string][2]int64{"a": k(5), "b": k(4)}, 1, -1, 0, 0)
	add(0x98, "A=05, B=05, carry in", map[string][2]int64{"a": k(5), "b": k(5)}, 1, -1, 1, 1)
	add(0x98, "A=80, B=7F, carry in", map[string][2]int64{"a": k(0x80), "b": k(0x7f)}, 1, -1, 1, 0)
	add(0x98, "A=80, B=80, carry in", map[string][2]int64{"a": k(0x80), "b": k(0x80)}, 1, -1, 1, 1)
	// INC B / DEC B
	add(0x04, "B=0F", map[string][2]int64{"b": k(0x0f)}, -1, -1, 1, -1)
	add(0x04, "B in 00-0E", map[string][2]int64{"b": iv(0, 0x0e)}, -1, -1, 0, -1)
	add(0x04, "B=FF", map[string][2]int64{"b": k(0xff)}, -1, -1, 1, -1)
	add(0x05, "B=10", map[string][2]int64{"b": k(0x10)}, -1, -1, 1, -1)
	add(0x05, "B in 01-0F", map[string][2]int64{"b": iv(1, 0x0f)}, -1, -1, 0, -1)
	add(0x05, "B=00", map[string][2]int64{"b": k(0)}, -1, -1, 1, -1)
	// ADD HL,BC
	hl := func(v int64) (h, l [2]int64) { return k(v >> 8), k(v & 0xff) }
	{
		h0, l0 := hl(0x0000)
		add(0x09, "HL=0000, BC in 0000-0FFF", map[string][2]int64{"h": h0, "l": l0, "b": iv(0, 0x0f), "c": iv(0, 0xff)}, -1, -1, 0, 0)
		h1, l1 := hl(0x0001)
		add(0x09, "HL=0001, BC=0FFF", map[string][2]int64{"h": h1, "l": l1, "b": k(0x0f), "c": k(0xff)}, -1, -1, 1, 0)
		add(0x09, "HL=0000, BC=0FFF", map[string][2]int64{"h": h0, "l": l0, "b": k(0x0f), "c": k(0xff)}, -1, -1, 0, 0)
		h8, l8 := hl(0x0800)
		add(0x09, "HL=0800, BC=0800", map[string][2]int64{"h": h8, "l": l8, "b": k(0x08), "c": k(0x00)}, -1, -1, 1, 0)
		add(0x09, "HL=0800, BC in 0000-07FF", map[string][2]int64{"h": h8, "l": l8, "b": iv(0, 0x07), "c": iv(0, 0xff)}, -1, -1, 0, 0)
		add(0x09, "HL=0001, BC=FFFF", map[string][2]int64{"h": h1, "l": l1, "b": k(0xff), "c": k(0xff)}, -1, -1, 1, 1)
		add(0x09, "HL=0000, BC=FFFF", map[string][2]int64{"h": h0, "l": l0, "b": k(0xff), "c": k(0xff)}, -1, -1, 0, 0)
		hh, lh := hl(0x8000)
		add(0x09, "HL=8000, BC in 8000-FFFF", map[string][2]int64{"h": hh, "l": lh, "b": iv(0x80, 0xff), "c": iv(0, 0xff)}, -1, -1, -1, 1)
	}
	// ADD SP,e / LD HL,SP+e
	for _, op := range []int{0xE8, 0xF8} {
		add(op, "SP=00FF, e=01", map[string][2]int64{"sp": k(0x00ff)}, -1, 0x01, 1, 1)
		add(op, "SP=0000, e=7F", map[string][2]int64{"sp": k(0x0000)}, -1, 0x7f, 0, 0)
		add(op, "SP=0000, e=F0", map[string][2]int64{"sp": k(0x0000)}, -1, 0xf0, 0, 0)
		add(op, "SP=0000, e=80", map[string][2]int64{"sp": k(0x0000)}, -1, 0x80, 0, 0)
		add(op, "SP=0010, e=F0", map[string][2]int64{"sp": k(0x0010)}, -1, 0xf0, 0, 1)
		add(op, "SP=000F, e=FF", map[string][2]int64{"sp": k(0x000f)}, -1, 0xff, 1, 1)
		add(op, "SP=0000, e=FF", map[string][2]int64{"sp": k(0x0000)}, -1, 0xff, 0, 0)
		add(op, "SP=0001, e=FF", map[string][2]int64{"sp": k(0x0001)}, -1, 0xff, 1, 1)
		add(op, "SP=0008, e=08", map[string][2]int64{"sp": k(0x0008)}, -1, 0x08, 1, 0)
		add(op, "SP=0008, e=07", map[string][2]int64{"sp": k(0x0008)}, -1, 0x07, 0, 0)
	}
	return cs
}

// checkCarry evaluates rows at carry/borrow thresholds (constants and intervals) and compares H and C.
func (c *Ctx) checkCarry(r *report.Result, m *Machine) {
	it := c.W.It
	for _, cs := range carryCases() {
		row := m.Base[cs.Op]
		name := fmt.Sprintf("opcode 0x%02X at %s", cs.Op, cs.What)
		if row == nil || !row.FetchOK {
			r.Fail("unresolved", "F-carry", name, "", "row not found")
			continue
		}
		st := it.StateOn(c.W.Generic)
		for reg, rng := range cs.Set {
			path := "." + reg
			w, sg := ai.TypeShape(ai.LeafTypeAt(m.CPU.T, path))
			if rng[0] == rng[1] {
				st.SetCell(m.CPU, path, ai.NewConstInt(w, sg, rng[0]))
			} else {
				c.symCell(st, m.CPU, path)
				st.SetCell(m.CPU, path, ai.NarrowInt(c.cellInt(st, m.CPU, path), rng[0], rng[1]))
			}
		}
		if cs.CarryIn >= 0 {
			f := c.cellInt(st, m.CPU, ".f")
			st.SetCell(m.CPU, ".f", ai.WithBit(f, 4, cs.CarryIn == 1))
		}
		var read ai.Value
		if cs.Operand >= 0 {
			read = ai.NewConstInt(8, false, cs.Operand)
		}
		ok := true
		for _, sub := range row.Subs {
			f, isF := sub.(*ai.Func)
			if !isF {
				ok = false
				break
			}
			ev, _ := c.evalCPU(st, f.Fn, nil, f.Bind, read)
			if ev.Post == nil {
				ok = false
				break
			}
			st = ev.Post
		}
		fv := c.cellInt(st, m.CPU, ".f")
		detail := "flags afterwards " + ai.ValueString(fv)
		if ok && fv != nil {
			for _, fl := range []struct {
				name string
				bit  int
				want int
			}{{"H", 5, cs.H}, {"C", 4, cs.C}} {
				if fl.want < 0 {
					continue
				}
				b := fv.Bits[fl.bit]
				good := (fl.want == 1 && b.K == ai.BOne) || (fl.want == 0 && b.K == ai.BZero)
				if !good {
					ok = false
					detail += fmt.Sprintf("; %s is %s, documented %d", fl.name, b.String(), fl.want)
				}
			}
		} else {
			ok = false
		}
		where := ""
		if row.Slice != nil {
			if s, isI := row.Slice.Obj.Site.(ssa.Instruction); isI {
				where = c.pos(s)
			}
		}
		r.Ob("F-carry", ok, name, where, detail)
	}
}
