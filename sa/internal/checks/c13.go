package checks

import (
	"fmt"
	"sort"
	"strings"

	"golang.org/x/tools/go/ssa"

	"verif/sa/internal/ai"
	"verif/sa/internal/report"
	"verif/sa/internal/world"
)

func init() {
	register("C13", checkC13)
	register("C14", checkC14)
	register("C17", checkC17)
}

// lcdcWrite evaluates an LCDC write with bit 7 fixed from a state with the LCD on/off.
func (m *ppuModel) lcdcWrite(bit7, wasOn bool, more func(*ai.State)) *DecEval {
	c := m.c
	v := ai.WithBit(ai.NewSymInt(8, false, c.W.ParamSym(c.decoderFn(true), 2)), 7, bit7)
	return c.evalDecoder(true, 0xFF40, 0xFF40, func(st *ai.State) {
		st.SetCell(m.PPU, m.Enabled, ai.NewConstBool(wasOn))
		if more != nil {
			more(st)
		}
	}, v)
}

func (m *ppuModel) timingPaths() []string { return []string{".ticks", ".mode", ".ly", ".firstLine"} }

func checkC13(c *Ctx) *report.Result {
	r := report.New("C13", "other", "inductive invariant over the extracted transition function of the PPU step: the step is evaluated abstractly from every timing state of the documented schedule (tick counter, mode, LY, first-line flag constant; every register, VRAM and OAM byte symbolic) and must lead to the documented successor; LCD on/off transitions through the decoder; bit provenance of LY and STAT reads; ownership of the timing cells")
	r.Explanation = "Line and mode timing is a function of four cells (tick counter, mode, LY, first-line flag) that nothing but the PPU step and the LCD switch writes. The documented schedule is written as a set of 17 620 timing states (between two steps LY and mode show the tick processed last: mode 2 for ticks 0-19 of lines 0-143, mode 3 for 20-60, mode 0 from 61, mode 1 on lines 144-153; after switch-on the first line loses two ticks at its h-blank) with the documented successor of each. The check evaluates the PPU step once from every one of these states with everything else symbolic and requires exactly the documented successor (tick +1, +3 at the shortened h-blank, wrap at 17556; LY = tick/114; mode as documented; first-line flag cleared exactly at the cut) and the LCD still on: the schedule is therefore an inductive invariant, and since switching the LCD on leads to its first state (ticks 0, mode 2, LY 0), every reachable timing state follows the documented schedule cycle by cycle. Switching off leaves LY 0, mode 0, ticks 0 whatever the state; LCDC writes that do not change bit 7 leave the timing cells alone; the step stores nothing while the LCD is off; LY reads the LY cell and STAT bits 1-0 the mode cell bit for bit whatever the STAT enables; no other code stores the timing cells."
	r.Rule("L-inv", "PPU step from each state of the documented schedule (17 620 states) leads to the documented successor; LCD stays on")
	r.Rule("L-switch", "LCD on: ticks 0, mode 2, LY 0, first-line flag set; LCD off: LY 0, mode 0, ticks 0 from any state; LCDC writes keeping bit 7 leave timing state alone; the step stores nothing while off")
	r.Rule("L-read", "FF44 reads the LY cell and FF41 bits 1-0 the mode cell, bit for bit, independent of the STAT enable bits")
	r.Rule("L-own", "timing cells are stored only by the PPU step and the LCDC / LY write handlers")
	r.NotDecided = []string{"mode 3 length variation with sprites and scroll (the emulator uses the minimum 41 cycles; the property states cycle 61)", "what a CPU access sees inside the machine cycle in which a transition happens"}
	r.TrustedBase = []string{"documented frame schedule (property statement)", "go/ssa, abstract interpreter (constants, pruned branches)", "the pixel pipeline and the sprite scan are skipped during table extraction after their write footprints were shown not to include timing state"}
	m := c.ppuModel()
	if len(m.Errors) > 0 {
		r.Fail("unresolved", "L-inv", "PPU model", "", strings.Join(m.Errors, "; "))
		return r
	}
	where := firstPos(c, m.StepFn)
	var heavy []string
	for f := range m.Heavy {
		heavy = append(heavy, fnName(f))
	}
	sort.Strings(heavy)
	r.Extra["skipped_after_footprint_check"] = heavy

	// ---- L-inv
	states := ppuInvariantStates()
	bad := []string{}
	nbad := 0
	for _, s := range states {
		st := m.step(s)
		want := ppuDocNext(s)
		if !(st.OK && st.To == want && st.Enabled && len(st.Undecided) == 0) {
			nbad++
			if len(bad) < 4 {
				bad = append(bad, fmt.Sprintf("from {%s}: step gives {%s} (constant %v, LCD on %v), documented {%s} %v", s, st.To, st.OK, st.Enabled, want, st.Undecided))
			}
		}
	}
	if nbad > len(bad) {
		bad = append(bad, fmt.Sprintf("... %d states in all", nbad))
	}
	r.Ob("L-inv", nbad == 0, "documented schedule is inductive under the PPU step", where, strings.Join(bad, "; "))
	r.Instances["L-inv"] += len(states)
	r.Sample(map[string]interface{}{"rule": "L-inv", "states": len(states), "example": fmt.Sprintf("{%s} -> {%s}", states[20], ppuDocNext(states[20]))})
	r.Sample(map[string]interface{}{"rule": "L-inv", "first_line_cut": fmt.Sprintf("{%s} -> {%s}", states[62], ppuDocNext(states[62]))})

	// the published line number is recomputed by every step from the tick counter alone: whatever a write to the
	// read-only LY register left in it, the step that follows publishes the documented line again
	{
		pm := m
		pm.symLY = true
		var badLY []string
		n := 0
		for _, s := range states {
			if k := s.T % 114; !(k == 0 || k == 1 || k == 20 || k == 61 || k == 113) {
				continue
			}
			n++
			st := pm.step(s)
			want := ppuDocNext(s)
			if !(st.OK && st.To.LY == want.LY) && len(badLY) < 4 {
				badLY = append(badLY, fmt.Sprintf("from {%s} with LY overwritten: the step publishes LY %d (constant %v), documented %d", s, st.To.LY, st.OK, want.LY))
			}
		}
		pm.symLY = false
		r.Ob("L-inv", len(badLY) == 0, "every step recomputes the published LY from the tick counter, whatever it held", where, strings.Join(badLY, "; "))
		r.Instances["L-inv"] += n
	}
	// ---- L-switch
	{
		on := m.lcdcWrite(true, false, nil)
		t, ok1 := constOf(c.cellInt(on.Post, m.PPU, ".ticks"))
		md, ok2 := constOf(c.cellInt(on.Post, m.PPU, ".mode"))
		ly, ok3 := constOf(c.cellInt(on.Post, m.PPU, ".ly"))
		fl, ok4 := boolConst(c.cellBool(on.Post, m.PPU, ".firstLine"))
		en, ok5 := boolConst(c.cellBool(on.Post, m.PPU, m.Enabled))
		// LY and ticks are 0 while off (checked below), so they need not be stored by the switch-on
		r.Ob("L-switch", ok2 && md == 2 && ok4 && fl && ok5 && en, "switching the LCD on enters mode 2 with the first-line flag set", hposOf(c, on), fmt.Sprintf("mode %d (%v), first-line %v, on %v", md, ok2, fl, en))
		on2 := m.lcdcWrite(true, false, func(st *ai.State) {
			st.SetCell(m.PPU, ".ticks", ai.NewConstInt(c.widthOf(m.PPU, ".ticks"), true, 0))
			st.SetCell(m.PPU, ".ly", ai.NewConstInt(8, false, 0))
		})
		t, ok1 = constOf(c.cellInt(on2.Post, m.PPU, ".ticks"))
		ly, ok3 = constOf(c.cellInt(on2.Post, m.PPU, ".ly"))
		r.Ob("L-switch", ok1 && t == 0 && ok3 && ly == 0, "switching on from the off state (ticks 0, LY 0) starts at line 0, tick 0", hposOf(c, on2), fmt.Sprintf("ticks %d LY %d", t, ly))
		off := m.lcdcWrite(false, true, nil)
		t, ok1 = constOf(c.cellInt(off.Post, m.PPU, ".ticks"))
		md, ok2 = constOf(c.cellInt(off.Post, m.PPU, ".mode"))
		ly, ok3 = constOf(c.cellInt(off.Post, m.PPU, ".ly"))
		en, ok5 = boolConst(c.cellBool(off.Post, m.PPU, m.Enabled))
		r.Ob("L-switch", ok1 && t == 0 && ok2 && md == 0 && ok3 && ly == 0 && ok5 && !en, "switching the LCD off from any state leaves LY 0, mode 0, ticks 0", hposOf(c, off), fmt.Sprintf("ticks %s mode %s LY %s", ai.ValueString(c.cellInt(off.Post, m.PPU, ".ticks")), ai.ValueString(c.cellInt(off.Post, m.PPU, ".mode")), ai.ValueString(c.cellInt(off.Post, m.PPU, ".ly"))))
		for _, on := range []bool{true, false} {
			same := m.lcdcWrite(on, on, nil)
			var hit []string
			for _, p := range c.storedCellsOf(same, m.PPU) {
				for _, tp := range m.timingPaths() {
					if p == tp {
						hit = append(hit, p)
					}
				}
			}
			for _, p := range c.storedCellsOf(same, m.OAM) {
				hit = append(hit, "oam"+p)
			}
			r.Ob("L-switch", len(hit) == 0, fmt.Sprintf("LCDC write keeping bit 7 = %v leaves the timing state alone", on), hposOf(c, same), fmt.Sprintf("stores %v", hit))
		}
		offStep := c.evalCall(nil, m.StepFn, []ai.Value{ptrTo(m.PPU)}, nil, func(st *ai.State) { st.SetCell(m.PPU, m.Enabled, ai.NewConstBool(false)) })
		r.Ob("L-switch", len(offStep.Stores) == 0 && offStep.Post != nil, "the PPU step stores nothing while the LCD is off", where, fmt.Sprintf("stores %v", keysOf(offStep.Stores)))
	}

	// ---- L-read
	{
		var ls, ms ai.Sym
		rd := c.evalDecoder(false, 0xFF44, 0xFF44, func(st *ai.State) { ls = c.symCell(st, m.PPU, ".ly") }, nil)
		res, _ := rd.Result.(*ai.Int)
		ok := res != nil
		for i := 0; ok && i < 8; i++ {
			ok = isSrcBit(res.Bits[i], ls, i)
		}
		r.Ob("L-read", ok, "FF44 reads the LY cell", hposOf(c, rd), "reads "+ai.ValueString(rd.Result))
		rd = c.evalDecoder(false, 0xFF41, 0xFF41, func(st *ai.State) {
			ms = c.symCell(st, m.PPU, ".mode")
			st.SetCell(m.PPU, ".mode", ai.NarrowInt(c.cellInt(st, m.PPU, ".mode"), 0, 3))
		}, nil)
		res, _ = rd.Result.(*ai.Int)
		ok = res != nil && isSrcBit(res.Bits[0], ms, 0) && isSrcBit(res.Bits[1], ms, 1)
		r.Ob("L-read", ok, "FF41 bits 1-0 read the mode cell whatever the enable bits", hposOf(c, rd), "reads "+ai.ValueString(rd.Result))
	}

	// ---- L-own
	{
		allowed := map[string]bool{}
		for _, a := range []int{0xFF40, 0xFF44} {
			ev := c.evalDecoder(true, a, a, nil, nil)
			for _, f := range ev.Callees {
				allowed[fnName(f)] = true
			}
		}
		allowed[fnName(m.StepFn)] = true
		viol := map[string]string{}
		n := 0
		tp := map[string]bool{}
		for _, p := range m.timingPaths() {
			tp[p] = true
		}
		c.evalAllEntries(ai.Hooks{
			Store: func(_ *ai.State, at ssa.Instruction, p *ai.Ptr, keys []ai.CellKey, _ ai.Value, _ bool) {
				for _, k := range keys {
					if k.Obj == m.PPU.ID && tp[k.Path] {
						n++
						fn := fnName(outerFn(at.Parent()))
						if !allowed[fn] && !c.onStack(allowed) {
							viol[fn+" stores "+k.Path] = c.pos(at)
						}
					}
				}
			},
		}, func(*world.Entry, *ai.State) {})
		for k, pos := range viol {
			r.Ob("L-own", false, k, pos, "the timing cells may be stored only by the PPU step and by the LCDC / LY write handlers")
		}
		r.Ob("L-own", n > 0, "stores to the timing cells examined over every run-phase entry", "", fmt.Sprintf("%d stores", n))
		r.Instances["L-own"] += n
		// per address: only an LCDC write may move the schedule; a write to the read-only LY register may
		// at most touch the published line number (the step recomputes it), never the tick counter or the mode
		for _, iv := range c.elementaryIntervals() {
			if iv[0] <= 0xFF40 && iv[1] >= 0xFF40 {
				continue
			}
			w := c.evalDecoder(true, iv[0], iv[1], nil, nil)
			var hit []string
			for _, p := range c.storedCellsOf(w, m.PPU) {
				if tp[p] && !(p == ".ly" && iv[0] == 0xFF44 && iv[1] == 0xFF44) {
					hit = append(hit, p)
				}
			}
			r.Ob("L-own", len(hit) == 0, fmt.Sprintf("write %04X-%04X leaves the line/mode schedule alone", iv[0], iv[1]), hposOf(c, w), fmt.Sprintf("timing cells stored: %v (only a write to LCDC may restart the schedule)", hit))
		}
	}
	r.Rule("L-step", "the PPU step is called exactly once per machine cycle by the frame loop, whatever the CPU is doing (rule L2 of C26 re-stated)")
	adopt(r, c.sibling("C26"), map[string]string{"L2": "L-step"}, "a PPU that is not stepped every machine cycle does not follow the frame schedule in emulated time")
	return r
}

func hposOf(c *Ctx, ev *DecEval) string {
	if ev != nil && len(ev.Callees) > 0 {
		return firstPos(c, ev.Callees[len(ev.Callees)-1])
	}
	return ""
}

func checkC14(c *Ctx) *report.Result {
	r := report.New("C14", "other", "request table extracted by abstract evaluation of the PPU step from every timing state of the documented schedule (C13): which request routine is called and which enable flags the call is control dependent on; who-may-call analysis of the request routines over the decoder and every run-phase entry")
	r.Explanation = "Using the transition table of C13 (the PPU step evaluated from each of the 17 620 timing states of the documented schedule, STAT enables, LYC and all other state symbolic), the check records every call of the VBlank and STAT request routines together with the PPU cells the call is control dependent on, and compares with the documented table: the step that processes tick 61 of a line 0-143 (entry to mode 0) requests STAT iff the HBlank enable is set; the step that processes tick 0 of line 144 requests VBlank unconditionally and STAT iff the VBlank enable is set; the steps that process tick 0 of lines 0-143 (entering mode 2 from mode 0 or, for line 0, from mode 1) request STAT iff the OAM enable is set; every step that processes tick 0 of a line requests STAT iff the coincidence enable is set and LY (constant in that state) equals LYC; no other step requests anything. Since the schedule visits each state once per frame (C13), VBlank is requested exactly once per frame. Nothing is requested while the LCD is off (the step stores and calls nothing), and no register write or CPU code calls the two request routines."
	r.Rule("Q-table", "per-state request table equals the documented one (kind and guarding enable flag), over all 17 620 states")
	r.Rule("Q-off", "LCD off: the step calls no request routine")
	r.Rule("Q-own", "the VBlank and STAT request routines are called only from the PPU step: no register write handler and no CPU row calls them")
	r.NotDecided = []string{"STAT interrupt blocking (a second source rising while the line is already high)", "the line-0 OAM request directly after switching the LCD on (the hardware reports mode 0 there)"}
	r.TrustedBase = []string{"C13's invariant (each state is visited once per frame)", "documented STAT sources", "go/ssa, abstract interpreter (control dependence through path conditions)"}
	m := c.ppuModel()
	if len(m.Errors) > 0 {
		r.Fail("unresolved", "Q-table", "PPU model", "", strings.Join(m.Errors, "; "))
		return r
	}
	where := firstPos(c, m.StepFn)
	// the four enable flags by the STAT bit they are written from
	flagOfBit := map[int]string{}
	{
		w := c.evalDecoder(true, 0xFF41, 0xFF41, nil, nil)
		for _, p := range c.storedCellsOf(w, m.PPU) {
			if b := c.cellBool(w.Post, m.PPU, p); b != nil && b.B.K == ai.BSrc && b.B.S == w.ValSym && !b.B.Neg {
				flagOfBit[int(b.B.J)] = strings.TrimPrefix(p, ".")
			}
		}
	}
	for _, bit := range []int{3, 4, 5, 6} {
		if flagOfBit[bit] == "" {
			r.Fail("unresolved", "Q-table", fmt.Sprintf("STAT enable bit %d", bit), "", "no PPU flag is written from that bit of FF41")
			return r
		}
	}
	hbl, vbl, oamF, coin := flagOfBit[3], flagOfBit[4], flagOfBit[5], flagOfBit[6]
	render := func(rs []ppuReq) string {
		var s []string
		for _, q := range rs {
			s = append(s, q.Kind+"["+strings.Join(q.Guards, ",")+"]")
		}
		sort.Strings(s)
		return strings.Join(s, " ")
	}
	bad := []string{}
	nbad, nreq, vblanks := 0, 0, 0
	states := ppuInvariantStates()
	for _, s := range states {
		st := m.step(s)
		t := s.T
		line, x := t/114, t%114
		var want []ppuReq
		if x == 61 && line < 144 {
			want = append(want, ppuReq{"stat", []string{hbl}})
		}
		if t == 144*114 {
			want = append(want, ppuReq{"vblank", nil}, ppuReq{"stat", []string{vbl}})
		}
		justOn := s.T == 0 && s.Mode == 2
		if x == 0 && line < 144 && !justOn {
			want = append(want, ppuReq{"stat", []string{oamF}})
		}
		if x == 0 {
			g := []string{coin, "lyc"}
			sort.Strings(g)
			want = append(want, ppuReq{"stat", g})
		}
		for _, q := range st.Reqs {
			nreq++
			if q.Kind == "vblank" && !s.FirstLine {
				vblanks++
			}
		}
		if render(st.Reqs) != render(want) {
			nbad++
			if len(bad) < 4 {
				bad = append(bad, fmt.Sprintf("from {%s}: requests %q, documented %q", s, render(st.Reqs), render(want)))
			}
		}
	}
	if nbad > len(bad) {
		bad = append(bad, fmt.Sprintf("... %d states in all", nbad))
	}
	r.Ob("Q-table", nbad == 0, "request table over the documented schedule", where, strings.Join(bad, "; "))
	// the coincidence request is made exactly when LYC equals the line that starts: for every line start and LYC fixed to
	// that line, its neighbours, 0, 153 and values no line ever has (154, 200, 255), the request guarded by the
	// coincidence enable alone is present iff LYC is that line
	if ai.LeafTypeAt(m.PPU.T, ".lyc") == nil {
		r.Fail("unresolved", "Q-table", "LYC cell", where, "the PPU has no lyc field (anchor)")
	} else {
		pm := *m
		var badL []string
		nl := 0
		for _, s := range states {
			if s.T%114 != 0 {
				continue
			}
			line := ppuDocNext(s).LY
			for _, v := range []int64{line, line - 1, line + 1, 0, 153, 154, 200, 255} {
				if v < 0 || v > 255 {
					continue
				}
				vv := v
				pm.lycConst = &vv
				st := pm.step(s)
				nl++
				got := 0
				for _, q := range st.Reqs {
					if q.Kind == "stat" && len(q.Guards) == 1 && q.Guards[0] == coin {
						got++
					}
				}
				want := 0
				if v == line {
					want = 1
				}
				if got != want && len(badL) < 4 {
					badL = append(badL, fmt.Sprintf("from {%s} (line %d starts) with LYC=%d: %d coincidence requests, documented %d", s, line, v, got, want))
				}
			}
		}
		pm.lycConst = nil
		r.Ob("Q-table", len(badL) == 0 && nl > 1000, "the coincidence request is made iff LYC equals the starting line (every line start x 8 LYC values)", where, strings.Join(badL, "; "))
		r.Instances["Q-table"] += nl
	}
	r.Ob("Q-table", vblanks == 1, "exactly one state of the steady-state frame requests VBlank", where, fmt.Sprintf("%d states", vblanks))
	r.Instances["Q-table"] += len(states)
	r.Sample(map[string]interface{}{"rule": "Q-table", "states": len(states), "requests_seen": nreq, "line144": render(m.step(ppuState{T: 144 * 114, Mode: 0, LY: 143}).Reqs)})

	// ---- Q-off
	{
		it := c.W.It
		st := it.StateOn(c.W.Generic)
		st.SetCell(m.PPU, m.Enabled, ai.NewConstBool(false))
		called := 0
		it.Hooks = ai.Hooks{Call: func(_ *ai.State, _ ssa.Instruction, callee *ssa.Function, _ []ai.Value) {
			if m.reqKind[callee] != "" {
				called++
			}
		}}
		it.CallFunction(st, m.StepFn, []ai.Value{ptrTo(m.PPU)}, nil)
		it.Hooks = ai.Hooks{}
		r.Ob("Q-off", called == 0, "LCD off: no request", where, fmt.Sprintf("%d request calls", called))
	}
	// ---- Q-own
	{
		viol := map[string]string{}
		n := 0
		it := c.W.It
		c.evalAllEntries(ai.Hooks{
			Call: func(_ *ai.State, at ssa.Instruction, callee *ssa.Function, _ []ai.Value) {
				if m.reqKind[callee] == "" {
					return
				}
				n++
				inStep := false
				for _, f := range it.Stack {
					if f == m.StepFn {
						inStep = true
					}
				}
				if !inStep {
					viol[fnName(outerFn(at.Parent()))+" calls "+fnName(callee)] = c.pos(at)
				}
			},
		}, func(*world.Entry, *ai.State) {})
		for k, pos := range viol {
			r.Ob("Q-own", false, k, pos, "VBlank / STAT requests may only be raised by the PPU step (a register write or CPU instruction raising them requests at the wrong time, possibly with the LCD off)")
		}
		r.Ob("Q-own", n > 0, "request calls examined over every run-phase entry", "", fmt.Sprintf("%d calls", n))
		r.Instances["Q-own"] += n
	}
	r.Rule("Q-sched", "the schedule the request table is indexed by is the documented one (rules L-inv / L-switch of C13 re-stated): a state that is skipped requests nothing")
	adopt(r, c.sibling("C13"), map[string]string{"L-inv": "Q-sched", "L-switch": "Q-sched", "L-own": "Q-sched"}, "a timing state that is never visited never raises its request")
	r.Rule("Q-order", "the CPU acts before the PPU in every machine cycle and each is stepped once (L2 of C26 re-stated): a request raised in a cycle is not wiped by an IF write the program makes in that same cycle")
	adopt(r, c.sibling("C26"), map[string]string{"L2": "Q-order"}, "with the PPU stepped first, a store to IF in the cycle of a request clears the request that should survive it")
	return r
}

func checkC17(c *Ctx) *report.Result {
	r := report.New("C17", "other", "typestate of the corruption window read off the PPU transition table (C13): window flag == (LCD on and mode 2) in every timing state and after both LCD switches; with the window closed no run-phase entry arms a corruption and the corruption step stores nothing; who-may-write analysis of the OAM array")
	r.Explanation = "OAM bytes live in one array. (writers) Over every run-phase entry the only functions that store into it are the CPU write handler of FE00-FE9F, the DMA tick and the corruption routines, and the corruption routines run only from the per-cycle corruption step. (arming) The corruption step stores into the array only if one of three arming flags is set; evaluated from a state in which the window flag is clear, no run-phase entry - every CPU row, both decoder directions on every address interval, every per-cycle step - stores anything but 'false' into an arming flag, and the corruption step with all flags clear stores nothing. (window) The window flag is stored only by two OAM routines (open / close); from the PPU transition table of C13 the flag after the step equals (mode after the step == 2) in each of the 17 620 timing states of the documented schedule; switching the LCD off closes the window from any state and switching it on opens it together with mode 2; the PPU step does nothing while the LCD is off. Hence the window is open exactly while the LCD is on and in mode 2, and outside it OAM changes only through CPU writes and DMA."
	r.Rule("O-writers", "stores into the OAM array: only the FE00-FE9F write handler, the DMA tick and the corruption routines (reached only from the corruption step)")
	r.Rule("O-arm", "window flag clear: no run-phase entry sets an arming flag; the corruption step with no flag set stores nothing")
	r.Rule("O-pair", "window flag == (LCD on and mode 2): after every PPU step of the documented schedule and after both LCD switches; only the PPU step and the LCD switch call the open/close routines")
	r.NotDecided = []string{"the corruption patterns themselves", "which CPU activities arm a corruption inside the window (16-bit INC/DEC, PUSH/POP, accesses in FE00-FEFF)"}
	r.TrustedBase = []string{"C13's invariant (the schedule states are the reachable timing states)", "go/ssa, abstract interpreter"}
	m := c.ppuModel()
	if len(m.Errors) > 0 {
		r.Fail("unresolved", "O-pair", "PPU model", "", strings.Join(m.Errors, "; "))
		return r
	}
	it := c.W.It
	oam := m.OAM
	// arming flags: the boolean cells of the OAM object other than the window flag and the DMA flag
	var arm []string
	dmaFlag := ""
	{
		// the DMA flag: the boolean whose truth makes a CPU read of FE00 the constant FF
		for _, p := range c.boolCellsOf(oam) {
			ev := c.evalDecoder(false, 0xFE00, 0xFE00, func(st *ai.State) { st.SetCell(oam, p, ai.NewConstBool(true)) }, nil)
			if cv, isc := constOf(ev.Result); isc && cv == 0xFF {
				dmaFlag = p
			}
		}
		for _, p := range c.boolCellsOf(oam) {
			if p != ".corrupt" && p != dmaFlag {
				arm = append(arm, p)
			}
		}
	}
	r.Extra["arming_flags"] = arm
	// the corruption step: the OAM method the CPU machine-cycle step calls
	var corruptStep *ssa.Function
	if exec := c.P.Func("gameboy/cpu", "(*CPU).ExecuteMachineCycle"); exec != nil {
		// the OAM routine the CPU step calls, directly or through helpers of the CPU
		seen := map[*ssa.Function]bool{}
		var find func(f *ssa.Function, depth int)
		find = func(f *ssa.Function, depth int) {
			if f == nil || seen[f] || depth > 2 {
				return
			}
			seen[f] = true
			for _, sc := range callsIn(f.Blocks) {
				if sc.Callee == nil {
					continue
				}
				if recvTypeKey(sc.Callee) == "oam.OAM" {
					corruptStep = sc.Callee
				} else if recvTypeKey(sc.Callee) == recvTypeKey(exec) {
					find(sc.Callee, depth+1)
				}
			}
		}
		find(exec, 0)
	}
	if corruptStep == nil || len(arm) == 0 {
		r.Fail("unresolved", "O-arm", "corruption step / arming flags", "", "the CPU step calls no OAM routine, or the OAM object has no arming flags")
		return r
	}

	// ---- O-pair
	{
		states := ppuInvariantStates()
		bad := []string{}
		nbad := 0
		for _, s := range states {
			st := m.step(s)
			want := fmt.Sprint(st.To.Mode == 2)
			if !st.OK || st.Corrupt != want {
				nbad++
				if len(bad) < 4 {
					bad = append(bad, fmt.Sprintf("from {%s}: after the step mode %d, window flag %s (documented %s)", s, st.To.Mode, st.Corrupt, want))
				}
			}
		}
		if nbad > len(bad) {
			bad = append(bad, fmt.Sprintf("... %d states in all", nbad))
		}
		r.Ob("O-pair", nbad == 0, "window flag equals (mode == 2) after every step of the schedule", firstPos(c, m.StepFn), strings.Join(bad, "; "))
		r.Instances["O-pair"] += len(states)
		off := m.lcdcWrite(false, true, func(st *ai.State) { st.SetCell(oam, ".corrupt", ai.NewSymBool(it.SymFor(oam, ".corrupt"))) })
		v, isc := boolConst(c.cellBool(off.Post, oam, ".corrupt"))
		r.Ob("O-pair", isc && !v, "LCD switched off closes the window from any state", hposOf(c, off), "window flag after switching off: "+ai.ValueString(c.cellBool(off.Post, oam, ".corrupt")))
		on := m.lcdcWrite(true, false, func(st *ai.State) { st.SetCell(oam, ".corrupt", ai.NewConstBool(false)) })
		v, isc = boolConst(c.cellBool(on.Post, oam, ".corrupt"))
		md, mc := constOf(c.cellInt(on.Post, m.PPU, ".mode"))
		r.Ob("O-pair", isc && v && mc && md == 2, "LCD switched on opens the window together with mode 2", hposOf(c, on), "")
		// who calls open/close
		viol := map[string]string{}
		n := 0
		lcdc := map[string]bool{}
		// the routines an LCDC write runs, without the decoder itself (every register write runs under it)
		for _, on := range []bool{true, false} {
			for _, f := range m.lcdcWrite(on, !on, nil).Callees {
				if !c.W.CutFns[f] && !c.W.CutFns[outerFn(f)] && recvTypeKey(f) != "oam.OAM" {
					lcdc[fnName(f)] = true // not the open/close routines themselves: the question is who calls them
				}
			}
		}
		c.evalAllEntries(ai.Hooks{
			Store: func(_ *ai.State, at ssa.Instruction, p *ai.Ptr, keys []ai.CellKey, _ ai.Value, _ bool) {
				for _, k := range keys {
					if k.Obj == oam.ID && k.Path == ".corrupt" {
						n++
						ok := false
						for _, f := range it.Stack {
							if f == m.StepFn || lcdc[fnName(f)] {
								ok = true
							}
						}
						if !ok {
							viol["window flag stored from "+fnName(it.Stack[0])] = c.pos(at)
						}
					}
				}
			},
		}, func(*world.Entry, *ai.State) {})
		for k, pos := range viol {
			r.Ob("O-pair", false, k, pos, "the window may be opened or closed only by the PPU step and the LCD switch")
		}
		r.Ob("O-pair", n > 0, "stores to the window flag examined over every run-phase entry", "", fmt.Sprintf("%d stores", n))
	}

	// ---- O-arm
	{
		armSet := map[string]bool{}
		for _, p := range arm {
			armSet[p] = true
		}
		viol := map[string]string{}
		n := 0
		keepLocal := func(o *ai.Object) bool { return o.ID > c.W.NObjInit }
		for i := range c.W.Entries {
			e := &c.W.Entries[i]
			if e.Fn == m.StepFn || c.W.CutFns[e.Fn] {
				continue // the PPU step may open the window; the decoder is examined per interval below
			}
			// the decoder is one opaque step; paths on which it opens the window (an LCDC write
			// switching the LCD on) are legitimately inside the window afterwards, so the
			// analysis continues on the paths where the window stays closed
			for fn := range c.W.CutFns {
				fnc := fn
				it.Intercepts[fnc] = func(s *ai.State, _ ssa.Instruction, _ []ai.Value) (ai.Value, *ai.State) {
					var res ai.Value
					if fnc.Signature.Results().Len() == 1 {
						res = ai.TopOf(it, fnc.Signature.Results().At(0).Type(), nil)
					}
					ns := s.Rebase(c.W.Generic, keepLocal)
					ns.SetCell(oam, ".corrupt", ai.NewConstBool(false))
					return res, ns
				}
			}
			restore := func() {
				for fn := range c.W.CutFns {
					delete(it.Intercepts, fn)
				}
			}
			st := it.StateOn(c.W.Generic)
			st.SetCell(oam, ".corrupt", ai.NewConstBool(false))
			it.Hooks = ai.Hooks{
				UnknownCall: func(s *ai.State, at ssa.Instruction) *ai.State { return s.Rebase(c.W.Generic, keepLocal) },
				Store: func(_ *ai.State, at ssa.Instruction, p *ai.Ptr, keys []ai.CellKey, v ai.Value, _ bool) {
					for _, k := range keys {
						if k.Obj == oam.ID && armSet[k.Path] {
							n++
							if b, isc := boolConst(asBool(v)); !isc || b {
								viol["entry "+e.Name+" arms "+k.Path+" with the window closed"] = c.pos(at)
							}
						}
					}
				},
			}
			c.W.RunEntry(e, st)
			it.Hooks = ai.Hooks{}
			restore()
		}
		for _, write := range []bool{false, true} {
			for _, iv := range c.elementaryIntervals() {
				ev := c.evalDecoder(write, iv[0], iv[1], func(st *ai.State) { st.SetCell(oam, ".corrupt", ai.NewConstBool(false)) }, nil)
				for _, p := range arm {
					lbl := c.cellLabel(ai.CellKey{Obj: oam.ID, Path: p})
					if v, stored := ev.Stores[lbl]; stored {
						n++
						if b, isc := boolConst(asBool(v)); !isc || b {
							kind := map[bool]string{false: "read", true: "write"}[write]
							viol[fmt.Sprintf("%s %04X-%04X arms %s with the window closed", kind, iv[0], iv[1], p)] = c.pos(ev.StoreAt[lbl])
						}
					}
				}
			}
		}
		for k, pos := range viol {
			r.Ob("O-arm", false, k, pos, "a corruption is armed outside the window (LCD off or not in mode 2): the next corruption step alters OAM")
		}
		r.Ob("O-arm", true, "arming-flag stores examined with the window closed", "", fmt.Sprintf("%d stores", n))
		r.Instances["O-arm"] += n
		ev := c.evalCall(nil, corruptStep, []ai.Value{ptrTo(oam)}, nil, func(st *ai.State) {
			for _, p := range arm {
				st.SetCell(oam, p, ai.NewConstBool(false))
			}
		})
		var arr []string
		for k := range ev.Stores {
			if strings.Contains(k, "[") {
				arr = append(arr, k)
			}
		}
		r.Ob("O-arm", len(arr) == 0 && ev.Post != nil, "corruption step with no arming flag set stores nothing into OAM", firstPos(c, corruptStep), fmt.Sprintf("array cells stored %v", arr))
	}

	// ---- O-consume: a corruption armed in a machine cycle is applied in that same cycle
	r.Rule("O-consume", "arming flags do not survive a machine cycle: the CPU step ends with all of them clear (the corruption step runs after the row entry of that same cycle), and no other per-cycle step, host callback or API entry sets one - so a corruption can never be applied after the window it was armed in has closed")
	{
		exec := c.P.Func("gameboy/cpu", "(*CPU).ExecuteMachineCycle")
		keepLocal := func(o *ai.Object) bool { return o.ID > c.W.NObjInit }
		clear := func(st *ai.State) {
			for _, p := range arm {
				st.SetCell(oam, p, ai.NewConstBool(false))
			}
		}
		n := 0
		for i := range c.W.Entries {
			e := &c.W.Entries[i]
			if e.Kind == "table" || e.Kind == "decoder" || c.W.CutFns[e.Fn] || e.Fn == exec {
				continue // row entries and the decoder run only inside the CPU step (S1 of C02), which is examined below
			}
			st := it.StateOn(c.W.Generic)
			clear(st)
			it.Hooks = ai.Hooks{UnknownCall: func(s *ai.State, at ssa.Instruction) *ai.State { return s.Rebase(c.W.Generic, keepLocal) }}
			post := c.W.RunEntry(e, st)
			it.Hooks = ai.Hooks{}
			var left []string
			for _, p := range arm {
				if b, isc := boolConst(c.cellBool(post, oam, p)); post != nil && (!isc || b) {
					left = append(left, p)
				}
			}
			n++
			if post == nil {
				left = append(left, "(no post-state: the entry does not return)")
			}
			r.Ob("O-consume", len(left) == 0, "entry "+e.Name+" leaves every arming flag clear", firstPos(c, e.Fn), fmt.Sprintf("flags that may be set afterwards: %v; a pending corruption is applied in a later cycle, when the LCD may be off or the PPU outside mode 2", left))
		}
		if exec == nil || n == 0 {
			r.Fail("unresolved", "O-consume", "CPU step", "", "not found")
		} else {
			// (1) in the CPU step the corruption step is called after the row entry on every path to the return
			var rowCall, corrCall ssa.Instruction
			for _, b := range exec.Blocks {
				for _, ins := range b.Instrs {
					if call, ok := ins.(*ssa.Call); ok {
						if sc := call.Call.StaticCallee(); sc != nil && mustCall(sc, corruptStep, 2) {
							corrCall = ins
						} else if _, isFn := call.Call.Value.(*ssa.Function); !isFn && !call.Call.IsInvoke() {
							if _, bi := call.Call.Value.(*ssa.Builtin); !bi {
								rowCall = ins
							}
						}
					}
				}
			}
			after := false
			if rowCall != nil && corrCall != nil {
				rb, cb := rowCall.Block(), corrCall.Block()
				idx := func(ins ssa.Instruction) int {
					for i, x := range ins.Block().Instrs {
						if x == ins {
							return i
						}
					}
					return -1
				}
				if rb == cb {
					after = idx(corrCall) > idx(rowCall)
				} else {
					// every path from the row call to a return passes through the corruption call's block
					seen := map[*ssa.BasicBlock]bool{}
					escapes := false
					var walk func(b *ssa.BasicBlock)
					walk = func(b *ssa.BasicBlock) {
						if seen[b] || b == cb {
							return
						}
						seen[b] = true
						if _, isRet := b.Instrs[len(b.Instrs)-1].(*ssa.Return); isRet {
							escapes = true
						}
						for _, s := range b.Succs {
							walk(s)
						}
					}
					for _, s := range rb.Succs {
						walk(s)
					}
					if len(rb.Succs) == 0 {
						escapes = true
					}
					after = !escapes
				}
			}
			wherec := ""
			if corrCall != nil {
				wherec = c.pos(corrCall)
			}
			r.Ob("O-consume", after, "the CPU step applies pending corruptions after the row entry of the same machine cycle, on every path", wherec, "the corruption step must run after the row entry and before the step returns; otherwise a corruption armed in this cycle is applied in a later one, when the LCD may be off or the PPU outside mode 2")
			// (2) the corruption step clears every flag, from every valuation with doubleWrite -> write
			for v := 0; v < 8; v++ {
				val := map[string]bool{}
				for i, p := range arm {
					val[p] = v>>uint(i)&1 == 1
				}
				if len(arm) == 3 && val[".doubleWrite"] && !val[".write"] {
					continue // not reachable: see (3)
				}
				ev := c.evalCall(nil, corruptStep, []ai.Value{ptrTo(oam)}, nil, func(st *ai.State) {
					for _, p := range arm {
						st.SetCell(oam, p, ai.NewConstBool(val[p]))
					}
				})
				var left []string
				for _, p := range arm {
					if b, isc := boolConst(c.cellBool(ev.Post, oam, p)); ev.Post != nil && (!isc || b) {
						left = append(left, p)
					}
				}
				r.Ob("O-consume", ev.Post != nil && len(left) == 0, fmt.Sprintf("corruption step from flags %v leaves every arming flag clear", val), firstPos(c, corruptStep), fmt.Sprintf("still set afterwards: %v", left))
			}
			// (3) the second-write flag is only ever set while the write flag is set
			if len(arm) == 3 {
				bad := map[string]string{}
				nst := 0
				c.evalAllEntries(ai.Hooks{
					Store: func(st *ai.State, at ssa.Instruction, p *ai.Ptr, keys []ai.CellKey, v ai.Value, _ bool) {
						for _, k := range keys {
							if k.Obj == oam.ID && k.Path == ".doubleWrite" {
								if b, isc := boolConst(asBool(v)); isc && !b {
									continue
								}
								nst++
								if w, isc := boolConst(c.cellBool(st, oam, ".write")); !isc || !w {
									bad[fnName(outerFn(at.Parent()))] = c.pos(at)
								}
							}
						}
					},
				}, func(*world.Entry, *ai.State) {})
				for k, pos := range bad {
					r.Ob("O-consume", false, k+" sets the second-write flag while the write flag may be clear", pos, "the corruption step returns early when neither read nor write is armed, so a lone second-write flag would stay pending")
				}
				r.Ob("O-consume", nst > 0, "stores setting the second-write flag examined", "", fmt.Sprintf("%d stores", nst))
			}
		}
	}

	// ---- O-writers
	{
		allowed := map[string]bool{}
		w := c.evalDecoder(true, 0xFE00, 0xFE9F, nil, nil)
		for _, f := range w.Callees {
			if recvTypeKey(f) == "oam.OAM" {
				allowed[fnName(f)] = true
			}
		}
		if mp := c.methodOf("memory.Mapper", "EndMachineCycle"); mp != nil {
			for _, sc := range callsIn(mp.Blocks) {
				if sc.Callee != nil && recvTypeKey(sc.Callee) == "oam.OAM" {
					allowed[fnName(sc.Callee)] = true
				}
			}
		}
		viaCorrupt := map[string]bool{}
		viol := map[string]string{}
		n := 0
		c.evalAllEntries(ai.Hooks{
			Store: func(_ *ai.State, at ssa.Instruction, p *ai.Ptr, keys []ai.CellKey, _ ai.Value, _ bool) {
				if p == nil || p.Obj != oam || !strings.Contains(p.Path, "[") {
					return
				}
				n++
				fn := fnName(outerFn(at.Parent()))
				if allowed[fn] || c.onStack(allowed) {
					return
				}
				for _, f := range it.Stack {
					if f == corruptStep {
						viaCorrupt[fn] = true
						return
					}
				}
				viol[fn+" stores into the OAM array"] = c.pos(at)
			},
		}, func(*world.Entry, *ai.State) {})
		for k, pos := range viol {
			r.Ob("O-writers", false, k, pos, "OAM may change only through the CPU write handler, the DMA tick and the corruption routines")
		}
		// ... and the machine gameboy.New returns has neither a transfer running nor a corruption armed
		{
			init := it.StateOn(c.W.InitHeap)
			var set []string
			for _, p := range append(append([]string{}, arm...), dmaFlag) {
				if p == "" {
					continue
				}
				if b, isc := boolConst(c.cellBool(init, oam, p)); !isc || b {
					set = append(set, p)
				}
			}
			r.Ob("O-writers", len(set) == 0, "after construction no DMA transfer is running and no corruption is armed", "", fmt.Sprintf("flags that may be set in the constructed machine: %v (OAM would change without an FF46 write or a CPU access)", set))
		}
		r.Ob("O-writers", n > 0 && len(allowed) >= 2, "stores into the OAM array examined over every run-phase entry", "", fmt.Sprintf("%d stores; direct writers %v; via the corruption step %v", n, sortedKeys(allowed), sortedKeys(viaCorrupt)))
		r.Instances["O-writers"] += n
		r.Sample(map[string]interface{}{"rule": "O-writers", "direct_writers": sortedKeys(allowed), "corruption_routines": sortedKeys(viaCorrupt)})
	}
	return r
}

// mustCall reports whether every execution of f that returns has called target (directly, or through a
// callee that must call it): some block holding such a call dominates every return.
func mustCall(f, target *ssa.Function, depth int) bool {
	if f == target {
		return true
	}
	if f == nil || depth < 0 || len(f.Blocks) == 0 {
		return false
	}
	var holders []*ssa.BasicBlock
	for _, b := range f.Blocks {
		for _, ins := range b.Instrs {
			if call, ok := ins.(*ssa.Call); ok {
				if g := call.Call.StaticCallee(); g != nil && g != f && mustCall(g, target, depth-1) {
					holders = append(holders, b)
				}
			}
		}
	}
	if len(holders) == 0 {
		return false
	}
	for _, b := range f.Blocks {
		if _, isRet := b.Instrs[len(b.Instrs)-1].(*ssa.Return); !isRet {
			continue
		}
		dominated := false
		for _, h := range holders {
			if h.Dominates(b) {
				dominated = true
			}
		}
		if !dominated {
			return false
		}
	}
	return true
}
