package checks

import (
	"fmt"
	"sort"
	"strings"

	"golang.org/x/tools/go/ssa"

	"verif/sa/internal/ai"
)

// ppuState is the timing state of the PPU between two machine-cycle steps.
type ppuState struct {
	T         int64 // tick counter (the next tick to process)
	Mode      int64
	LY        int64
	FirstLine bool
}

// ppuReq is one interrupt request made by a step, with the state it is control dependent on.
type ppuReq struct {
	Kind   string   // "vblank" | "stat"
	Guards []string // names of the PPU cells the request is control dependent on
}

// ppuStep is the abstract result of one machine-cycle step from a fixed timing state.
type ppuStep struct {
	From      ppuState
	OK        bool // post timing state is fully constant
	To        ppuState
	Enabled   bool
	Corrupt   string // "true" | "false" | "?"
	Reqs      []ppuReq
	Coinc     string // how the coincidence flag is left: "unchanged" | "ly==lyc" | "?"
	Undecided []string
}

type ppuModel struct {
	c        *Ctx
	PPU, OAM *ai.Object
	Ints     *ai.Object
	StepFn   *ssa.Function
	Enabled  string // path of the LCD-on flag (LCDC bit 7)
	Heavy    map[*ssa.Function]bool
	Errors   []string
	reqKind  map[*ssa.Function]string
	enterFn  map[*ssa.Function]string // EnterMode2 / ExitMode2 by effect on corrupt
	steps    map[ppuState]*ppuStep
	scan     []scanFact
	symLY    bool   // evaluate steps with the published LY symbolic (not cached)
	lycConst *int64 // evaluate steps with LYC fixed to this value (not cached)
}

var ppuModelCache = map[*Ctx]*ppuModel{}

const ppuFrame = 17556

// docMode is the documented mode for the tick t being displayed.
func docMode(t int64) int64 {
	line, x := t/114, t%114
	switch {
	case line >= 144:
		return 1
	case x < 20:
		return 2
	case x < 61:
		return 3
	}
	return 0
}

// ppuInvariantStates enumerates the timing states of the documented schedule:
// between two steps the registers show the tick processed last.
func ppuInvariantStates() []ppuState {
	var out []ppuState
	// just switched on
	out = append(out, ppuState{T: 0, Mode: 2, LY: 0, FirstLine: true})
	// first line after switch-on, before the shortened h-blank: ticks 0..61 processed
	for T := int64(1); T <= 61; T++ {
		out = append(out, ppuState{T: T, Mode: docMode(T - 1), LY: 0, FirstLine: true})
	}
	// after the 2-cycle cut: tick 61 was processed, the counter jumped to 64
	out = append(out, ppuState{T: 64, Mode: docMode(61), LY: 0, FirstLine: false})
	// steady state
	for T := int64(1); T < ppuFrame; T++ {
		out = append(out, ppuState{T: T, Mode: docMode(T - 1), LY: (T - 1) / 114, FirstLine: false})
	}
	// wrapped: tick 17555 was processed
	out = append(out, ppuState{T: 0, Mode: 1, LY: 153, FirstLine: false})
	return out
}

// ppuDocNext is the documented successor of a timing state.
func ppuDocNext(s ppuState) ppuState {
	t := s.T // the tick this step processes
	n := ppuState{Mode: docMode(t), LY: t / 114, FirstLine: s.FirstLine}
	n.T = t + 1
	if s.FirstLine && t == 61 {
		n.T = 64
		n.FirstLine = false
	}
	if n.T == ppuFrame {
		n.T = 0
	}
	return n
}

func (c *Ctx) ppuModel() *ppuModel {
	if m, ok := ppuModelCache[c]; ok {
		return m
	}
	m := &ppuModel{c: c, Heavy: map[*ssa.Function]bool{}, reqKind: map[*ssa.Function]string{}, enterFn: map[*ssa.Function]string{}, steps: map[ppuState]*ppuStep{}}
	ppuModelCache[c] = m
	it := c.W.It
	m.PPU = c.objectOfType("ppu.PPU")
	m.OAM = c.objectOfType("oam.OAM")
	m.Ints = c.objectOfType("interrupts.Interrupts")
	m.StepFn = c.methodOf("ppu.PPU", "EndMachineCycle")
	if m.PPU == nil || m.OAM == nil || m.Ints == nil || m.StepFn == nil {
		m.Errors = append(m.Errors, "PPU / OAM / interrupt objects or the PPU machine-cycle step not found")
		return m
	}
	for _, p := range []string{".ticks", ".mode", ".ly", ".firstLine"} {
		if ai.LeafTypeAt(m.PPU.T, p) == nil {
			m.Errors = append(m.Errors, "PPU field "+p+" not found (anchors: ticks, mode, ly, firstLine)")
		}
	}
	if ai.LeafTypeAt(m.OAM.T, ".corrupt") == nil {
		m.Errors = append(m.Errors, "OAM field corrupt not found (anchor of C17)")
	}
	// the LCD-on flag: the boolean cell bit 7 of the LCDC read comes from
	rd := c.evalDecoder(false, 0xFF40, 0xFF40, nil, nil)
	if res, ok := rd.Result.(*ai.Int); ok && res.Bits[7].K == ai.BSrc {
		k := it.Syms[res.Bits[7].S].Cell
		if k.Obj == m.PPU.ID {
			m.Enabled = k.Path
		}
	}
	if m.Enabled == "" {
		m.Errors = append(m.Errors, "LCD-on flag not found (bit 7 of the LCDC read is not one PPU cell)")
	}
	if len(m.Errors) > 0 {
		return m
	}
	// request routines by effect: which IF cell they set
	im := &intrModel{}
	_ = im
	ifw := c.evalDecoder(true, 0xFF0F, 0xFF0F, nil, nil)
	reqCell := map[string]int{}
	for _, p := range c.storedCellsOf(ifw, m.Ints) {
		if b := c.cellBool(ifw.Post, m.Ints, p); b != nil && b.B.K == ai.BSrc && b.B.S == ifw.ValSym {
			reqCell[p] = int(b.B.J)
		}
	}
	for _, f := range c.methodsOfObject(m.Ints) {
		if len(f.Params) != 1 || f.Signature.Results().Len() != 0 {
			continue
		}
		ev := c.evalCall(nil, f, []ai.Value{ptrTo(m.Ints)}, nil, nil)
		cells := c.storedCellsOf(ev, m.Ints)
		if len(cells) != 1 {
			continue
		}
		if v, isc := boolConst(c.cellBool(ev.Post, m.Ints, cells[0])); isc && v {
			switch reqCell[cells[0]] {
			case 0:
				if _, has := reqCell[cells[0]]; has {
					m.reqKind[f] = "vblank"
				}
			case 1:
				m.reqKind[f] = "stat"
			}
		}
	}
	for _, f := range c.methodsOfObject(m.OAM) {
		if len(f.Params) != 1 || f.Signature.Results().Len() != 0 {
			continue
		}
		ev := c.evalCall(nil, f, []ai.Value{ptrTo(m.OAM)}, nil, nil)
		cells := c.storedCellsOf(ev, m.OAM)
		if len(cells) == 1 && cells[0] == ".corrupt" {
			if v, isc := boolConst(c.cellBool(ev.Post, m.OAM, ".corrupt")); isc {
				m.enterFn[f] = map[bool]string{true: "enter", false: "exit"}[v]
			}
		}
	}
	// heavy callees of the step (pixel pipeline, sprite scan): they must not touch timing state;
	// then they are skipped while the timing table is extracted
	timing := map[string]bool{}
	for _, p := range []string{".ticks", ".mode", ".ly", ".firstLine", m.Enabled, ".coincidence"} {
		timing[c.cellLabel(ai.CellKey{Obj: m.PPU.ID, Path: p})] = true
	}
	timing[c.cellLabel(ai.CellKey{Obj: m.OAM.ID, Path: ".corrupt"})] = true
	for _, sc := range callsIn(m.StepFn.Blocks) {
		f := sc.Callee
		if f == nil || recvTypeKey(f) != "ppu.PPU" || m.Heavy[f] {
			continue
		}
		ev := c.evalCall(nil, f, []ai.Value{ptrTo(m.PPU)}, nil, nil)
		bad := false
		for k := range ev.Stores {
			if timing[k] {
				bad = true
			}
		}
		for _, callee := range ev.Callees {
			if m.reqKind[callee] != "" || m.enterFn[callee] != "" {
				bad = true
			}
		}
		if !bad && len(ev.Undecided) == 0 {
			m.Heavy[f] = true
		}
	}
	return m
}

// step evaluates one machine-cycle step from a fixed timing state with everything else symbolic.
func (m *ppuModel) step(s ppuState) *ppuStep {
	if r, ok := m.steps[s]; ok && !m.symLY && m.lycConst == nil {
		return r
	}
	c := m.c
	it := c.W.It
	res := &ppuStep{From: s}
	if !m.symLY && m.lycConst == nil {
		m.steps[s] = res
	}
	st := it.StateOn(c.W.Generic)
	setI := func(path string, v int64) {
		w, sg := ai.TypeShape(ai.LeafTypeAt(m.PPU.T, path))
		st.SetCell(m.PPU, path, ai.NewConstInt(w, sg, v))
	}
	setI(".ticks", s.T)
	setI(".mode", s.Mode)
	setI(".ly", s.LY)
	if m.symLY {
		c.symCell(st, m.PPU, ".ly") // the published line number is whatever a write to the read-only LY register left there
	}
	if m.lycConst != nil && ai.LeafTypeAt(m.PPU.T, ".lyc") != nil {
		setI(".lyc", *m.lycConst)
	}
	st.SetCell(m.PPU, ".firstLine", ai.NewConstBool(s.FirstLine))
	st.SetCell(m.PPU, m.Enabled, ai.NewConstBool(true))
	st.SetCell(m.OAM, ".corrupt", ai.NewConstBool(s.Mode == 2))
	var coincS ai.Sym
	if ai.LeafTypeAt(m.PPU.T, ".coincidence") != nil {
		coincS = it.SymFor(m.PPU, ".coincidence")
		st.SetCell(m.PPU, ".coincidence", ai.NewSymBool(coincS))
	}
	for f := range m.Heavy {
		it.Intercepts[f] = func(s *ai.State, _ ssa.Instruction, _ []ai.Value) (ai.Value, *ai.State) { return nil, s }
	}
	defer func() {
		for f := range m.Heavy {
			delete(it.Intercepts, f)
		}
	}()
	it.Hooks = ai.Hooks{
		Call: func(st *ai.State, _ ssa.Instruction, callee *ssa.Function, _ []ai.Value) {
			kind := m.reqKind[callee]
			if kind == "" {
				return
			}
			set := map[string]bool{}
			for _, sy := range st.PathDeps {
				if k := it.Syms[sy].Cell; k.Obj == m.PPU.ID {
					set[strings.TrimPrefix(k.Path, ".")] = true
				} else if k.Obj != 0 {
					set[c.cellLabel(ai.CellKey{Obj: k.Obj, Path: ai.NormPath(k.Path)})] = true
				}
			}
			res.Reqs = append(res.Reqs, ppuReq{Kind: kind, Guards: sortedKeys(set)})
		},
		Undecided: func(_ *ai.State, at ssa.Instruction, what string) { res.Undecided = append(res.Undecided, what) },
	}
	_, post := it.CallFunction(st, m.StepFn, []ai.Value{ptrTo(m.PPU)}, nil)
	it.Hooks = ai.Hooks{}
	if post == nil {
		res.Undecided = append(res.Undecided, "the step does not return")
		return res
	}
	t, ok1 := constOf(c.cellInt(post, m.PPU, ".ticks"))
	md, ok2 := constOf(c.cellInt(post, m.PPU, ".mode"))
	ly, ok3 := constOf(c.cellInt(post, m.PPU, ".ly"))
	fl, ok4 := boolConst(c.cellBool(post, m.PPU, ".firstLine"))
	en, ok5 := boolConst(c.cellBool(post, m.PPU, m.Enabled))
	res.OK = ok1 && ok2 && ok3 && ok4 && ok5
	res.To = ppuState{T: t, Mode: md, LY: ly, FirstLine: fl}
	res.Enabled = en
	res.Corrupt = "?"
	if v, isc := boolConst(c.cellBool(post, m.OAM, ".corrupt")); isc {
		res.Corrupt = fmt.Sprint(v)
	}
	res.Coinc = "?"
	if cb := c.cellBool(post, m.PPU, ".coincidence"); cb != nil {
		if cb.B.K == ai.BSrc && cb.B.S == coincS && !cb.B.Neg {
			res.Coinc = "unchanged"
		} else {
			// depends on lyc (and nothing else of the PPU but ly, which is constant here)
			deps := map[string]bool{}
			for _, sy := range cb.D {
				if k := it.Syms[sy].Cell; k.Obj == m.PPU.ID {
					deps[strings.TrimPrefix(k.Path, ".")] = true
				}
			}
			ks := sortedKeys(deps)
			if len(ks) == 1 && ks[0] == "lyc" {
				res.Coinc = "ly==lyc"
			} else {
				res.Coinc = "?" + strings.Join(ks, ",")
			}
		}
	}
	for i := range res.Reqs {
		sort.Strings(res.Reqs[i].Guards)
	}
	return res
}

func (s ppuState) String() string {
	return fmt.Sprintf("ticks=%d mode=%d LY=%d firstLine=%v", s.T, s.Mode, s.LY, s.FirstLine)
}

// scanFact is what the PPU step does to the OAM scan state when it processes one mode-2 tick.
type scanFact struct {
	From       ppuState
	OK         bool    // the step returns
	Entries    []int64 // indices of the per-line table (boolean array of the PPU) stored, -1 if not constant
	OAMIdx     []int64 // OAM array elements loaded, -1 if not constant
	LastAccess *ai.Int // value of the OAM object's "last PPU access" cell afterwards (nil if the cell does not exist)
	LastStored bool    // ... and whether this step stored it on every path (marker technique)
}

// scanFacts evaluates the real PPU step (scan routines not skipped) from every schedule state whose tick is
// processed in mode 2 on a visible line; registers, OAM and VRAM symbolic.  Cached per model.
func (m *ppuModel) scanFacts() []scanFact {
	if m.scan != nil {
		return m.scan
	}
	c := m.c
	it := c.W.It
	hasLast := ai.LeafTypeAt(m.OAM.T, ".ppuLastAccess") != nil
	for _, s0 := range ppuInvariantStates() {
		if docMode(s0.T) != 2 || s0.T/114 > 143 {
			continue
		}
		st := it.StateOn(c.W.Generic)
		setI := func(path string, v int64) {
			w, sg := ai.TypeShape(ai.LeafTypeAt(m.PPU.T, path))
			st.SetCell(m.PPU, path, ai.NewConstInt(w, sg, v))
		}
		setI(".ticks", s0.T)
		setI(".mode", s0.Mode)
		setI(".ly", s0.LY)
		st.SetCell(m.PPU, ".firstLine", ai.NewConstBool(s0.FirstLine))
		st.SetCell(m.PPU, m.Enabled, ai.NewConstBool(true))
		if hasLast {
			// marker: a value the PPU never uses, so that "not stored on some path" shows in the join
			st.SetCell(m.OAM, ".ppuLastAccess", ai.NewConstInt(16, false, 0))
		}
		f := scanFact{From: s0}
		it.Hooks = ai.Hooks{
			Store: func(_ *ai.State, _ ssa.Instruction, p *ai.Ptr, keys []ai.CellKey, v ai.Value, _ bool) {
				if _, isBool := v.(*ai.Bool); !isBool {
					return
				}
				for _, k := range keys {
					if i := strings.LastIndex(k.Path, "["); k.Obj == m.PPU.ID && i >= 0 {
						var idx int64 = -1
						fmt.Sscanf(k.Path[i+1:], "%d", &idx)
						if strings.Contains(k.Path, "*") {
							idx = -1
						}
						f.Entries = append(f.Entries, idx)
					}
				}
			},
			Elem: func(_ *ai.State, _ ssa.Instruction, o *ai.Object, path string, idx *ai.Int, _ int64) {
				if o == m.OAM && idx != nil {
					if cv, isc := constOf(idx); isc {
						f.OAMIdx = append(f.OAMIdx, cv)
					} else {
						f.OAMIdx = append(f.OAMIdx, -1)
					}
				}
			},
		}
		_, post := it.CallFunction(st, m.StepFn, []ai.Value{ptrTo(m.PPU)}, nil)
		it.Hooks = ai.Hooks{}
		f.OK = post != nil
		if hasLast && post != nil {
			f.LastAccess = c.cellInt(post, m.OAM, ".ppuLastAccess")
			f.LastStored = f.LastAccess != nil && f.LastAccess.Lo > 0
		}
		m.scan = append(m.scan, f)
	}
	return m.scan
}
