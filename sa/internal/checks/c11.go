package checks

import (
	"fmt"
	"sort"
	"strings"

	"golang.org/x/tools/go/ssa"

	"verif/sa/internal/ai"
	"verif/sa/internal/oracle"
	"verif/sa/internal/report"
	"verif/sa/internal/world"
)

func init() {
	register("C11", checkC11)
}

// assumed: sites whose safety rests on a relational invariant the domains cannot
// express. Keyed by enclosing function + kind (+ array where useful); each with
// its reason and the structural side conditions that are checked elsewhere.
var c11Assumed = []struct{ Fn, Kind, Match, Reason string }{
	{"(*cpu.CPU).ExecuteMachineCycle", "index", "", "row[cycle]: cycle < len(row) by the scheduler lemmas S1-S3 of C02 (one increment per step, reset at every fetch, finished <=> cycle == len(row))"},
	{"(*cpu.CPU).ExecuteMachineCycle", "nil", "", "row[cycle] is a non-nil function: every row entry is a resolved function (rule F-exh of C01)"},
	{"(*cpu.CPU).isFinished", "nil", "", "the early-exit predicate is called only when non-nil (tested in the same function); the abstract value is the join of all predicates"},
	{"(*cpu.CPU).next", "nil", "", "debug trace (debugCPU): metadata is nil only for undefined opcodes, whose row stops the process anyway"},
	{"(*serial.Serial).WriteSB", "panic", "", "panics only when the host writer returns an error (host fault, outside the property's quantifier)"},
}

// reviewed facts about values that relate two pieces of state (outside the
// non-relational domains); every index/divide obligation is then PROVEN from
// them, so a site that is unsafe even under these facts is still reported.
var c11CellFacts = []struct {
	Type, Path string
	Lo, Hi     int64
	Reason     string
}{
	{"oam.OAM", ".ppuLastAccess", 0xFE00, 0xFE9F, "the PPU only reads FE00+4*sprite+0..3 with sprite < 40, and the first PPU step after power-on or LCD-on precedes any use by the corruption routines"},
	{"oam.OAM", ".dmaCycle", 0, 161, "while a transfer runs the cycle counts 0..161: it is reset on every start and the transfer stops at 161 (rule D-len of C16); the counter is only used while running"},
}

var c11ParamFacts = []struct {
	Fn     string
	Param  int
	Lo, Hi int64
	Reason string
}{
	{"(*ppu.PPU).checkOverlappingSprites", 1, 0, 19, "called only in mode 2, which lasts line ticks 0..19 (mode 2 is entered at tick 0 and left exactly when the tick equals 20)"},
}

type c11Site struct {
	At      ssa.Instruction
	Kind    string // index div nil panic exit assert
	Proven  bool
	Detail  string
	Entries map[string]bool
	Host    bool
}

func checkC11(c *Ctx) *report.Result {
	r := report.New("C11", "other", "enumeration of every may-panic / may-exit instruction reachable from the run-phase entries and discharge by abstract interpretation (intervals, known bits, '< len' relation, inferred field invariants, nil-ness from the abstract heap)")
	r.Explanation = "Every instruction that can stop the process (explicit panic, process exit, array/slice index and slice bounds, integer division, nil pointer / nil function / nil interface use, failing type assertion) is observed while abstractly evaluating every run-phase entry from the generic machine state: all frame-loop steps, every closure in the dispatch tables, the memory decoder on symbolic address and value for every cartridge controller the constructor can return, and the host callbacks. Each site is proven safe (index interval inside the length, or the index carries the relation '< len(this slice)' established by a modulo and kept by an inferred field invariant; divisor interval excludes zero; value is not nil in the abstract heap), or is the deliberate stop of an undefined opcode, or is listed as a reviewed assumption with its reason, or is a violation. A constructor that can hand back a machine whose controller is nil is reported through the nil-interface use in the decoder."
	r.Rule("P-index", "array / slice index and slice bounds in range")
	r.Rule("P-div", "integer divisor non-zero")
	r.Rule("P-nil", "dereferenced pointer, called function value, invoked interface non-nil")
	r.Rule("P-panic", "no explicit panic reachable (host-fault panics listed as assumptions)")
	r.Rule("P-exit", "process exit reachable only from the rows of the 11 undefined opcodes")
	r.NotDecided = []string{"non-termination", "crashes inside host libraries", "the relational facts listed under assumed_reviewed"}
	r.TrustedBase = []string{"go/ssa, abstract interpreter", "inferred step-boundary invariants (inductive by construction, see world)", "reviewed assumption table in checks/c11.go"}
	it := c.W.It

	sites := map[ssa.Instruction]*c11Site{}
	storedCells := map[ai.CellKey]ssa.Instruction{}
	var cur string
	hostSide := 0
	note := func(at ssa.Instruction, kind string, proven bool, detail string, host bool) {
		if at == nil || at.Parent() == nil || !isRepoFn(at.Parent()) {
			return
		}
		if isHostSidePkg(c, outerFn(at.Parent())) {
			// display / speakers: glue to the host GUI and audio libraries, driven by the
			// host, not reachable from the guest program or the cartridge image
			if !proven {
				hostSide++
			}
			return
		}
		s := sites[at]
		if s == nil {
			s = &c11Site{At: at, Kind: kind, Proven: true, Entries: map[string]bool{}}
			sites[at] = s
		}
		if !proven {
			s.Proven = false
			s.Detail = detail
			s.Entries[cur] = true
			s.Host = s.Host || host
		}
	}
	hooks := ai.Hooks{
		Index: func(st *ai.State, at ssa.Instruction, idx, ln *ai.Int, proven bool) {
			d := ""
			if !proven {
				d = fmt.Sprintf("index %s, length %s", ai.IntervalString(idx), ai.IntervalString(ln))
			}
			note(at, "index", proven, d, false)
		},
		Div: func(st *ai.State, at ssa.Instruction, dv *ai.Int, proven bool) {
			note(at, "div", proven, "divisor "+ai.IntervalString(dv)+" may be zero", false)
		},
		Deref: func(st *ai.State, at ssa.Instruction, v ai.Value, proven bool) {
			if !proven {
				note(at, "nil", false, "value may be nil: "+trunc(ai.ValueString(v), 160), false)
			} else {
				note(at, "nil", true, "", false)
			}
		},
		Panic: func(st *ai.State, at ssa.Instruction) {
			note(at, "panic", false, "explicit panic reachable", it.DependsOnHost(st.PathDeps))
		},
		Exit: func(st *ai.State, at ssa.Instruction, callee string) {
			note(at, "exit", false, "process exit ("+callee+") reachable", false)
		},
		TypeAssert: func(st *ai.State, at ssa.Instruction) { note(at, "assert", false, "type assertion may fail", false) },
		Store: func(st *ai.State, at ssa.Instruction, p *ai.Ptr, keys []ai.CellKey, v ai.Value, strong bool) {
			for _, k := range keys {
				storedCells[k] = at
			}
		},
		Undecided: func(st *ai.State, at ssa.Instruction, what string) {
			note(at, "undecided", false, what, false)
		},
	}
	// the generic state narrowed by the reviewed cell facts
	ast := it.StateOn(c.W.Generic)
	for _, f := range c11CellFacts {
		o := c.objectOfType(f.Type)
		if o == nil {
			r.Fail("unresolved", "P-index", "assumed fact on "+f.Type+f.Path, "", "object not found")
			continue
		}
		lt := ai.LeafTypeAt(o.T, f.Path)
		if lt == nil {
			r.Fail("unresolved", "P-index", "assumed fact on "+f.Type+f.Path, "", "field not found")
			continue
		}
		if cur, ok := ast.LoadPtr(&ai.Ptr{Obj: o, Path: f.Path, Elem: lt}).(*ai.Int); ok {
			ast.SetCell(o, f.Path, ai.NarrowInt(cur, f.Lo, f.Hi))
			r.Assumed = append(r.Assumed, fmt.Sprintf("FACT %s%s in [%#x,%#x]: %s", f.Type, f.Path, f.Lo, f.Hi, f.Reason))
		}
	}
	assumedHeap := ast.Freeze()
	paramFacts := map[*ssa.Function][]int{}
	for i, f := range c11ParamFacts {
		found := false
		for _, fn := range c.P.Funcs {
			if fnName(fn) == f.Fn {
				paramFacts[fn] = append(paramFacts[fn], i)
				found = true
			}
		}
		if !found {
			r.Fail("unresolved", "P-index", "assumed fact on "+f.Fn, "", "function not found")
		} else {
			r.Assumed = append(r.Assumed, fmt.Sprintf("FACT parameter %d of %s in [%d,%d]: %s", f.Param, f.Fn, f.Lo, f.Hi, f.Reason))
		}
	}
	hooks.Args = func(callee *ssa.Function, args []ai.Value) []ai.Value {
		for _, i := range paramFacts[callee] {
			f := c11ParamFacts[i]
			if f.Param < len(args) {
				if iv, ok := args[f.Param].(*ai.Int); ok {
					out := append([]ai.Value(nil), args...)
					out[f.Param] = ai.NarrowInt(iv, f.Lo, f.Hi)
					args = out
				}
			}
		}
		return args
	}
	// every entry; the decoder entries are evaluated inline on all controller alternatives at once
	keepLocal := func(o *ai.Object) bool { return o.ID > c.W.NObjInit }
	hooks.UnknownCall = func(st *ai.State, at ssa.Instruction) *ai.State { return st.Rebase(assumedHeap, keepLocal) }
	for i := range c.W.Entries {
		e := &c.W.Entries[i]
		cur = e.Name
		if !c.W.CutFns[e.Fn] {
			for fn := range c.W.CutFns {
				fnc := fn
				it.Intercepts[fnc] = func(st *ai.State, at ssa.Instruction, args []ai.Value) (ai.Value, *ai.State) {
					var res ai.Value
					if fnc.Signature.Results().Len() == 1 {
						res = ai.TopOf(it, fnc.Signature.Results().At(0).Type(), nil)
					}
					return res, st.Rebase(assumedHeap, keepLocal)
				}
			}
		}
		it.Hooks = hooks
		c.W.RunEntry(e, it.StateOn(assumedHeap))
		it.Hooks = ai.Hooks{}
		for fn := range c.W.CutFns {
			delete(it.Intercepts, fn)
		}
	}
	// deliberate exits: table closures of undefined opcode rows
	m := c.machine()
	deliberate := map[string]bool{}
	base := oracle.Base()
	for k := 0; k < 256; k++ {
		row := m.Base[k]
		if row != nil && row.Exits && (base[k].Undefined) {
			for _, s := range row.Subs {
				if f, ok := s.(*ai.Func); ok {
					deliberate["table:"+world.FuncID(f)] = true
				}
			}
		}
	}
	// the base-table slot of the prefix byte is never dispatched (lemma S2 of C02: the
	// fetch routine maps byte CB to the second table); its closure stops the process too
	if m.CPU != nil && m.Base[0] != nil && m.Base[0].Slice != nil {
		st := it.StateOn(c.W.Generic)
		for path, v := range st.RawCells(m.CPU) {
			if sl, ok := v.(*ai.Slice); ok && sl.Obj == m.Base[0].Slice.Obj && strings.HasSuffix(path, "[0]") {
				prefix := strings.TrimSuffix(path, "[0]")
				if row, ok := st.RawCells(m.CPU)[prefix+"[203]"].(*ai.Slice); ok {
					if n, isc := row.Len.Const(); isc {
						for i := int64(0); i < n; i++ {
							if f, ok := st.LoadPtr(&ai.Ptr{Obj: row.Obj, Path: row.Path + fmt.Sprintf("[%d]", i)}).(*ai.Func); ok {
								deliberate["table:"+world.FuncID(f)] = true
							}
						}
					}
				}
			}
		}
	}
	// classify
	var list []*c11Site
	for _, s := range sites {
		list = append(list, s)
	}
	sort.Slice(list, func(i, j int) bool { return c.pos(list[i].At) < c.pos(list[j].At) })
	counts := map[string]int{}
	for _, s := range list {
		rule := map[string]string{"index": "P-index", "div": "P-div", "nil": "P-nil", "panic": "P-panic", "exit": "P-exit", "assert": "P-nil", "undecided": "P-panic"}[s.Kind]
		fn := fnName(outerFn(s.At.Parent()))
		if s.Proven {
			r.Ob(rule, true, "", "", "")
			counts["proven"]++
			continue
		}
		if s.Kind == "exit" {
			all := true
			for e := range s.Entries {
				if !deliberate[e] {
					all = false
				}
			}
			if all {
				r.Obligations++
				r.Instances[rule]++
				r.Discharged++
				counts["deliberate"]++
				r.Sample(map[string]interface{}{"site": c.pos(s.At), "class": "deliberate stop (undefined opcode)", "entries": len(s.Entries)})
				continue
			}
		}
		assumed := ""
		for _, a := range c11Assumed {
			if a.Fn == fn && a.Kind == s.Kind {
				assumed = a.Reason
			}
		}
		if s.Kind == "panic" && s.Host && assumed == "" {
			assumed = "reachable only after a host call failed"
		}
		if assumed != "" {
			r.Obligations++
			r.Instances[rule]++
			r.Discharged++
			counts["assumed"]++
			r.Assumed = append(r.Assumed, fmt.Sprintf("%s [%s] %s: %s", c.pos(s.At), s.Kind, trunc(s.Detail, 80), assumed))
			continue
		}
		counts["violation"]++
		r.Ob(rule, false, fmt.Sprintf("%s in %s: %s", s.Kind, fn, siteRole(s.At)), c.pos(s.At),
			fmt.Sprintf("%s; reached from %s", s.Detail, trunc(strings.Join(sortedKeys(s.Entries), ", "), 200)))
	}
	counts["host_side_unproven_not_counted"] = hostSide
	r.Extra["site_classes"] = counts
	r.Extra["sites"] = len(list)
	// '< len(slice)' proofs are valid only if the slice header is never replaced at run time
	for _, k := range it.LenCells() {
		if ref := it.LenCellObject(k); ref == nil || !it.LenProofUsed[ref] {
			continue
		}
		at, stored := storedCells[k]
		where := ""
		if stored {
			where = c.pos(at)
		}
		r.Ob("P-index", !stored, "slice "+c.cellLabel(k)+" is never reassigned after construction", where, "an index proven '< len' of this slice relies on the slice header being fixed; a run-phase store replaces it")
	}
	// the constructor must not return a machine without a controller
	_, _, hasNil := c.carts()
	r.Ob("P-nil", !hasNil, "constructed machine always has a cartridge controller", "", "gameboy.New can return a machine whose controller is nil (the decoder would dereference it on the first access)")
	// the reviewed fact "the OAM object's last-PPU-access cell lies in FE00-FE9F" is re-established on the current
	// tree: (a) every store to it, over every run-phase entry, stores a value in that range; (b) every PPU step
	// that runs in mode 2 - the only time the corruption routines can use it - stores it on every path, so the
	// power-on value 0 is gone after the first PPU step whatever the LCDC flags are
	if oamObj := c.objectOfType("oam.OAM"); oamObj != nil && ai.LeafTypeAt(oamObj.T, ".ppuLastAccess") != nil {
		bad := map[string]string{}
		n := 0
		scanFns := map[string]bool{}
		for _, pf := range c11ParamFacts {
			scanFns[pf.Fn] = true
		}
		c.evalAllEntries(ai.Hooks{
			Store: func(_ *ai.State, at ssa.Instruction, p *ai.Ptr, keys []ai.CellKey, v ai.Value, _ bool) {
				for _, k := range keys {
					if k.Obj == oamObj.ID && k.Path == ".ppuLastAccess" {
						if c.onStack(scanFns) {
							continue // the scan's accesses are decided per schedule state in (b): the entry index follows from the tick
						}
						n++
						if iv, ok := v.(*ai.Int); !ok || iv.Lo < 0xFE00 || iv.Hi > 0xFE9F {
							bad[fmt.Sprintf("stores %s", ai.ValueString(v))] = c.pos(at)
						}
					}
				}
			},
		}, func(*world.Entry, *ai.State) {})
		for k, pos := range bad {
			r.Ob("P-index", false, "last PPU access cell: "+k, pos, "the OAM-bug routines compute a row index from this cell; a value outside FE00-FE9F indexes the 160-byte OAM array out of range")
		}
		r.Ob("P-index", n > 0, "stores to the last-PPU-access cell examined over every run-phase entry", "", fmt.Sprintf("%d stores", n))
		pm := c.ppuModel()
		if len(pm.Errors) > 0 {
			r.Fail("unresolved", "P-index", "PPU model", "", strings.Join(pm.Errors, "; "))
		} else {
			var miss []string
			facts := pm.scanFacts()
			for _, f := range facts {
				if !(f.OK && f.LastStored && f.LastAccess != nil && f.LastAccess.Lo >= 0xFE00 && f.LastAccess.Hi <= 0xFE9F) && len(miss) < 4 {
					miss = append(miss, fmt.Sprintf("tick %d (first line %v): afterwards %s", f.From.T, f.From.FirstLine, ai.ValueString(f.LastAccess)))
				}
			}
			r.Ob("P-index", len(miss) == 0 && len(facts) > 0, "every PPU step in mode 2 stores the last-PPU-access cell, whatever the LCDC flags are", firstPos(c, pm.StepFn), fmt.Sprintf("%d mode-2 steps; steps that may leave the cell as it was (0 after power-on, which the OAM-bug routines turn into row 8128): %v", len(facts), miss))
		}
	}
	// the other reviewed facts are re-established the same way instead of being taken on trust:
	// (i) the scan routine's parameter stays in 0..19 and its entry numbers in 0..39: per schedule state
	if pm := c.ppuModel(); len(pm.Errors) == 0 {
		var badIdx []string
		for _, f := range pm.scanFacts() {
			for _, k := range f.Entries {
				if (k < 0 || k > 39) && len(badIdx) < 4 {
					badIdx = append(badIdx, fmt.Sprintf("tick %d: entry %d", f.From.T, k))
				}
			}
			for _, k := range f.OAMIdx {
				if (k < 0 || k > 159) && len(badIdx) < 4 {
					badIdx = append(badIdx, fmt.Sprintf("tick %d: OAM byte %d", f.From.T, k))
				}
			}
		}
		r.Ob("P-index", len(badIdx) == 0, "the OAM scan touches entries 0-39 and OAM bytes 0-159 only, in every mode-2 step of the schedule", firstPos(c, pm.StepFn), strings.Join(badIdx, "; "))
	}
	// (ii) the DMA cycle counter stays in 0..161: the per-cycle table and the restart rule of C16
	adopt(r, c.sibling("C16"), map[string]string{"D-table": "P-index", "D-start": "P-index"}, "the OAM array is indexed by the transfer cycle: a counter that can leave 0..161 indexes it out of range")
	// (iii) every dispatch row entry is a function (the machine-cycle step calls row[cycle] without a nil test)
	{
		m := c.machine()
		nilEntries := 0
		total := 0
		for page := 0; page < 2; page++ {
			for k := 0; k < 256; k++ {
				row := m.Base[k]
				if page == 1 {
					row = m.CB[k]
				}
				if row == nil || !row.FetchOK {
					continue
				}
				for _, sub := range row.Subs {
					total++
					if _, isF := sub.(*ai.Func); !isF {
						nilEntries++
					}
				}
			}
		}
		r.Ob("P-nil", nilEntries == 0 && total > 1000, "every entry of every dispatch row is a function", "", fmt.Sprintf("%d entries, %d not a resolved function (the machine-cycle step calls row[cycle] without a nil test)", total, nilEntries))
	}
	// the reviewed assumption "row[cycle] is in range" rests on the scheduler lemmas of C02: they
	// are re-established here on the current tree instead of being taken on trust
	{
		sub := checkC02(c)
		var broken []string
		for _, f := range sub.Findings {
			if strings.HasPrefix(f.Rule, "S") || f.Rule == "L-cond" || f.Rule == "L-int" {
				broken = append(broken, f.Construct)
			}
		}
		sort.Strings(broken)
		if len(broken) > 4 {
			broken = append(broken[:4], fmt.Sprintf("... %d more", len(broken)-4))
		}
		r.Ob("P-index", len(broken) == 0, "scheduler lemmas that keep the cycle counter inside the current row", "", "row[cycle] in the machine-cycle step is in range only if the fetch routine resets the cycle counter and installs the right early-exit predicate for every row it installs; failing lemmas: "+strings.Join(broken, "; "))
		r.Extra["scheduler_lemmas_checked"] = sub.Instances
	}
	return r
}

func trunc(s string, n int) string {
	if len(s) > n {
		return s[:n] + "..."
	}
	return s
}

// siteRole describes an instruction without line numbers: the expression it indexes / divides.
func siteRole(at ssa.Instruction) string {
	switch x := at.(type) {
	case *ssa.IndexAddr:
		return "element of " + valueRole(x.X)
	case *ssa.Index:
		return "element of " + valueRole(x.X)
	case *ssa.Slice:
		return "slice of " + valueRole(x.X)
	case *ssa.BinOp:
		return x.Op.String() + " by " + valueRole(x.Y)
	case *ssa.Call:
		if x.Call.IsInvoke() {
			return "call of method " + x.Call.Method.Name() + " on " + valueRole(x.Call.Value)
		}
		return "call through " + valueRole(x.Call.Value)
	case *ssa.UnOp:
		return "load through " + valueRole(x.X)
	case *ssa.Store:
		return "store through " + valueRole(x.Addr)
	case *ssa.FieldAddr:
		return "field of " + valueRole(x.X)
	case *ssa.Panic:
		return "panic"
	}
	return fmt.Sprintf("%T", at)
}

func valueRole(v ssa.Value) string {
	switch x := v.(type) {
	case *ssa.UnOp:
		return valueRole(x.X)
	case *ssa.FieldAddr:
		return valueRole(x.X) + "." + fieldName(x)
	case *ssa.IndexAddr:
		return valueRole(x.X) + "[...]"
	case *ssa.Parameter:
		return x.Name()
	case *ssa.Global:
		return x.Name()
	case *ssa.Const:
		return x.Value.String()
	case *ssa.Convert:
		return valueRole(x.X)
	case *ssa.Call:
		if f, ok := x.Call.Value.(*ssa.Function); ok {
			return f.Name() + "(...)"
		}
	case *ssa.BinOp:
		return "(" + valueRole(x.X) + x.Op.String() + valueRole(x.Y) + ")"
	case *ssa.FreeVar:
		return x.Name()
	case *ssa.Phi:
		return x.Comment
	case *ssa.Alloc:
		return x.Comment
	}
	return v.Name()
}

// isHostSidePkg: the function's package imports a non-standard, non-repository
// library (the stub-replaced GUI/audio bindings): it is glue driven by the host.
func isHostSidePkg(c *Ctx, fn *ssa.Function) bool {
	p := pkgOfFn(fn)
	if p == nil {
		return false
	}
	for _, imp := range p.Imports() {
		path := imp.Path()
		if world.IsRepo(imp) {
			continue
		}
		if strings.Contains(path, ".") { // module path with a host name: third-party library
			return true
		}
	}
	return false
}
