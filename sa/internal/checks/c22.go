package checks

import (
	"fmt"
	"go/types"
	"sort"
	"strings"

	"golang.org/x/tools/go/ssa"

	"verif/sa/internal/ai"
	"verif/sa/internal/report"
	"verif/sa/internal/world"
)

func init() {
	register("C22", checkC22)
}

// documented key matrix: name -> (group, bit); group 0 = directions, 1 = buttons
var joypKeys = []struct {
	Name     string
	Group    int
	Bit      int
	Opposite string
}{
	{"Right", 0, 0, "Left"}, {"Left", 0, 1, "Right"}, {"Up", 0, 2, "Down"}, {"Down", 0, 3, "Up"},
	{"A", 1, 0, ""}, {"B", 1, 1, ""}, {"Select", 1, 2, ""}, {"Start", 1, 3, ""},
}

func checkC22(c *Ctx) *report.Result {
	r := report.New("C22", "other", "write-then-read composition through the address decoder in a bit-provenance domain, case split on the two select bits and on the 16 values of one key group; decision table of the key-event routine; ownership of the key-state cells")
	r.Explanation = "JOYP is a pure function of three bytes of state (last written select byte, direction keys, button keys). The check composes Write(FF00,v) with Read(FF00) on the abstract machine for the four select cases with every other bit symbolic: bits 7-6 must be constant 1, bits 5-4 bit-for-bit the written ones, and bits 3-0 must be, bit for bit, the direction byte (directions selected), the button byte (buttons selected), constant 1 (none selected) or the AND of both (both selected; decided by fixing the direction nibble to each of its 16 values and requiring bit i = button bit i where the direction bit is 1 and constant 0 where it is 0). The key-event routine is evaluated for each of the 8 keys x pressed/released: it must clear/set exactly the documented bit of the documented group byte, leave every other bit of machine state unchanged, and a pressed direction must set its opposite's bit. With the initial key bytes (checked: no opposite pair pressed) this makes 'opposites never both pressed' inductive. Finally no other run-phase entry stores into the three bytes."
	r.Rule("J-high", "FF00 reads 1 in bits 7 and 6 in every select case")
	r.Rule("J-select", "bits 5-4 read back bit-for-bit the last written bits 5-4")
	r.Rule("J-nibble", "bits 3-0: direction byte / button byte / AND of both / 1111 according to the selected groups (bit provenance; the AND case by exhaustive case split on one operand's nibble)")
	r.Rule("J-press", "key event table: each of the 8 keys clears (pressed) or sets (released) exactly its documented bit in its group's byte; pressing a direction also sets the opposite direction's bit; nothing else changes")
	r.Rule("J-owner", "the select byte is stored only by the FF00 write, the key bytes only by the key-event routine; initially no key is held")
	r.NotDecided = []string{"the joypad interrupt (not part of the property)"}
	r.TrustedBase = []string{"documented key matrix (bit 0 Right/A, 1 Left/B, 2 Up/Select, 3 Down/Start; 0 = pressed)", "go/ssa, abstract interpreter (bit provenance, constant-branch pruning)"}
	it := c.W.It

	ctl := c.objectOfType("controller.Controller")
	if ctl == nil {
		r.Fail("unresolved", "J-owner", "controller object", "", "the machine has no unique controller object")
		return r
	}
	// ---- roles of the cells
	wev := c.evalDecoder(true, 0xFF00, 0xFF00, nil, nil)
	var selPath string
	for _, k := range c.storedCellsOf(wev, ctl) {
		if selPath != "" {
			r.Fail("unresolved", "J-select", "FF00 write", "", "the FF00 write stores more than one controller cell: "+strings.Join(cellsStored(wev), ","))
			return r
		}
		selPath = k
	}
	if selPath == "" {
		r.Fail("unresolved", "J-select", "FF00 write", "", "the FF00 write stores no controller cell")
		return r
	}
	// key-event routine: the controller method taking (named integer, bool)
	var keyFn *ssa.Function
	var keyT types.Type
	for _, f := range c.methodsOfObject(ctl) {
		if len(f.Params) == 3 {
			_, isNamed := f.Params[1].Type().(*types.Named)
			b, isBool := f.Params[2].Type().Underlying().(*types.Basic)
			if isNamed && isBool && b.Kind() == types.Bool {
				keyFn, keyT = f, f.Params[1].Type()
			}
		}
	}
	if keyFn == nil {
		r.Fail("unresolved", "J-press", "key event routine", "", "no controller method with parameters (key, pressed)")
		return r
	}
	keyConst := constsOfType(keyT)
	wKey, sKey := ai.TypeShape(keyT)
	groupPath := [2]string{}
	for _, k := range joypKeys {
		kv, ok := keyConst[k.Name]
		if !ok {
			r.Fail("unresolved", "J-press", "key "+k.Name, "", "no constant of the key type with this name")
			return r
		}
		ev := c.evalCall(nil, keyFn, []ai.Value{ptrTo(ctl), ai.NewConstInt(wKey, sKey, kv), ai.NewConstBool(true)}, nil, nil)
		cells := c.storedCellsOf(ev, ctl)
		if len(cells) != 1 {
			r.Fail("violation", "J-press", "key "+k.Name+" pressed", firstPos(c, keyFn), fmt.Sprintf("stores %v; documented: exactly its group's key byte", cells))
			return r
		}
		if groupPath[k.Group] == "" {
			groupPath[k.Group] = cells[0]
		} else if groupPath[k.Group] != cells[0] {
			r.Ob("J-press", false, "key "+k.Name+" group", firstPos(c, keyFn), fmt.Sprintf("stored in %s but its group's other keys use %s", cells[0], groupPath[k.Group]))
		}
	}
	if groupPath[0] == groupPath[1] || groupPath[0] == selPath || groupPath[1] == selPath {
		r.Fail("violation", "J-press", "key groups", firstPos(c, keyFn), fmt.Sprintf("directions in %s, buttons in %s, select in %s: must be three different bytes", groupPath[0], groupPath[1], selPath))
		return r
	}
	dirPath, btnPath := groupPath[0], groupPath[1]

	// ---- read composition
	vs := wev.ValSym
	for sel := 0; sel < 4; sel++ {
		// sel bit0 = written bit 4 (0 selects directions), bit1 = written bit 5 (0 selects buttons)
		v := ai.NewSymInt(8, false, vs)
		v = ai.WithBit(v, 4, sel&1 == 1)
		v = ai.WithBit(v, 5, sel&2 == 2)
		caseName := map[int]string{0: "both groups selected", 1: "buttons selected", 2: "directions selected", 3: "no group selected"}[sel]
		w := c.evalDecoder(true, 0xFF00, 0xFF00, nil, v)
		if w.Post == nil || len(w.Undecided) > 0 {
			r.Fail("undecided", "J-select", "FF00 write, "+caseName, "", strings.Join(w.Undecided, "; "))
			continue
		}
		var dirS, btnS ai.Sym
		rd := c.evalDecoderFrom(w.Post, false, 0xFF00, 0xFF00, func(st *ai.State) {
			dirS = c.symCell(st, ctl, dirPath)
			btnS = c.symCell(st, ctl, btnPath)
		}, nil)
		where := ""
		if len(rd.Direct) > 0 {
			where = firstPos(c, rd.Direct[0])
		}
		res, _ := rd.Result.(*ai.Int)
		if res == nil || len(rd.Undecided) > 0 {
			r.Fail("undecided", "J-nibble", "FF00 read, "+caseName, where, "result "+ai.ValueString(rd.Result)+" "+strings.Join(rd.Undecided, "; "))
			continue
		}
		r.Ob("J-high", res.Bits[7].K == ai.BOne && res.Bits[6].K == ai.BOne, "FF00 read bits 7-6, "+caseName, where, "reads "+bitsString(res.Bits)+"; documented 11......")
		want4, want5 := ai.BZero, ai.BZero
		if sel&1 == 1 {
			want4 = ai.BOne
		}
		if sel&2 == 2 {
			want5 = ai.BOne
		}
		r.Ob("J-select", res.Bits[4].K == want4 && res.Bits[5].K == want5, "FF00 read bits 5-4, "+caseName, where, fmt.Sprintf("reads %s after writing bit5=%d bit4=%d", bitsString(res.Bits), sel>>1&1, sel&1))
		r.Sample(map[string]interface{}{"case": caseName, "read_bits_msb_first": bitsString(res.Bits), "direction_symbol": it.SymName(dirS), "button_symbol": it.SymName(btnS)})
		switch sel {
		case 3:
			ok := true
			for i := 0; i < 4; i++ {
				ok = ok && res.Bits[i].K == ai.BOne
			}
			r.Ob("J-nibble", ok, "FF00 read bits 3-0, "+caseName, where, "reads "+bitsString(res.Bits)+"; documented ....1111")
		case 2, 1:
			s, other := dirS, btnS
			if sel == 1 {
				s, other = btnS, dirS
			}
			ok := true
			for i := 0; i < 4; i++ {
				ok = ok && isSrcBit(res.Bits[i], s, i)
			}
			r.Ob("J-nibble", ok && !res.D.Has(other), "FF00 read bits 3-0, "+caseName, where, fmt.Sprintf("reads %s (depends on the other group: %v); documented: bit i = bit i of the selected group's key byte", bitsString(res.Bits), res.D.Has(other)))
		case 0:
			// AND: fix the direction nibble to each of its 16 values, the button byte stays symbolic (and vice versa)
			for _, fixDir := range []bool{true, false} {
				bad := []string{}
				for n := 0; n < 16; n++ {
					var symS ai.Sym
					rd2 := c.evalDecoderFrom(w.Post, false, 0xFF00, 0xFF00, func(st *ai.State) {
						d := c.symCell(st, ctl, dirPath)
						b := c.symCell(st, ctl, btnPath)
						fixP, fixS := dirPath, d
						symS = b
						if !fixDir {
							fixP, fixS = btnPath, b
							symS = d
						}
						x := ai.NewSymInt(8, false, fixS)
						for i := 0; i < 4; i++ {
							x = ai.WithBit(x, i, n>>uint(i)&1 == 1)
						}
						st.SetCell(ctl, fixP, x)
					}, nil)
					res2, _ := rd2.Result.(*ai.Int)
					if res2 == nil {
						bad = append(bad, fmt.Sprintf("nibble %X: result %s", n, ai.ValueString(rd2.Result)))
						continue
					}
					for i := 0; i < 4; i++ {
						b := res2.Bits[i]
						if n>>uint(i)&1 == 1 {
							if !isSrcBit(b, symS, i) {
								bad = append(bad, fmt.Sprintf("fixed nibble %X: bit %d reads %s, documented: the other group's bit %d (key of the fixed group not held)", n, i, b.String(), i))
							}
						} else if b.K != ai.BZero {
							bad = append(bad, fmt.Sprintf("fixed nibble %X: bit %d reads %s, documented 0 (a held key of a selected group pulls the line low)", n, i, b.String()))
						}
					}
				}
				which := "direction"
				if !fixDir {
					which = "button"
				}
				if len(bad) > 3 {
					bad = append(bad[:3], fmt.Sprintf("... %d more", len(bad)-3))
				}
				r.Ob("J-nibble", len(bad) == 0, "FF00 read bits 3-0, both groups selected ("+which+" nibble enumerated)", where, strings.Join(bad, "; "))
			}
		}
	}

	// ---- power-on: the read before any FF00 write follows the same rules for the initial select byte
	{
		init0 := c.cellInt(it.StateOn(c.W.InitHeap), ctl, selPath)
		iv, isc := constOf(init0)
		if !isc {
			r.Fail("undecided", "J-nibble", "power-on select byte", "", "initial value "+ai.ValueString(init0))
		} else {
			dirSel, btnSel := iv&0x10 == 0, iv&0x20 == 0
			for _, fixDir := range []bool{true, false} {
				var dS, bS ai.Sym
				rd := c.evalDecoder(false, 0xFF00, 0xFF00, func(st *ai.State) {
					st.SetCell(ctl, selPath, ai.NewConstInt(8, false, iv))
					dS = c.symCell(st, ctl, dirPath)
					bS = c.symCell(st, ctl, btnPath)
					fixP, fixS := dirPath, dS
					if !fixDir {
						fixP, fixS = btnPath, bS
					}
					x := ai.NewSymInt(8, false, fixS)
					for i := 0; i < 4; i++ {
						x = ai.WithBit(x, i, true) // no key of this group held
					}
					st.SetCell(ctl, fixP, x)
				}, nil)
				res, _ := rd.Result.(*ai.Int)
				ok := res != nil && res.Bits[7].K == ai.BOne && res.Bits[6].K == ai.BOne
				otherSel, otherS := btnSel, bS
				if !fixDir {
					otherSel, otherS = dirSel, dS
				}
				for i := 0; ok && i < 4; i++ {
					if otherSel {
						ok = isSrcBit(res.Bits[i], otherS, i)
					} else {
						ok = res.Bits[i].K == ai.BOne
					}
				}
				which := map[bool]string{true: "no direction held", false: "no button held"}[fixDir]
				r.Ob("J-nibble", ok, "FF00 read before any write (power-on select byte), "+which, "", fmt.Sprintf("initial select byte %02X (directions selected %v, buttons selected %v): reads %s", iv, dirSel, btnSel, ai.ValueString(rd.Result)))
			}
		}
	}

	// ---- key event table
	for _, k := range joypKeys {
		for _, pressed := range []bool{true, false} {
			var dS, bS, sS ai.Sym
			ev := c.evalCall(nil, keyFn, []ai.Value{ptrTo(ctl), ai.NewConstInt(wKey, sKey, keyConst[k.Name]), ai.NewConstBool(pressed)}, nil, func(st *ai.State) {
				dS = c.symCell(st, ctl, dirPath)
				bS = c.symCell(st, ctl, btnPath)
				sS = c.symCell(st, ctl, selPath)
			})
			name := fmt.Sprintf("key %s %s", k.Name, map[bool]string{true: "pressed", false: "released"}[pressed])
			if ev.Post == nil || len(ev.Undecided) > 0 {
				r.Fail("undecided", "J-press", name, firstPos(c, keyFn), strings.Join(ev.Undecided, "; "))
				continue
			}
			bad := []string{}
			oppBit := -1
			for _, o := range joypKeys {
				if o.Name == k.Opposite {
					oppBit = o.Bit
				}
			}
			for g, path := range []string{dirPath, btnPath} {
				old := []ai.Sym{dS, bS}[g]
				cur := c.cellInt(ev.Post, ctl, path)
				if cur == nil {
					bad = append(bad, path+" is not an integer afterwards")
					continue
				}
				for i := 0; i < 8; i++ {
					b := cur.Bits[i]
					switch {
					case g == k.Group && i == k.Bit:
						want := ai.BOne
						if pressed {
							want = ai.BZero
						}
						if b.K != want {
							bad = append(bad, fmt.Sprintf("%s bit %d becomes %s, documented %d", path, i, b.String(), want))
						}
					case g == k.Group && pressed && i == oppBit:
						if b.K != ai.BOne {
							bad = append(bad, fmt.Sprintf("%s bit %d (opposite direction %s) becomes %s, documented 1 (released)", path, i, k.Opposite, b.String()))
						}
					default:
						if !isSrcBit(b, old, i) {
							bad = append(bad, fmt.Sprintf("%s bit %d becomes %s, documented unchanged", path, i, b.String()))
						}
					}
				}
			}
			if cur := c.cellInt(ev.Post, ctl, selPath); cur != nil {
				for i := 0; i < 8; i++ {
					if !isSrcBit(cur.Bits[i], sS, i) {
						bad = append(bad, fmt.Sprintf("select byte bit %d changes", i))
					}
				}
			}
			if out := storedOutside(ev, c.cellLabel(ai.CellKey{Obj: ctl.ID, Path: ""})); len(out) > 0 {
				bad = append(bad, fmt.Sprintf("also stores %v", out))
			}
			if len(bad) > 3 {
				bad = append(bad[:3], fmt.Sprintf("... %d more", len(bad)-3))
			}
			r.Ob("J-press", len(bad) == 0, name, firstPos(c, keyFn), strings.Join(bad, "; "))
			if k.Name == "Left" {
				r.Sample(map[string]interface{}{"event": name, "direction_byte_after": bitsString(c.cellInt(ev.Post, ctl, dirPath).Bits), "button_byte_after": bitsString(c.cellInt(ev.Post, ctl, btnPath).Bits)})
			}
		}
	}

	// ---- ownership and initial state
	initSt := it.StateOn(c.W.InitHeap)
	for g, path := range []string{dirPath, btnPath} {
		v := c.cellInt(initSt, ctl, path)
		ok := v != nil
		if ok {
			for i := 0; i < 4; i++ {
				ok = ok && v.Bits[i].K == ai.BOne
			}
		}
		r.Ob("J-owner", ok, fmt.Sprintf("initial key byte of group %d: no key held", g), "", "initial value "+ai.ValueString(v))
	}
	writers := map[string]map[string]bool{}
	c.evalAllEntries(ai.Hooks{
		Store: func(_ *ai.State, at ssa.Instruction, p *ai.Ptr, keys []ai.CellKey, _ ai.Value, _ bool) {
			for _, k := range keys {
				if k.Obj == ctl.ID {
					if writers[k.Path] == nil {
						writers[k.Path] = map[string]bool{}
					}
					// attribute the store to the routine on whose behalf it is made: the key-event routine or
					// the FF00 write handler if one of them is on the call stack, else the storing function
					who := fnName(outerFn(at.Parent()))
					for _, f := range it.Stack {
						if f == keyFn || (len(wev.Callees) > 0 && f == wev.Callees[len(wev.Callees)-1]) {
							who = fnName(f)
						}
					}
					writers[k.Path][who] = true
				}
			}
		},
	}, func(*world.Entry, *ai.State) {})
	selWriter := ""
	if len(wev.Callees) > 0 {
		selWriter = fnName(wev.Callees[len(wev.Callees)-1])
	}
	for _, path := range []string{selPath, dirPath, btnPath} {
		var ws []string
		for w := range writers[path] {
			ws = append(ws, w)
		}
		sort.Strings(ws)
		want := fnName(keyFn)
		if path == selPath {
			want = selWriter
		}
		r.Ob("J-owner", len(ws) == 1 && ws[0] == want, "writers of controller"+path, "", fmt.Sprintf("stored by %v; documented owner %s", ws, want))
	}
	r.Rule("J-own", "the select and key bytes a controller reports are its own: nothing in package controller that New or the run phase writes is package-level (rule G2 of C25 restricted to package controller)")
	adopt(r, c.sibling("C25"), map[string]string{"G2": "J-own"}, "a controller shared between machines reports another machine's held keys and select bits", func(f report.Finding) bool {
		return strings.Contains(f.Construct, "controller.") || strings.Contains(f.Where, "gameboy/controller/")
	})
	r.Rule("J-cpu", "the select bits are whatever the program wrote last: every CPU row performs exactly its documented memory writes (S-cpu of C23 re-stated), so no instruction writes FF00 behind the program's back")
	adopt(r, c.sibling("C23"), map[string]string{"S-cpu": "J-cpu"}, "an instruction that writes to memory on its own account can overwrite the select bits the program wrote")
	return r
}

// storedCellsOf lists the paths of o's cells an evaluation stored to.
func (c *Ctx) storedCellsOf(ev *DecEval, o *ai.Object) []string {
	prefix := c.cellLabel(ai.CellKey{Obj: o.ID, Path: ""})
	var out []string
	for k := range ev.Stores {
		if strings.HasPrefix(k, prefix) {
			out = append(out, strings.TrimPrefix(k, prefix))
		}
	}
	sort.Strings(out)
	return out
}
