package checks

import (
	"fmt"

	"golang.org/x/tools/go/ssa"

	"verif/sa/internal/ai"
)

// DebugEval evaluates pkg.fn on unconstrained arguments from the post-package-init heap.
func DebugEval(c *Ctx, pkg, name string) []string {
	fn := c.P.Func(pkg, name)
	if fn == nil {
		return []string{"not found"}
	}
	it := c.W.It
	var out []string
	it.Hooks = ai.Hooks{Undecided: func(_ *ai.State, at ssa.Instruction, what string) {
		out = append(out, "undecided: "+what+" @ "+c.pos(at))
	}}
	st := it.StateOn(c.W.PkgInitHeap)
	var args []ai.Value
	for i, p := range fn.Params {
		args = append(args, c.W.ParamValue(fn, i, p.Type()))
	}
	res, post := it.CallFunction(st, fn, args, nil)
	it.Hooks = ai.Hooks{}
	out = append(out, fmt.Sprintf("result: %s (post nil: %v)", ai.ValueString(res), post == nil))
	return out
}
