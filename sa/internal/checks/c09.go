package checks

import (
	"fmt"
	"go/token"
	"sort"
	"strings"

	"golang.org/x/tools/go/ssa"

	"verif/sa/internal/ai"
	"verif/sa/internal/report"
)

func init() {
	register("C09", checkC09)
	register("C10", checkC10)
}

var ramSizes = []int64{1, 4, 8, 16}

// ramStorage returns the backing object of the RAM alternative with n banks.
func (e *cartEnv) ramStorage(n int64) *ai.Object {
	for _, ram := range e.rams {
		if k, ok := ram.Len.Const(); ok && k == n {
			return ram.Obj
		}
	}
	return nil
}

// enableCell finds the boolean cell of the controller that gates the RAM window:
// the one whose falsity makes a read of A000-BFFF the constant FF.
func (c *Ctx) enableCell(env *cartEnv, banks int64) string {
	for _, p := range c.boolCellsOf(env.ct.Obj) {
		ev := c.evalDecoder(false, 0xA000, 0xBFFF, env.setup(8, banks, func(st *ai.State) { st.SetCell(env.ct.Obj, p, ai.NewConstBool(false)) }), nil)
		if cv, isc := constOf(ev.Result); isc && cv == 0xFF {
			ev2 := c.evalDecoder(false, 0xA000, 0xBFFF, env.setup(8, banks, func(st *ai.State) { st.SetCell(env.ct.Obj, p, ai.NewConstBool(true)) }), nil)
			if _, isc2 := constOf(ev2.Result); !isc2 {
				return p
			}
		}
	}
	return ""
}

func checkC09(c *Ctx) *report.Result {
	r := report.New("C09", "other", "abstract interpretation of the decoder per controller and per RAM size: enable decode by case split on the low nibble, gated window by fixing the enable flag, bank index by bit provenance of the composed control writes reduced modulo a power-of-two bank count, store/load of the same element with the written byte bit for bit, write footprints of the control registers; decision table of the RAM allocator")
	r.Explanation = "Per controller with RAM (MBC1, MBC2, MBC3, MBC5) and per declared RAM size (1, 4, 8, 16 banks): (enable) a write to the enable range stores 'enabled' = (value & 0F == 0A) [16 low-nibble values enumerated, high nibble symbolic]; (gate) with the flag clear a read of A000-BFFF is the constant FF and a write stores nothing; with it set a read loads, and a write stores the written byte bit for bit into, element ram[bank][addr-A000] of one storage array, in bounds; (bank) the bank index equals bit for bit the documented bank register reduced modulo the bank count (MBC1: BANK2 in mode 1 else 0; MBC3: the low bits of the 4000-5FFF register for values 0-7; MBC5: its 4 bits), so distinct banks are distinct array rows and keep their contents; (retain) no write to 0000-7FFF stores into RAM storage, so enable/disable and bank switches keep contents; (dump) the dump routine loads only from RAM storage and stores nothing; (mbc2) the MBC2 window indexes by the low 9 address bits on both sides and every read has bits 7-4 known 1; (none) the ROM-only controller reads FF in A000-BFFF and ignores writes; (alloc) the allocator returns 1/1/1/4/16/8 banks for size codes 0/1/2/3/4/5 (one bank when none is declared)."
	r.Rule("R-enable", "RAM enable: enabled' == (value & 0x0F == 0x0A) for all 16 low nibbles, in the documented address range only")
	r.Rule("R-gate", "disabled: A000-BFFF reads constant FF and writes store nothing; enabled: element ram[bank][addr-0xA000], in bounds, written byte stored bit for bit")
	r.Rule("R-bank", "bank index = documented register bits reduced modulo the bank count, for every RAM size")
	r.Rule("R-retain", "no write to 0000-7FFF stores into RAM storage")
	r.Rule("R-dump", "the dump routine reads only RAM storage (and the controller's own fields) and stores nothing")
	r.Rule("R-mbc2", "MBC2: index = low 9 bits of the address for reads and writes; reads have bits 7-4 known 1 and bits 3-0 loaded; the low nibble of the written byte is stored")
	r.Rule("R-none", "ROM only: A000-BFFF reads FF, writes store nothing")
	r.Rule("R-alloc", "allocator: size codes 0,1,2,3,4,5 -> 1,1,1,4,16,8 banks of 8 KiB")
	r.NotDecided = []string{"equality of contents over long histories (follows from R-gate/R-bank/R-retain and array semantics; not separately proven)", "battery-backed persistence across runs (not implemented by the emulator)"}
	r.TrustedBase = []string{"documented controller table", "go/ssa, abstract interpreter (bit provenance; x % 2^k keeps the low k bits)"}
	it := c.W.It
	envs, _ := c.cartEnvs()
	newV := func(tag string) (*ai.Int, ai.Sym) {
		s := it.NewSym("written:"+tag, ai.CellKey{})
		return ai.NewSymInt(8, false, s), s
	}
	hpos := func(ev *DecEval) string {
		if ev != nil && len(ev.Callees) > 0 {
			return firstPos(c, ev.Callees[len(ev.Callees)-1])
		}
		return ""
	}
	src := func(s ai.Sym, j int) bitSpec { return bitSpec{Const: -1, Sym: s, J: j} }
	k0 := bitSpec{Const: 0}
	reduce := func(sp []bitSpec, banks int64) []bitSpec {
		n := log2(banks)
		out := make([]bitSpec, len(sp))
		for i := range sp {
			if i < n {
				out[i] = sp[i]
			} else {
				out[i] = k0
			}
		}
		return out
	}

	// ---- ROM only
	if env := envs["none"]; env != nil {
		rd := c.evalDecoder(false, 0xA000, 0xBFFF, env.setup(2, 0, nil), nil)
		cv, isc := constOf(rd.Result)
		r.Ob("R-none", isc && cv == 0xFF && len(rd.Panics) == 0, "ROM only: A000-BFFF reads FF", hpos(rd), "reads "+ai.ValueString(rd.Result))
		w := c.evalDecoder(true, 0xA000, 0xBFFF, env.setup(2, 0, nil), nil)
		r.Ob("R-none", len(w.Stores) == 0, "ROM only: A000-BFFF writes are ignored", hpos(w), fmt.Sprintf("stores %v", keysOf(w.Stores)))
	}

	for _, name := range []string{"mbc1", "mbc3", "mbc5"} {
		env := envs[name]
		if env == nil || len(env.rams) == 0 {
			r.Fail("unresolved", "R-gate", "controller "+name, "", "no such controller with RAM in the constructed machine")
			continue
		}
		en := c.enableCell(env, 1)
		if en == "" {
			r.Fail("unresolved", "R-gate", name+" enable flag", "", "no boolean cell of the controller gates the RAM window")
			continue
		}
		setEn := func(on bool) func(*ai.State) {
			return func(st *ai.State) { st.SetCell(env.ct.Obj, en, ai.NewConstBool(on)) }
		}
		// R-enable
		{
			var bad []string
			for n := 0; n < 16; n++ {
				v, _ := newV("ramg")
				for i := 0; i < 4; i++ {
					v = ai.WithBit(v, i, n>>uint(i)&1 == 1)
				}
				w := c.evalDecoder(true, 0x0000, 0x1FFF, env.setup(8, 4, nil), v)
				b, ok := boolConst(c.cellBool(w.Post, env.ct.Obj, en))
				if !ok || b != (n == 0x0A) {
					bad = append(bad, fmt.Sprintf("low nibble %X: enabled afterwards %v/%v, documented %v", n, b, ok, n == 0x0A))
				}
			}
			r.Ob("R-enable", len(bad) == 0, name+": enable decode over the 16 low nibbles at 0000-1FFF", "", strings.Join(bad, "; "))
			// no other range of 2000-7FFF touches the flag
			for _, iv := range c.elementaryIntervals() {
				if iv[0] < 0x2000 || iv[1] > 0x7FFF {
					continue
				}
				w := c.evalDecoder(true, iv[0], iv[1], env.setup(8, 4, nil), nil)
				touched := false
				for _, p := range c.storedCellsOf(w, env.ct.Obj) {
					if p == en {
						touched = true
					}
				}
				r.Ob("R-enable", !touched, fmt.Sprintf("%s: write %04X-%04X leaves the enable flag alone", name, iv[0], iv[1]), hpos(w), "")
			}
		}
		for _, banks := range ramSizes {
			storage := env.ramStorage(banks)
			if storage == nil {
				r.Fail("unresolved", "R-bank", fmt.Sprintf("%s RAM with %d banks", name, banks), "", "the allocator offers no RAM of that size")
				continue
			}
			sz := fmt.Sprintf("%s, %d RAM banks", name, banks)
			// gate
			rd := c.evalDecoder(false, 0xA000, 0xBFFF, env.setup(8, banks, setEn(false)), nil)
			cv, isc := constOf(rd.Result)
			r.Ob("R-gate", isc && cv == 0xFF, sz+": disabled window reads FF", hpos(rd), "reads "+ai.ValueString(rd.Result))
			w := c.evalDecoder(true, 0xA000, 0xBFFF, env.setup(8, banks, setEn(false)), nil)
			var arr []string
			for k := range w.Stores {
				if strings.Contains(k, "[") {
					arr = append(arr, k)
				}
			}
			r.Ob("R-gate", len(arr) == 0, sz+": disabled window ignores writes", hpos(w), fmt.Sprintf("array cells stored: %v", arr))

			// bank register composition
			type wr struct {
				addr int
				v    ai.Value
			}
			var cases []struct {
				tag  string
				ws   []wr
				want []bitSpec
			}
			switch name {
			case "mbc1":
				for _, mode := range []int{0, 1} {
					v2, s2 := newV("bank2")
					vm := ai.WithBit(ai.NewSymInt(8, false, it.NewSym("written:mode", ai.CellKey{})), 0, mode == 1)
					want := []bitSpec{k0, k0}
					if mode == 1 {
						want = []bitSpec{src(s2, 0), src(s2, 1)}
					}
					for _, ord := range [][]int{{0, 1}, {1, 0}} {
						ws2 := []wr{{0x4000, v2}, {0x6000, vm}}
						cases = append(cases, struct {
							tag  string
							ws   []wr
							want []bitSpec
						}{fmt.Sprintf("mode %d, order %v", mode, ord), []wr{ws2[ord[0]], ws2[ord[1]]}, want})
					}
				}
			case "mbc3":
				v, s := newV("ramb")
				v = ai.WithBit(v, 3, false) // values 0-7 select RAM banks (8-C select clock registers: C10)
				cases = append(cases, struct {
					tag  string
					ws   []wr
					want []bitSpec
				}{"register 4000-5FFF, values 0-7", []wr{{0x4000, v}}, []bitSpec{src(s, 0), src(s, 1), src(s, 2)}})
			case "mbc5":
				v, s := newV("ramb")
				cases = append(cases, struct {
					tag  string
					ws   []wr
					want []bitSpec
				}{"register 4000-5FFF", []wr{{0x4000, v}}, []bitSpec{src(s, 0), src(s, 1), src(s, 2), src(s, 3)}})
			}
			// every case twice: with the enable write last (controllers that cache the RAM bank recompute it then), and
			// with the gate closed and reopened after the bank was selected (the selection is independent of the gate)
			for _, cs0 := range cases {
				cases = append(cases, struct {
					tag  string
					ws   []wr
					want []bitSpec
				}{cs0.tag + ", then the gate closed and reopened", append(append([]wr{}, cs0.ws...), wr{0x0000, ai.NewConstInt(8, false, 0x00)}), cs0.want})
			}
			for _, cs := range cases {
				ven := ai.NewConstInt(8, false, 0x0A)
				var st *ai.State
				first := true
				for _, w := range append(cs.ws, wr{0x0000, ven}) {
					var ev *DecEval
					if first {
						ev = c.evalDecoder(true, w.addr, w.addr, env.setup(8, banks, setEn(strings.Contains(cs.tag, "gate closed and reopened"))), w.v)
						first = false
					} else {
						ev = c.evalDecoderFrom(st, true, w.addr, w.addr, nil, w.v)
					}
					st = ev.Post
					if st == nil {
						break
					}
				}
				if st == nil {
					r.Fail("undecided", "R-bank", sz+", "+cs.tag, "", "control writes have no post-state")
					continue
				}
				for _, write := range []bool{false, true} {
					ev := c.evalDecoderFrom(st, write, 0xA000, 0xBFFF, nil, nil)
					bank, off, n := bankIndex(ev, storage)
					kind := map[bool]string{false: "read", true: "write"}[write]
					offv, offok := addrOffset(off, ev.AddrSym, ev.Lo, ev.Hi)
					okOff := offok && offv == -0xA000 && off.Lo >= 0 && off.Hi < 0x2000
					okBank := matchBits(bank, reduce(cs.want, banks))
					detail := fmt.Sprintf("accesses ram[%s][%s]; documented bank bits (msb first) %s, offset addr-0xA000", ai.ValueString(bank), ai.ValueString(off), specString(reduce(cs.want, banks), it))
					if write {
						stored := false
						for cell, v := range ev.Stores {
							if strings.Contains(cell, "[") {
								if iv, ok := v.(*ai.Int); ok {
									exact := true
									for i := 0; i < 8; i++ {
										exact = exact && isSrcBit(iv.Bits[i], ev.ValSym, i)
									}
									stored = stored || exact
								}
							}
						}
						okBank = okBank && stored
						detail += fmt.Sprintf("; written byte stored bit for bit: %v", stored)
						// ... unconditionally: with the control registers written as above the store depends on nothing but the
						// address and the value (a path that drops the write, or sends it to the clock, makes it depend on
						// the register value that selects the path)
						for cell, v := range ev.Stores {
							if !strings.Contains(cell, "[") {
								continue
							}
							for _, d := range ai.DepsOf(v) {
								if d != ev.ValSym && d != ev.AddrSym {
									okBank = false
									detail += fmt.Sprintf("; the store is conditional on or mixed with %s", it.SymName(d))
								}
							}
						}
					} else {
						same, nl, got := c.readReturnsLoadedByteFrom(st, 0xA000, 0xBFFF, nil)
						if !same || nl != 1 {
							okBank = false
							detail += fmt.Sprintf("; the read returns %s, not the stored byte on every path (element loads %d)", got, nl)
						}
					}
					r.Ob("R-bank", n == 2 && okOff && okBank && len(ev.Panics) == 0, fmt.Sprintf("%s, %s: enabled %s", sz, cs.tag, kind), hpos(ev), detail)
				}
			}
			// MBC3 with a clock register selected (values 8-F at 4000-5FFF): the window is not RAM -
			// a write stores into no RAM cell and a read depends on no RAM cell
			if name == "mbc3" {
				v, _ := newV("ramb")
				v = ai.WithBit(v, 3, true)
				var st *ai.State
				for i, w := range []wr{{0x4000, v}, {0x0000, ai.NewConstInt(8, false, 0x0A)}} {
					var ev *DecEval
					if i == 0 {
						ev = c.evalDecoder(true, w.addr, w.addr, env.setup(8, banks, setEn(false)), w.v)
					} else if st != nil {
						ev = c.evalDecoderFrom(st, true, w.addr, w.addr, nil, w.v)
					}
					if ev != nil {
						st = ev.Post
					}
				}
				if st == nil {
					r.Fail("undecided", "R-gate", sz+", clock register selected", "", "control writes have no post-state")
				} else {
					w := c.evalDecoderFrom(st, true, 0xA000, 0xBFFF, nil, nil)
					var arr []string
					for k := range w.Stores {
						if strings.Contains(k, "[") {
							arr = append(arr, k)
						}
					}
					r.Ob("R-gate", len(arr) == 0 && w.Post != nil, sz+": window write with a clock register selected stores into no RAM cell", hpos(w), fmt.Sprintf("array cells stored: %v", arr))
					rd := c.evalDecoderFrom(st, false, 0xA000, 0xBFFF, nil, nil)
					_, _, n := bankIndex(rd, storage)
					r.Ob("R-gate", n == 0 && rd.Post != nil, sz+": window read with a clock register selected loads no RAM cell", hpos(rd), fmt.Sprintf("RAM element accesses: %d", n))
				}
			}
			// retain: control writes never store into RAM storage
			for _, iv := range c.elementaryIntervals() {
				if iv[1] > 0x7FFF {
					continue
				}
				w := c.evalDecoder(true, iv[0], iv[1], env.setup(8, banks, nil), nil)
				hit := false
				for _, e := range w.Elems {
					_ = e
				}
				for k := range w.Stores {
					if strings.Contains(k, "[") {
						hit = true
					}
				}
				r.Ob("R-retain", !hit, fmt.Sprintf("%s: control write %04X-%04X keeps RAM contents", sz, iv[0], iv[1]), hpos(w), "a control-register write stores into an array")
			}
		}
		c.checkDump(r, env)
	}

	// ---- MBC2
	if env := envs["mbc2"]; env != nil {
		en := ""
		for _, p := range c.boolCellsOf(env.ct.Obj) {
			ev := c.evalDecoder(false, 0xA000, 0xBFFF, env.setup(8, 0, func(st *ai.State) { st.SetCell(env.ct.Obj, p, ai.NewConstBool(false)) }), nil)
			if cv, isc := constOf(ev.Result); isc && cv == 0xFF {
				en = p
			}
		}
		if en == "" {
			r.Fail("unresolved", "R-mbc2", "MBC2 enable flag", "", "not found")
		} else {
			setEn := func(on bool) func(*ai.State) {
				return func(st *ai.State) { st.SetCell(env.ct.Obj, en, ai.NewConstBool(on)) }
			}
			// enable decode with A8 clear
			var bad []string
			for n := 0; n < 16; n++ {
				v, _ := newV("ramg")
				for i := 0; i < 4; i++ {
					v = ai.WithBit(v, i, n>>uint(i)&1 == 1)
				}
				addr, _ := c.addrValue(0x0000, 0x3FFF)
				addr = ai.WithBit(addr, 8, false)
				st := it.StateOn(c.W.Generic)
				env.setup(8, 0, nil)(st)
				w := c.evalCall(st, c.decoderFn(true), []ai.Value{c.mapperPtr(), addr, v}, nil, nil)
				b, ok := boolConst(c.cellBool(w.Post, env.ct.Obj, en))
				if !ok || b != (n == 0x0A) {
					bad = append(bad, fmt.Sprintf("low nibble %X: enabled afterwards %v, documented %v", n, b, n == 0x0A))
				}
			}
			r.Ob("R-enable", len(bad) == 0, "mbc2: enable decode over the 16 low nibbles (0000-3FFF, A8 clear)", "", strings.Join(bad, "; "))
			{
				addr, _ := c.addrValue(0x0000, 0x3FFF)
				addr = ai.WithBit(addr, 8, true)
				st := it.StateOn(c.W.Generic)
				env.setup(8, 0, nil)(st)
				w := c.evalCall(st, c.decoderFn(true), []ai.Value{c.mapperPtr(), addr, nil}, nil, nil)
				touched := false
				for _, p := range c.storedCellsOf(w, env.ct.Obj) {
					if p == en {
						touched = true
					}
				}
				r.Ob("R-enable", !touched, "mbc2: a write with A8 set leaves the enable flag alone", "", "")
			}
			rd := c.evalDecoder(false, 0xA000, 0xBFFF, env.setup(8, 0, setEn(false)), nil)
			cv, isc := constOf(rd.Result)
			r.Ob("R-gate", isc && cv == 0xFF, "mbc2: disabled window reads FF", hpos(rd), "reads "+ai.ValueString(rd.Result))
			w := c.evalDecoder(true, 0xA000, 0xBFFF, env.setup(8, 0, setEn(false)), nil)
			hit := false
			for k := range w.Stores {
				if strings.Contains(k, "[") {
					hit = true
				}
			}
			r.Ob("R-gate", !hit, "mbc2: disabled window ignores writes", hpos(w), "")
			var storage *ai.Object
			if len(env.rams) > 0 {
				storage = env.rams[0].Obj
			}
			for _, write := range []bool{false, true} {
				ev := c.evalDecoder(write, 0xA000, 0xBFFF, env.setup(8, 0, setEn(true)), nil)
				var idx *ai.Int
				n := 0
				for _, e := range ev.Elems {
					if e.Obj == storage {
						idx = e.Idx
						n++
					}
				}
				ok := idx != nil && n == 1
				for i := 0; ok && i < len(idx.Bits); i++ {
					if i < 9 {
						ok = isSrcBit(idx.Bits[i], ev.AddrSym, i)
					} else {
						ok = idx.Bits[i].K == ai.BZero
					}
				}
				kind := map[bool]string{false: "read", true: "write"}[write]
				detail := "index " + ai.ValueString(idx) + "; documented: the low 9 address bits"
				if !write {
					res, _ := ev.Result.(*ai.Int)
					ok = ok && res != nil && res.KnownOnes()&0xF0 == 0xF0
					detail += "; result " + ai.ValueString(ev.Result) + " (bits 7-4 must be known 1)"
				} else {
					stored := false
					for cell, v := range ev.Stores {
						if strings.Contains(cell, "[") {
							if iv, okv := v.(*ai.Int); okv {
								low := true
								for i := 0; i < 4; i++ {
									low = low && isSrcBit(iv.Bits[i], ev.ValSym, i)
								}
								stored = stored || low
							}
						}
					}
					ok = ok && stored
					detail += fmt.Sprintf("; low nibble of the written byte stored: %v", stored)
				}
				r.Ob("R-mbc2", ok && len(ev.Panics) == 0, "mbc2: enabled "+kind, hpos(ev), detail)
			}
			for _, iv := range c.elementaryIntervals() {
				if iv[1] > 0x7FFF {
					continue
				}
				w := c.evalDecoder(true, iv[0], iv[1], env.setup(8, 0, nil), nil)
				hit := false
				for k := range w.Stores {
					if strings.Contains(k, "[") {
						hit = true
					}
				}
				r.Ob("R-retain", !hit, fmt.Sprintf("mbc2: control write %04X-%04X keeps RAM contents", iv[0], iv[1]), hpos(w), "")
			}
			c.checkDump(r, env)
		}
	}

	// ---- allocator
	if fn := c.P.Func("gameboy/memory", "prepareRAM"); fn != nil {
		want := map[int]int64{0: 1, 1: 1, 2: 1, 3: 4, 4: 16, 5: 8, 6: 1, 0xff: 1}
		var bad []string
		var codes []int
		for k := range want {
			codes = append(codes, k)
		}
		sort.Ints(codes)
		for _, code := range codes {
			st := it.StateOn(c.W.PkgInitHeap)
			res, post := it.CallFunction(st, fn, []ai.Value{ai.NewConstInt(8, false, 0x03), ai.NewConstInt(8, false, int64(code))}, nil)
			n := int64(-1)
			if s, ok := res.(*ai.Slice); ok && post != nil {
				n, _ = s.Len.Const()
			}
			if n != want[code] {
				bad = append(bad, fmt.Sprintf("size code %02X: %d banks, documented %d", code, n, want[code]))
			}
		}
		r.Ob("R-alloc", len(bad) == 0, "RAM allocator table", firstPos(c, fn), strings.Join(bad, "; "))
	} else {
		r.Fail("unresolved", "R-alloc", "RAM allocator", "", "memory.prepareRAM not found")
	}
	return r
}

// checkDump: the controller's dump routine reads only its own fields and RAM storage, and stores nothing.
func (c *Ctx) checkDump(r *report.Result, env *cartEnv) {
	fn := c.methodOf("memory."+env.ct.Name, "DumpRAM")
	if fn == nil {
		r.Fail("unresolved", "R-dump", env.ct.Name+" dump routine", "", "DumpRAM not found")
		return
	}
	allowed := map[*ai.Object]bool{env.ct.Obj: true}
	for _, ram := range env.rams {
		allowed[ram.Obj] = true
	}
	it := c.W.It
	var foreign []string
	stores := 0
	var wraps []string
	st := it.StateOn(c.W.Generic)
	it.Hooks = ai.Hooks{
		Wrap: func(_ *ai.State, at ssa.Instruction, op token.Token, x, y *ai.Int) {
			// 8- and 16-bit arithmetic only: a dump is up to 128 KiB, so a narrower offset wraps; the hidden
			// counter of a range loop (an int the interpreter widens to its maximum) cannot
			if isRepoFn(at.Parent()) && len(wraps) < 4 && x != nil && x.W < 32 {
				e := ""
				if v, isV := at.(ssa.Value); isV {
					e = exprString(v)
				}
				wraps = append(wraps, c.pos(at)+": "+e)
			}
		},
		Load: func(_ *ai.State, at ssa.Instruction, p *ai.Ptr, _ ai.Value) {
			if p != nil && p.Obj.ID <= c.W.NObjInit && !allowed[p.Obj] {
				foreign = append(foreign, c.cellLabel(ai.CellKey{Obj: p.Obj.ID, Path: ai.NormPath(p.Path)}))
			}
		},
		Store: func(_ *ai.State, _ ssa.Instruction, p *ai.Ptr, _ []ai.CellKey, _ ai.Value, _ bool) {
			if p != nil && p.Obj.ID <= c.W.NObjInit {
				stores++
			}
		},
	}
	_, post := it.CallFunction(st, fn, []ai.Value{ptrTo(env.ct.Obj)}, nil)
	it.Hooks = ai.Hooks{}
	sort.Strings(foreign)
	r.Ob("R-dump", post != nil && len(foreign) == 0 && stores == 0, env.ct.Name+": dump reads only RAM storage and changes nothing", firstPos(c, fn), fmt.Sprintf("loads outside the controller and its RAM: %v; stores into machine state: %d", foreign, stores))
	r.Ob("R-dump", len(wraps) == 0, env.ct.Name+": no 8- or 16-bit offset or length computed by the dump routine can wrap around", firstPos(c, fn), fmt.Sprintf("arithmetic that may leave its type's range (the dump of a 16-bank cartridge is 128 KiB): %v", wraps))
}

func checkC10(c *Ctx) *report.Result {
	r := report.New("C10", "other", "abstract interpretation of the clock's tick / carry / latch / register routines under interval and constant case splits; bit provenance of the register reads and writes through the decoder with the MBC3 controller; dependence (non-interference) of reads on live counters")
	r.Explanation = "The clock is five small routines. (tick) With the halt flag set the per-machine-cycle tick stores nothing; otherwise the sub-second count advances by exactly one and, evaluated with the count fixed at 1048575 (= 4194304/4 - 1), wraps to 0 and advances the seconds. (carry) The carry routine is evaluated on intervals on both sides of each threshold: seconds 0-58 / 59, minutes 0-58 / 59, hours 0-22 / 23, days 0-510 / 511: below the threshold only that counter advances by one; at it the counter returns to 0 and the next one advances; days wrap from 511 to 0 setting the day-carry flag. (latch) A write to 6000-7FFF with bit 0 clear arms the latch, with bit 0 set after an armed latch copies the six live values bit for bit into the latched ones and disarms; without arming nothing is copied. (read) With the RAM window enabled and register 08-0C selected, a read returns exactly the latched seconds/minutes (6 bits), hours (5 bits), day low byte, and day bit 8 / halt / carry in bits 0 / 6 / 7 with all other bits 0, and depends on no live counter. (write) A write sets the live seconds/minutes/hours masked to their widths, the day low byte, or day bit 8 / halt / carry, leaves the latched values alone, and a seconds write clears the sub-second count. The tick routine is called once per machine cycle on the clock object the MBC3 controller reads (C26 L4)."
	r.Rule("T-tick", "tick: no store while halted; otherwise sub-second count +1, and at 1048575 it wraps to 0 and the seconds advance")
	r.Rule("T-carry", "carry chain thresholds 60 / 60 / 24 / 512 with the day-carry flag, by interval cases on both sides of each threshold")
	r.Rule("T-latch", "0-then-1 latch protocol through 6000-7FFF copies live to latched bit for bit; a 1 without a preceding 0 copies nothing")
	r.Rule("T-read", "register reads 08-0C: latched values masked to 6/6/5/8 bits and control bits 0,6,7; independent of the live counters")
	r.Rule("T-write", "register writes 08-0C set the live counters (masked), never the latched ones; a seconds write clears the sub-second count")
	r.NotDecided = []string{"elapsed time as a count over long runs (follows from T-tick and T-carry by arithmetic)", "registers 0D-0F (read FF, writes ignored)"}
	r.TrustedBase = []string{"documented MBC3 clock registers", "go/ssa, abstract interpreter (intervals, constants, bit provenance)"}
	it := c.W.It
	envs, _ := c.cartEnvs()
	env := envs["mbc3"]
	rtc := c.objectOfType("memory.rtc")
	if env == nil || rtc == nil {
		r.Fail("unresolved", "T-tick", "MBC3 controller / clock object", "", "not found")
		return r
	}
	tickFn := c.methodOf("memory.rtc", "tick")
	if tickFn == nil {
		r.Fail("unresolved", "T-tick", "tick routine", "", "rtc.tick not found")
		return r
	}
	live := []string{".s", ".m", ".h", ".d"}
	latched := []string{".ls", ".lm", ".lh", ".ld"}
	for _, p := range append(append([]string{}, live...), latched...) {
		if ai.LeafTypeAt(rtc.T, p) == nil {
			r.Fail("unresolved", "T-read", "clock field "+p, "", "the clock object has no such field (anchors: s,m,h,d / ls,lm,lh,ld)")
			return r
		}
	}
	setI := func(st *ai.State, path string, lo, hi int64) ai.Sym {
		s := c.symCell(st, rtc, path)
		st.SetCell(rtc, path, ai.NarrowInt(c.cellInt(st, rtc, path), lo, hi))
		return s
	}
	unchanged := func(post *ai.State, path string, s ai.Sym) bool {
		v := c.cellInt(post, rtc, path)
		return v != nil && v.HasBase && v.Base == s && v.Off == 0
	}
	plus1 := func(post *ai.State, path string, s ai.Sym) bool {
		v := c.cellInt(post, rtc, path)
		return v != nil && v.HasBase && v.Base == s && v.Off == 1
	}
	isZero := func(post *ai.State, path string) bool {
		cv, isc := constOf(c.cellInt(post, rtc, path))
		return isc && cv == 0
	}
	tw := firstPos(c, tickFn)

	// ---- T-tick
	{
		ev := c.evalCall(nil, tickFn, []ai.Value{ptrTo(rtc)}, nil, func(st *ai.State) { st.SetCell(rtc, ".halt", ai.NewConstBool(true)) })
		r.Ob("T-tick", len(ev.Stores) == 0 && ev.Post != nil, "halted: the tick stores nothing", tw, fmt.Sprintf("stores %v", keysOf(ev.Stores)))
		var ts ai.Sym
		ev = c.evalCall(nil, tickFn, []ai.Value{ptrTo(rtc)}, nil, func(st *ai.State) {
			st.SetCell(rtc, ".halt", ai.NewConstBool(false))
			ts = setI(st, ".ticks", 0, 1048574)
		})
		others := storedOutside(ev, c.cellLabel(ai.CellKey{Obj: rtc.ID, Path: ".ticks"}))
		r.Ob("T-tick", plus1(ev.Post, ".ticks", ts) && len(others) == 0, "running, below one second: sub-second count +1 and nothing else", tw, fmt.Sprintf("ticks' = %s, other stores %v", ai.ValueString(c.cellInt(ev.Post, rtc, ".ticks")), others))
		var ss ai.Sym
		ev = c.evalCall(nil, tickFn, []ai.Value{ptrTo(rtc)}, nil, func(st *ai.State) {
			st.SetCell(rtc, ".halt", ai.NewConstBool(false))
			st.SetCell(rtc, ".ticks", ai.NewConstInt(c.widthOf(rtc, ".ticks"), true, 1048575))
			ss = setI(st, ".s", 0, 58)
		})
		r.Ob("T-tick", isZero(ev.Post, ".ticks") && plus1(ev.Post, ".s", ss), "running, 1048576th machine cycle: count wraps and the seconds advance", tw, fmt.Sprintf("ticks' = %s, s' = %s", ai.ValueString(c.cellInt(ev.Post, rtc, ".ticks")), ai.ValueString(c.cellInt(ev.Post, rtc, ".s"))))
		r.Sample(map[string]interface{}{"rule": "T-tick", "second_length_machine_cycles": 1048576})
	}

	// ---- T-carry: evaluate through the tick at the second boundary
	{
		type iv struct{ lo, hi int64 }
		carryCase := func(name string, s, m, h, d iv, wantS, wantM, wantH, wantD string, wantCarry string) {
			var syms [4]ai.Sym
			var cs ai.Sym
			ev := c.evalCall(nil, tickFn, []ai.Value{ptrTo(rtc)}, nil, func(st *ai.State) {
				st.SetCell(rtc, ".halt", ai.NewConstBool(false))
				st.SetCell(rtc, ".ticks", ai.NewConstInt(c.widthOf(rtc, ".ticks"), true, 1048575))
				syms[0] = setI(st, ".s", s.lo, s.hi)
				syms[1] = setI(st, ".m", m.lo, m.hi)
				syms[2] = setI(st, ".h", h.lo, h.hi)
				syms[3] = setI(st, ".d", d.lo, d.hi)
				cs = it.SymFor(rtc, ".carry")
				st.SetCell(rtc, ".carry", ai.NewSymBool(cs))
			})
			ok := ev.Post != nil && len(ev.Undecided) == 0
			var why []string
			for i, want := range []string{wantS, wantM, wantH, wantD} {
				good := false
				switch want {
				case "same":
					good = unchanged(ev.Post, live[i], syms[i])
				case "+1":
					good = plus1(ev.Post, live[i], syms[i])
				case "0":
					good = isZero(ev.Post, live[i])
				}
				if !good {
					ok = false
					why = append(why, fmt.Sprintf("%s' = %s, documented %s", live[i], ai.ValueString(c.cellInt(ev.Post, rtc, live[i])), want))
				}
			}
			cb := c.cellBool(ev.Post, rtc, ".carry")
			switch wantCarry {
			case "same":
				if cb == nil || cb.B.K != ai.BSrc || cb.B.S != cs || cb.B.Neg {
					ok = false
					why = append(why, "day-carry flag changed: "+ai.ValueString(cb))
				}
			case "set":
				if v, isc := boolConst(cb); !isc || !v {
					ok = false
					why = append(why, "day-carry flag not set: "+ai.ValueString(cb))
				}
			}
			r.Ob("T-carry", ok, name, tw, strings.Join(why, "; "))
		}
		any60, any24, any512 := iv{0, 59}, iv{0, 23}, iv{0, 511}
		carryCase("seconds 0-58: only seconds advance", iv{0, 58}, any60, any24, any512, "+1", "same", "same", "same", "same")
		carryCase("seconds 59, minutes 0-58: seconds wrap, minutes advance", iv{59, 59}, iv{0, 58}, any24, any512, "0", "+1", "same", "same", "same")
		carryCase("59:59, hours 0-22: hours advance", iv{59, 59}, iv{59, 59}, iv{0, 22}, any512, "0", "0", "+1", "same", "same")
		carryCase("23:59:59, days 0-510: days advance", iv{59, 59}, iv{59, 59}, iv{23, 23}, iv{0, 510}, "0", "0", "0", "+1", "same")
		carryCase("23:59:59 on day 511: days wrap and the day-carry flag is set", iv{59, 59}, iv{59, 59}, iv{23, 23}, iv{511, 511}, "0", "0", "0", "0", "set")
		// values a program wrote beyond the carry thresholds count on to the end of their register (6/6/5 bits) and wrap
		// to zero there without carrying: the registers are exactly that wide
		carryCase("seconds 60-62 (written by the program): only seconds advance", iv{60, 62}, any60, any24, any512, "+1", "same", "same", "same", "same")
		carryCase("seconds 63: wraps to 0 without a carry into the minutes", iv{63, 63}, any60, any24, any512, "0", "same", "same", "same", "same")
		carryCase("59 seconds, minutes 63: minutes wrap to 0 without a carry into the hours", iv{59, 59}, iv{63, 63}, any24, any512, "0", "0", "same", "same", "same")
		carryCase("59:59, hours 24-30: hours advance without a carry", iv{59, 59}, iv{59, 59}, iv{24, 30}, any512, "0", "0", "+1", "same", "same")
		carryCase("59:59, hours 31: hours wrap to 0 without a carry into the days", iv{59, 59}, iv{59, 59}, iv{31, 31}, any512, "0", "0", "0", "same", "same")
	}

	// through the decoder with the MBC3 controller, RAM window enabled
	en := c.enableCell(env, 1)
	ramb := ""
	{
		w := c.evalDecoder(true, 0x4000, 0x5FFF, env.setup(8, 1, nil), nil)
		for _, p := range c.storedCellsOf(w, env.ct.Obj) {
			ramb = p
		}
	}
	if en == "" || ramb == "" {
		r.Fail("unresolved", "T-read", "MBC3 enable flag / register select", "", fmt.Sprintf("enable %q select %q", en, ramb))
		return r
	}
	// (the RAM is left as whatever the constructor may give an MBC3 cartridge - every size, or none on the boards
	// without RAM chips: the clock registers answer the same on all of them)
	sel := func(reg int, more func(*ai.State)) func(*ai.State) {
		return env.setup(8, 0, func(st *ai.State) {
			st.SetCell(env.ct.Obj, en, ai.NewConstBool(true))
			st.SetCell(env.ct.Obj, ramb, ai.NewConstInt(c.widthOf(env.ct.Obj, ramb), false, int64(reg)))
			if more != nil {
				more(st)
			}
		})
	}
	hpos := func(ev *DecEval) string {
		if ev != nil && len(ev.Callees) > 0 {
			return firstPos(c, ev.Callees[len(ev.Callees)-1])
		}
		return ""
	}

	// ---- T-latch
	{
		v0 := ai.WithBit(ai.NewSymInt(8, false, it.NewSym("written:latch0", ai.CellKey{})), 0, false)
		v1 := ai.WithBit(ai.NewSymInt(8, false, it.NewSym("written:latch1", ai.CellKey{})), 0, true)
		var syms [4]ai.Sym
		var cS, hS ai.Sym
		fresh := func(st *ai.State) {
			for i, p := range live {
				syms[i] = c.symCell(st, rtc, p)
			}
			cS, hS = it.SymFor(rtc, ".carry"), it.SymFor(rtc, ".halt")
			st.SetCell(rtc, ".carry", ai.NewSymBool(cS))
			st.SetCell(rtc, ".halt", ai.NewSymBool(hS))
			for _, p := range latched {
				c.symCell(st, rtc, p)
			}
		}
		copied := func(post *ai.State) bool {
			ok := post != nil
			for i := range live {
				lv := c.cellInt(post, rtc, latched[i])
				ok = ok && lv != nil
				for b := 0; ok && b < len(lv.Bits); b++ {
					ok = isSrcBit(lv.Bits[b], syms[i], b)
				}
			}
			lc, lh := c.cellBool(post, rtc, ".lcarry"), c.cellBool(post, rtc, ".lhalt")
			ok = ok && lc != nil && lc.B.K == ai.BSrc && lc.B.S == cS && lh != nil && lh.B.K == ai.BSrc && lh.B.S == hS
			return ok
		}
		w0 := c.evalDecoder(true, 0x6000, 0x7FFF, env.setup(8, 1, fresh), v0)
		w1 := c.evalDecoderFrom(w0.Post, true, 0x6000, 0x7FFF, nil, v1)
		r.Ob("T-latch", copied(w1.Post), "write 0 then 1 to 6000-7FFF latches the live clock", hpos(w1), "latched values after the sequence are not bit-for-bit the live ones")
		// 1 then 1 again: the second write must not copy
		w2 := c.evalDecoderFrom(w1.Post, true, 0x6000, 0x7FFF, func(st *ai.State) {
			for _, p := range live {
				c.symCell(st, rtc, p) // same symbols, but perturb the latched cells to detect a copy
			}
			for _, p := range latched {
				st.SetCell(rtc, p, ai.NewConstInt(c.widthOf(rtc, p), false, 0))
			}
		}, v1)
		stale := w2.Post != nil
		for _, p := range latched {
			cv, isc := constOf(c.cellInt(w2.Post, rtc, p))
			stale = stale && isc && cv == 0
		}
		r.Ob("T-latch", stale, "a second 1 without a 0 in between does not latch again", hpos(w2), "the latched registers changed")
	}

	// ---- T-read
	{
		widths := map[int]int{0x08: 6, 0x09: 6, 0x0A: 5, 0x0B: 8}
		for reg := 0x08; reg <= 0x0C; reg++ {
			var lsym [4]ai.Sym
			var lcS, lhS ai.Sym
			ev := c.evalDecoder(false, 0xA000, 0xBFFF, sel(reg, func(st *ai.State) {
				for i, p := range latched {
					lsym[i] = c.symCell(st, rtc, p)
				}
				lcS, lhS = it.SymFor(rtc, ".lcarry"), it.SymFor(rtc, ".lhalt")
				st.SetCell(rtc, ".lcarry", ai.NewSymBool(lcS))
				st.SetCell(rtc, ".lhalt", ai.NewSymBool(lhS))
				for _, p := range live {
					c.symCell(st, rtc, p)
				}
			}), nil)
			res, _ := ev.Result.(*ai.Int)
			name := fmt.Sprintf("clock register %02X read", reg)
			if res == nil {
				r.Ob("T-read", false, name, hpos(ev), "result "+ai.ValueString(ev.Result))
				continue
			}
			ok := true
			if reg < 0x0C {
				i := reg - 0x08
				for b := 0; b < 8; b++ {
					if b < widths[reg] {
						ok = ok && isSrcBit(res.Bits[b], lsym[i], b)
					} else {
						ok = ok && res.Bits[b].K == ai.BZero
					}
				}
			} else {
				ok = isSrcBit(res.Bits[0], lsym[3], 8)
				for b := 1; b <= 5; b++ {
					ok = ok && res.Bits[b].K == ai.BZero
				}
				ok = ok && res.Bits[6].K == ai.BSrc && res.Bits[6].S == lhS && !res.Bits[6].Neg
				ok = ok && res.Bits[7].K == ai.BSrc && res.Bits[7].S == lcS && !res.Bits[7].Neg
			}
			liveDep := false
			for _, p := range append(append([]string{}, live...), ".carry", ".halt", ".ticks") {
				if s, has := it.CellSym(rtc, p); has && res.D.Has(s) {
					liveDep = true
				}
			}
			r.Ob("T-read", ok && !liveDep && len(ev.Stores) == 0, name, hpos(ev), fmt.Sprintf("reads %s; depends on a live counter: %v", bitsString(res.Bits), liveDep))
			r.Sample(map[string]interface{}{"register": fmt.Sprintf("%02X", reg), "read_bits_msb_first": bitsString(res.Bits)})
		}
	}

	// ---- T-write
	{
		for reg := 0x08; reg <= 0x0C; reg++ {
			var dS ai.Sym
			ev := c.evalDecoder(true, 0xA000, 0xBFFF, sel(reg, func(st *ai.State) {
				dS = c.symCell(st, rtc, ".d")
				st.SetCell(rtc, ".ticks", ai.NarrowInt(c.cellInt(st, rtc, ".ticks"), 1, 1048575))
			}), nil)
			name := fmt.Sprintf("clock register %02X write", reg)
			vs := ev.ValSym
			ok := ev.Post != nil
			var why []string
			need := func(cond bool, what string) {
				if !cond {
					ok = false
					why = append(why, what)
				}
			}
			bitsOf := func(path string, n int, from int) bool {
				v := c.cellInt(ev.Post, rtc, path)
				if v == nil {
					return false
				}
				for b := 0; b < len(v.Bits); b++ {
					if b < n {
						if !isSrcBit(v.Bits[b], vs, b+from) {
							return false
						}
					} else if v.Bits[b].K != ai.BZero {
						return false
					}
				}
				return true
			}
			switch reg {
			case 0x08:
				need(bitsOf(".s", 6, 0), "seconds not the low 6 bits of the value")
				need(isZero(ev.Post, ".ticks"), "sub-second count not cleared: "+ai.ValueString(c.cellInt(ev.Post, rtc, ".ticks")))
			case 0x09:
				need(bitsOf(".m", 6, 0), "minutes not the low 6 bits of the value")
			case 0x0A:
				need(bitsOf(".h", 5, 0), "hours not the low 5 bits of the value")
			case 0x0B, 0x0C:
				d := c.cellInt(ev.Post, rtc, ".d")
				good := d != nil
				for b := 0; good && b < 9; b++ {
					switch {
					case reg == 0x0B && b < 8:
						good = isSrcBit(d.Bits[b], vs, b)
					case reg == 0x0B && b == 8:
						good = isSrcBit(d.Bits[b], dS, 8)
					case reg == 0x0C && b < 8:
						good = isSrcBit(d.Bits[b], dS, b)
					case reg == 0x0C && b == 8:
						good = isSrcBit(d.Bits[b], vs, 0)
					}
				}
				need(good, "day counter afterwards "+ai.ValueString(d))
				if reg == 0x0C {
					cb, hb := c.cellBool(ev.Post, rtc, ".carry"), c.cellBool(ev.Post, rtc, ".halt")
					need(cb != nil && cb.B.K == ai.BSrc && cb.B.S == vs && cb.B.J == 7 && !cb.B.Neg, "day-carry flag is not bit 7 of the value: "+ai.ValueString(cb))
					need(hb != nil && hb.B.K == ai.BSrc && hb.B.S == vs && hb.B.J == 6 && !hb.B.Neg, "halt flag is not bit 6 of the value: "+ai.ValueString(hb))
				}
			}
			for _, p := range c.storedCellsOf(ev, rtc) {
				if strings.HasPrefix(p, ".l") && p != ".low" {
					need(false, "stores the latched register "+p)
				}
				if p == ".ticks" && reg != 0x08 {
					need(false, "changes the sub-second count (only a seconds write restarts the second; halting and releasing keep the elapsed part)")
				}
			}
			r.Ob("T-write", ok, name, hpos(ev), strings.Join(why, "; "))
		}
	}
	// the constructed machine: clock running from zero, latch not armed (a lone 1 written first latches nothing)
	{
		init := it.StateOn(c.W.InitHeap)
		var bad []string
		for _, p := range c.boolCellsOf(rtc) {
			if b, isc := boolConst(c.cellBool(init, rtc, p)); !isc || b {
				bad = append(bad, fmt.Sprintf("%s = %s", p, ai.ValueString(c.cellBool(init, rtc, p))))
			}
		}
		r.Ob("T-latch", len(bad) == 0, "after construction the latch is not armed and the clock is not halted", "", fmt.Sprintf("boolean cells of the clock that are not false in the constructed machine: %v", bad))
	}
	r.Rule("T-step", "the clock's tick is reached once per machine cycle whatever the CPU is doing: the frame loop calls the memory step once per iteration (L2 of C26) and the memory step calls the tick once, unconditionally (L4)")
	adopt(r, c.sibling("C26"), map[string]string{"L2": "T-step", "L4": "T-step"}, "a tick that is skipped while the CPU sleeps, or batched, does not advance the clock once per machine cycle", func(f report.Finding) bool {
		return strings.Contains(f.Construct, "Mapper") || strings.Contains(f.Construct, "rtc") || strings.Contains(f.Construct, "floor") || strings.Contains(f.Construct, "memory")
	})
	return r
}
