package checks

import (
	"fmt"
	"go/types"
	"strings"

	"golang.org/x/tools/go/ssa"

	"verif/sa/internal/ai"
	"verif/sa/internal/oracle"
	"verif/sa/internal/report"
)

func init() {
	register("C23", checkC23)
}

const writerCall = "invoke (io.Writer).Write"

func checkC23(c *Ctx) *report.Result {
	r := report.New("C23", "proof", "decoder decision table + abstract evaluation of every run-phase entry (calls of the serial writer are observed with their argument), ownership rule for the writer field and the configuration value")
	r.Explanation = "Delivery to the serial writer is a call of io.Writer.Write on the configured value. The check evaluates the write decoder on every address interval and every other run-phase entry and observes each call into host code: (1) the interval FF01 calls the writer exactly once, with a fresh one-byte slice whose element is exactly the written byte, and only on the path where a writer is configured; with no writer nothing is called and no state changes; (2) no other address interval and no other entry (CPU rows, per-cycle steps, host callbacks, reads) ever calls the writer, so nothing else is delivered; (3) the call is an ordinary synchronous call in the emulation goroutine with no buffering state (the FF01 write stores nothing), hence once per write and in write order; (4) the writer field is read only by that handler and the configuration's writer flows only into the serial object; (5) SB and SC read constant FF and an SC write changes nothing."
	r.Rule("S-once", "FF01 write: exactly one writer call on the configured path, argument = 1-byte slice holding bit-for-bit the written value; zero calls and no stores when no writer is configured")
	r.Rule("S-only", "no other address interval (write or read) and no other run-phase entry calls the writer")
	r.Rule("S-sync", "the FF01 write stores no machine state (no buffering) and starts no goroutine")
	r.Rule("S-owner", "the writer field is loaded only in the FF01 handler; Config.SerialWriter is used only as the argument of the serial constructor")
	r.Rule("S-cpu", "every CPU row performs exactly as many memory writes as its instruction documents (no instruction writes to memory behind the program's back)")
	r.Rule("S-read", "FF01 and FF02 read constant FF; an FF02 write changes no state")
	r.TrustedBase = []string{"the host io.Writer (a writer that fails makes the emulator panic: host fault)", "go/ssa, abstract interpreter, decoder decision table"}
	it := c.W.It

	// locate the writer cell: the interface-typed (io.Writer) field of the Serial object
	serialObj := c.objectOfType("serial.Serial")
	if serialObj == nil {
		r.Fail("unresolved", "S-once", "serial object", "", "not found")
		return r
	}
	writerPath := ""
	if stt, ok := serialObj.T.Underlying().(*types.Struct); ok {
		for i := 0; i < stt.NumFields(); i++ {
			if strings.HasSuffix(stt.Field(i).Type().String(), "io.Writer") {
				writerPath = "." + stt.Field(i).Name()
			}
		}
	}
	if writerPath == "" {
		r.Fail("unresolved", "S-once", "writer field", "", "no io.Writer field in the serial object")
		return r
	}
	// ---- S-once: configured
	for _, configured := range []bool{true, false} {
		setup := func(st *ai.State) {
			if !configured {
				st.SetCell(serialObj, writerPath, &ai.NilV{})
			} else {
				st.SetCell(serialObj, writerPath, &ai.Top{})
			}
		}
		ev := c.evalDecoder(true, 0xFF01, 0xFF01, setup, nil)
		n := 0
		for _, e := range ev.Externs {
			if e == writerCall {
				n++
			}
		}
		where := ""
		if len(ev.Direct) > 0 {
			where = c.pos(ev.Direct[0].Blocks[0].Instrs[0])
		}
		if !configured {
			r.Ob("S-once", n == 0 && len(ev.Stores) == 0 && len(ev.Externs) == 0, "FF01 write without a writer is dropped without effect", where, fmt.Sprintf("host calls %v, stores %v", ev.Externs, keysOf(ev.Stores)))
			continue
		}
		// with a possibly-nil writer the handler forks; on the non-nil path one call
		okArg := false
		if args := ev.ExternArg[writerCall]; len(args) >= 2 {
			if sl, ok := args[1].(*ai.Slice); ok {
				if ln, isc := sl.Len.Const(); isc && ln == 1 && ev.Post != nil {
					el := ev.Post.LoadPtr(&ai.Ptr{Obj: sl.Obj, Path: sl.Path + "[0]", Elem: types.Typ[types.Uint8]})
					if iv, ok := el.(*ai.Int); ok {
						okArg = true
						for i := 0; i < 8; i++ {
							b := iv.Bits[i]
							if !(b.K == ai.BSrc && b.S == ev.ValSym && int(b.J) == i && !b.Neg) {
								okArg = false
							}
						}
					}
				}
			}
		}
		others := 0
		for _, e := range ev.Externs {
			if e != writerCall && !strings.HasPrefix(e, "fmt.") {
				others++
			}
		}
		r.Ob("S-once", n == 1 && okArg && others == 0, "FF01 write delivers the byte once", where, fmt.Sprintf("writer calls %d (want 1), argument is the written byte: %v, other host calls: %d", n, okArg, others))
		// ... on every path: the call is conditional on nothing but the writer being configured
		var cond []string
		for _, sy := range ev.ExternPath[writerCall] {
			k := it.Syms[sy].Cell
			if sy == ev.ValSym {
				cond = append(cond, "the written value")
				continue
			}
			if k.Obj == 0 || (k.Obj == serialObj.ID && ai.NormPath(k.Path) == ai.NormPath(writerPath)) || sy == ev.AddrSym {
				continue
			}
			cond = append(cond, c.cellLabel(ai.CellKey{Obj: k.Obj, Path: ai.NormPath(k.Path)}))
		}
		r.Ob("S-once", len(cond) == 0, "FF01 write delivers the byte whatever the machine state and whatever the byte", where, fmt.Sprintf("the writer call is conditional on %v: in some states, or for some values, a byte written to FF01 is not delivered", cond))
		r.Ob("S-sync", len(ev.Stores) == 0, "FF01 write keeps no state", where, fmt.Sprintf("stores: %v", keysOf(ev.Stores)))
		r.Sample(map[string]interface{}{"FF01_write_host_calls": ev.Externs, "stores": keysOf(ev.Stores)})
	}
	// ---- S-only: every other interval
	for _, write := range []bool{false, true} {
		for _, iv := range c.elementaryIntervals() {
			if write && iv[0] == 0xFF01 {
				continue
			}
			ev := c.evalDecoder(write, iv[0], iv[1], nil, nil)
			n := 0
			for _, e := range ev.Externs {
				if e == writerCall {
					n++
				}
			}
			kind := "read"
			if write {
				kind = "write"
			}
			r.Ob("S-only", n == 0, fmt.Sprintf("%s %04X-%04X does not call the writer", kind, iv[0], iv[1]), "", fmt.Sprintf("%d writer calls", n))
		}
	}
	// every other entry (decoder cut)
	calls := map[string]int{}
	var cur string
	c.evalAllEntries(ai.Hooks{Extern: func(_ *ai.State, at ssa.Instruction, name string, _ []ai.Value) {
		if name == writerCall {
			calls[cur+" @ "+c.pos(at)]++
		}
	}}, nil)
	for i := range c.W.Entries {
		e := &c.W.Entries[i]
		if c.W.CutFns[e.Fn] {
			continue
		}
		cur = e.Name
		n := 0
		hooks := ai.Hooks{Extern: func(_ *ai.State, at ssa.Instruction, name string, _ []ai.Value) {
			if name == writerCall {
				n++
			}
		}}
		restore := c.cutDecoder(nil)
		it.Hooks = hooks
		c.W.RunEntry(e, nil)
		it.Hooks = ai.Hooks{}
		restore()
		r.Ob("S-only", n == 0, "entry "+e.Name+" does not call the writer", "", fmt.Sprintf("%d writer calls outside the FF01 write path", n))
	}
	// goroutines in the handler
	ev := c.evalDecoder(true, 0xFF01, 0xFF01, nil, nil)
	goStmts := 0
	for _, fn := range ev.Callees {
		for _, b := range fn.Blocks {
			for _, ins := range b.Instrs {
				if _, ok := ins.(*ssa.Go); ok {
					goStmts++
				}
			}
		}
	}
	r.Ob("S-sync", goStmts == 0, "FF01 handler starts no goroutine", "", fmt.Sprintf("%d go statements", goStmts))
	// ---- S-owner
	var handler *ssa.Function
	if len(ev.Callees) > 0 {
		handler = ev.Callees[len(ev.Callees)-1]
		for _, f := range ev.Callees {
			if recvTypeKey(f) == "serial.Serial" {
				handler = f
			}
		}
	}
	readers := map[string]bool{}
	for _, fn := range c.P.Funcs {
		if !isRepoFn(fn) {
			continue
		}
		for _, b := range fn.Blocks {
			for _, ins := range b.Instrs {
				if fa, ok := ins.(*ssa.FieldAddr); ok && "."+fieldName(fa) == writerPath && strings.HasSuffix(fa.X.Type().String(), "serial.Serial") {
					for _, ref := range *fa.Referrers() {
						if u, ok := ref.(*ssa.UnOp); ok && u.Op.String() == "*" {
							readers[fnName(outerFn(fn))] = true
						}
					}
				}
			}
		}
	}
	onlyHandler := len(readers) == 1 && handler != nil && readers[fnName(handler)]
	r.Ob("S-owner", onlyHandler, "writer field read only by the FF01 handler", "", fmt.Sprintf("functions loading the writer: %v", sortedKeys(readers)))
	// Config.SerialWriter flows only into the serial constructor
	uses := map[string]bool{}
	for _, fn := range c.P.Funcs {
		if !isRepoFn(fn) {
			continue
		}
		for _, b := range fn.Blocks {
			for _, ins := range b.Instrs {
				var v ssa.Value
				switch x := ins.(type) {
				case *ssa.Field:
					if stt, ok := x.X.Type().Underlying().(*types.Struct); ok && stt.Field(x.Field).Name() == "SerialWriter" {
						v = x
					}
				case *ssa.FieldAddr:
					if fieldName(x) == "SerialWriter" {
						v = x
					}
				}
				if v == nil {
					continue
				}
				for _, ref := range *v.Referrers() {
					desc := fmt.Sprintf("%T in %s", ref, fnName(fn))
					switch u := ref.(type) {
					case *ssa.Call:
						if callee, ok := u.Call.Value.(*ssa.Function); ok {
							desc = "argument of " + fnName(callee)
						}
					case *ssa.UnOp:
						for _, r2 := range *u.Referrers() {
							if cl, ok := r2.(*ssa.Call); ok {
								if callee, ok := cl.Call.Value.(*ssa.Function); ok {
									desc = "argument of " + fnName(callee)
								}
							} else {
								desc = fmt.Sprintf("%T in %s", r2, fnName(fn))
							}
						}
					case *ssa.Store:
						if fn.Pkg != nil && fn.Pkg.Pkg.Name() == "main" {
							continue // the program's own configuration
						}
					case *ssa.DebugRef:
						continue
					}
					uses[desc] = true
				}
			}
		}
	}
	okUses := len(uses) >= 1
	for u := range uses {
		if !strings.HasPrefix(u, "argument of serial.") {
			okUses = false
		}
	}
	r.Ob("S-owner", okUses, "Config.SerialWriter flows only into the serial constructor", "", fmt.Sprintf("uses: %v", sortedKeys(uses)))
	// ---- S-cpu: the guest can reach FF01 only through the data writes its instructions document
	m := c.machine()
	base, cb := oracle.Base(), oracle.CB()
	for page := 0; page < 2; page++ {
		for k := 0; k < 256; k++ {
			doc, row := base[k], m.Base[k]
			if page == 1 {
				doc, row = cb[k], m.CB[k]
			}
			if row == nil || !row.FetchOK || doc.Undefined {
				continue
			}
			got, want := 0, 0
			cond := false
			for _, a := range row.Acc {
				if a.Kind == 'W' {
					got++
					cond = cond || a.Cond
				}
			}
			for _, a := range doc.Mem {
				if a.Kind == 'W' {
					want++
				}
			}
			r.Ob("S-cpu", got == want && !cond, fmt.Sprintf("opcode %d/%02X (%s) performs exactly its documented memory writes, on every path", page, k, doc.Mnemonic), "", fmt.Sprintf("%d decoder writes (conditional on data: %v), %d documented: an undocumented write could deliver a byte the program never wrote to SB, a skipped one loses a byte it did write", got, cond, want))
		}
	}
	// ... and the byte such a write hands to the decoder is the operand the instruction names
	r.Rule("S-data", "the byte a store instruction hands to the decoder is its documented operand (rules F-deps, F-exact, F-frame of C01 restricted to the memory output)")
	adopt(r, c.sibling("C01"), map[string]string{"F-deps": "S-data", "F-exact": "S-data", "F-frame": "S-data"}, "an instruction that stores another register than the one it names delivers a byte the program did not write to SB", func(f report.Finding) bool {
		return strings.Contains(f.Construct, " mem") || strings.Contains(f.Detail, "mem") || strings.Contains(f.Construct, "stored bytes")
	})
	// ---- S-read
	for _, a := range []int{0xFF01, 0xFF02} {
		ev := c.evalDecoder(false, a, a, nil, nil)
		iv, _ := ev.Result.(*ai.Int)
		cv, isc := int64(-1), false
		if iv != nil {
			cv, isc = iv.Const()
		}
		r.Ob("S-read", isc && cv == 0xFF && len(ev.Stores) == 0, fmt.Sprintf("read %04X is FF", a), "", "reads "+ai.ValueString(ev.Result))
	}
	ev2 := c.evalDecoder(true, 0xFF02, 0xFF02, nil, nil)
	r.Ob("S-read", len(ev2.Stores) == 0 && len(ev2.Externs) == 0, "FF02 write changes nothing", "", fmt.Sprintf("stores %v host calls %v", keysOf(ev2.Stores), ev2.Externs))
	return r
}
