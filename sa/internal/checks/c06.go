package checks

import (
	"fmt"
	"sort"
	"strings"

	"golang.org/x/tools/go/ssa"

	"verif/sa/internal/ai"
	"verif/sa/internal/oracle"
	"verif/sa/internal/report"
	"verif/sa/internal/world"
)

func init() {
	register("C06", checkC06)
}

// boolCellsLoaded returns the boolean machine cells an evaluation read (candidates for case splits).
func (c *Ctx) boolCellsLoaded(ev *DecEval) []ai.CellKey {
	it := c.W.It
	var out []ai.CellKey
	seen := map[string]bool{}
	st := it.StateOn(c.W.Generic)
	for _, o := range it.Objects {
		if o.ID > c.W.NObjInit {
			continue
		}
		for path, v := range st.RawCells(o) {
			lbl := c.cellLabel(ai.CellKey{Obj: o.ID, Path: ai.NormPath(path)})
			if !ev.Loads[lbl] || seen[lbl] {
				continue
			}
			if b, ok := v.(*ai.Bool); ok {
				if _, isc := b.Const(); !isc {
					seen[lbl] = true
					out = append(out, ai.CellKey{Obj: o.ID, Path: path})
				}
			}
		}
	}
	sort.Slice(out, func(i, j int) bool { return out[i].String() < out[j].String() })
	return out
}

// readBack composes Write(addr, v) with Read(addr) and returns the bits of the result.
// splits lists boolean cells to fix (case split); assign gives their values.
func (c *Ctx) readBack(addr int, splits []ai.CellKey, assign uint) (*ai.Int, *DecEval, *DecEval) {
	it := c.W.It
	setup := func(st *ai.State) {
		for i, k := range splits {
			st.SetCell(it.ObjectByIDFast(k.Obj), k.Path, ai.NewConstBool(assign>>uint(i)&1 == 1))
		}
	}
	wev := c.evalDecoder(true, addr, addr, setup, nil)
	if wev.Post == nil {
		return nil, wev, nil
	}
	rev := c.evalDecoderFrom(wev.Post, false, addr, addr, nil, nil)
	res, _ := rev.Result.(*ai.Int)
	return res, wev, rev
}

func (c *Ctx) checkReadBack(r *report.Result, reg oracle.IOReg) {
	it := c.W.It
	name := fmt.Sprintf("%s (%04X)", reg.Name, reg.Addr)
	res, wev, rev := c.readBack(reg.Addr, nil, 0)
	where := ""
	if wev != nil && len(wev.Direct) > 0 {
		where = c.pos(wev.Direct[0].Blocks[0].Instrs[0])
	}
	if res == nil {
		r.Fail("undecided", "B-readback", name, where, "write then read could not be composed")
		return
	}
	if len(wev.Undecided)+len(rev.Undecided) > 0 {
		r.Fail("undecided", "B-readback", name, where, fmt.Sprintf("%v %v", wev.Undecided, rev.Undecided))
		return
	}
	vs := wev.ValSym
	judge := func(res *ai.Int) (bad []string) {
		for i := 0; i < 8; i++ {
			b := res.Bits[i]
			mask := uint8(1) << uint(i)
			switch {
			case reg.Ones&mask != 0:
				if b.K != ai.BOne {
					bad = append(bad, fmt.Sprintf("bit %d reads %s, documented always 1", i, b.String()))
				}
			case reg.Writable&mask != 0:
				if !(b.K == ai.BSrc && b.S == vs && int(b.J) == i && !b.Neg) {
					bad = append(bad, fmt.Sprintf("bit %d reads %s, documented: bit %d of the last written value", i, b.String(), i))
				}
			case reg.ReadOnly&mask != 0 || reg.NoStore:
				if b.K == ai.BSrc && b.S == vs {
					bad = append(bad, fmt.Sprintf("bit %d follows the written value, documented read-only", i))
				}
			}
		}
		return bad
	}
	bad := judge(res)
	if len(bad) > 0 {
		// case split on the boolean state the write handler consults (e.g. LCD currently on/off)
		splits := c.boolCellsLoaded(wev)
		if len(splits) > 0 && len(splits) <= 4 {
			bad = nil
			for a := uint(0); a < 1<<uint(len(splits)); a++ {
				res2, _, _ := c.readBack(reg.Addr, splits, a)
				if res2 == nil {
					bad = append(bad, "not composable under a case split")
					continue
				}
				for _, b := range judge(res2) {
					var names []string
					for i, k := range splits {
						names = append(names, fmt.Sprintf("%s=%v", c.cellLabel(k), a>>uint(i)&1 == 1))
					}
					bad = append(bad, b+" (when "+strings.Join(names, ", ")+")")
				}
			}
		}
	}
	// dependence on the written value for read-only / not-stored registers
	if reg.NoStore {
		for cell, v := range wev.Stores {
			if ai.DepsOf(v).Has(vs) {
				bad = append(bad, "the written value flows into "+cell+"; documented: a write never stores its value")
			}
		}
		if res.D.Has(vs) {
			bad = append(bad, "the value read afterwards depends on the written value")
		}
	}
	sort.Strings(bad)
	if len(bad) > 3 {
		bad = append(bad[:3], fmt.Sprintf("... %d more", len(bad)-3))
	}
	r.Ob("B-readback", len(bad) == 0, name+" read-back", where, fmt.Sprintf("write v then read gives %s: %s", ai.ValueString(res), strings.Join(bad, "; ")))
	r.Sample(map[string]interface{}{"register": name, "read_after_write_bits_msb_first": bitsString(res.Bits), "value_symbol": it.SymName(vs)})
}

func checkC06(c *Ctx) *report.Result {
	r := report.New("C06", "other", "decision-table extraction of the address decoder (one abstract evaluation per elementary address interval), affine index comparison for plain memory and mirrors, write-then-read composition with bit provenance for register read-back")
	r.Explanation = "The decoder's behaviour is a function of the address compared with constants, so 0000-FFFF is partitioned at every constant an address is compared with and Mapper.Read / Mapper.Write are evaluated abstractly once per interval: each interval reaches one handler. From these evaluations: (1) totality: no interval reaches a panic; (2) plain memory and mirrors: reads load and writes store the written byte at element (address - base) of one array, in bounds, and E000-FDFF uses the same array as C000-DDFF with the index shifted by 0x2000; FEA0-FEFF reads constant 0 and stores nothing; (3) unmapped I/O reads constant FF and writes change nothing; (4) register read-back: Write(v) followed by Read is composed on the abstract state and every result bit must be bit i of v (writable), constant 1 (unused) or independent of v (read-only), for exactly the registers and masks the property states; writes to DIV and LY store nothing derived from v."
	r.Rule("A-total", "every address interval reaches a non-panicking branch for reads and for writes (cartridge windows are covered by C08/C09/C11)")
	r.Rule("A-plain", "C000-DFFF, FF80-FFFE, 8000-9FFF, FE00-FE9F: read loads / write stores element (addr - region start) of the region's array, in bounds, the stored byte is the written byte")
	r.Rule("A-mirror", "E000-FDFF reads and writes the array of C000-DFFF at index (addr - 0xE000) == ((addr - 0x2000) - 0xC000)")
	r.Rule("A-void", "FEA0-FEFF reads 0 while OAM is accessible and stores nothing; unmapped I/O reads FF and writes change no state")
	r.Rule("B-readback", "IF E0/1F, IE FF, TAC F8/07, STAT 80/78 with read-only 07, LCDC, SCY, SCX, LYC, WY, WX, BGP, DMA read back the written bits; DIV and LY never store the written value")
	r.NotDecided = []string{"histories longer than one write followed by one read (last-write-wins follows from A-plain/B-readback and C07's frame)", "access restrictions while the LCD is on (not modelled by the emulator)", "OBP0/OBP1 bits 0-1 (they read 0 here; the property names no mask for them; reported in evidence only)"}
	r.TrustedBase = []string{"documented register table (oracle.IORegs, from the property statement and Pan Docs)", "go/ssa, abstract interpreter (affine forms, bit provenance, gated joins)"}

	// ---- classes
	for _, write := range []bool{false, true} {
		kind := "read"
		if write {
			kind = "write"
		}
		classes := c.decoderClasses(write, nil)
		r.Extra["classes_"+kind] = len(classes)
		for _, k := range classes {
			cart := k.Hi <= 0x7FFF || (k.Lo >= 0xA000 && k.Hi <= 0xBFFF)
			for _, ev := range k.Evals {
				name := fmt.Sprintf("%s %04X-%04X", kind, ev.Lo, ev.Hi)
				if cart {
					continue
				}
				where := ""
				if len(ev.Panics) > 0 {
					where = c.pos(ev.Panics[0])
				}
				r.Ob("A-total", len(ev.Panics) == 0 && len(ev.Exits) == 0 && (ev.Post != nil), name+" reaches a handler", where, fmt.Sprintf("panics reachable: %d, exits: %d", len(ev.Panics), len(ev.Exits)))
				if len(ev.Undecided) > 0 {
					r.Fail("undecided", "A-total", name, where, strings.Join(ev.Undecided, "; "))
				}
			}
		}
		// ---- plain memory
		arrayOf := map[int]string{}
		for _, reg := range oracle.PlainRegions() {
			for _, k := range classes {
				if k.Hi < reg.Lo || k.Lo > reg.Hi {
					continue
				}
				for _, ev := range k.Evals {
					if ev.Hi < reg.Lo || ev.Lo > reg.Hi {
						continue
					}
					name := fmt.Sprintf("%s %s %04X-%04X", kind, reg.Name, ev.Lo, ev.Hi)
					c.checkPlain(r, reg, ev, name, arrayOf)
				}
			}
		}
		// ---- void regions
		for _, k := range classes {
			for _, ev := range k.Evals {
				inUnmapped := false
				for _, u := range oracle.Unmapped() {
					if ev.Lo >= u[0] && ev.Hi <= u[1] {
						inUnmapped = true
					}
				}
				name := fmt.Sprintf("%s %04X-%04X", kind, ev.Lo, ev.Hi)
				if inUnmapped {
					if write {
						r.Ob("A-void", len(ev.Stores) == 0 && len(ev.Externs) == 0, name+" unmapped write ignored", "", fmt.Sprintf("state written: %v", keysOf(ev.Stores)))
					} else {
						iv, _ := ev.Result.(*ai.Int)
						cv, isc := int64(-1), false
						if iv != nil {
							cv, isc = iv.Const()
						}
						r.Ob("A-void", isc && cv == 0xFF && len(ev.Stores) == 0, name+" unmapped read", "", fmt.Sprintf("reads %s (documented FF), state written: %v", ai.ValueString(ev.Result), keysOf(ev.Stores)))
					}
				}
				if ev.Lo >= 0xFEA0 && ev.Hi <= 0xFEFF {
					c.checkFEA0(r, ev, name, write)
				}
			}
		}
	}
	for _, reg := range oracle.IORegs() {
		c.checkReadBack(r, reg)
	}
	// unused bits read 1 in every state, not only after a write (power-on included): the read is
	// evaluated from the generic state, whose cells hold the invariant inferred over New and every entry
	r.Rule("B-ones", "IF, TAC and STAT read their unused bits as 1 from every reachable state, power-on included (read evaluated on the inferred invariant)")
	for _, reg := range oracle.IORegs() {
		if reg.Ones == 0 {
			continue
		}
		ev := c.evalDecoder(false, reg.Addr, reg.Addr, nil, nil)
		iv, _ := ev.Result.(*ai.Int)
		var bad []string
		for i := 0; i < 8 && iv != nil; i++ {
			if reg.Ones&(1<<uint(i)) != 0 && iv.Bits[i].K != ai.BOne {
				bad = append(bad, fmt.Sprintf("bit %d reads %s", i, iv.Bits[i].String()))
			}
		}
		r.Ob("B-ones", iv != nil && len(bad) == 0 && len(ev.Undecided) == 0, fmt.Sprintf("%s (%04X) unused bits from any state", reg.Name, reg.Addr), hposOf(c, ev), fmt.Sprintf("reads %s; documented mask %02X always 1: %s %v", ai.ValueString(ev.Result), reg.Ones, strings.Join(bad, "; "), ev.Undecided))
	}
	c.checkLatchOwnership(r)
	r.Rule("B-wave", "FF30-FF3F read back what was written while channel 3 is off, whether sound is powered or not (rule M-wave of C18 re-stated)")
	adopt(r, c.sibling("C18"), map[string]string{"M-wave": "B-wave"}, "wave RAM is sixteen readable and writable registers of the I/O area: a write that is dropped, or lands elsewhere, breaks the read-back clause")
	r.Rule("B-oamplain", "OAM is plain memory outside the OAM-bug window: the window flag is closed whenever the LCD is off or the PPU is outside mode 2 (rules O-pair / O-arm of C17 re-stated)")
	adopt(r, c.sibling("C17"), map[string]string{"O-pair": "B-oamplain", "O-arm": "B-oamplain"}, "with the window left open a CPU access to FE00-FEFF rewrites other OAM rows, so OAM does not read back what was written")
	return r
}

func keysOf(m map[string]ai.Value) []string {
	var out []string
	for k := range m {
		out = append(out, k)
	}
	sort.Strings(out)
	return out
}

// checkPlain: the region's accesses hit one array at index addr - base.
func (c *Ctx) checkPlain(r *report.Result, reg oracle.Region, ev *DecEval, name string, arrayOf map[int]string) {
	it := c.W.It
	_ = it
	// OAM: evaluate with no DMA running (the property's precondition "while OAM is accessible")
	if reg.Name == "OAM" {
		ev = c.evalDecoder(ev.Write, ev.Lo, ev.Hi, c.noDMA(), nil)
	}
	// the element accesses whose index is an affine function of the address
	var hits []elemAcc
	offOf := map[ssa.Instruction]int64{}
	for _, e := range ev.Elems {
		if off, ok := addrOffset(e.Idx, ev.AddrSym, ev.Lo, ev.Hi); ok {
			hits = append(hits, e)
			offOf[e.At] = off
		}
	}
	rule := "A-plain"
	base := reg.Lo
	if reg.MirrorOf >= 0 {
		rule = "A-mirror"
	}
	where := ""
	if len(hits) > 0 {
		where = c.pos(hits[0].At)
	}
	if len(hits) != 1 {
		r.Ob(rule, false, name+" array access", where, fmt.Sprintf("%d element accesses indexed by the address (want exactly 1); handler %s", len(hits), ev.handlerSig()))
		return
	}
	h := hits[0]
	okIdx := offOf[h.At] == -int64(base)
	inBounds := h.Len < 0 || (h.Idx.Lo >= 0 && h.Idx.Hi < h.Len)
	okArr := true
	if reg.MirrorOf >= 0 {
		okArr = arrayOf[reg.MirrorOf] == h.Array
	} else {
		arrayOf[reg.Lo] = h.Array
	}
	detail := fmt.Sprintf("accesses %s[addr%+d] (index range [%d,%d], array length %d); documented element addr-%#x", h.Array, offOf[h.At], h.Idx.Lo, h.Idx.Hi, h.Len, base)
	if reg.MirrorOf >= 0 {
		detail += fmt.Sprintf(" of the array of %04X (%s)", reg.MirrorOf, arrayOf[reg.MirrorOf])
	}
	ok := okIdx && inBounds && okArr
	if ev.Write {
		// the stored byte is the written byte, stored in that array and nowhere else (besides bookkeeping flags)
		stored := false
		for cell, v := range ev.Stores {
			if strings.HasPrefix(cell, h.Array) {
				if iv, isInt := v.(*ai.Int); isInt {
					exact := true
					for i := 0; i < 8 && i < len(iv.Bits); i++ {
						b := iv.Bits[i]
						if !(b.K == ai.BSrc && b.S == ev.ValSym && int(b.J) == i && !b.Neg) {
							exact = false
						}
					}
					stored = stored || exact || ev.Weak[cell]
				}
			}
		}
		if !stored {
			ok = false
			detail += "; the written byte is not stored there"
		}
	} else {
		// the value read is the element loaded
		if iv, isInt := ev.Result.(*ai.Int); !isInt || iv == nil {
			ok = false
			detail += "; result is not the loaded byte"
		}
	}
	// on every path: the read answers with the loaded byte itself, the write stores unconditionally
	// (VRAM and OAM under the statement's precondition: LCD off, no transfer running)
	setup := func(st *ai.State) {}
	if reg.Name == "OAM" || reg.Name == "VRAM" {
		pm := c.ppuModel()
		nd := c.noDMA()
		setup = func(st *ai.State) {
			if len(pm.Errors) == 0 {
				st.SetCell(pm.PPU, pm.Enabled, ai.NewConstBool(false))
				st.SetCell(pm.OAM, ".corrupt", ai.NewConstBool(false))
			}
			if reg.Name == "OAM" {
				nd(st)
			}
		}
	}
	if !ev.Write {
		same, n, got := c.readReturnsLoadedByte(ev.Lo, ev.Hi, setup)
		if !same || n != 1 {
			ok = false
			detail += fmt.Sprintf("; on some path the value returned is not the stored byte (element loads %d, returns %s)", n, got)
		}
	} else {
		w := c.evalDecoder(true, ev.Lo, ev.Hi, setup, nil)
		for cell, v := range w.Stores {
			if strings.HasPrefix(cell, h.Array) {
				for _, d := range ai.DepsOf(v) {
					if d != w.ValSym && d != w.AddrSym {
						ok = false
						detail += fmt.Sprintf("; the store is conditional on or mixed with %s", c.W.It.SymName(d))
					}
				}
			}
		}
	}
	r.Ob(rule, ok, name, where, detail)
	if (ev.Lo & 0x0fff) == 0 {
		r.Sample(map[string]interface{}{"class": name, "array": h.Array, "index": fmt.Sprintf("addr%+d", offOf[h.At]), "index_range": []int64{h.Idx.Lo, h.Idx.Hi}, "array_len": h.Len})
	}
}

// noDMA returns a setup that fixes every boolean of the OAM object that blocks CPU access to false.
func (c *Ctx) noDMA() func(*ai.State) {
	oamObj := c.objectOfType("oam.OAM")
	return func(st *ai.State) {
		if oamObj == nil {
			return
		}
		// the blocking flag is the boolean the OAM read handler tests before anything else
		ev := c.evalDecoder(false, 0xFE00, 0xFE00, nil, nil)
		for _, k := range c.boolCellsLoaded(ev) {
			if k.Obj == oamObj.ID {
				// only the flag whose truth makes the read constant FF
				probe := c.evalDecoder(false, 0xFE00, 0xFE00, func(s *ai.State) { s.SetCell(oamObj, k.Path, ai.NewConstBool(true)) }, nil)
				if iv, ok := probe.Result.(*ai.Int); ok {
					if cv, isc := iv.Const(); isc && cv == 0xFF {
						st.SetCell(oamObj, k.Path, ai.NewConstBool(false))
					}
				}
			}
		}
	}
}

func (c *Ctx) checkFEA0(r *report.Result, ev *DecEval, name string, write bool) {
	ev2 := c.evalDecoder(write, ev.Lo, ev.Hi, c.noDMA(), nil)
	if write {
		touched := []string{}
		for cell := range ev2.Stores {
			if strings.Contains(cell, "[") {
				touched = append(touched, cell)
			}
		}
		r.Ob("A-void", len(touched) == 0, name+" FEA0-FEFF write stores nothing", "", fmt.Sprintf("array cells written: %v", touched))
		return
	}
	iv, _ := ev2.Result.(*ai.Int)
	cv, isc := int64(-1), false
	if iv != nil {
		cv, isc = iv.Const()
	}
	r.Ob("A-void", isc && cv == 0, name+" FEA0-FEFF reads 0", "", "reads "+ai.ValueString(ev2.Result)+" while no DMA runs; documented 00")
}

// checkLatchOwnership: the cells a register's write handler fills from the written value and its read handler
// reads back (the register's latch) are stored by nothing else - no write to another address, no read, no
// per-cycle step, no CPU row. IF is exempt (the hardware sets its bits). Without this a register reads back
// the last written value only until the other writer runs, which a write-then-read composition cannot see.
func (c *Ctx) checkLatchOwnership(r *report.Result) {
	r.Rule("B-own", "the latch cells of IE, TAC, STAT (enables), LCDC, SCY, SCX, LYC, WY, WX, BGP, OBP0, OBP1, DMA and JOYP (select bits) are stored only under the register's own write handler: by no write to another address and by no read, step or CPU row")
	type latch struct {
		reg     oracle.IOReg
		cells   map[string]bool
		allowed map[string]bool
	}
	var latches []*latch
	dec := c.decoderFn(true)
	for _, reg := range oracle.IORegs() {
		if reg.Writable == 0 || reg.NoStore || reg.Name == "IF" {
			continue
		}
		name := fmt.Sprintf("%s (%04X)", reg.Name, reg.Addr)
		res, wev, rev := c.readBack(reg.Addr, nil, 0)
		if res == nil || rev == nil {
			r.Fail("undecided", "B-own", name, "", "write then read could not be composed")
			continue
		}
		l := &latch{reg: reg, cells: map[string]bool{}, allowed: map[string]bool{}}
		for cell, v := range wev.Stores {
			if rev.Loads[cell] && ai.DepsOf(v).Has(wev.ValSym) {
				l.cells[cell] = true
			}
		}
		if dec != nil {
			l.allowed[fnName(dec)] = true
		}
		for _, f := range wev.Callees {
			l.allowed[fnName(f)] = true
		}
		if len(l.cells) == 0 {
			r.Fail("unresolved", "B-own", name, hposOf(c, wev), "no cell is both filled from the written value and read back")
			continue
		}
		latches = append(latches, l)
	}
	overlaps := func(l *latch, label string) bool {
		if l.cells[label] {
			return true
		}
		for cell := range l.cells {
			if strings.HasPrefix(cell, label+".") || strings.HasPrefix(cell, label+"[") || strings.HasPrefix(label, cell+".") || strings.HasPrefix(label, cell+"[") {
				return true
			}
		}
		return false
	}
	// (1) writes to every other address
	for _, iv := range c.elementaryIntervals() {
		w := c.evalDecoder(true, iv[0], iv[1], nil, nil)
		for _, l := range latches {
			if iv[0] <= l.reg.Addr && l.reg.Addr <= iv[1] {
				continue
			}
			var hit []string
			for cell := range w.Stores {
				if overlaps(l, cell) {
					hit = append(hit, cell)
				}
			}
			sort.Strings(hit)
			if len(hit) > 0 {
				r.Ob("B-own", false, fmt.Sprintf("write %04X-%04X leaves the latch of %s alone", iv[0], iv[1], l.reg.Name), hposOf(c, w), fmt.Sprintf("stores %v", hit))
			}
			r.Instances["B-own"]++
		}
	}
	// (2) everything else that runs: reads, per-cycle steps, CPU rows
	viol := map[string]string{}
	n := 0
	c.evalAllEntries(ai.Hooks{
		Store: func(_ *ai.State, at ssa.Instruction, p *ai.Ptr, keys []ai.CellKey, _ ai.Value, _ bool) {
			if p == nil || p.Obj.ID > c.W.NObjInit {
				return
			}
			for _, k := range keys {
				label := c.cellLabel(ai.CellKey{Obj: k.Obj, Path: ai.NormPath(k.Path)})
				for _, l := range latches {
					if !overlaps(l, label) {
						continue
					}
					n++
					fn := fnName(outerFn(at.Parent()))
					if !l.allowed[fn] && !c.onStack(l.allowed) {
						viol[fmt.Sprintf("%s stores %s, the latch of %s", fn, label, l.reg.Name)] = c.pos(at)
					}
				}
			}
		},
	}, func(*world.Entry, *ai.State) {})
	for k, pos := range viol {
		r.Ob("B-own", false, k, pos, "a register's latch may be stored only under its own write handler: otherwise the register stops reading back the last value written")
	}
	r.Ob("B-own", n > 0 && len(latches) >= 12, "stores to register latches examined over every run-phase entry", "", fmt.Sprintf("%d stores, %d registers with a latch", n, len(latches)))
	r.Instances["B-own"] += n
}
