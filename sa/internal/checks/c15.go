package checks

import (
	"fmt"
	"go/types"
	"sort"
	"strings"

	"golang.org/x/tools/go/ssa"

	"verif/sa/internal/ai"
	"verif/sa/internal/report"
)

func init() {
	register("C15", checkC15)
}

// tileCall is one call of the tile-row decoder observed while a pixel is composed.
type tileCall struct {
	Caller      string
	Tile, X, Y  *ai.Int
	ResultGiven int64
}

// pixResult is what one abstract evaluation of the pixel routine did.
type pixResult struct {
	Tiles   []tileCall
	Palette []string // palette element accesses in order: "bgp[2]", "obp1[3]", "obp0[?]"
	Shade   []string // shade table accesses: table name + index
	Draws   int
	DrawXY  [][2]*ai.Int
	MapIdx  []*ai.Int // indices used on video RAM by the map lookup (first access of each bg/window routine)
	Und     []string
	Post    *ai.State
}

type renderModel struct {
	c                    *Ctx
	PPU, OAM             *ai.Object
	Pixel, Tile, BG, Win *ssa.Function
	Scan                 *ssa.Function // per-object line test
	SetRGBA              *ssa.Function
	palPrefix            map[string]string // array label prefix -> "bgp" | "obp0" | "obp1"
	errs                 []string
	lcdc                 map[int]string // LCDC bit -> PPU flag path
	shades               map[*ai.Object]string
	overlap              string // path of the per-line table the line test fills (found by role)
}

func (c *Ctx) renderModel() *renderModel {
	m := &renderModel{c: c, palPrefix: map[string]string{}, lcdc: map[int]string{}}
	m.PPU = c.objectOfType("ppu.PPU")
	m.OAM = c.objectOfType("oam.OAM")
	m.Pixel = c.methodOf("ppu.PPU", "renderPixel")
	m.Tile = c.methodOf("ppu.PPU", "readTilePixel")
	m.BG = c.methodOf("ppu.PPU", "findBackgroundPixel")
	m.Win = c.methodOf("ppu.PPU", "findWindowPixel")
	m.Scan = c.methodOf("ppu.PPU", "checkOverlappingSprite")
	if m.PPU == nil || m.OAM == nil || m.Pixel == nil || m.Tile == nil || m.BG == nil || m.Win == nil || m.Scan == nil {
		m.errs = append(m.errs, "PPU/OAM objects or the routines renderPixel, readTilePixel, findBackgroundPixel, findWindowPixel, checkOverlappingSprite (the property's anchors) not found")
		return m
	}
	// the per-line table: the boolean array of the PPU the line test stores into
	{
		w, sg := ai.TypeShape(m.Scan.Params[1].Type())
		ev := c.evalCall(nil, m.Scan, []ai.Value{ptrTo(m.PPU), ai.NewConstInt(w, sg, 3)}, nil, nil)
		for _, p := range c.storedCellsOf(ev, m.PPU) {
			if i := strings.Index(p, "["); i > 0 {
				m.overlap = p[:i]
			}
		}
		if m.overlap == "" {
			m.errs = append(m.errs, "the per-object line test stores into no array of the PPU")
			return m
		}
	}
	for _, sc := range callsIn(m.Pixel.Blocks) {
		if sc.Callee != nil && sc.Callee.Name() == "SetRGBA" {
			m.SetRGBA = sc.Callee
		}
	}
	if m.SetRGBA == nil {
		m.errs = append(m.errs, "the pixel routine does not call image.RGBA.SetRGBA")
	}
	for addr, name := range map[int]string{0xFF47: "bgp", 0xFF48: "obp0", 0xFF49: "obp1"} {
		w := c.evalDecoder(true, addr, addr, nil, nil)
		for k := range w.Stores {
			if i := strings.Index(k, "["); i > 0 {
				m.palPrefix[k[:i]] = name
			}
		}
	}
	if len(m.palPrefix) != 3 {
		m.errs = append(m.errs, fmt.Sprintf("palette arrays not identified from the FF47-FF49 writes: %v", m.palPrefix))
	}
	w := c.evalDecoder(true, 0xFF40, 0xFF40, nil, nil)
	for _, p := range c.storedCellsOf(w, m.PPU) {
		if b := c.cellBool(w.Post, m.PPU, p); b != nil && b.B.K == ai.BSrc && b.B.S == w.ValSym && !b.B.Neg {
			m.lcdc[int(b.B.J)] = p
		}
	}
	for _, bit := range []int{0, 1, 3, 4, 5, 6} {
		if m.lcdc[bit] == "" {
			m.errs = append(m.errs, fmt.Sprintf("no PPU flag is written from LCDC bit %d", bit))
		}
	}
	return m
}

// scene prepares a state: LCDC flags, no DMA, the given objects on this line.
type sceneObj struct {
	Slot         int
	Y, X         int64
	Tile         *ai.Int // nil: symbolic
	Attr         *ai.Int
	OverlapsLine bool
}

func (m *renderModel) scene(st *ai.State, lcdc map[int]bool, objs []sceneObj) {
	c := m.c
	for bit, on := range lcdc {
		st.SetCell(m.PPU, m.lcdc[bit], ai.NewConstBool(on))
	}
	if ai.LeafTypeAt(m.PPU.T, ".debug") != nil {
		st.SetCell(m.PPU, ".debug", ai.NewConstBool(false))
	}
	st.SetCell(m.OAM, ".dmaRunning", ai.NewConstBool(false))
	for k := 0; k < 40; k++ {
		st.SetCell(m.PPU, fmt.Sprintf("%s[%d]", m.overlap, k), ai.NewConstBool(false))
	}
	for _, o := range objs {
		st.SetCell(m.PPU, fmt.Sprintf("%s[%d]", m.overlap, o.Slot), ai.NewConstBool(o.OverlapsLine))
		base := o.Slot * 4
		st.SetCell(m.OAM, fmt.Sprintf(".oam[%d]", base), ai.NewConstInt(8, false, o.Y))
		st.SetCell(m.OAM, fmt.Sprintf(".oam[%d]", base+1), ai.NewConstInt(8, false, o.X))
		if o.Tile != nil {
			st.SetCell(m.OAM, fmt.Sprintf(".oam[%d]", base+2), o.Tile)
		}
		if o.Attr != nil {
			st.SetCell(m.OAM, fmt.Sprintf(".oam[%d]", base+3), o.Attr)
		}
	}
	_ = c
}

// pixel evaluates the pixel routine at (x,y); tilePix decides what the tile-row decoder returns.
func (m *renderModel) pixel(st *ai.State, x, y int64, tilePix func(caller string, nth int) int64) *pixResult {
	c := m.c
	it := c.W.It
	res := &pixResult{}
	nth := map[string]int{}
	it.Intercepts[m.Tile] = func(s *ai.State, at ssa.Instruction, args []ai.Value) (ai.Value, *ai.State) {
		caller := at.Parent().Name()
		tc := tileCall{Caller: caller}
		if len(args) >= 4 {
			tc.Tile, _ = args[1].(*ai.Int)
			tc.X, _ = args[2].(*ai.Int)
			tc.Y, _ = args[3].(*ai.Int)
		}
		v := tilePix(caller, nth[caller])
		nth[caller]++
		tc.ResultGiven = v
		res.Tiles = append(res.Tiles, tc)
		if v < 0 {
			r := ai.NewSymInt(8, false, it.NewSym(fmt.Sprintf("pixel:%s#%d", caller, nth[caller]), ai.CellKey{}))
			return ai.NarrowInt(r, 0, 3), s
		}
		return ai.NewConstInt(8, false, v), s
	}
	it.Intercepts[m.SetRGBA] = func(s *ai.State, _ ssa.Instruction, args []ai.Value) (ai.Value, *ai.State) {
		res.Draws++
		if len(args) >= 3 {
			a, _ := args[1].(*ai.Int)
			b, _ := args[2].(*ai.Int)
			res.DrawXY = append(res.DrawXY, [2]*ai.Int{a, b})
		}
		return nil, s
	}
	defer func() {
		delete(it.Intercepts, m.Tile)
		delete(it.Intercepts, m.SetRGBA)
	}()
	it.Hooks = ai.Hooks{
		Undecided: func(_ *ai.State, _ ssa.Instruction, what string) { res.Und = append(res.Und, what) },
		Elem: func(_ *ai.State, at ssa.Instruction, o *ai.Object, path string, idx *ai.Int, _ int64) {
			label := c.cellLabel(ai.CellKey{Obj: o.ID, Path: ai.NormPath(path)})
			is := "?"
			if cv, isc := constOf(idx); isc {
				is = fmt.Sprint(cv)
			}
			if name, ok := m.palPrefix[label]; ok {
				res.Palette = append(res.Palette, fmt.Sprintf("%s[%s]", name, is))
				return
			}
			if name, ok := m.shadeTables()[o]; ok {
				res.Shade = append(res.Shade, name+"["+is+"]")
			}
			if o == m.PPU && path == ".videoRAM" && (at.Parent() == m.BG || at.Parent() == m.Win) {
				res.MapIdx = append(res.MapIdx, idx)
			}
		},
	}
	_, post := it.CallFunction(st, m.Pixel, []ai.Value{ptrTo(m.PPU), ai.NewConstInt(8, false, x), ai.NewConstInt(8, false, y)}, nil)
	it.Hooks = ai.Hooks{}
	res.Post = post
	return res
}

// shadeTables maps the backing arrays of the package-level colour tables of the PPU package to
// "grey" (four opaque greys, strictly darker with the index) or "other:<name>".
func (m *renderModel) shadeTables() map[*ai.Object]string {
	if m.shades != nil {
		return m.shades
	}
	m.shades = map[*ai.Object]string{}
	c := m.c
	it := c.W.It
	st := it.StateOn(c.W.InitHeap)
	for _, g := range repoGlobals(c) {
		if g.Pkg.Pkg.Name() != "ppu" {
			continue
		}
		gv := st.LoadPtr(&ai.Ptr{Obj: it.GlobalObject(g), Path: "", Elem: g.Type().Underlying().(*types.Pointer).Elem()})
		sl, ok := gv.(*ai.Slice)
		if !ok || !strings.Contains(sl.Elem.String(), "color.RGBA") {
			continue
		}
		n, _ := sl.Len.Const()
		grey := n == 4
		prev := int64(256)
		for i := int64(0); grey && i < 4; i++ {
			var ch [4]int64
			for j, f := range []string{".R", ".G", ".B", ".A"} {
				v, _ := st.LoadPtr(&ai.Ptr{Obj: sl.Obj, Path: fmt.Sprintf("%s[%d]%s", sl.Path, i, f), Elem: types.Typ[types.Uint8]}).(*ai.Int)
				cv, isc := constOf(v)
				if !isc {
					grey = false
				}
				ch[j] = cv
			}
			grey = grey && ch[0] == ch[1] && ch[1] == ch[2] && ch[3] == 0xff && ch[0] < prev
			prev = ch[0]
		}
		if grey {
			m.shades[sl.Obj] = "grey"
		} else {
			m.shades[sl.Obj] = "other:" + g.Name()
		}
	}
	return m.shades
}

func lastOf(s []string) string {
	if len(s) == 0 {
		return "(none)"
	}
	return s[len(s)-1]
}

func checkC15(c *Ctx) *report.Result {
	r := report.New("C15", "other", "decision tables of the pixel-composition routines by abstract evaluation: the tile-row decoder's truth table (bit planes, pixel order), the per-object line test over all LY x Y, the column test over all X for representative pixels, the attribute byte bit by bit, the layer composition over object colour x priority x palette x background colour x window hit with the tile decoder's result fixed per layer, scroll and window offsets over all register values for representative pixels, tile addressing modes and map selection")
	r.Explanation = "Pixel composition is a handful of small pure routines over registers, OAM bytes and VRAM bytes; the check extracts each one's decision table by abstract evaluation with the relevant inputs constant and everything else symbolic, and compares it with the DMG rules. (planes) The tile-row decoder, with its two VRAM loads replaced by constants, returns (second byte bit << 1 | first byte bit), taking bit 7-x for pixel column x. (line) The per-object line test is evaluated for every LY 0-143 x every object Y 0-255: an 8x8 object covers lines Y-16..Y-9 and nothing else may influence the result (no per-line limit state, no wrap at the top edge). (column) For representative pixel columns and every object X 0-255 the object is sampled iff X-8 <= x < X, at tile column x-(X-8). (attr) With one object covering the pixel and its attribute byte set to each single bit in turn: bit 7 alone makes the background be consulted first, bit 6 alone flips the tile row, bit 5 alone flips the tile column, bit 4 alone selects OBP1, bits 3-0 change nothing. (compose) With the tile decoder's result fixed per layer, for every object colour 0-3 x priority x palette x background colour 0-3 x window hit: the pixel drawn is OBPn[object colour] if the object colour is non-zero and (no priority or background colour 0), else BGP[background colour], through the grey shade table; a transparent first object yields to the next one; exactly one pixel is drawn at (x,y). (scroll/window/tiles) Map index, tile column/row and addressing mode are checked for every SCX, SCY, WX (7-166), WY value at representative pixels, for both maps and both addressing modes."
	r.Rule("V-planes", "tile-row decoder truth table: colour = (second byte bit << 1) | first byte bit; pixel column x uses bit 7-x; row r uses bytes 2r, 2r+1 of the tile")
	r.Rule("V-clip", "object line test for all LY x Y (8x8 objects): visible iff Y-16 <= LY < Y-8, depending on nothing else; column test for all X at representative pixels: sampled iff X-8 <= x < X at tile column x-(X-8)")
	r.Rule("V-attr", "attribute byte: bit 7 priority, bit 6 Y flip, bit 5 X flip, bit 4 palette; bits 3-0 have no effect")
	r.Rule("V-compose", "layer composition table (object colour x priority x palette x background colour x window hit; first opaque object wins); one pixel drawn at (x,y) through the grey table")
	r.Rule("V-scroll", "background: map index 32*((y+SCY)/8 mod 32) + ((x+SCX)/8 mod 32) on the selected map, tile column/row (x+SCX) mod 8 / (y+SCY) mod 8, for all SCX and SCY at representative pixels; both addressing modes")
	r.Rule("V-window", "window: hit iff WX-7 <= x and WY <= y (WX 7-166, WY 0-143), window pixel (x-(WX-7), y-WY) on the selected window map; depends on nothing else")
	r.NotDecided = []string{"8x16 objects, the 10-objects-per-line limit and X-priority between objects (outside the statement's scene restrictions)", "pixels for which more than two objects overlap (the sibling rule 'first opaque wins' is checked for two)", "the mid-frame timing of register changes (the statement fixes registers for the frame)"}
	r.TrustedBase = []string{"DMG rendering rules (Pan Docs / property statement)", "go/ssa, abstract interpreter (constants, pruned branches)"}
	m := c.renderModel()
	if len(m.errs) > 0 {
		r.Fail("unresolved", "V-compose", "render model", "", strings.Join(m.errs, "; "))
		return r
	}
	it := c.W.It
	pw := firstPos(c, m.Pixel)

	// ---------------- V-planes
	{
		var bad []string
		eval := func(a, b int64, col, row int64, tile int64) (int64, bool, []int64) {
			st := it.StateOn(c.W.Generic)
			n := 0
			var idxs []int64
			it.Hooks = ai.Hooks{
				LoadOverride: func(_ *ai.State, at ssa.Instruction, p *ai.Ptr, v ai.Value) (ai.Value, bool) {
					if p == nil || p.Obj != m.PPU || !strings.HasPrefix(p.Path, ".videoRAM") {
						return nil, false
					}
					n++
					if n == 1 {
						return ai.NewConstInt(8, false, a), true
					}
					return ai.NewConstInt(8, false, b), true
				},
				Elem: func(_ *ai.State, _ ssa.Instruction, o *ai.Object, path string, idx *ai.Int, _ int64) {
					if o == m.PPU && path == ".videoRAM" {
						cv, _ := constOf(idx)
						idxs = append(idxs, cv)
					}
				},
			}
			w, sg := ai.TypeShape(m.Tile.Params[1].Type())
			res, _ := it.CallFunction(st, m.Tile, []ai.Value{ptrTo(m.PPU), ai.NewConstInt(w, sg, tile), ai.NewConstInt(8, false, col), ai.NewConstInt(8, false, row)}, nil)
			it.Hooks = ai.Hooks{}
			cv, isc := constOf(res)
			return cv, isc, idxs
		}
		n := 0
		for col := int64(0); col < 8; col++ {
			for _, ab := range [][2]int64{{0, 0}, {1, 0}, {0, 1}, {1, 1}} {
				for other := int64(0); other < 2; other++ {
					// the tested column carries ab; every other column carries `other` in both planes
					mask := int64(1) << uint(7-col)
					fill := func(bit, oth int64) int64 {
						v := int64(0)
						if oth == 1 {
							v = 0xFF &^ mask
						}
						if bit == 1 {
							v |= mask
						}
						return v
					}
					got, isc, idxs := eval(fill(ab[0], other), fill(ab[1], other), col, 3, 5)
					n++
					want := ab[1]<<1 | ab[0]
					okIdx := len(idxs) == 2 && idxs[0] == 5*16+6 && idxs[1] == 5*16+7
					if !isc || got != want || !okIdx {
						if len(bad) < 4 {
							bad = append(bad, fmt.Sprintf("column %d, first-byte bit %d, second-byte bit %d (other columns %d): colour %d (constant %v), documented %d; bytes read at %v, documented [86 87] for tile 5 row 3", col, ab[0], ab[1], other, got, isc, want, idxs))
						}
					}
				}
			}
		}
		r.Ob("V-planes", len(bad) == 0, "tile-row decoder truth table", firstPos(c, m.Tile), strings.Join(bad, "; "))
		r.Instances["V-planes"] += n
	}

	// ---------------- V-clip (lines)
	{
		var bad []string
		nbad, n := 0, 0
		for ly := int64(0); ly < 144; ly++ {
			for y := int64(0); y < 256; y++ {
				st := it.StateOn(c.W.Generic)
				st.SetCell(m.PPU, ".ly", ai.NewConstInt(8, false, ly))
				st.SetCell(m.OAM, ".dmaRunning", ai.NewConstBool(false))
				st.SetCell(m.OAM, ".oam[12]", ai.NewConstInt(8, false, y))
				if p := m.lcdc[2]; p != "" {
					st.SetCell(m.PPU, p, ai.NewConstBool(false)) // 8x8 objects
				}
				_, post := it.CallFunction(st, m.Scan, []ai.Value{ptrTo(m.PPU), ai.NewConstInt(8, false, 3)}, nil)
				n++
				got, isc := boolConst(c.cellBool(post, m.PPU, m.overlap+"[3]"))
				want := ly+16 >= y && ly+16 < y+8
				if !isc || got != want {
					nbad++
					if len(bad) < 4 {
						bad = append(bad, fmt.Sprintf("LY=%d, object Y=%d: on this line %v (decided %v), documented %v", ly, y, got, isc, want))
					}
				}
			}
		}
		if nbad > len(bad) {
			bad = append(bad, fmt.Sprintf("... %d cases in all", nbad))
		}
		r.Ob("V-clip", nbad == 0, "object line test over all LY x Y", firstPos(c, m.Scan), strings.Join(bad, "; "))
		r.Instances["V-clip"] += n
	}
	spritesOnly := map[int]bool{0: false, 1: true, 5: false}
	// ---------------- V-clip (columns)
	{
		var bad []string
		nbad, n := 0, 0
		for _, x := range []int64{0, 1, 7, 8, 77, 152, 159} {
			for ox := int64(0); ox < 256; ox++ {
				st := it.StateOn(c.W.Generic)
				m.scene(st, spritesOnly, []sceneObj{{Slot: 2, Y: 16, X: ox, Attr: ai.NewConstInt(8, false, 0), OverlapsLine: true}})
				res := m.pixel(st, x, 0, func(string, int) int64 { return 3 })
				n++
				sampled := false
				var col int64 = -1
				for _, t := range res.Tiles {
					if t.Caller == m.Pixel.Name() {
						sampled = true
						col, _ = constOf(t.X)
					}
				}
				want := x+8 >= ox && x < ox
				if sampled != want || (want && col != x+8-ox) {
					nbad++
					if len(bad) < 4 {
						bad = append(bad, fmt.Sprintf("pixel x=%d, object X=%d: sampled %v at tile column %d, documented %v at column %d", x, ox, sampled, col, want, x+8-ox))
					}
				}
			}
		}
		if nbad > len(bad) {
			bad = append(bad, fmt.Sprintf("... %d cases in all", nbad))
		}
		r.Ob("V-clip", nbad == 0, "object column test over all X at representative pixels", pw, strings.Join(bad, "; "))
		r.Instances["V-clip"] += n
	}

	// ---------------- V-attr
	{
		type sig struct{ behind, row, col, pal string }
		observe := func(attr int64) sig {
			st := it.StateOn(c.W.Generic)
			m.scene(st, map[int]bool{0: true, 1: true, 5: false}, []sceneObj{{Slot: 0, Y: 16, X: 8, Attr: ai.NewConstInt(8, false, attr), OverlapsLine: true}})
			res := m.pixel(st, 0, 0, func(caller string, _ int) int64 {
				if caller == m.Pixel.Name() {
					return 2
				}
				return 1
			})
			s := sig{behind: "object drawn first", row: "?", col: "?", pal: "?"}
			for _, t := range res.Tiles {
				if t.Caller == m.Pixel.Name() {
					cx, _ := constOf(t.X)
					cy, _ := constOf(t.Y)
					s.col, s.row = fmt.Sprint(cx), fmt.Sprint(cy)
				} else {
					s.behind = "background consulted"
				}
			}
			s.pal = lastOf(res.Palette)
			return s
		}
		base := observe(0)
		want := map[int]sig{
			7: {"background consulted", base.row, base.col, "bgp[1]"},
			6: {base.behind, "7", base.col, base.pal},
			5: {base.behind, base.row, "7", base.pal},
			4: {base.behind, base.row, base.col, "obp1[2]"},
		}
		r.Ob("V-attr", base == sig{"object drawn first", "0", "0", "obp0[2]"}, "attribute byte 00: unflipped, OBP0, above the background", pw, fmt.Sprintf("observed %+v", base))
		for bit := 7; bit >= 0; bit-- {
			got := observe(int64(1) << uint(bit))
			w, special := want[bit]
			if !special {
				w = base
			}
			r.Ob("V-attr", got == w, fmt.Sprintf("attribute bit %d alone", bit), pw, fmt.Sprintf("observed %+v, documented %+v", got, w))
		}
		r.Sample(map[string]interface{}{"rule": "V-attr", "baseline": fmt.Sprintf("%+v", base)})
	}

	// ---------------- V-compose
	{
		var bad []string
		n := 0
		for sp := int64(0); sp < 4; sp++ {
			for prio := int64(0); prio < 2; prio++ {
				for pal := int64(0); pal < 2; pal++ {
					for bg := int64(0); bg < 4; bg++ {
						for win := 0; win < 2; win++ {
							st := it.StateOn(c.W.Generic)
							m.scene(st, map[int]bool{0: true, 1: true, 5: win == 1}, []sceneObj{{Slot: 4, Y: 16 + 40, X: 8 + 50, Attr: ai.NewConstInt(8, false, prio<<7|pal<<4), OverlapsLine: true}})
							// window position: covers the pixel when enabled
							st.SetCell(m.PPU, ".wx", ai.NewConstInt(8, false, 7))
							st.SetCell(m.PPU, ".wy", ai.NewConstInt(8, false, 0))
							res := m.pixel(st, 50, 40, func(caller string, _ int) int64 {
								if caller == m.Pixel.Name() {
									return sp
								}
								return bg
							})
							n++
							want := fmt.Sprintf("bgp[%d]", bg)
							if sp != 0 && (prio == 0 || bg == 0) {
								want = fmt.Sprintf("obp%d[%d]", pal, sp)
							}
							layer := m.BG.Name()
							if win == 1 {
								layer = m.Win.Name()
							}
							usedLayer := ""
							for _, t := range res.Tiles {
								if t.Caller != m.Pixel.Name() {
									usedLayer = t.Caller
								}
							}
							bgNeeded := !(sp != 0 && prio == 0)
							okLayer := !bgNeeded || usedLayer == layer
							okDraw := res.Draws == 1 && len(res.DrawXY) == 1
							if okDraw {
								dx, _ := constOf(res.DrawXY[0][0])
								dy, _ := constOf(res.DrawXY[0][1])
								okDraw = dx == 50 && dy == 40
							}
							okShade := strings.HasPrefix(lastOf(res.Shade), "grey[")
							if lastOf(res.Palette) != want || !okLayer || !okDraw || !okShade || len(res.Und) > 0 {
								if len(bad) < 4 {
									bad = append(bad, fmt.Sprintf("object colour %d priority %d palette %d, background colour %d, window %d: drawn from %s via %s (layer %s, draws %d), documented %s via grey", sp, prio, pal, bg, win, lastOf(res.Palette), lastOf(res.Shade), usedLayer, res.Draws, want))
								}
							}
						}
					}
				}
			}
		}
		r.Ob("V-compose", len(bad) == 0, "layer composition table (128 cases)", pw, strings.Join(bad, "; "))
		r.Instances["V-compose"] += n
		// first opaque object wins; a transparent one yields
		for _, firstOpaque := range []bool{true, false} {
			st := it.StateOn(c.W.Generic)
			m.scene(st, spritesOnly, []sceneObj{
				{Slot: 1, Y: 16, X: 8, Attr: ai.NewConstInt(8, false, 0x00), OverlapsLine: true},
				{Slot: 6, Y: 16, X: 8, Attr: ai.NewConstInt(8, false, 0x10), OverlapsLine: true},
			})
			res := m.pixel(st, 0, 0, func(caller string, nth int) int64 {
				if caller != m.Pixel.Name() {
					return 0
				}
				if nth == 0 {
					if firstOpaque {
						return 1
					}
					return 0
				}
				return 3
			})
			want := "obp1[3]"
			if firstOpaque {
				want = "obp0[1]"
			}
			r.Ob("V-compose", lastOf(res.Palette) == want && res.Draws == 1, fmt.Sprintf("two objects on the pixel, first opaque %v", firstOpaque), pw, fmt.Sprintf("drawn from %s, documented %s", lastOf(res.Palette), want))
		}
	}

	// ---------------- V-scroll
	{
		bgOnly := map[int]bool{0: true, 1: false, 5: false}
		var bad []string
		nbad, n := 0, 0
		for _, highMap := range []bool{false, true} {
			for _, dim := range []string{"x", "y"} {
				for _, p := range []int64{0, 91, 159} {
					if dim == "y" && p == 159 {
						p = 143
					}
					for sc := int64(0); sc < 256; sc++ {
						st := it.StateOn(c.W.Generic)
						lc := map[int]bool{3: highMap}
						for k, v := range bgOnly {
							lc[k] = v
						}
						m.scene(st, lc, nil)
						x, y, scx, scy := int64(5), int64(9), int64(0x23), int64(0x47)
						if dim == "x" {
							x, scx = p, sc
						} else {
							y, scy = p, sc
						}
						st.SetCell(m.PPU, ".scx", ai.NewConstInt(8, false, scx))
						st.SetCell(m.PPU, ".scy", ai.NewConstInt(8, false, scy))
						res := m.pixel(st, x, y, func(string, int) int64 { return 1 })
						n++
						mapBase := int64(0x1800)
						if highMap {
							mapBase = 0x1C00
						}
						wantIdx := mapBase + 32*(((y+scy)&0xff)/8) + ((x+scx)&0xff)/8
						ok := len(res.Tiles) == 1 && len(res.MapIdx) >= 1
						if ok {
							gi, _ := constOf(res.MapIdx[0])
							cx, _ := constOf(res.Tiles[0].X)
							cy, _ := constOf(res.Tiles[0].Y)
							ok = gi == wantIdx && cx == (x+scx)%8 && cy == (y+scy)%8
						}
						if !ok {
							nbad++
							if len(bad) < 4 {
								bad = append(bad, fmt.Sprintf("pixel (%d,%d) SCX=%d SCY=%d map %v: map index %v, tile offsets %v; documented index %d, offsets (%d,%d)", x, y, scx, scy, highMap, describeIdx(res.MapIdx), describeTiles(res.Tiles), wantIdx, (x+scx)%8, (y+scy)%8))
							}
						}
					}
				}
			}
		}
		if nbad > len(bad) {
			bad = append(bad, fmt.Sprintf("... %d cases in all", nbad))
		}
		r.Ob("V-scroll", nbad == 0, "background map index and tile offsets over all SCX / SCY", firstPos(c, m.BG), strings.Join(bad, "; "))
		r.Instances["V-scroll"] += n
		// tile addressing modes: the tile number handed to the row decoder for four map bytes
		for _, low := range []bool{true, false} {
			var tb []string
			for _, b := range []int64{0x00, 0x7F, 0x80, 0xFF} {
				st := it.StateOn(c.W.Generic)
				m.scene(st, map[int]bool{0: true, 1: false, 5: false, 4: low}, nil)
				nload := 0
				it2 := it
				_ = it2
				res := func() *pixResult {
					// the first video RAM load of the background routine is the map byte
					prev := it.Hooks
					_ = prev
					rr := &pixResult{}
					it.Intercepts[m.Tile] = func(s *ai.State, at ssa.Instruction, args []ai.Value) (ai.Value, *ai.State) {
						tc := tileCall{Caller: at.Parent().Name()}
						tc.Tile, _ = args[1].(*ai.Int)
						rr.Tiles = append(rr.Tiles, tc)
						return ai.NewConstInt(8, false, 1), s
					}
					it.Intercepts[m.SetRGBA] = func(s *ai.State, _ ssa.Instruction, _ []ai.Value) (ai.Value, *ai.State) { return nil, s }
					it.Hooks = ai.Hooks{LoadOverride: func(_ *ai.State, at ssa.Instruction, p *ai.Ptr, v ai.Value) (ai.Value, bool) {
						if p != nil && p.Obj == m.PPU && strings.HasPrefix(p.Path, ".videoRAM") && at.Parent() == m.BG {
							nload++
							return ai.NewConstInt(8, false, b), true
						}
						return nil, false
					}}
					it.CallFunction(st, m.Pixel, []ai.Value{ptrTo(m.PPU), ai.NewConstInt(8, false, 3), ai.NewConstInt(8, false, 4)}, nil)
					it.Hooks = ai.Hooks{}
					delete(it.Intercepts, m.Tile)
					delete(it.Intercepts, m.SetRGBA)
					return rr
				}()
				want := b
				if !low {
					want = 256 + int64(int8(b))
				}
				got := int64(-1)
				if len(res.Tiles) == 1 {
					got, _ = constOf(res.Tiles[0].Tile)
				}
				if got != want {
					tb = append(tb, fmt.Sprintf("map byte %02X -> tile %d, documented %d", b, got, want))
				}
			}
			r.Ob("V-scroll", len(tb) == 0, fmt.Sprintf("tile addressing mode LCDC.4=%v", low), firstPos(c, m.BG), strings.Join(tb, "; "))
		}
	}

	// ---------------- V-window
	{
		var bad []string
		nbad, n := 0, 0
		winOnly := map[int]bool{0: true, 1: false, 5: true}
		for _, highMap := range []bool{false, true} {
			for _, px := range [][2]int64{{0, 0}, {80, 72}, {159, 143}} {
				for wx := int64(7); wx <= 166; wx++ {
					for _, wy := range []int64{0, 72, 143} {
						st := it.StateOn(c.W.Generic)
						lc := map[int]bool{6: highMap}
						for k, v := range winOnly {
							lc[k] = v
						}
						m.scene(st, lc, nil)
						st.SetCell(m.PPU, ".wx", ai.NewConstInt(8, false, wx))
						st.SetCell(m.PPU, ".wy", ai.NewConstInt(8, false, wy))
						st.SetCell(m.PPU, ".scx", ai.NewConstInt(8, false, 0))
						st.SetCell(m.PPU, ".scy", ai.NewConstInt(8, false, 0))
						res := m.pixel(st, px[0], px[1], func(string, int) int64 { return 2 })
						n++
						hit := px[0] >= wx-7 && px[1] >= wy
						ok := len(res.Tiles) == 1
						if ok {
							t := res.Tiles[0]
							if hit {
								wxp, wyp := px[0]-(wx-7), px[1]-wy
								mapBase := int64(0x1800)
								if highMap {
									mapBase = 0x1C00
								}
								gi := int64(-1)
								if len(res.MapIdx) > 0 {
									gi, _ = constOf(res.MapIdx[0])
								}
								cx, _ := constOf(t.X)
								cy, _ := constOf(t.Y)
								ok = t.Caller == m.Win.Name() && gi == mapBase+32*(wyp/8)+wxp/8 && cx == wxp%8 && cy == wyp%8
							} else {
								ok = t.Caller == m.BG.Name()
							}
						}
						if !ok || len(res.Und) > 0 {
							nbad++
							if len(bad) < 4 {
								bad = append(bad, fmt.Sprintf("pixel (%d,%d) WX=%d WY=%d map %v: %s index %v; documented window hit %v", px[0], px[1], wx, wy, highMap, describeTiles(res.Tiles), describeIdx(res.MapIdx), hit))
							}
						}
					}
				}
			}
		}
		if nbad > len(bad) {
			bad = append(bad, fmt.Sprintf("... %d cases in all", nbad))
		}
		r.Ob("V-window", nbad == 0, "window hit test and window coordinates over WX 7-166 x WY", firstPos(c, m.Win), strings.Join(bad, "; "))
		r.Instances["V-window"] += n
	}
	// ---------------- V-scan: every OAM entry is line-tested once per line, for that line
	r.Rule("V-scan", "OAM scan: during the 20 mode-2 ticks of every line 0-143 (also the first line after switch-on) each of the 40 OAM entries has its line test stored exactly once, computed from its own Y byte (OAM byte 4k)")
	{
		pm := c.ppuModel()
		if len(pm.Errors) > 0 {
			r.Fail("unresolved", "V-scan", "PPU model", "", strings.Join(pm.Errors, "; "))
		} else {
			type lineKey struct {
				L  int64
				FL bool
			}
			count := map[lineKey]map[int64]int{}
			var bad []string
			facts := pm.scanFacts()
			for _, f := range facts {
				key := lineKey{f.From.T / 114, f.From.FirstLine}
				if count[key] == nil {
					count[key] = map[int64]int{}
				}
				okStep := f.OK && len(f.Entries) == len(f.OAMIdx)
				for i, k := range f.Entries {
					count[key][k]++
					if okStep && f.OAMIdx[i] != 4*k {
						okStep = false
					}
				}
				if !okStep && len(bad) < 4 {
					bad = append(bad, fmt.Sprintf("tick %d (first line %v): line tests stored for entries %v from OAM bytes %v (documented: byte 4k for entry k)", f.From.T, f.From.FirstLine, f.Entries, f.OAMIdx))
				}
			}
			lines := 0
			for key, m := range count {
				lines++
				var miss []int64
				for k := int64(0); k < 40; k++ {
					if m[k] != 1 {
						miss = append(miss, k)
					}
				}
				if (len(miss) > 0 || len(m) != 40) && len(bad) < 8 {
					bad = append(bad, fmt.Sprintf("line %d (first line after switch-on: %v): entries not line-tested exactly once: %v", key.L, key.FL, miss))
				}
			}
			sort.Strings(bad)
			r.Ob("V-scan", len(bad) == 0 && lines == 145, "every OAM entry line-tested once per line", firstPos(c, pm.StepFn), fmt.Sprintf("%d lines (144 + the first line after switch-on) over %d mode-2 ticks; %s", lines, len(facts), strings.Join(bad, "; ")))
			r.Instances["V-scan"] += len(facts)
		}
	}
	r.Rule("V-sched", "lines are drawn on the documented schedule (rules L-inv / L-switch of C13 re-stated): every visible line goes through its OAM scan and pixel transfer ticks")
	adopt(r, c.sibling("C13"), map[string]string{"L-inv": "V-sched", "L-switch": "V-sched", "L-own": "V-sched"}, "a line whose scan or transfer ticks are skipped is drawn from stale data")
	r.Rule("V-oam", "the PPU sees OAM: a transfer always terminates after 162 steps whenever it was (re)started, and is stepped every machine cycle (D-start, D-table, D-idle, D-step of C16 re-stated) - while one is flagged as running the PPU reads FF for every object byte")
	adopt(r, c.sibling("C16"), map[string]string{"D-start": "V-oam", "D-table": "V-oam", "D-idle": "V-oam", "D-step": "V-oam"}, "a transfer that never finishes leaves the PPU reading FF from OAM: every object disappears from every later frame")
	return r
}

func describeTiles(ts []tileCall) string {
	var s []string
	for _, t := range ts {
		s = append(s, fmt.Sprintf("%s(tile %s, col %s, row %s)", t.Caller, ai.ValueString(t.Tile), ai.ValueString(t.X), ai.ValueString(t.Y)))
	}
	sort.Strings(s)
	return strings.Join(s, " ")
}

func describeIdx(is []*ai.Int) string {
	var s []string
	for _, i := range is {
		s = append(s, ai.ValueString(i))
	}
	return strings.Join(s, ",")
}
