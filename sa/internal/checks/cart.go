package checks

import (
	"fmt"
	"sort"

	"golang.org/x/tools/go/ssa"

	"verif/sa/internal/ai"
)

// Cart is one cartridge controller alternative of the machine.
type Cart struct {
	Name string // none mbc1 mbc2 mbc3 mbc5
	Alt  ai.Value
	Obj  *ai.Object
}

var cartKinds = []string{"none", "mbc1", "mbc2", "mbc3", "mbc5"}

// carts lists the controller alternatives held by the mapper's controller cell.
func (c *Ctx) carts() (cell string, out []*Cart, hasNil bool) {
	cell, alts := c.mbcAlternatives()
	for _, a := range alts {
		switch x := a.(type) {
		case *ai.NilV:
			hasNil = true
		case *ai.Iface:
			ct := &Cart{Name: altName(a), Alt: a}
			if p, ok := x.V.(*ai.Ptr); ok {
				ct.Obj = p.Obj
			}
			out = append(out, ct)
		}
	}
	sort.Slice(out, func(i, j int) bool { return out[i].Name < out[j].Name })
	return
}

// withCart fixes the controller cell to one alternative.
func (c *Ctx) withCart(cell string, ct *Cart, more func(*ai.State)) func(*ai.State) {
	mp := c.mapperPtr()
	return func(st *ai.State) {
		st.SetCell(mp.Obj, cell, ct.Alt)
		if more != nil {
			more(st)
		}
	}
}

// storageOf returns the distinct storage objects indexed by the element accesses
// of an evaluation that are not part of the controller object itself.
func storageOf(ev *DecEval, ct *Cart) map[*ai.Object]bool {
	out := map[*ai.Object]bool{}
	for _, e := range ev.Elems {
		if e.Obj != nil && (ct.Obj == nil || e.Obj != ct.Obj) {
			out[e.Obj] = true
		}
	}
	return out
}

// boolCellsOf lists the boolean cells of an object in the generic state.
func (c *Ctx) boolCellsOf(o *ai.Object) []string {
	var out []string
	st := c.W.It.StateOn(c.W.Generic)
	for path, v := range st.RawCells(o) {
		if _, ok := v.(*ai.Bool); ok {
			out = append(out, path)
		}
	}
	sort.Strings(out)
	return out
}

// probeWrite evaluates a control write with a constant value and returns the post-state.
func (c *Ctx) probeWrite(cell string, ct *Cart, addr int, value int, more func(*ai.State)) *DecEval {
	return c.evalDecoder(true, addr, addr, c.withCart(cell, ct, more), ai.NewConstInt(8, false, int64(value)))
}

func constOf(v ai.Value) (int64, bool) {
	iv, ok := v.(*ai.Int)
	if !ok {
		return 0, false
	}
	return iv.Const()
}

func posOf(c *Ctx, at ssa.Instruction) string {
	if at == nil {
		return ""
	}
	return c.pos(at)
}

func hex(v int) string { return fmt.Sprintf("%04X", v) }
