package checks

import (
	"fmt"
	"go/types"
	"sort"
	"strings"

	"golang.org/x/tools/go/ssa"

	"verif/sa/internal/ai"
	"verif/sa/internal/report"
	"verif/sa/internal/world"
)

func init() {
	register("C21", checkC21)
}

// timerStore is one store into a channel's frequency-timer field.
type timerStore struct {
	At     *ssa.Store
	Prefix string
	Form   linForm
	Type   string // channel type key
}

// storesToField lists the stores to field `name` of struct type `typeKey` in repository code.
func (c *Ctx) storesToField(typeKey, name string) []timerStore {
	var out []timerStore
	for _, f := range c.P.Funcs {
		if !isRepoFn(f) {
			continue
		}
		for _, b := range f.Blocks {
			for _, ins := range b.Instrs {
				s, ok := ins.(*ssa.Store)
				if !ok {
					continue
				}
				fa, ok := s.Addr.(*ssa.FieldAddr)
				if !ok || fieldName(fa) != name {
					continue
				}
				pt, _ := fa.X.Type().Underlying().(*types.Pointer)
				if pt == nil {
					continue
				}
				n, _ := pt.Elem().(*types.Named)
				if n == nil || n.Obj().Pkg() == nil || n.Obj().Pkg().Name()+"."+n.Obj().Name() != typeKey {
					continue
				}
				prefix := leafExpr(fa.X, nil)
				w, _ := ai.TypeShape(s.Val.Type())
				out = append(out, timerStore{At: s, Prefix: prefix, Form: linOf(s.Val, nil, 0).relTo(prefix).reduce(w), Type: typeKey})
			}
		}
	}
	return out
}

func checkC21(c *Ctx) *report.Result {
	r := report.New("C21", "other", "affine normal form of every store to a frequency timer (SSA value graph, helper calls inlined); abstract interpretation of each channel's per-clock routine under case splits (timer zero / non-zero, waveform index, noise divisor x shift table, LFSR feedback bits x width); control-dependence rule for the per-clock fan-out")
	r.Explanation = "A waveform generator here is a down-counter: when the frequency timer is 0 it is reloaded with the period and the waveform position advances by one, and in every clock it is decremented by one; so the waveform steps exactly every <reload value> clocks. The check decides that shape and the reload values for all register contents at once: (1) every store to a square/wave timer is, in affine normal form over the channel's own fields, either the documented period 4*(2048-f) resp. 2*(2048-f) or 'timer-1'; (2) evaluated abstractly, the per-clock routine with timer != 0 changes nothing but timer := timer-1, and with timer == 0 advances the position by one modulo 8 (squares) / 32 (wave) [each index value enumerated] and leaves timer = period-1; (3) the noise reload is evaluated for each of the 8 divisor codes x 14 shifts and must be d(r)*2^s - 1 after the decrement, and the trigger path (NR44 bit 7) must load d(r)*2^s; (4) the LFSR transition is evaluated for the 4 values of bits 1-0 x both widths with every other bit symbolic: bit i' = bit i+1, bit 14' = bit0 xor bit1, bit 15' = 0 and, in 7-bit mode, bit 6' = bit0 xor bit1 exactly (so the low 7 bits are an autonomous 7-bit register) - that is, bit for bit, the documented Fibonacci LFSR x^15+x^14+1 (resp. its 7-bit variant), whose periods 32767 and 127 are mathematical facts about those polynomials; (5) each channel's per-clock routine is called exactly once per clock, control dependent at most on that channel's own trigger flag."
	r.Rule("Q-period", "every store to a square/wave frequency timer is 4*(2048-f) / 2*(2048-f) over the channel's own frequency field, or timer-1")
	r.Rule("Q-step", "per-clock routine: timer != 0 => only timer := timer-1; timer == 0 => position advances by one (mod 8 / mod 32) and timer = period-1")
	r.Rule("Q-noise", "noise: reload = d(r)*2^s for r in 0..7, s in 0..13 (d = 8,16,32,...,112), on the per-clock path and on the trigger path")
	r.Rule("Q-lfsr", "LFSR step: shift right by one, feedback bit0^bit1 into bit 14 (and exactly into bit 6 in 7-bit mode), bit 15 stays 0; no step while timer != 0")
	r.Rule("Q-clock", "each channel's per-clock routine has exactly one call per channel object, all from one fan-out routine called unconditionally once per clock, guarded at most by the channel's own trigger flag")
	r.NotDecided = []string{"periods as counts over emulated time (they follow from the down-counter shape by arithmetic, not by observation)", "the clocks skipped in the machine cycle of a trigger (the emulator's trigger delay model)", "the first LFSR step after a trigger (the register is loaded with 0xFFFF; bit 15 drops out after one step)"}
	r.TrustedBase = []string{"documented formulas (property statement)", "the periods of the documented LFSR polynomials (mathematical fact)", "go/ssa, abstract interpreter, affine normal form"}
	it := c.W.It

	chObjs, enabledPath, cerr := c.soundChannels()
	if cerr != "" {
		r.Fail("unresolved", "Q-step", "channel objects", "", cerr)
		return r
	}
	maxOf := func(o *ai.Object, path string) int64 {
		w, _ := ai.TypeShape(ai.LeafTypeAt(o.T, path))
		if w >= 63 {
			return 1 << 62
		}
		return int64(1)<<uint(w) - 1
	}
	tickOf := func(o *ai.Object) *ssa.Function { return c.methodOf(o.TypeKey, "tickTimer") }

	// ---- Q-period: affine forms of all timer stores
	want := map[string]linForm{}
	for k := 0; k < 3; k++ {
		mul := int64(4)
		if k == 2 {
			mul = 2
		}
		w, _ := ai.TypeShape(ai.LeafTypeAt(chObjs[k].T, ".timer"))
		want[chObjs[k].TypeKey] = linForm{Coef: map[string]int64{".frequency": -mul}, K: 2048 * mul, OK: true}.reduce(w)
	}
	seenTypes := map[string]bool{}
	for k := 0; k < 3; k++ {
		tk := chObjs[k].TypeKey
		if seenTypes[tk] {
			continue
		}
		seenTypes[tk] = true
		w, _ := ai.TypeShape(ai.LeafTypeAt(chObjs[k].T, ".timer"))
		dec := linForm{Coef: map[string]int64{".timer": 1}, K: -1, OK: true}.reduce(w)
		stores := c.storesToField(tk, "timer")
		nReload := 0
		for _, s := range stores {
			isReload := s.Form.equal(want[tk])
			isDec := s.Form.equal(dec)
			if isReload {
				nReload++
			}
			r.Ob("Q-period", isReload || isDec, fmt.Sprintf("store to %s.timer in %s", tk, fnName(outerFn(s.At.Parent()))), c.pos(s.At), fmt.Sprintf("stores %s; documented: %s (period) or %s (per-clock decrement)", s.Form, want[tk], dec))
		}
		r.Ob("Q-period", nReload >= 2, tk+": reload sites (per-clock routine and trigger)", "", fmt.Sprintf("%d stores of the period found", nReload))
		r.Sample(map[string]interface{}{"channel_type": tk, "timer_stores": len(stores), "period_form": want[tk].String()})
	}

	// ---- who may restart a frequency timer: the channel's own clocking and the trigger - not a frequency write
	{
		nrx4h := [4]map[string]bool{}
		for k, a := range []int{0xFF14, 0xFF19, 0xFF1E, 0xFF23} {
			nrx4h[k] = map[string]bool{}
			for _, f := range c.evalDecoder(true, a, a, nil, nil).Direct {
				nrx4h[k][fnName(f)] = true
			}
		}
		viol := map[string]string{}
		n := 0
		c.evalAllEntries(ai.Hooks{
			Store: func(_ *ai.State, at ssa.Instruction, p *ai.Ptr, keys []ai.CellKey, _ ai.Value, _ bool) {
				for _, key := range keys {
					for k := 0; k < 4; k++ {
						if key.Obj != chObjs[k].ID || key.Path != ".timer" {
							continue
						}
						n++
						fn := outerFn(at.Parent())
						if recvTypeKey(fn) == chObjs[k].TypeKey || c.onStack(nrx4h[k]) {
							continue
						}
						viol[fmt.Sprintf("channel %d frequency timer stored by %s", k+1, fnName(fn))] = c.pos(at)
					}
				}
			},
		}, func(*world.Entry, *ai.State) {})
		for k, pos := range viol {
			r.Ob("Q-period", false, k, pos, "a frequency timer is reloaded only when it runs out and on a trigger (NRx4 bit 7); reloading it on any other write restarts the running period, so that waveform step is not one period long")
		}
		r.Ob("Q-period", n > 0, "stores to the frequency timers examined over every run-phase entry", "", fmt.Sprintf("%d stores", n))
	}

	// ---- Q-trigger: the period loaded by a trigger is that of the frequency just written
	r.Rule("Q-trigger", "NRx4 write with bit 7 set (channels 1-3): afterwards the frequency field holds (written bits 2-0) << 8 | old low byte and the timer holds the period of that new frequency - for every high part 0-7 x representative low bytes, with the previous high part different")
	{
		pObj, pPath := c.powerCell()
		nrx4 := []int{0xFF14, 0xFF19, 0xFF1E}
		for k := 0; k < 3 && pObj != nil; k++ {
			mul := int64(4)
			if k == 2 {
				mul = 2
			}
			var bad []string
			n := 0
			for h := int64(0); h < 8; h++ {
				for _, lo := range []int64{0x00, 0xA5, 0xFF} {
					oldF := ((h ^ 5) << 8) | lo
					newF := (h << 8) | lo
					ev := c.evalDecoder(true, nrx4[k], nrx4[k], func(st *ai.State) {
						st.SetCell(pObj, pPath, ai.NewConstBool(true))
						w, sg := ai.TypeShape(ai.LeafTypeAt(chObjs[k].T, ".frequency"))
						st.SetCell(chObjs[k], ".frequency", ai.NewConstInt(w, sg, oldF))
						if k == 0 {
							c.forceSweepShift(st, chObjs[0], c.reachableObjects(chObjs[0]), 0, 0)
						}
					}, ai.NewConstInt(8, false, 0x80|h))
					n++
					f, fc := constOf(c.cellInt(ev.Post, chObjs[k], ".frequency"))
					t, tc := constOf(c.cellInt(ev.Post, chObjs[k], ".timer"))
					if !(fc && f == newF && tc && t == mul*(2048-newF)) && len(bad) < 3 {
						bad = append(bad, fmt.Sprintf("old frequency %03X, NRx4 := %02X: frequency' = %s (documented %03X), timer' = %s (documented %d)", oldF, 0x80|h, ai.ValueString(c.cellInt(ev.Post, chObjs[k], ".frequency")), newF, ai.ValueString(c.cellInt(ev.Post, chObjs[k], ".timer")), mul*(2048-newF)))
					}
				}
			}
			r.Ob("Q-trigger", len(bad) == 0 && n == 24, fmt.Sprintf("channel %d: trigger loads the period of the frequency written by the same NRx4 write", k+1), "", strings.Join(bad, "; "))
			r.Instances["Q-trigger"] += n
		}
		if pObj == nil {
			r.Fail("unresolved", "Q-trigger", "power flag", "", "not found")
		}
	}

	// ---- Q-power: power-off clears the frequency registers (they are write-only, so C18's read-back cannot see it):
	// after a power cycle f is 0 until written again, and the noise divisor and shift are those of NR43 = 00
	r.Rule("Q-power", "after the NR52 power-off write the frequency field of channels 1-3 is 0 and the cells NR43 fills hold what NR43 := 00 gives, whatever they held before")
	{
		pObj, pPath := c.powerCell()
		if pObj == nil {
			r.Fail("unresolved", "Q-power", "power flag", "", "not found")
		} else {
			on := func(st *ai.State) { st.SetCell(pObj, pPath, ai.NewConstBool(true)) }
			off := c.evalDecoder(true, 0xFF26, 0xFF26, on, ai.NewConstInt(8, false, 0x00))
			for k := 0; k < 3; k++ {
				f, fc := constOf(c.cellInt(off.Post, chObjs[k], ".frequency"))
				r.Ob("Q-power", off.Post != nil && fc && f == 0, fmt.Sprintf("channel %d: frequency is 0 after power-off", k+1), hposOf(c, off), fmt.Sprintf("frequency after the power-off write: %s (documented 0: NRx3 and NRx4 are cleared)", ai.ValueString(c.cellInt(off.Post, chObjs[k], ".frequency"))))
			}
			z := c.evalDecoder(true, 0xFF22, 0xFF22, on, ai.NewConstInt(8, false, 0x00))
			n := 0
			var bad []string
			for _, p := range c.storedCellsOf(z, chObjs[3]) {
				a, b := z.Post.LoadPtr(&ai.Ptr{Obj: chObjs[3], Path: p}), ai.Value(nil)
				if off.Post != nil {
					b = off.Post.LoadPtr(&ai.Ptr{Obj: chObjs[3], Path: p})
				}
				n++
				if a == nil || b == nil || ai.ValueString(a) != ai.ValueString(b) || !isConstValue(a) {
					bad = append(bad, fmt.Sprintf("%s: NR43 := 00 leaves %s, power-off leaves %s", p, ai.ValueString(a), ai.ValueString(b)))
				}
			}
			r.Ob("Q-power", n > 0 && len(bad) == 0, "channel 4: the cells NR43 fills are cleared by power-off", hposOf(c, off), strings.Join(bad, "; "))
		}
	}

	// ---- Q-step for squares and wave
	steps := []int{8, 8, 32}
	posPath := []string{".dutyIndex", ".dutyIndex", ".position"}
	for k := 0; k < 3; k++ {
		o := chObjs[k]
		fn := tickOf(o)
		name := fmt.Sprintf("channel %d", k+1)
		if fn == nil || ai.LeafTypeAt(o.T, posPath[k]) == nil || ai.LeafTypeAt(o.T, ".timer") == nil {
			r.Fail("unresolved", "Q-step", name+" per-clock routine", "", "tickTimer / position / timer not found on "+o.TypeKey)
			continue
		}
		playing := func(st *ai.State) { st.SetCell(o, enabledPath[k], ai.NewConstBool(true)) }
		// timer != 0
		var ts, ps ai.Sym
		ev := c.evalCall(nil, fn, []ai.Value{ptrTo(o)}, nil, func(st *ai.State) {
			playing(st)
			ts = c.symCell(st, o, ".timer")
			st.SetCell(o, ".timer", ai.NarrowInt(c.cellInt(st, o, ".timer"), 1, maxOf(o, ".timer")))
			ps = c.symCell(st, o, posPath[k])
		})
		t1 := c.cellInt(ev.Post, o, ".timer")
		p1 := c.cellInt(ev.Post, o, posPath[k])
		okPos := p1 != nil
		if okPos {
			for i := range p1.Bits {
				okPos = okPos && isSrcBit(p1.Bits[i], ps, i)
			}
		}
		r.Ob("Q-step", t1 != nil && t1.HasBase && t1.Base == ts && t1.Off == -1 && okPos && len(ev.Undecided) == 0, name+": timer != 0 => timer-1, position unchanged", firstPos(c, fn), fmt.Sprintf("timer' = %s, position' = %s %v", ai.ValueString(t1), ai.ValueString(p1), ev.Undecided))
		// timer == 0, every index
		var bad []string
		for i := 0; i < steps[k]; i++ {
			ev := c.evalCall(nil, fn, []ai.Value{ptrTo(o)}, nil, func(st *ai.State) {
				playing(st)
				st.SetCell(o, ".timer", ai.NewConstInt(c.widthOf(o, ".timer"), false, 0))
				st.SetCell(o, posPath[k], ai.NewConstInt(c.widthOf(o, posPath[k]), false, int64(i)))
			})
			p := c.cellInt(ev.Post, o, posPath[k])
			cv, isc := int64(-1), false
			if p != nil {
				cv, isc = p.Const()
			}
			if !isc || cv != int64((i+1)%steps[k]) {
				bad = append(bad, fmt.Sprintf("position %d -> %s (documented %d)", i, ai.ValueString(p), (i+1)%steps[k]))
			}
			// timer afterwards: in [period-1]: interval check against the frequency range
			t := c.cellInt(ev.Post, o, ".timer")
			mul := int64(4)
			if k == 2 {
				mul = 2
			}
			if t == nil || t.Lo < mul-1 || t.Hi > 2048*mul-1 {
				bad = append(bad, fmt.Sprintf("timer after reload %s outside [%d,%d]", ai.ValueString(t), mul-1, 2048*mul-1))
			}
		}
		if len(bad) > 3 {
			bad = append(bad[:3], fmt.Sprintf("... %d more", len(bad)-3))
		}
		r.Ob("Q-step", len(bad) == 0, fmt.Sprintf("%s: timer == 0 => position+1 mod %d, timer reloaded", name, steps[k]), firstPos(c, fn), strings.Join(bad, "; "))
	}

	// ---- Q-noise
	n := chObjs[3]
	nfn := tickOf(n)
	pObj, pPath := c.powerCell()
	if nfn == nil || pObj == nil {
		r.Fail("unresolved", "Q-noise", "noise per-clock routine", "", "tickTimer not found on "+n.TypeKey)
		return r
	}
	{
		var bad, badTrig []string
		for rr := 0; rr < 8; rr++ {
			for s := 0; s < 14; s++ {
				d := int64(rr) * 16
				if rr == 0 {
					d = 8
				}
				wantP := d << uint(s)
				setRS := func(st *ai.State) {
					st.SetCell(n, ".divisor", ai.NewConstInt(c.widthOf(n, ".divisor"), false, int64(rr)))
					st.SetCell(n, ".shift", ai.NewConstInt(c.widthOf(n, ".shift"), false, int64(s)))
				}
				ev := c.evalCall(nil, nfn, []ai.Value{ptrTo(n)}, nil, func(st *ai.State) {
					setRS(st)
					st.SetCell(n, ".timer", ai.NewConstInt(c.widthOf(n, ".timer"), false, 0))
				})
				t := c.cellInt(ev.Post, n, ".timer")
				if cv, isc := constOf(t); t == nil || !isc || cv != wantP-1 {
					bad = append(bad, fmt.Sprintf("divisor code %d, shift %d: timer after reload and decrement = %s, documented %d*2^%d-1 = %d", rr, s, ai.ValueString(t), d, s, wantP-1))
				}
				// trigger path through the decoder: NR44 with bit 7 set, power on
				v := ai.WithBit(ai.NewSymInt(8, false, c.W.ParamSym(c.decoderFn(true), 2)), 7, true)
				tv := c.evalDecoder(true, 0xFF23, 0xFF23, func(st *ai.State) {
					st.SetCell(pObj, pPath, ai.NewConstBool(true))
					setRS(st)
				}, v)
				tt := c.cellInt(tv.Post, n, ".timer")
				if cv, isc := constOf(tt); tt == nil || !isc || cv != wantP {
					badTrig = append(badTrig, fmt.Sprintf("divisor code %d, shift %d: timer after trigger = %s, documented %d", rr, s, ai.ValueString(tt), wantP))
				}
			}
		}
		trim := func(b []string) string {
			if len(b) > 3 {
				b = append(b[:3], fmt.Sprintf("... %d more", len(b)-3))
			}
			return strings.Join(b, "; ")
		}
		r.Ob("Q-noise", len(bad) == 0, "noise period table on the per-clock path (8 divisor codes x 14 shifts)", firstPos(c, nfn), trim(bad))
		r.Ob("Q-noise", len(badTrig) == 0, "noise period table on the trigger path (8 divisor codes x 14 shifts)", firstPos(c, nfn), trim(badTrig))
		// timer != 0: only the decrement
		var ts, ls ai.Sym
		ev := c.evalCall(nil, nfn, []ai.Value{ptrTo(n)}, nil, func(st *ai.State) {
			ts = c.symCell(st, n, ".timer")
			st.SetCell(n, ".timer", ai.NarrowInt(c.cellInt(st, n, ".timer"), 1, maxOf(n, ".timer")))
			ls = c.symCell(st, n, ".lfsr")
		})
		t1 := c.cellInt(ev.Post, n, ".timer")
		l1 := c.cellInt(ev.Post, n, ".lfsr")
		okL := l1 != nil
		if okL {
			for i := range l1.Bits {
				okL = okL && isSrcBit(l1.Bits[i], ls, i)
			}
		}
		r.Ob("Q-lfsr", t1 != nil && t1.HasBase && t1.Base == ts && t1.Off == -1 && okL, "noise: timer != 0 => timer-1, LFSR unchanged", firstPos(c, nfn), fmt.Sprintf("timer' = %s, lfsr' = %s", ai.ValueString(t1), ai.ValueString(l1)))
	}

	// ---- Q-lfsr transition
	for width := 0; width < 2; width++ {
		for b01 := 0; b01 < 4; b01++ {
			var ls ai.Sym
			ev := c.evalCall(nil, nfn, []ai.Value{ptrTo(n)}, nil, func(st *ai.State) {
				st.SetCell(n, ".timer", ai.NewConstInt(c.widthOf(n, ".timer"), false, 0))
				st.SetCell(n, ".lfsrWidth", ai.NewConstInt(c.widthOf(n, ".lfsrWidth"), false, int64(width)))
				ls = c.symCell(st, n, ".lfsr")
				x := c.cellInt(st, n, ".lfsr")
				x = ai.WithBit(x, 0, b01&1 == 1)
				x = ai.WithBit(x, 1, b01&2 == 2)
				x = ai.WithBit(x, 15, false)
				st.SetCell(n, ".lfsr", x)
			})
			l := c.cellInt(ev.Post, n, ".lfsr")
			name := fmt.Sprintf("LFSR step, %s mode, bit1 bit0 = %d%d", map[int]string{0: "15-bit", 1: "7-bit"}[width], b01>>1&1, b01&1)
			if l == nil || len(l.Bits) < 16 {
				r.Fail("undecided", "Q-lfsr", name, firstPos(c, nfn), "lfsr afterwards: "+ai.ValueString(l))
				continue
			}
			fb := (b01 & 1) ^ (b01 >> 1 & 1)
			constBit := func(one bool) uint8 {
				if one {
					return ai.BOne
				}
				return ai.BZero
			}
			var bad []string
			for i := 0; i < 16; i++ {
				b := l.Bits[i]
				switch {
				case i == 15:
					if b.K != ai.BZero {
						bad = append(bad, fmt.Sprintf("bit 15' = %s, documented 0", b.String()))
					}
				case i == 14 || (i == 6 && width == 1):
					if b.K != constBit(fb == 1) {
						bad = append(bad, fmt.Sprintf("bit %d' = %s, documented bit0^bit1 = %d", i, b.String(), fb))
					}
				case i == 0:
					if b.K != constBit(b01&2 == 2) {
						bad = append(bad, fmt.Sprintf("bit 0' = %s, documented old bit 1 = %d", b.String(), b01>>1&1))
					}
				default:
					if !isSrcBit(b, ls, i+1) {
						bad = append(bad, fmt.Sprintf("bit %d' = %s, documented old bit %d", i, b.String(), i+1))
					}
				}
			}
			r.Ob("Q-lfsr", len(bad) == 0, name, firstPos(c, nfn), strings.Join(bad, "; "))
			if b01 == 1 {
				r.Sample(map[string]interface{}{"case": name, "lfsr_after_msb_first": bitsString(l.Bits)})
			}
		}
	}

	// ---- Q-clock
	{
		fans := map[*ssa.Function]bool{}
		perRecv := map[string]int{}
		seenFn := map[*ssa.Function]bool{}
		for k := 0; k < 4; k++ {
			fn := tickOf(chObjs[k])
			if fn == nil || seenFn[fn] {
				continue
			}
			seenFn[fn] = true
			for _, site := range c.callersOf(fn) {
				if site.Name == "value-use" || len(site.Common.Args) == 0 {
					r.Ob("Q-clock", false, "call of "+fnName(fn), c.pos(site.At), "not a direct call")
					continue
				}
				recv := exprString(site.Common.Args[0])
				perRecv[recv]++
				fans[site.At.Parent()] = true
				var foreign []string
				for _, g := range c.guardsOf(site.At.Block()) {
					if !strings.Contains(g, recv+".") {
						foreign = append(foreign, g)
					}
				}
				r.Ob("Q-clock", len(foreign) == 0, "per-clock call "+recv+"."+fn.Name(), c.pos(site.At), fmt.Sprintf("control dependent on state outside the channel: %v", foreign))
			}
		}
		var recvs []string
		for k, v := range perRecv {
			recvs = append(recvs, fmt.Sprintf("%s x%d", k, v))
		}
		sort.Strings(recvs)
		once := len(perRecv) == 4
		for _, v := range perRecv {
			once = once && v == 1
		}
		r.Ob("Q-clock", once && len(fans) == 1, "four channels, one per-clock call each, from one fan-out routine", "", strings.Join(recvs, ", "))
		for fan := range fans {
			callers := c.callersOf(fan)
			ok := len(callers) == 1 && callers[0].Name != "value-use"
			detail := fmt.Sprintf("%d call sites", len(callers))
			if ok {
				g := c.guardsOf(callers[0].At.Block())
				ok = len(g) == 0
				detail = fmt.Sprintf("called from %s under %v", fnName(callers[0].At.Parent()), g)
				// the caller is the routine the audio step runs four times per machine cycle
				step := c.methodOf("audio.Audio", "EndMachineCycle")
				n4 := 0
				if step != nil {
					for _, sc := range callsIn(step.Blocks) {
						if sc.Callee == callers[0].At.Parent() {
							n4++
						}
					}
				}
				ok = ok && n4 == 4
				detail += fmt.Sprintf("; that routine is called %d times by the audio machine-cycle step", n4)
			}
			r.Ob("Q-clock", ok, "fan-out routine "+fnName(fan)+" runs unconditionally once per clock", firstPos(c, fan), detail)
		}
	}
	// the hold a trigger puts on its channel's clock lasts for the machine cycle of the trigger only: after the audio
	// machine-cycle step, from any state, every boolean of a channel that its per-clock call is conditional on is clear
	{
		step := c.methodOf("audio.Audio", "EndMachineCycle")
		auds := c.objectsOfType("audio.Audio")
		if step == nil || len(auds) == 0 {
			r.Fail("unresolved", "Q-clock", "audio machine-cycle step", "", "not found")
		} else {
			restore := c.cutDecoder(nil)
			ev := c.evalCall(nil, step, []ai.Value{ptrTo(auds[0])}, nil, nil)
			restore()
			n := 0
			var bad []string
			for _, kc := range c.boolCellsLoaded(ev) {
				for k := 0; k < 4; k++ {
					if kc.Obj != chObjs[k].ID || kc.Path == enabledPath[k] {
						continue
					}
					// is the per-clock routine's call conditional on it? (set it and see whether the channel's timer still moves)
					tk := tickOf(chObjs[k])
					if tk == nil {
						continue
					}
					held := c.evalCall(nil, step, []ai.Value{ptrTo(auds[0])}, nil, func(st *ai.State) { st.SetCell(chObjs[k], kc.Path, ai.NewConstBool(true)) })
					called := false
					for _, f := range held.Callees {
						if f == tk {
							// (two square channels share the routine: look at the timer cell instead)
							called = true
						}
					}
					_ = called
					stored := false
					for _, p := range c.storedCellsOf(held, chObjs[k]) {
						if p == ".timer" {
							stored = true
						}
					}
					if stored {
						continue // not a hold flag: the timer runs with it set
					}
					n++
					if b, isc := boolConst(c.cellBool(ev.Post, chObjs[k], kc.Path)); !isc || b {
						bad = append(bad, fmt.Sprintf("channel %d %s after the step: %s", k+1, kc.Path, ai.ValueString(c.cellBool(ev.Post, chObjs[k], kc.Path))))
					}
				}
			}
			r.Ob("Q-clock", n >= 4 && len(bad) == 0, "the trigger hold of every channel is released by the audio step of the same machine cycle, whatever the state", firstPos(c, step), fmt.Sprintf("%d hold flags found (want one per channel); not provably clear afterwards: %v", n, bad))
		}
	}
	_ = it
	return r
}

func (c *Ctx) widthOf(o *ai.Object, path string) int {
	w, _ := ai.TypeShape(ai.LeafTypeAt(o.T, path))
	return w
}

// isConstValue: an integer or boolean constant.
func isConstValue(v ai.Value) bool {
	switch x := v.(type) {
	case *ai.Int:
		_, ok := x.Const()
		return ok
	case *ai.Bool:
		_, ok := x.Const()
		return ok
	}
	return false
}
