package checks

import (
	"fmt"
	"go/types"
	"sort"
	"strings"

	"golang.org/x/tools/go/ssa"

	"verif/sa/internal/ai"
)

// Access is one call of the memory decoder made by a sub-instruction.
type Access struct {
	Cycle   int    // 1-based index of the sub-instruction in its row
	Kind    byte   // 'R' | 'W'
	Class   string // HL BC DE SP NN NN+1 FF00+N FF00+C PC ?
	Off     int64  // offset relative to the class base (SP-1 ...)
	ValDeps []string
	At      ssa.Instruction
	Val     ai.Value // the value written (writes only)
	Cond    bool     // the access happens under a data-dependent branch of its row entry
}

func (a Access) String() string {
	return fmt.Sprintf("%d:%c %s", a.Cycle, a.Kind, a.Class)
}

// Row is one dispatch-table row with the summary of its sequential evaluation.
type Row struct {
	Code     int
	Prefixed bool
	Slice    *ai.Slice
	Subs     []ai.Value
	Early    ai.Value // early-exit predicate or nil
	PCDelta  int64    // what fetching the opcode adds to pc
	FetchOK  bool

	Acc       []Access
	Written   map[string]ai.Value // cell name -> post value (only cells whose value changed)
	Deps      map[string][]string // cell name -> names of what the post value depends on
	FlagClass [4]byte             // Z N H C
	Exits     bool                // reaches a process exit
	ExitAt    ssa.Instruction
	OAM       bool         // touches OAM-bug bookkeeping
	ImmCycles map[int]bool // cycles whose decoder read is an operand fetch through pc
	Post      *ai.State    // state after the whole row (for bit-exact result rules)
	ReadSyms  map[int]ai.Sym
	Undecided []string
	SubNames  []string
}

// Machine gives checks name-based access to the singleton components.
type Machine struct {
	CPU, Ints, OAM *ai.Object
	NextFn         *ssa.Function
	ExecFn         *ssa.Function
	IsFinishedFn   *ssa.Function
	ImmCells       map[string]bool // CPU scratch cells filled from operand fetches through pc
	Base, CB       [256]*Row
	Errors         []string
	Scratch        map[string]bool // byte cells the fetch routine zeroes at every fetch
}

func (c *Ctx) cpuObject() *ai.Object {
	for _, e := range c.W.Entries {
		if e.Kind == "loop-callee" && len(e.Args) > 0 {
			if p, ok := e.Args[0].(*ai.Ptr); ok && p.Obj.TypeKey == "cpu.CPU" {
				return p.Obj
			}
		}
	}
	return nil
}

func (c *Ctx) objectOfType(key string) *ai.Object {
	objs := c.W.ObjByType[key]
	if len(objs) == 1 {
		return objs[0]
	}
	return nil
}

// cellName renders a cell of a known component as "a", "interrupts.ime", "oam.write".
func (m *Machine) cellName(it *ai.Interp, k ai.CellKey) string {
	switch {
	case m.CPU != nil && k.Obj == m.CPU.ID:
		return strings.TrimPrefix(k.Path, ".")
	case m.Ints != nil && k.Obj == m.Ints.ID:
		return "interrupts" + k.Path
	case m.OAM != nil && k.Obj == m.OAM.ID:
		return "oam" + k.Path
	}
	o := it.ObjectByIDFast(k.Obj)
	if o == nil {
		return k.String()
	}
	return o.TypeKey + k.Path
}

func (m *Machine) depNames(it *ai.Interp, d ai.Deps) []string {
	set := map[string]bool{}
	for _, s := range d {
		info := it.Syms[s]
		if info.Cell.Obj != 0 {
			set[m.cellName(it, info.Cell)] = true
		} else {
			set[info.Name] = true
		}
	}
	return sortedKeys(set)
}

var machineCache = map[*Ctx]*Machine{}

// machine extracts the dispatch tables by role and summarises every row.
func (c *Ctx) machine() *Machine {
	if m, ok := machineCache[c]; ok {
		return m
	}
	m := &Machine{ImmCells: map[string]bool{}}
	machineCache[c] = m
	it := c.W.It
	m.CPU = c.cpuObject()
	m.Ints = c.objectOfType("interrupts.Interrupts")
	m.OAM = c.objectOfType("oam.OAM")
	if m.CPU == nil || m.Ints == nil || m.OAM == nil {
		m.Errors = append(m.Errors, "CPU / Interrupts / OAM singleton objects not found")
		return m
	}
	m.ExecFn = c.P.Func("gameboy/cpu", "(*CPU).ExecuteMachineCycle")
	if m.ExecFn == nil {
		m.Errors = append(m.Errors, "anchor (*CPU).ExecuteMachineCycle not found")
		return m
	}
	// next: the callee of the step that stores a []func() into the CPU; isFinished: the bool callee evaluated first
	for _, b := range m.ExecFn.Blocks {
		for _, ins := range b.Instrs {
			call, ok := ins.(*ssa.Call)
			if !ok {
				continue
			}
			callee, ok := call.Call.Value.(*ssa.Function)
			if !ok {
				continue
			}
			if storesFuncSlice(callee) && m.NextFn == nil {
				m.NextFn = callee
			} else if m.IsFinishedFn == nil && callee.Signature.Results().Len() == 1 && isBool(callee.Signature.Results().At(0).Type()) && !storesFuncSlice(callee) {
				m.IsFinishedFn = callee
			}
		}
	}
	if m.NextFn == nil || m.IsFinishedFn == nil {
		m.Errors = append(m.Errors, "fetch routine (stores the current row) / finished predicate not found in the machine-cycle step")
		return m
	}
	cpuPtr := &ai.Ptr{Obj: m.CPU, Path: "", Elem: m.CPU.T}
	// fetch each opcode
	for page := 0; page < 2; page++ {
		for k := 0; k < 256; k++ {
			if page == 0 && k == 0xcb {
				// the prefix byte itself selects the second table; its own row is checked separately
			}
			row := c.fetchRow(m, cpuPtr, k, page == 1)
			if page == 0 {
				m.Base[k] = row
			} else {
				m.CB[k] = row
			}
		}
	}
	// the base row stored for the prefix byte (never dispatched) is read directly from the table of its neighbours
	_ = it
	// summarise rows: first pass finds operand scratch cells, second pass classifies
	for pass := 1; pass < 2; pass++ {
		for page := 0; page < 2; page++ {
			for k := 0; k < 256; k++ {
				row := m.Base[k]
				if page == 1 {
					row = m.CB[k]
				}
				if row == nil || !row.FetchOK {
					continue
				}
				c.summariseRow(m, row)
				if pass == 0 {
					for _, a := range row.Acc {
						if a.Kind == 'R' && a.Class == "PC" {
							for _, d := range a.ValDeps {
								m.ImmCells[d] = true
							}
						}
					}
				}
			}
		}
	}
	return m
}

func isBool(t types.Type) bool {
	b, ok := t.Underlying().(*types.Basic)
	return ok && b.Info()&types.IsBoolean != 0
}

func isFuncSlice(t types.Type) bool {
	s, ok := t.Underlying().(*types.Slice)
	if !ok {
		return false
	}
	_, ok = s.Elem().Underlying().(*types.Signature)
	return ok
}

func storesFuncSlice(fn *ssa.Function) bool {
	for _, b := range fn.Blocks {
		for _, ins := range b.Instrs {
			if st, ok := ins.(*ssa.Store); ok && isFuncSlice(st.Val.Type()) {
				return true
			}
		}
	}
	return false
}

// quietState returns the generic state with every boolean field of the CPU
// false (not halted, not stopped, no debugging) so that the fetch is taken.
func (c *Ctx) quietState(m *Machine) *ai.State {
	it := c.W.It
	st := it.StateOn(c.W.Generic)
	stt, _ := m.CPU.T.Underlying().(*types.Struct)
	for i := 0; stt != nil && i < stt.NumFields(); i++ {
		f := stt.Field(i)
		if isBool(f.Type()) {
			st.SetCell(m.CPU, "."+f.Name(), ai.NewConstBool(false))
		}
	}
	return st
}

func (c *Ctx) fetchRow(m *Machine, cpuPtr *ai.Ptr, k int, prefixed bool) *Row {
	it := c.W.It
	row := &Row{Code: k, Prefixed: prefixed}
	st := c.quietState(m)
	reads := 0
	// callees of the fetch routine that return a row (the interrupt check) yield nil: no interrupt
	for _, b := range m.NextFn.Blocks {
		for _, ins := range b.Instrs {
			if call, ok := ins.(*ssa.Call); ok {
				if callee, ok := call.Call.Value.(*ssa.Function); ok && callee.Signature.Results().Len() == 1 && isFuncSlice(callee.Signature.Results().At(0).Type()) {
					cal := callee
					it.Intercepts[cal] = func(s *ai.State, _ ssa.Instruction, _ []ai.Value) (ai.Value, *ai.State) {
						return &ai.NilV{T: cal.Signature.Results().At(0).Type()}, s
					}
					defer delete(it.Intercepts, cal)
				}
			}
		}
	}
	for fn := range c.W.CutFns {
		fnc := fn
		it.Intercepts[fnc] = func(s *ai.State, _ ssa.Instruction, args []ai.Value) (ai.Value, *ai.State) {
			if fnc.Signature.Results().Len() == 0 {
				return nil, s
			}
			reads++
			if prefixed && reads == 1 {
				return ai.NewConstInt(8, false, 0xcb), s
			}
			if reads == 1 || (prefixed && reads == 2) {
				return ai.NewConstInt(8, false, int64(k)), s
			}
			return ai.NewTopInt(8, false, nil), s
		}
		defer delete(it.Intercepts, fnc)
	}
	var undec []string
	it.Hooks = ai.Hooks{Undecided: func(_ *ai.State, at ssa.Instruction, what string) { undec = append(undec, what) }}
	defer func() { it.Hooks = ai.Hooks{} }()
	pre := it.StateOn(c.W.Generic)
	if stt0, ok := m.CPU.T.Underlying().(*types.Struct); ok {
		for i := 0; i < stt0.NumFields(); i++ {
			if f := stt0.Field(i); isEarlyType(f.Type()) {
				st.SetCell(m.CPU, "."+f.Name(), &ai.Top{T: f.Type()})
			}
		}
	}
	ret, post := it.CallFunction(st, m.NextFn, []ai.Value{cpuPtr}, nil)
	if post == nil {
		row.Undecided = append(row.Undecided, "fetch routine does not return")
		return row
	}
	if b, ok := ret.(*ai.Bool); ok {
		if v, isc := b.Const(); !isc || v {
			row.Undecided = append(row.Undecided, "fetch routine reports idle for a running CPU")
		}
	}
	row.Undecided = append(row.Undecided, undec...)
	stt := m.CPU.T.Underlying().(*types.Struct)
	for i := 0; i < stt.NumFields(); i++ {
		f := stt.Field(i)
		v := post.LoadPtr(&ai.Ptr{Obj: m.CPU, Path: "." + f.Name(), Elem: f.Type()})
		old := pre.LoadPtr(&ai.Ptr{Obj: m.CPU, Path: "." + f.Name(), Elem: f.Type()})
		switch {
		case isFuncSlice(f.Type()):
			if s, ok := v.(*ai.Slice); ok && !sameVal(v, old) {
				row.Slice = s
			}
		case isEarlyType(f.Type()):
			// the start state holds a marker (an unknown predicate): a fetch that does not
			// store the cell leaves the previous instruction's predicate in force
			row.Early = v
		case f.Name() == "pc":
			if iv, ok := v.(*ai.Int); ok && iv.HasBase {
				if s, ok2 := it.CellSym(m.CPU, ".pc"); ok2 && iv.Base == s {
					row.PCDelta = iv.Off
				} else {
					row.PCDelta = -1
				}
			} else {
				row.PCDelta = -1
			}
		}
	}
	if k == 0 && !prefixed {
		m.Scratch = map[string]bool{}
		for i := 0; i < stt.NumFields(); i++ {
			f := stt.Field(i)
			v, ok1 := post.LoadPtr(&ai.Ptr{Obj: m.CPU, Path: "." + f.Name(), Elem: f.Type()}).(*ai.Int)
			old, ok2 := pre.LoadPtr(&ai.Ptr{Obj: m.CPU, Path: "." + f.Name(), Elem: f.Type()}).(*ai.Int)
			if ok1 && ok2 && v.W == 8 {
				cv, isc := v.Const()
				_, wasc := old.Const()
				if isc && cv == 0 && !wasc {
					m.Scratch[f.Name()] = true
				}
			}
		}
	}
	if row.Slice == nil {
		row.Undecided = append(row.Undecided, "no row stored by the fetch routine")
		return row
	}
	n, ok := row.Slice.Len.Const()
	if !ok {
		row.Undecided = append(row.Undecided, "row length not constant")
		return row
	}
	for i := int64(0); i < n; i++ {
		v := post.LoadPtr(&ai.Ptr{Obj: row.Slice.Obj, Path: row.Slice.Path + "[" + fmt.Sprint(i) + "]"})
		row.Subs = append(row.Subs, v)
	}
	row.FetchOK = true
	return row
}

func isEarlyType(t types.Type) bool {
	sig, ok := t.Underlying().(*types.Signature)
	return ok && sig.Params().Len() == 1 && sig.Results().Len() == 1 && isBool(sig.Results().At(0).Type())
}

func sameVal(a, b ai.Value) bool {
	if a == b {
		return true
	}
	switch x := a.(type) {
	case *ai.Int:
		y, ok := b.(*ai.Int)
		if !ok {
			return false
		}
		if x.VID == y.VID {
			return true
		}
		// structurally the same fully determined value (a refined-and-rejoined copy)
		if x.W != y.W {
			return false
		}
		for i := range x.Bits {
			if x.Bits[i] != y.Bits[i] || x.Bits[i].K == ai.BTop {
				return false
			}
		}
		return true
	case *ai.Bool:
		y, ok := b.(*ai.Bool)
		return ok && (x.VID == y.VID || (x.B == y.B && x.B.K != ai.BTop))
	case *ai.NilV:
		_, ok := b.(*ai.NilV)
		return ok
	case *ai.Top:
		_, ok := b.(*ai.Top)
		return ok && ai.DepsEqual(x.D, b.(*ai.Top).D)
	case *ai.Slice:
		y, ok := b.(*ai.Slice)
		return ok && x.Obj == y.Obj && x.Path == y.Path
	case *ai.Ptr:
		y, ok := b.(*ai.Ptr)
		return ok && x.Obj == y.Obj && x.Path == y.Path
	case *ai.Func:
		y, ok := b.(*ai.Func)
		return ok && x.Fn == y.Fn
	case *ai.Multi:
		y, ok := b.(*ai.Multi)
		return ok && len(x.Alts) == len(y.Alts)
	}
	return false
}

// classifyAddr names the address class of a decoder argument by bit provenance.
// imm maps the symbols of operand bytes fetched through pc in this row to their
// order (1 = first operand byte).
func (c *Ctx) classifyAddr(m *Machine, v ai.Value, imm map[ai.Sym]int) (string, int64) {
	it := c.W.It
	a, ok := v.(*ai.Int)
	if !ok || a.W != 16 {
		return "?", 0
	}
	sym := func(field string) (ai.Sym, bool) { return it.CellSym(m.CPU, "."+field) }
	if a.HasBase {
		for _, f := range []string{"sp", "pc"} {
			if s, ok := sym(f); ok && a.Base == s {
				return strings.ToUpper(f), a.Off
			}
		}
		// pc re-named between the entries of a row (see summariseRow)
		if info := it.Syms[a.Base]; info.Name == "pc" && info.Cell.Obj == 0 {
			return "PC", a.Off
		}
	}
	// byteSym: the 8 bits starting at lo are exactly bits 0..7 of one symbol
	byteSym := func(lo int) (ai.Sym, bool) {
		b0 := a.Bits[lo]
		if b0.K != ai.BSrc || b0.Neg || b0.J != 0 {
			return 0, false
		}
		for i := 0; i < 8; i++ {
			b := a.Bits[lo+i]
			if b.K != ai.BSrc || b.S != b0.S || int(b.J) != i || b.Neg {
				return 0, false
			}
		}
		return b0.S, true
	}
	regOf := func(s ai.Sym) string {
		info := it.Syms[s]
		if info.Cell.Obj == m.CPU.ID {
			return strings.TrimPrefix(info.Cell.Path, ".")
		}
		return ""
	}
	lo, okLo := byteSym(0)
	hi, okHi := byteSym(8)
	if okLo && okHi {
		switch regOf(hi) + regOf(lo) {
		case "hl":
			return "HL", 0
		case "bc":
			return "BC", 0
		case "de":
			return "DE", 0
		}
		if imm[lo] == 1 && imm[hi] == 2 {
			return "NN", 0
		}
	}
	hiOnes := true
	for i := 8; i < 16; i++ {
		if a.Bits[i].K != ai.BOne {
			hiOnes = false
		}
	}
	if hiOnes && okLo {
		if regOf(lo) == "c" {
			return "FF00+C", 0
		}
		if imm[lo] == 1 {
			return "FF00+N", 0
		}
	}
	// nn+1: depends on exactly the two operand bytes, bit 0 is the negated bit 0 of the first
	if len(a.D) == 2 && imm[a.D[0]]+imm[a.D[1]] == 3 {
		b0 := a.Bits[0]
		// and the increment carries into the high byte: if bits 8-15 were an exact copy of
		// the second operand byte the address would stay in the page of nn (8-bit increment)
		if b0.K == ai.BSrc && b0.Neg && b0.J == 0 && imm[b0.S] == 1 && !okHi {
			return "NN+1", 0
		}
	}
	return "?", 0
}

// summariseRow evaluates the sub-instructions of a row one after the other on
// one state; every decoder call is recorded (and returns a fresh named byte).
func (c *Ctx) summariseRow(m *Machine, row *Row) {
	it := c.W.It
	row.Acc = nil
	row.Written = map[string]ai.Value{}
	row.Deps = map[string][]string{}
	row.Exits = false
	row.OAM = false
	row.SubNames = nil
	st := it.StateOn(c.W.Generic)
	pre := it.StateOn(c.W.Generic)
	cycle := 0
	baseDeps := 0
	pcOff := int64(0)
	immSyms := map[ai.Sym]int{}
	row.ImmCycles = map[int]bool{}
	row.Post = nil
	for fn := range c.W.CutFns {
		fnc := fn
		it.Intercepts[fnc] = func(s *ai.State, at ssa.Instruction, args []ai.Value) (ai.Value, *ai.State) {
			cls, off := "?", int64(0)
			if len(args) >= 2 {
				cls, off = c.classifyAddr(m, args[1], immSyms)
				if cls == "PC" {
					off += pcOff
				}
			}
			if fnc.Signature.Results().Len() == 1 {
				sym := it.NewSym(fmt.Sprintf("mem@%d", cycle), ai.CellKey{})
				if cls == "PC" {
					immSyms[sym] = len(immSyms) + 1
					row.ImmCycles[cycle] = true
				}
				row.Acc = append(row.Acc, Access{Cycle: cycle, Kind: 'R', Class: cls, Off: off, At: at, ValDeps: nil, Cond: len(s.PathDeps) > baseDeps})
				return ai.NewSymInt(8, false, sym), s
			}
			var vd []string
			if len(args) >= 3 {
				vd = m.depNames(it, ai.DepsOf(args[2]))
			}
			row.Acc = append(row.Acc, Access{Cycle: cycle, Kind: 'W', Class: cls, Off: off, ValDeps: vd, At: at, Val: args[2], Cond: len(s.PathDeps) > baseDeps})
			return nil, s
		}
		defer delete(it.Intercepts, fnc)
	}
	it.Hooks = ai.Hooks{
		Undecided: func(_ *ai.State, at ssa.Instruction, what string) {
			row.Undecided = append(row.Undecided, what)
		},
		Exit: func(_ *ai.State, at ssa.Instruction, callee string) {
			row.Exits = true
			row.ExitAt = at
		},
		Store: func(_ *ai.State, at ssa.Instruction, p *ai.Ptr, keys []ai.CellKey, v ai.Value, _ bool) {
			if p != nil && p.Obj == m.OAM {
				row.OAM = true
			}
		},
	}
	defer func() { it.Hooks = ai.Hooks{} }()
	for i, sub := range row.Subs {
		cycle = i + 1
		// pc advanced by earlier operand fetches is given a fresh name, so that
		// "the high byte of the current pc" stays visible bit by bit
		if pv, ok := st.LoadPtr(&ai.Ptr{Obj: m.CPU, Path: ".pc"}).(*ai.Int); ok && pv.HasBase && pv.Off != 0 {
			info := it.Syms[pv.Base]
			own, _ := it.CellSym(m.CPU, ".pc")
			if pv.Base == own || (info.Name == "pc" && info.Cell.Obj == 0) {
				pcOff += pv.Off
				st.SetCell(m.CPU, ".pc", ai.NewSymInt(16, false, it.NewSym("pc", ai.CellKey{})))
			}
		}
		f, ok := sub.(*ai.Func)
		if !ok {
			row.Undecided = append(row.Undecided, fmt.Sprintf("entry %d is not a resolved function: %s", i, ai.ValueString(sub)))
			row.SubNames = append(row.SubNames, "?")
			continue
		}
		row.SubNames = append(row.SubNames, fnName(f.Fn))
		nAcc := len(row.Acc)
		baseDeps = len(st.PathDeps)
		_, post := it.CallFunction(st, f.Fn, nil, f.Bind)
		if post == nil {
			// every path ends the process (undefined opcode) or crashes
			break
		}
		st = post
		// attribute the destination cells of reads made in this cycle: cells whose new value depends on mem@cycle
		for j := nAcc; j < len(row.Acc); j++ {
			if row.Acc[j].Kind == 'R' {
				tag := fmt.Sprintf("mem@%d", cycle)
				for _, id := range st.TouchedObjects() {
					o := it.ObjectByIDFast(id)
					for k, v := range st.RawCells(o) {
						for _, d := range m.depNames(it, ai.DepsOf(v)) {
							if d == tag {
								row.Acc[j].ValDeps = append(row.Acc[j].ValDeps, m.cellName(it, ai.CellKey{Obj: id, Path: k}))
							}
						}
					}
				}
				sort.Strings(row.Acc[j].ValDeps)
			}
		}
	}
	row.Post = st
	// footprint: cells of the machine whose value differs from the pre-state
	for _, id := range st.TouchedObjects() {
		o := it.ObjectByIDFast(id)
		if o == nil || id > c.W.NObjInit {
			continue
		}
		for k, v := range st.RawCells(o) {
			lt := ai.LeafTypeAt(o.T, k)
			if lt == nil {
				continue
			}
			old := pre.LoadPtr(&ai.Ptr{Obj: o, Path: k, Elem: lt})
			if sameVal(v, old) {
				continue
			}
			name := m.cellName(it, ai.CellKey{Obj: id, Path: k})
			row.Written[name] = v
			row.Deps[name] = m.depNames(it, ai.DepsOf(v))
		}
	}
	// flags
	row.FlagClass = [4]byte{'-', '-', '-', '-'}
	if fv, ok := row.Written["f"].(*ai.Int); ok {
		fs, _ := it.CellSym(m.CPU, ".f")
		for i, bit := range []int{7, 6, 5, 4} {
			b := fv.Bits[bit]
			switch {
			case b.K == ai.BZero:
				row.FlagClass[i] = '0'
			case b.K == ai.BOne:
				row.FlagClass[i] = '1'
			case b.K == ai.BSrc && b.S == fs && int(b.J) == bit && !b.Neg:
				row.FlagClass[i] = '-'
			default:
				row.FlagClass[i] = '*'
			}
		}
	}
}

// byteOf recognises a value that is exactly byte `shift/8` of one CPU cell
// (all eight bits are bits shift..shift+7 of that cell's symbol).
func (c *Ctx) byteOf(m *Machine, v ai.Value) (cell string, shift int, ok bool) {
	it := c.W.It
	a, isInt := v.(*ai.Int)
	if !isInt || a.W != 8 {
		return "", 0, false
	}
	b0 := a.Bits[0]
	if b0.K != ai.BSrc || b0.Neg {
		return "", 0, false
	}
	for i := 0; i < 8; i++ {
		b := a.Bits[i]
		if b.K != ai.BSrc || b.S != b0.S || int(b.J) != int(b0.J)+i || b.Neg {
			return "", 0, false
		}
	}
	info := it.Syms[b0.S]
	if info.Cell.Obj == m.CPU.ID {
		return strings.TrimPrefix(info.Cell.Path, "."), int(b0.J), true
	}
	return info.Name, int(b0.J), true
}
