package checks

import (
	"fmt"
	"go/token"
	"regexp"
	"sort"
	"strings"

	"golang.org/x/tools/go/ssa"

	"verif/sa/internal/ai"
	"verif/sa/internal/report"
	"verif/sa/internal/world"
)

func init() {
	register("C19", checkC19)
}

type chanCall struct {
	Fn *ssa.Function
	Ch int // 1..4, 0 unknown
}

func checkC19(c *Ctx) *report.Result {
	r := report.New("C19", "other", "abstract interpretation through the address decoder and of the frame-sequencer / length / sweep routines under case splits (constants for flags and register bits, intervals for counters and frequencies); 'only a trigger turns a channel on' as a post-condition of every run-phase entry started with all channels off; sibling comparison of the four NRx4 decision tables")
	r.Explanation = "Channel status is the boolean NR52 reports per channel. The check identifies the four channel objects by that role and decides: (on) starting with every channel off, no run-phase entry and no register write other than an NRx4 write with bit 7 set leaves a channel on; such a trigger leaves the channel on exactly when its DAC is on (channel 1 additionally only if the sweep calculation does not overflow: decided with frequency intervals on both sides of the overflow threshold); (dac) an NRx2 write with bits 7-3 clear / an NR30 write with bit 7 clear turns the channel off and any other value leaves the status unchanged and the DAC on; (power) the power-off write leaves all four off; (sweep) the periodic sweep step turns channel 1 off when the first or the repeated frequency calculation exceeds 2047 (interval cases) and leaves it on otherwise; (length) the length clock routine of each channel does nothing when length is disabled or zero, decrements otherwise, and turns the channel off exactly when the counter reaches zero; NRx1 loads 64-t (256-t) for every t [enumerated]; (seq) the frame sequencer, evaluated for each step 0..7, clocks length on even steps for all four channels, the envelope on step 7 for channels 1, 2, 4 and the sweep on steps 2 and 6 for channel 1, advances its step by one, is called exactly when (ticks mod 8192) == 0, and its step counter is not stored by any register write while the power is on; (extra) the NRx4 write of each channel is evaluated over old length-enable x new length-enable x trigger x sequencer parity x length class and must give the documented length / status / length-enable, the four channels agreeing with each other case by case."
	r.Rule("S-on", "from all-off, only an NRx4 write with bit 7 set can leave a channel on, and it does so iff the DAC is on (channel 1: and the sweep calculation does not overflow)")
	r.Rule("S-dac", "NRx2 with bits 7-3 clear / NR30 with bit 7 clear: channel off and DAC off; otherwise status unchanged and DAC on")
	r.Rule("S-power", "after the power-off write all four status flags are off")
	r.Rule("S-sweep", "periodic sweep step: overflow of the first or of the repeated calculation turns channel 1 off; no overflow leaves it unchanged")
	r.Rule("S-length", "length clock: disabled or zero => no change; else counter-1, channel off exactly at zero; NRx1 loads 64-t / 256-t")
	r.Rule("S-seq", "frame sequencer table (length on 0,2,4,6; envelope on 7; sweep on 2,6), step+1, called iff (ticks % 8192)==0, step counter untouched by register writes while powered")
	r.Rule("S-extra", "NRx4 decision table incl. the extra length clock in the first half of a sequencer period; the four channels agree")
	r.NotDecided = []string{"'exactly 64-t clocks at 256 Hz' as a count over emulated time (follows from S-length, S-seq and S-extra by arithmetic, not measured)", "envelope and sweep arithmetic beyond the overflow rule"}
	r.TrustedBase = []string{"documented DMG APU behaviour (property statement, Pan Docs 'obscure behaviour')", "go/ssa, abstract interpreter (intervals, constants, gated joins)"}
	it := c.W.It

	chObjs, enPath, cerr := c.soundChannels()
	pObj, pPath := c.powerCell()
	if cerr != "" || pObj == nil {
		r.Fail("unresolved", "S-on", "channel objects / power flag", "", cerr)
		return r
	}
	groups := [4]map[int]bool{}
	owner := map[int]int{}
	for k := 0; k < 4; k++ {
		groups[k] = c.reachableObjects(chObjs[k])
		for id := range groups[k] {
			owner[id] = k + 1
		}
	}
	audio := c.objectsOfType("audio.Audio")
	if len(audio) == 0 {
		r.Fail("unresolved", "S-seq", "audio object", "", "none")
		return r
	}
	aObj := audio[0]
	nrx4 := []int{0xFF14, 0xFF19, 0xFF1E, 0xFF23}
	nrx2 := []int{0xFF12, 0xFF17, 0xFF1A, 0xFF21}
	nrx1 := []int{0xFF11, 0xFF16, 0xFF1B, 0xFF20}
	maxLen := []int64{64, 64, 256, 64}
	vsym := c.W.ParamSym(c.decoderFn(true), 2)
	vWith := func(bits map[int]bool) *ai.Int {
		v := ai.NewSymInt(8, false, vsym)
		for i, b := range bits {
			v = ai.WithBit(v, i, b)
		}
		return v
	}
	setB := func(st *ai.State, o *ai.Object, path string, b bool) { st.SetCell(o, path, ai.NewConstBool(b)) }
	powerOn := func(st *ai.State) { setB(st, pObj, pPath, true) }
	allOff := func(st *ai.State) {
		for k := 0; k < 4; k++ {
			setB(st, chObjs[k], enPath[k], false)
		}
	}
	hpos := func(ev *DecEval) string {
		if ev != nil && len(ev.Direct) > 0 {
			return firstPos(c, ev.Direct[0])
		}
		return ""
	}
	enabledAfter := func(st *ai.State, k int) *ai.Bool { return c.cellBool(st, chObjs[k], enPath[k]) }
	isConstB := func(b *ai.Bool, want bool) bool {
		if b == nil {
			return false
		}
		v, ok := b.Const()
		return ok && v == want
	}
	dacPath := [4]string{}
	for k := 0; k < 4; k++ {
		// the DAC flag: the boolean cell of the channel stored by the NRx2/NR30 write other than the status
		ev := c.evalDecoder(true, nrx2[k], nrx2[k], powerOn, nil)
		for _, p := range c.storedCellsOf(ev, chObjs[k]) {
			if p != enPath[k] {
				if b := c.cellBool(ev.Post, chObjs[k], p); b != nil {
					// the flag whose falsity forces the channel off: probe
					probe := c.evalDecoder(true, nrx4[k], nrx4[k], func(st *ai.State) { powerOn(st); setB(st, chObjs[k], p, false) }, vWith(map[int]bool{7: true}))
					if isConstB(enabledAfter(probe.Post, k), false) {
						dacPath[k] = p
					}
				}
			}
		}
		if dacPath[k] == "" {
			r.Fail("unresolved", "S-dac", fmt.Sprintf("channel %d DAC flag", k+1), hpos(ev), "no boolean cell written by the envelope/DAC register forces the channel off at a trigger")
			return r
		}
	}

	// ---- S-on (1): every run-phase entry from all-off leaves all off (the decoder write is examined per interval below)
	{
		n := 0
		for i := range c.W.Entries {
			e := &c.W.Entries[i]
			if c.W.CutFns[e.Fn] {
				continue
			}
			restore := c.cutDecoder(nil)
			st := it.StateOn(c.W.Generic)
			allOff(st)
			keepLocal := func(o *ai.Object) bool { return o.ID > c.W.NObjInit }
			it.Hooks = ai.Hooks{UnknownCall: func(s *ai.State, at ssa.Instruction) *ai.State { return s.Rebase(c.W.Generic, keepLocal) }}
			touched := false
			it.Hooks.Store = func(_ *ai.State, _ ssa.Instruction, p *ai.Ptr, keys []ai.CellKey, v ai.Value, _ bool) {
				for _, k := range keys {
					for ch := 0; ch < 4; ch++ {
						if k.Obj == chObjs[ch].ID && k.Path == enPath[ch] {
							if b, ok := v.(*ai.Bool); !ok || !isConstB(b, false) {
								touched = true
							}
						}
					}
				}
			}
			c.W.RunEntry(e, st)
			it.Hooks = ai.Hooks{}
			restore()
			n++
			if touched {
				r.Ob("S-on", false, "entry "+e.Name+" can turn a channel on", firstPos(c, e.Fn), "a value other than 'off' is stored into a channel status flag although no trigger register is written")
			}
		}
		r.Ob("S-on", n > 500, "run-phase entries examined from the all-off state", "", fmt.Sprintf("%d entries", n))
		r.Instances["S-on"] += n
	}
	// ---- S-on (2): register writes
	for _, iv := range c.elementaryIntervals() {
		if iv[0] < 0xFF10 || iv[0] > 0xFF3F {
			continue
		}
		isTrig := -1
		for k, a := range nrx4 {
			if iv[0] == a && iv[1] == a {
				isTrig = k
			}
		}
		name := fmt.Sprintf("write %04X-%04X", iv[0], iv[1])
		if isTrig < 0 {
			ev := c.evalDecoder(true, iv[0], iv[1], allOff, nil)
			ok := ev.Post != nil
			for k := 0; k < 4 && ok; k++ {
				ok = isConstB(enabledAfter(ev.Post, k), false)
			}
			r.Ob("S-on", ok, name+" from all-off leaves all channels off", hpos(ev), "a non-trigger register write turns a channel on")
			continue
		}
		k := isTrig
		// bit 7 clear: stays off
		ev := c.evalDecoder(true, iv[0], iv[1], allOff, vWith(map[int]bool{7: false}))
		ok := ev.Post != nil
		for j := 0; j < 4 && ok; j++ {
			ok = isConstB(enabledAfter(ev.Post, j), false)
		}
		r.Ob("S-on", ok, name+" without the trigger bit leaves all channels off", hpos(ev), "status after: "+ai.ValueString(enabledAfter(ev.Post, k)))
		// bit 7 set, power on
		for _, dac := range []bool{false, true} {
			ev := c.evalDecoder(true, iv[0], iv[1], func(st *ai.State) {
				allOff(st)
				powerOn(st)
				setB(st, chObjs[k], dacPath[k], dac)
				if k == 0 {
					// no sweep calculation at trigger: shift 0
					c.forceSweepShift(st, chObjs[0], groups[0], 0, 0)
				}
			}, vWith(map[int]bool{7: true}))
			others := true
			for j := 0; j < 4; j++ {
				if j != k {
					others = others && isConstB(enabledAfter(ev.Post, j), false)
				}
			}
			r.Ob("S-on", isConstB(enabledAfter(ev.Post, k), dac) && others, fmt.Sprintf("%s with the trigger bit, DAC %v => channel %d %v, others stay off", name, dac, k+1, dac), hpos(ev), "status after: "+ai.ValueString(enabledAfter(ev.Post, k)))
		}
		// power off: ignored
		ev = c.evalDecoder(true, iv[0], iv[1], func(st *ai.State) { allOff(st); setB(st, pObj, pPath, false) }, vWith(map[int]bool{7: true}))
		r.Ob("S-on", isConstB(enabledAfter(ev.Post, k), false), name+" with the trigger bit while sound is off does not start the channel", hpos(ev), "status after: "+ai.ValueString(enabledAfter(ev.Post, k)))
	}
	// channel 1 trigger with sweep calculation: overflow decided by the frequency interval
	{
		for _, tc := range []struct {
			hi       int
			overflow bool
		}{{7, true}, {0, false}} {
			ev := c.evalDecoder(true, nrx4[0], nrx4[0], func(st *ai.State) {
				allOff(st)
				powerOn(st)
				setB(st, chObjs[0], dacPath[0], true)
				c.forceSweepShift(st, chObjs[0], groups[0], 1, 1) // shift 1, addition
			}, vWith(map[int]bool{7: true, 2: tc.hi&4 != 0, 1: tc.hi&2 != 0, 0: tc.hi&1 != 0}))
			r.Ob("S-on", isConstB(enabledAfter(ev.Post, 0), !tc.overflow), fmt.Sprintf("channel 1 trigger, sweep shift 1 upward, frequency high bits %d => overflow %v", tc.hi, tc.overflow), hpos(ev), "status after: "+ai.ValueString(enabledAfter(ev.Post, 0)))
		}
	}

	// ---- S-dac
	for k := 0; k < 4; k++ {
		var cases []map[int]bool
		var offCase map[int]bool
		if k == 2 {
			offCase = map[int]bool{7: false}
			cases = []map[int]bool{{7: true}}
		} else {
			offCase = map[int]bool{7: false, 6: false, 5: false, 4: false, 3: false}
			for b := 3; b <= 7; b++ {
				cases = append(cases, map[int]bool{b: true})
			}
		}
		var es ai.Sym
		setup := func(st *ai.State) {
			powerOn(st)
			st.SetCell(chObjs[k], enPath[k], ai.NewSymBool(it.SymFor(chObjs[k], enPath[k])))
			es = it.SymFor(chObjs[k], enPath[k])
		}
		ev := c.evalDecoder(true, nrx2[k], nrx2[k], setup, vWith(offCase))
		r.Ob("S-dac", isConstB(enabledAfter(ev.Post, k), false) && isConstB(c.cellBool(ev.Post, chObjs[k], dacPath[k]), false), fmt.Sprintf("channel %d: DAC-off value turns the channel and the DAC off", k+1), hpos(ev), "status after: "+ai.ValueString(enabledAfter(ev.Post, k)))
		for _, cs := range cases {
			ev := c.evalDecoder(true, nrx2[k], nrx2[k], setup, vWith(cs))
			e := enabledAfter(ev.Post, k)
			unchanged := e != nil && e.B.K == ai.BSrc && e.B.S == es && !e.B.Neg
			r.Ob("S-dac", unchanged && isConstB(c.cellBool(ev.Post, chObjs[k], dacPath[k]), true), fmt.Sprintf("channel %d: value with bit %v set keeps the status and turns the DAC on", k+1, keysOfBits(cs)), hpos(ev), fmt.Sprintf("status after: %s, DAC after: %s", ai.ValueString(e), ai.ValueString(c.cellBool(ev.Post, chObjs[k], dacPath[k]))))
		}
	}

	// ---- S-power
	{
		ev := c.evalDecoder(true, 0xFF26, 0xFF26, powerOn, vWith(map[int]bool{7: false}))
		ok := ev.Post != nil
		for k := 0; k < 4 && ok; k++ {
			ok = isConstB(enabledAfter(ev.Post, k), false)
		}
		r.Ob("S-power", ok, "power-off write leaves all channels off", hpos(ev), "")
	}

	// ---- S-seq: the sequencer routine = the Audio method the per-clock routine calls under (ticks % 8192) == 0
	var seqFn, clockFn *ssa.Function
	var seqField, clockField string
	for _, f := range c.methodsOfObject(aObj) {
		for _, sc := range callsIn(f.Blocks) {
			if sc.Callee == nil || recvTypeKey(sc.Callee) != "audio.Audio" {
				continue
			}
			g := c.guardsOf(sc.At.Block())
			if len(g) == 1 {
				if mm := regexp.MustCompile(`^\(\(\w+\.(\w+) % 8192\) == 0\)$`).FindStringSubmatch(g[0]); mm != nil {
					if seqFn != nil && seqFn != sc.Callee {
						r.Ob("S-seq", false, "sequencer call", c.pos(sc.At), "more than one routine is called every 8192 clocks")
					}
					seqFn = sc.Callee
					clockFn, clockField = f, "."+mm[1]
				}
			}
		}
	}
	if seqFn == nil {
		r.Fail("unresolved", "S-seq", "frame sequencer routine", "", "no Audio method is called under exactly (ticks % 8192) == 0")
		return r
	}
	{
		callers := c.callersOf(seqFn)
		r.Ob("S-seq", len(callers) == 1, "the frame sequencer has exactly one call site, guarded by (ticks % 8192) == 0", firstPos(c, seqFn), fmt.Sprintf("%d call sites", len(callers)))
	}
	// the step counter: the integer cell of the audio object the sequencer increments
	for _, p := range func() []string {
		ev := c.evalCall(nil, seqFn, []ai.Value{ptrTo(aObj)}, nil, nil)
		return c.storedCellsOf(ev, aObj)
	}() {
		if c.cellInt(it.StateOn(c.W.Generic), aObj, p) != nil {
			seqField = p
		}
	}
	if seqField == "" {
		r.Fail("unresolved", "S-seq", "sequencer step counter", firstPos(c, seqFn), "the sequencer stores no integer cell of the audio object")
		return r
	}
	stepCalls := [8][]chanCall{}
	for step := 0; step < 8; step++ {
		var calls []chanCall
		st := it.StateOn(c.W.Generic)
		st.SetCell(aObj, seqField, ai.NewConstInt(c.widthOf(aObj, seqField), false, int64(step)))
		depth0 := len(it.Stack)
		it.Hooks = ai.Hooks{Call: func(_ *ai.State, _ ssa.Instruction, callee *ssa.Function, args []ai.Value) {
			if len(it.Stack) != depth0+1 || len(args) == 0 {
				return
			}
			if p, ok := args[0].(*ai.Ptr); ok && owner[p.Obj.ID] != 0 {
				calls = append(calls, chanCall{callee, owner[p.Obj.ID]})
			}
		}}
		_, post := it.CallFunction(st, seqFn, []ai.Value{ptrTo(aObj)}, nil)
		it.Hooks = ai.Hooks{}
		stepCalls[step] = calls
		nv := c.cellInt(post, aObj, seqField)
		cv, isc := constOf(nv)
		r.Ob("S-seq", isc && cv == int64(step+1), fmt.Sprintf("sequencer step %d advances to %d", step, step+1), firstPos(c, seqFn), "step afterwards: "+ai.ValueString(nv))
	}
	render := func(cs []chanCall) string {
		var s []string
		for _, x := range cs {
			s = append(s, fmt.Sprintf("%s@ch%d", x.Fn.Name(), x.Ch))
		}
		sort.Strings(s)
		return strings.Join(s, " ")
	}
	lenFns := map[int]*ssa.Function{}
	{
		base := stepCalls[0]
		okLen := len(base) == 4
		seen := map[int]bool{}
		for _, x := range base {
			seen[x.Ch] = true
			lenFns[x.Ch] = x.Fn
		}
		okLen = okLen && len(seen) == 4
		r.Ob("S-seq", okLen, "step 0 clocks one routine per channel (the length clock)", firstPos(c, seqFn), render(base))
		for _, s := range []int{1, 3, 5} {
			r.Ob("S-seq", len(stepCalls[s]) == 0, fmt.Sprintf("step %d clocks nothing", s), firstPos(c, seqFn), render(stepCalls[s]))
		}
		r.Ob("S-seq", render(stepCalls[4]) == render(base), "step 4 clocks exactly the length counters", firstPos(c, seqFn), render(stepCalls[4]))
		for _, s := range []int{2, 6} {
			extra := minusCalls(stepCalls[s], base)
			r.Ob("S-seq", len(stepCalls[s]) == 5 && len(extra) == 1 && extra[0].Ch == 1, fmt.Sprintf("step %d clocks the length counters and the channel-1 sweep", s), firstPos(c, seqFn), render(stepCalls[s]))
		}
		env := stepCalls[7]
		chs := map[int]bool{}
		disjoint := true
		for _, x := range env {
			chs[x.Ch] = true
			for _, y := range base {
				if y.Fn == x.Fn {
					disjoint = false
				}
			}
		}
		r.Ob("S-seq", len(env) == 3 && chs[1] && chs[2] && chs[4] && disjoint, "step 7 clocks the envelopes of channels 1, 2 and 4 only", firstPos(c, seqFn), render(env))
		r.Sample(map[string]interface{}{"sequencer_table": []string{render(stepCalls[0]), render(stepCalls[1]), render(stepCalls[2]), render(stepCalls[3]), render(stepCalls[4]), render(stepCalls[5]), render(stepCalls[6]), render(stepCalls[7])}})
	}
	// every store to the step counter outside the sequencer routine and the NR52 write keeps the phase: it replaces
	// a known value by one congruent to it modulo 8 (the table's period), e.g. a wrap from 512 to 0
	{
		h52 := map[string]bool{}
		for _, f := range c.evalDecoder(true, 0xFF26, 0xFF26, nil, nil).Direct {
			h52[fnName(f)] = true
		}
		seqOwn := map[string]bool{fnName(seqFn): true}
		viol := map[string]string{}
		n := 0
		c.evalAllEntries(ai.Hooks{
			Store: func(st *ai.State, at ssa.Instruction, p *ai.Ptr, keys []ai.CellKey, v ai.Value, _ bool) {
				for _, key := range keys {
					isSeq := false
					for _, a := range c.objectsOfType(aObj.TypeKey) {
						isSeq = isSeq || (key.Obj == a.ID && key.Path == seqField)
					}
					if !isSeq || c.onStack(seqOwn) || c.onStack(h52) || fnName(outerFn(at.Parent())) == fnName(clockFn) {
						continue // the per-clock routine's own stores are decided by the phase table below
					}
					n++
					var old *ai.Int
					for _, a := range c.objectsOfType(aObj.TypeKey) {
						if key.Obj == a.ID {
							old = c.cellInt(st, a, seqField)
						}
					}
					ov, oc := constOf(old)
					nv, nc := constOf(v)
					if !(oc && nc && (ov-nv)%8 == 0) {
						viol[fmt.Sprintf("sequencer step counter stored by %s: %s -> %s", fnName(outerFn(at.Parent())), ai.ValueString(old), ai.ValueString(v))] = c.pos(at)
					}
				}
			},
		}, func(*world.Entry, *ai.State) {})
		for k, pos := range viol {
			r.Ob("S-seq", false, k, pos, "outside the sequencer routine and the power-on write the step counter may only be wrapped by a multiple of 8; anything else shifts the 256 Hz length clock against emulated time")
		}
		r.Ob("S-seq", true, "stores to the sequencer step counter outside the sequencer routine examined", "", fmt.Sprintf("%d stores", n))
	}
	// phase table of the per-clock routine: for every step value 0-511 and clock-counter values around each constant the
	// routine compares with, the step counter moves by +1 (mod 8) exactly when the sequencer routine is called and by
	// 0 (mod 8) otherwise, and stays inside 0-511.  The 256 Hz length clock is the even steps, so anything else
	// stretches or shortens a length period.
	if clockFn != nil && ai.LeafTypeAt(aObj.T, clockField) != nil {
		var bad []string
		n := 0
		for _, tk := range []int64{1, 95, 8191, 8192, 8193, 4194303, 4194304, 4194305} {
			for sv := int64(0); sv < 512; sv++ {
				n++
				called := false
				st := it.StateOn(c.W.Generic)
				st.SetCell(aObj, seqField, ai.NewConstInt(c.widthOf(aObj, seqField), false, sv))
				st.SetCell(aObj, clockField, ai.NewConstInt(c.widthOf(aObj, clockField), false, tk))
				it.Hooks = ai.Hooks{Call: func(_ *ai.State, _ ssa.Instruction, callee *ssa.Function, _ []ai.Value) {
					if callee == seqFn {
						called = true
					}
				}}
				restore := c.cutDecoder(nil)
				_, post := it.CallFunction(st, clockFn, []ai.Value{ptrTo(aObj)}, nil)
				restore()
				it.Hooks = ai.Hooks{}
				nv, isc := constOf(c.cellInt(post, aObj, seqField))
				want := sv % 8
				if called {
					want = (sv + 1) % 8
				}
				if !(post != nil && isc && nv >= 0 && nv < 512 && nv%8 == want) && len(bad) < 4 {
					bad = append(bad, fmt.Sprintf("clock counter %d, step %d: step afterwards %s, sequencer called %v (documented step %d mod 8)", tk, sv, ai.ValueString(c.cellInt(post, aObj, seqField)), called, want))
				} else if !(post != nil && isc && nv >= 0 && nv < 512 && nv%8 == want) {
					bad = append(bad, "")
				}
			}
		}
		detail := fmt.Sprint(bad)
		if len(bad) > 4 {
			detail = fmt.Sprintf("%v ... %d cases in all", bad[:4], len(bad))
		}
		r.Ob("S-seq", len(bad) == 0, "per-clock routine keeps the sequencer phase (512 step values x 8 clock-counter values)", firstPos(c, clockFn), detail)
		r.Instances["S-seq"] += n
		// ... and the clock counter itself keeps its phase modulo 8192 wherever the routine compares it with a constant
		// (its wrap): from k-1, k and k+1 the value left for the next clock is congruent to value+1, so that two
		// sequencer calls are always 8192 clocks apart - a wrap that swallows or repeats a residue shifts every
		// length period that spans it
		{
			var consts []int64
			for _, b := range clockFn.Blocks {
				for _, ins := range b.Instrs {
					bo, ok := ins.(*ssa.BinOp)
					if !ok {
						continue
					}
					switch bo.Op {
					case token.EQL, token.NEQ, token.LSS, token.LEQ, token.GTR, token.GEQ:
					default:
						continue
					}
					if k, ok := bo.Y.(*ssa.Const); ok && k.Value != nil && strings.Contains(exprString(bo.X), strings.TrimPrefix(clockField, ".")) && !strings.Contains(exprString(bo.X), "%") {
						consts = append(consts, k.Int64())
					}
				}
			}
			var badP []string
			np := 0
			for _, k := range consts {
				for _, v := range []int64{k - 1, k, k + 1} {
					if v < 0 {
						continue
					}
					np++
					ev := c.evalCall(nil, clockFn, []ai.Value{ptrTo(aObj)}, nil, func(st *ai.State) {
						st.SetCell(aObj, clockField, ai.NewConstInt(c.widthOf(aObj, clockField), false, v))
					})
					next, isc := constOf(c.cellInt(ev.Post, aObj, clockField))
					if !(isc && ((next-(v+1))%8192+8192)%8192 == 0) && len(badP) < 4 {
						badP = append(badP, fmt.Sprintf("clock counter %d -> %s: the phase (counter mod 8192) does not advance by one", v, ai.ValueString(c.cellInt(ev.Post, aObj, clockField))))
					}
				}
			}
			r.Ob("S-seq", len(badP) == 0 && np > 0, "the clock counter keeps its phase modulo 8192 across the constants it is compared with", firstPos(c, clockFn), fmt.Sprintf("constants %v; %s", consts, strings.Join(badP, "; ")))
			r.Instances["S-seq"] += np
		}
	} else {
		r.Fail("unresolved", "S-seq", "per-clock routine / clock counter", "", "not identified")
	}
	// register writes while powered do not store the step counter
	for _, iv := range c.elementaryIntervals() {
		if iv[0] < 0xFF10 || iv[0] > 0xFF3F {
			continue
		}
		ev := c.evalDecoder(true, iv[0], iv[1], powerOn, nil)
		stored := false
		for _, a := range c.objectsOfType(aObj.TypeKey) {
			for _, p := range c.storedCellsOf(ev, a) {
				if p == seqField {
					stored = true
				}
			}
		}
		r.Ob("S-seq", !stored, fmt.Sprintf("write %04X-%04X while powered leaves the sequencer phase alone", iv[0], iv[1]), hpos(ev), "the register write stores the sequencer step counter")
	}

	// ---- S-sweep: the extra routine of steps 2 and 6
	if extra := minusCalls(stepCalls[2], stepCalls[0]); len(extra) == 1 {
		sw := extra[0].Fn
		o := chObjs[0]
		for _, tc := range []struct {
			shift    int64
			lo, hi   int64
			overflow bool
			what     string
		}{{1, 1366, 2047, true, "first calculation overflows"}, {1, 911, 1365, true, "repeated calculation overflows"}, {1, 0, 606, false, "no overflow"},
			{0, 1024, 2047, true, "shift 0: the calculation f + f overflows (the frequency is not written back, the check still applies)"}, {0, 0, 1023, false, "shift 0: no overflow"},
			{7, 2033, 2047, true, "shift 7: first calculation overflows"}, {7, 0, 2000, false, "shift 7: no overflow"}} {
			var es ai.Sym
			ev := c.evalCall(nil, sw, []ai.Value{ptrTo(o)}, nil, func(st *ai.State) {
				c.forceSweepShift(st, o, groups[0], tc.shift, 1)
				c.setGroupCell(st, groups[0], "sweepEnabled", ai.NewConstBool(true))
				c.setGroupCell(st, groups[0], "sweepTimer", ai.NewConstInt(8, false, 1))
				c.setGroupCell(st, groups[0], "sweepPeriod", ai.NewConstInt(8, false, 1))
				c.narrowGroupCell(st, groups[0], "shadowFrequency", tc.lo, tc.hi)
				es = it.SymFor(o, enPath[0])
				st.SetCell(o, enPath[0], ai.NewSymBool(es))
			})
			e := enabledAfter(ev.Post, 0)
			ok := false
			if tc.overflow {
				ok = isConstB(e, false)
			} else {
				ok = e != nil && e.B.K == ai.BSrc && e.B.S == es && !e.B.Neg
			}
			r.Ob("S-sweep", ok && len(ev.Undecided) == 0, fmt.Sprintf("sweep step, shift %d upward, shadow frequency in [%d,%d]: %s", tc.shift, tc.lo, tc.hi, tc.what), firstPos(c, sw), fmt.Sprintf("status after: %s %v", ai.ValueString(e), ev.Undecided))
		}
	} else {
		r.Fail("unresolved", "S-sweep", "sweep routine", firstPos(c, seqFn), "steps 2/6 do not add exactly one routine")
	}

	// ---- S-neg: leaving negate mode after a calculation in negate mode (documented DMG behaviour, the one cause the
	// NR10 handler has for touching the status): found by role - the boolean of channel 1 that the NR10 write consults
	r.Rule("S-neg", "NR10: a write with bit 3 set leaves the status alone; a write with bit 3 clear turns channel 1 off iff a sweep calculation was made in negate mode since (one flag, set by the sweep step in negate mode, cleared by every NR10 write), and leaves it alone otherwise")
	{
		var es ai.Sym
		base := func(st *ai.State) {
			powerOn(st)
			es = it.SymFor(chObjs[0], enPath[0])
			st.SetCell(chObjs[0], enPath[0], ai.NewSymBool(es))
		}
		unchanged := func(b *ai.Bool) bool { return b != nil && b.B.K == ai.BSrc && b.B.S == es && !b.B.Neg }
		probe := c.evalDecoder(true, 0xFF10, 0xFF10, base, vWith(map[int]bool{3: false}))
		var flag *ai.CellKey
		nflag := 0
		for _, kc := range c.boolCellsLoaded(probe) {
			kc := kc
			if !groups[0][kc.Obj] || (kc.Obj == chObjs[0].ID && kc.Path == enPath[0]) || (kc.Obj == pObj.ID && kc.Path == pPath) {
				continue
			}
			o := it.ObjectByIDFast(kc.Obj)
			on := c.evalDecoder(true, 0xFF10, 0xFF10, func(st *ai.State) { base(st); st.SetCell(o, kc.Path, ai.NewConstBool(true)) }, vWith(map[int]bool{3: false}))
			off := c.evalDecoder(true, 0xFF10, 0xFF10, func(st *ai.State) { base(st); st.SetCell(o, kc.Path, ai.NewConstBool(false)) }, vWith(map[int]bool{3: false}))
			if isConstB(enabledAfter(on.Post, 0), false) && unchanged(enabledAfter(off.Post, 0)) {
				flag = &kc
				nflag++
			}
		}
		r.Ob("S-neg", nflag == 1, "NR10 with bit 3 clear: channel 1 goes off exactly when the negate-calculation flag is set", hpos(probe), fmt.Sprintf("%d boolean cells of channel 1 act as that flag (status off when set, unchanged when clear); documented: one", nflag))
		stay := c.evalDecoder(true, 0xFF10, 0xFF10, base, vWith(map[int]bool{3: true}))
		r.Ob("S-neg", unchanged(enabledAfter(stay.Post, 0)), "NR10 with bit 3 set leaves the status alone", hpos(stay), "status after: "+ai.ValueString(enabledAfter(stay.Post, 0)))
		if nflag == 1 {
			fo := it.ObjectByIDFast(flag.Obj)
			for _, b3 := range []bool{false, true} {
				w := c.evalDecoder(true, 0xFF10, 0xFF10, base, vWith(map[int]bool{3: b3}))
				r.Ob("S-neg", isConstB(c.cellBool(w.Post, fo, flag.Path), false), fmt.Sprintf("NR10 write (bit 3 = %v) clears the flag", b3), hpos(w), "flag after: "+ai.ValueString(c.cellBool(w.Post, fo, flag.Path)))
			}
			if extra := minusCalls(stepCalls[2], stepCalls[0]); len(extra) == 1 {
				ev := c.evalCall(nil, extra[0].Fn, []ai.Value{ptrTo(chObjs[0])}, nil, func(st *ai.State) {
					c.setGroupCell(st, groups[0], "sweepShift", ai.NewConstInt(8, false, 1))
					c.setGroupCell(st, groups[0], "sweepIncrease", ai.NewConstBool(false))
					c.setGroupCell(st, groups[0], "sweepEnabled", ai.NewConstBool(true))
					c.setGroupCell(st, groups[0], "sweepTimer", ai.NewConstInt(8, false, 1))
					c.setGroupCell(st, groups[0], "sweepPeriod", ai.NewConstInt(8, false, 1))
					st.SetCell(fo, flag.Path, ai.NewConstBool(false))
				})
				r.Ob("S-neg", isConstB(c.cellBool(ev.Post, fo, flag.Path), true), "a sweep step that calculates in negate mode sets the flag", firstPos(c, extra[0].Fn), "flag after: "+ai.ValueString(c.cellBool(ev.Post, fo, flag.Path)))
			}
		}
	}

	// ---- S-length
	var lenPaths [4]string
	for k := 0; k < 4; k++ {
		fn := lenFns[k+1]
		o := chObjs[k]
		if fn == nil {
			continue
		}
		// cells by role: the integer cell the routine decrements, the boolean it tests first
		probe := c.evalCall(nil, fn, []ai.Value{ptrTo(o)}, nil, nil)
		var lenPath, lePath string
		for _, p := range c.storedCellsOf(probe, o) {
			if c.cellInt(it.StateOn(c.W.Generic), o, p) != nil {
				lenPath = p
			}
		}
		for _, kcell := range c.boolCellsLoaded(probe) {
			if kcell.Obj == o.ID && kcell.Path != enPath[k] {
				lePath = kcell.Path
			}
		}
		name := fmt.Sprintf("channel %d length clock", k+1)
		if lenPath == "" || lePath == "" {
			r.Fail("unresolved", "S-length", name, firstPos(c, fn), fmt.Sprintf("length cell %q / length-enable cell %q not identified", lenPath, lePath))
			continue
		}
		type lc struct {
			le     bool
			lo, hi int64
			what   string
		}
		for _, tc := range []lc{{false, 0, maxLen[k], "disabled"}, {true, 0, 0, "zero"}, {true, 1, 1, "one"}, {true, 2, maxLen[k], "two or more"}} {
			var ls, es ai.Sym
			ev := c.evalCall(nil, fn, []ai.Value{ptrTo(o)}, nil, func(st *ai.State) {
				setB(st, o, lePath, tc.le)
				ls = c.symCell(st, o, lenPath)
				st.SetCell(o, lenPath, ai.NarrowInt(c.cellInt(st, o, lenPath), tc.lo, tc.hi))
				es = it.SymFor(o, enPath[k])
				st.SetCell(o, enPath[k], ai.NewSymBool(es))
			})
			l := c.cellInt(ev.Post, o, lenPath)
			e := enabledAfter(ev.Post, k)
			unchangedE := e != nil && e.B.K == ai.BSrc && e.B.S == es && !e.B.Neg
			sameLen := l != nil && ((l.HasBase && l.Base == ls && l.Off == 0) || (tc.lo == tc.hi && l.Lo == tc.lo && l.Hi == tc.hi))
			decLen := l != nil && ((l.HasBase && l.Base == ls && l.Off == -1) || (tc.lo == tc.hi && l.Lo == tc.lo-1 && l.Hi == tc.hi-1))
			ok := false
			switch tc.what {
			case "disabled", "zero":
				ok = sameLen && unchangedE
			case "one":
				ok = decLen && isConstB(e, false)
			default:
				ok = decLen && unchangedE
			}
			r.Ob("S-length", ok, fmt.Sprintf("%s, length %s", name, tc.what), firstPos(c, fn), fmt.Sprintf("length' = %s, status' = %s", ai.ValueString(l), ai.ValueString(e)))
		}
		// NRx1 loads max - t
		var bad []string
		tmax := int(maxLen[k])
		for t := 0; t < tmax; t++ {
			v := int64(t)
			if k != 2 {
				v = int64(t) | 0xC0 // the duty bits must not matter
			}
			ev := c.evalDecoder(true, nrx1[k], nrx1[k], powerOn, ai.NewConstInt(8, false, v))
			l := c.cellInt(ev.Post, o, lenPath)
			if cv, isc := constOf(l); l == nil || !isc || cv != maxLen[k]-int64(t) {
				bad = append(bad, fmt.Sprintf("t=%d loads %s, documented %d", t, ai.ValueString(l), maxLen[k]-int64(t)))
			}
		}
		if len(bad) > 3 {
			bad = append(bad[:3], fmt.Sprintf("... %d more", len(bad)-3))
		}
		r.Ob("S-length", len(bad) == 0, fmt.Sprintf("channel %d: NRx1 loads %d-t for every t", k+1, maxLen[k]), "", strings.Join(bad, "; "))
		// ... also while sound is powered off (on the DMG the length counters stay writable then), through the decoder
		{
			var badOff []string
			for _, t := range []int64{0, 1, 17, maxLen[k] - 1} {
				v := t
				if k != 2 {
					v = t | 0x40
				}
				ev := c.evalDecoder(true, nrx1[k], nrx1[k], func(st *ai.State) { setB(st, pObj, pPath, false) }, ai.NewConstInt(8, false, v))
				l := c.cellInt(ev.Post, o, lenPath)
				if cv, isc := constOf(l); l == nil || !isc || cv != maxLen[k]-t {
					badOff = append(badOff, fmt.Sprintf("t=%d loads %s, documented %d", t, ai.ValueString(l), maxLen[k]-t))
				}
			}
			r.Ob("S-length", len(badOff) == 0, fmt.Sprintf("channel %d: NRx1 written while sound is off still loads the length counter", k+1), "", strings.Join(badOff, "; "))
		}

		lenPaths[k] = lenPath
		// ---- S-extra for this channel
		c.checkNRx4Table(r, k, o, nrx4[k], maxLen[k], lenPath, lePath, enPath[k], dacPath[k], aObj, seqField, powerOn, groups[0])
	}
	// who may store a length counter: its NRx1 and NRx4 handlers and its length clock - and never under the
	// NR52 write (a power cycle keeps the counters on the DMG)
	{
		allowed := [4]map[string]bool{}
		h52 := map[string]bool{}
		for _, f := range c.evalDecoder(true, 0xFF26, 0xFF26, nil, nil).Direct {
			h52[fnName(f)] = true
		}
		for k := 0; k < 4; k++ {
			allowed[k] = map[string]bool{}
			for _, a := range []int{nrx1[k], nrx4[k]} {
				for _, f := range c.evalDecoder(true, a, a, nil, nil).Direct {
					allowed[k][fnName(f)] = true
				}
			}
			if lenFns[k+1] != nil {
				allowed[k][fnName(lenFns[k+1])] = true
			}
		}
		viol := map[string]string{}
		n := 0
		c.evalAllEntries(ai.Hooks{
			Store: func(_ *ai.State, at ssa.Instruction, p *ai.Ptr, keys []ai.CellKey, _ ai.Value, _ bool) {
				for _, key := range keys {
					for k := 0; k < 4; k++ {
						if lenPaths[k] == "" || key.Obj != chObjs[k].ID || key.Path != lenPaths[k] {
							continue
						}
						n++
						if c.onStack(h52) {
							viol[fmt.Sprintf("channel %d length counter stored under the NR52 write", k+1)] = c.pos(at)
						} else if !c.onStack(allowed[k]) {
							viol[fmt.Sprintf("channel %d length counter stored by %s", k+1, fnName(outerFn(at.Parent())))] = c.pos(at)
						}
					}
				}
			},
		}, func(*world.Entry, *ai.State) {})
		for k, pos := range viol {
			r.Ob("S-length", false, k, pos, "a length counter changes only through NRx1, NRx4 (reload / extra clock) and the 256 Hz length clock; a power cycle keeps it")
		}
		r.Ob("S-length", n > 0, "stores to the length counters examined over every run-phase entry", "", fmt.Sprintf("%d stores", n))
	}
	// who may store a status flag: the channel's NRx2/NR30 handler (DAC off), its NRx4 handler (trigger), the NR52
	// handler (power off), its length clock and - channel 1 - the sweep step and the NR10 handler.  Not the envelope, the per-clock
	// routine, the sampler or anything else: a volume that fades to zero leaves the channel on.
	r.Rule("S-off", "a channel status flag is stored only under the channel's NRx2/NR30 and NRx4 handlers, the NR52 handler, its length clock and (channel 1) the sweep step and the NR10 handler (leaving negate mode), over every run-phase entry: an envelope that reaches volume 0 does not turn the channel off")
	{
		allowed := [4]map[string]bool{}
		for k := 0; k < 4; k++ {
			allowed[k] = map[string]bool{}
			for _, a := range []int{nrx2[k], nrx4[k], 0xFF26} {
				for _, f := range c.evalDecoder(true, a, a, nil, nil).Direct {
					allowed[k][fnName(f)] = true
				}
			}
			if lenFns[k+1] != nil {
				allowed[k][fnName(lenFns[k+1])] = true
			}
		}
		if extra := minusCalls(stepCalls[2], stepCalls[0]); len(extra) == 1 {
			allowed[0][fnName(extra[0].Fn)] = true
		}
		// (documented obscure behaviour: clearing the negate bit of NR10 after a calculation in negate mode turns channel 1 off)
		for _, f := range c.evalDecoder(true, 0xFF10, 0xFF10, nil, nil).Direct {
			allowed[0][fnName(f)] = true
		}
		viol := map[string]string{}
		n := 0
		c.evalAllEntries(ai.Hooks{
			Store: func(_ *ai.State, at ssa.Instruction, p *ai.Ptr, keys []ai.CellKey, _ ai.Value, _ bool) {
				for _, key := range keys {
					for k := 0; k < 4; k++ {
						if key.Obj != chObjs[k].ID || key.Path != enPath[k] {
							continue
						}
						n++
						if !c.onStack(allowed[k]) {
							viol[fmt.Sprintf("channel %d status flag stored by %s", k+1, fnName(outerFn(at.Parent())))] = c.pos(at)
						}
					}
				}
			},
		}, func(*world.Entry, *ai.State) {})
		for k, pos := range viol {
			r.Ob("S-off", false, k, pos, "the status changes only at a trigger, a DAC-off write, power-off, length expiry and sweep overflow")
		}
		r.Ob("S-off", n >= 8, "stores to the status flags examined over every run-phase entry", "", fmt.Sprintf("%d stores", n))
		r.Instances["S-off"] += n
	}
	// sibling agreement of the NRx4 tables
	if t, ok := r.Extra["nrx4_tables"].(map[string][]string); ok {
		ref := t["channel 1"]
		for k := 2; k <= 4; k++ {
			cur := t[fmt.Sprintf("channel %d", k)]
			same := len(cur) == len(ref)
			diff := ""
			for i := range ref {
				if same && cur[i] != ref[i] {
					same = false
					diff = fmt.Sprintf("case %d: channel 1 gives %q, channel %d gives %q", i, ref[i], k, cur[i])
				}
			}
			r.Ob("S-extra", same, fmt.Sprintf("NRx4 table of channel %d equals that of channel 1", k), "", diff)
		}
		delete(r.Extra, "nrx4_tables")
	}
	r.Rule("S-step", "the audio unit is stepped once per machine cycle by the frame loop and its step clocks the per-clock routine exactly four times, unconditionally (L2, L4 of C26 re-stated): the 256 Hz length clock is a clock of emulated time")
	adopt(r, c.sibling("C26"), map[string]string{"L2": "S-step", "L4": "S-step"}, "an audio step that is skipped or shortened in some machine state shifts the length clock against emulated time")
	return r
}

func keysOfBits(m map[int]bool) []int {
	var out []int
	for k := range m {
		out = append(out, k)
	}
	sort.Ints(out)
	return out
}

func minusCalls(a, b []chanCall) []chanCall {
	var out []chanCall
	for _, x := range a {
		found := false
		for _, y := range b {
			if x == y {
				found = true
			}
		}
		if !found {
			out = append(out, x)
		}
	}
	return out
}

// setGroupCell sets the cell with the given field name in whichever object of the group has it.
func (c *Ctx) setGroupCell(st *ai.State, group map[int]bool, field string, v ai.Value) bool {
	it := c.W.It
	for id := range group {
		o := it.ObjectByIDFast(id)
		if o != nil && ai.LeafTypeAt(o.T, "."+field) != nil {
			st.SetCell(o, "."+field, v)
			return true
		}
	}
	return false
}

func (c *Ctx) narrowGroupCell(st *ai.State, group map[int]bool, field string, lo, hi int64) bool {
	it := c.W.It
	for id := range group {
		o := it.ObjectByIDFast(id)
		if o != nil && ai.LeafTypeAt(o.T, "."+field) != nil {
			c.symCell(st, o, "."+field)
			st.SetCell(o, "."+field, ai.NarrowInt(c.cellInt(st, o, "."+field), lo, hi))
			return true
		}
	}
	return false
}

// forceSweepShift fixes channel 1's sweep shift and direction (up: 1 = addition, 0 = leave symbolic).
func (c *Ctx) forceSweepShift(st *ai.State, o *ai.Object, group map[int]bool, shift int64, up int) {
	c.setGroupCell(st, group, "sweepShift", ai.NewConstInt(8, false, shift))
	if up == 1 {
		c.setGroupCell(st, group, "sweepIncrease", ai.NewConstBool(true))
	}
}

// checkNRx4Table evaluates the NRx4 write of one channel over the documented case split.
func (c *Ctx) checkNRx4Table(r *report.Result, k int, o *ai.Object, addr int, max int64, lenPath, lePath, enPath, dacPath string, aObj *ai.Object, seqField string, powerOn func(*ai.State), g1 map[int]bool) {
	vsym := c.W.ParamSym(c.decoderFn(true), 2)
	var rows []string
	type lclass struct {
		lo, hi int64
		name   string
	}
	classes := []lclass{{0, 0, "0"}, {1, 1, "1"}, {2, max - 1, "2..max-1"}, {max, max, "max"}}
	n := 0
	for oldLE := 0; oldLE < 2; oldLE++ {
		for newLE := 0; newLE < 2; newLE++ {
			for trig := 0; trig < 2; trig++ {
				for odd := 0; odd < 2; odd++ {
					for _, lc0 := range classes {
						for dacOn := 1; dacOn >= 0; dacOn-- {
							lc := lc0
							v := ai.NewSymInt(8, false, vsym)
							v = ai.WithBit(v, 6, newLE == 1)
							v = ai.WithBit(v, 7, trig == 1)
							var ls ai.Sym
							ev := c.evalDecoder(true, addr, addr, func(st *ai.State) {
								powerOn(st)
								st.SetCell(o, lePath, ai.NewConstBool(oldLE == 1))
								// the DAC off forces the channel off, so the status starts equal to the DAC flag
								st.SetCell(o, dacPath, ai.NewConstBool(dacOn == 1))
								st.SetCell(o, enPath, ai.NewConstBool(dacOn == 1))
								ls = c.symCell(st, o, lenPath)
								st.SetCell(o, lenPath, ai.NarrowInt(c.cellInt(st, o, lenPath), lc.lo, lc.hi))
								for _, a := range c.objectsOfType(aObj.TypeKey) {
									x := c.cellInt(st, a, seqField)
									st.SetCell(a, seqField, ai.WithBit(x, 0, odd == 1))
								}
								if k == 0 {
									c.forceSweepShift(st, o, g1, 0, 0)
								}
							}, v)
							l := c.cellInt(ev.Post, o, lenPath)
							e := c.cellBool(ev.Post, o, enPath)
							le := c.cellBool(ev.Post, o, lePath)
							// documented outcome
							extra := oldLE == 0 && newLE == 1 && odd == 1 && lc.lo > 0
							wantOff := extra && lc.lo == 1 && lc.hi == 1 && trig == 0
							// length after the extra clock
							wl, wh := lc.lo, lc.hi
							if extra {
								wl, wh = wl-1, wh-1
							}
							corner := false
							if trig == 1 {
								// a trigger reloads the counter only from zero; the reload (and nothing else) earns the
								// extra clock when length is enabled at an odd sequencer step
								if wl == 0 && wh == 0 {
									wl, wh = max, max
									if newLE == 1 && odd == 1 {
										wl, wh = max-1, max-1
									}
								}
							}
							lenOK := l != nil && ((wl == wh && l.Lo == wl && l.Hi == wl) || (wl != wh && l.HasBase && l.Base == ls && l.Off == wl-lc.lo))
							var eOK bool
							if ev, isc := e.Const(); e != nil && isc {
								eOK = ev == (dacOn == 1 && !wantOff) // a trigger never turns a channel on while its DAC is off; everything else (length reload, extra clock, LE) is the same
							}
							leV, leC := false, false
							if le != nil {
								leV, leC = le.Const()
							}
							leOK := leC && leV == (newLE == 1)
							row := fmt.Sprintf("oldLE=%d newLE=%d trigger=%d odd=%d length=%s -> length'=%s on=%s LE=%s", oldLE, newLE, trig, odd, lc.name, relLen(l, ls, max), ai.ValueString(e), ai.ValueString(le))
							if dacOn == 1 {
								rows = append(rows, row)
							} else {
								row += " (DAC off)"
							}
							n++
							if corner {
								continue
							}
							if !(lenOK && eOK && leOK) {
								r.Ob("S-extra", false, fmt.Sprintf("channel %d NRx4: oldLE=%d newLE=%d trigger=%d odd-step=%d length=%s DAC=%d", k+1, oldLE, newLE, trig, odd, lc.name, dacOn), "", fmt.Sprintf("got %s; documented length' in [%d,%d] (relative %+d), channel on=%v, LE=%v", row, wl, wh, wl-lc.lo, dacOn == 1 && !wantOff, newLE == 1))
							}
						}
					}
				}
			}
		}
	}
	r.Ob("S-extra", n == 128, fmt.Sprintf("channel %d NRx4 decision table evaluated (64 cases x DAC on/off)", k+1), "", "")
	r.Instances["S-extra"] += n
	t, _ := r.Extra["nrx4_tables"].(map[string][]string)
	if t == nil {
		t = map[string][]string{}
		r.Extra["nrx4_tables"] = t
	}
	t[fmt.Sprintf("channel %d", k+1)] = rows
	if k == 2 {
		r.Sample(map[string]interface{}{"channel": 3, "nrx4_case": rows[len(rows)-9]})
	}
}

// relLen renders a length value relative to its symbolic start and to the channel's maximum.
func relLen(l *ai.Int, ls ai.Sym, max int64) string {
	if l == nil {
		return "?"
	}
	if l.HasBase && l.Base == ls {
		return fmt.Sprintf("len%+d", l.Off)
	}
	if l.Lo == l.Hi {
		if l.Lo >= max-1 {
			return fmt.Sprintf("max%+d", l.Lo-max)
		}
		return fmt.Sprint(l.Lo)
	}
	return fmt.Sprintf("[%d,%d]", l.Lo, l.Hi)
}
