package checks

import (
	"fmt"
	"sort"
	"strings"

	"golang.org/x/tools/go/ssa"

	"verif/sa/internal/ai"
	"verif/sa/internal/oracle"
	"verif/sa/internal/report"
	"verif/sa/internal/world"
)

func init() {
	register("C18", checkC18)
}

// lengthRegs are the registers whose length part stays writable while sound is off (DMG).
var lengthRegs = map[int]bool{0xFF11: true, 0xFF16: true, 0xFF1B: true, 0xFF20: true}

// loadedAnywhere returns the labels of all machine cells some run-phase entry loads.
func (c *Ctx) loadedAnywhere() map[string]bool {
	out := map[string]bool{}
	c.evalAllEntries(ai.Hooks{
		Load: func(_ *ai.State, _ ssa.Instruction, p *ai.Ptr, _ ai.Value) {
			if p != nil && p.Obj.ID <= c.W.NObjInit {
				out[c.cellLabel(ai.CellKey{Obj: p.Obj.ID, Path: ai.NormPath(p.Path)})] = true
			}
		},
	}, func(*world.Entry, *ai.State) {})
	return out
}

// depCells returns the labels of the cells a value depends on.
func (c *Ctx) depCells(v ai.Value) map[string]bool {
	out := map[string]bool{}
	it := c.W.It
	for _, s := range ai.DepsOf(v) {
		k := it.Syms[s].Cell
		if k.Obj != 0 {
			out[c.cellLabel(ai.CellKey{Obj: k.Obj, Path: ai.NormPath(k.Path)})] = true
		}
	}
	return out
}

func checkC18(c *Ctx) *report.Result {
	r := report.New("C18", "other", "write-then-read composition through the address decoder in a bit-provenance domain (power on), constant propagation through the power-off routine, write footprints with the power flag fixed off, affine-index rule for wave RAM")
	r.Explanation = "Each sound register is a handler pair behind the decoder; its read-back is a bit-level function of the written byte and of the power flag. The check (1) evaluates every read FF10-FF26 from the generic machine state and requires the documented mask bits to be known 1 (so they read 1 in every state); (2) fixes the power flag on, composes Write(v);Read() and requires read = v OR mask bit for bit (bits outside the mask are exactly the written bits); for NR52 bit 7 follows the written bit and bits 6-4 read 1; (3) evaluates the NR52 write with bit 7 clear (constants propagate through the nested register resets) and requires every register to read exactly its mask, NR52 exactly 70, in the post-state; (4) fixes the power flag off and requires every write except NR52 to store nothing that anything in the emulator ever loads, except that the four length registers must still store their length (and nothing a register read depends on); (5) wave RAM: with channel 3 off a read/write hits element (address - FF30) of one 16-byte array bit for bit, and neither the power-off nor the power-on write stores into that array."
	r.Rule("M-mask", "every read of NR10..NR52 has the documented mask bits known 1 in every machine state")
	r.Rule("M-round", "power on: Write(v);Read() == v | mask bit for bit (NR52: bit 7 = written bit 7, bits 6-4 = 1)")
	r.Rule("M-off", "after the power-off write every register reads exactly its mask and NR52 reads 70")
	r.Rule("M-ignored", "power off: a write to NR10..NR51 stores no cell that any code loads, except the length part of NR11/NR21/NR31/NR41, which is stored and does not influence any register read")
	r.Rule("M-wave", "channel 3 off: FF30-FF3F read and write element (addr-FF30) of one array exactly; the NR52 power-off and power-on writes do not store into it")
	r.NotDecided = []string{"NR52 status bits 0-3 (C19)", "wave RAM access while channel 3 plays", "histories longer than write;read (last-write-wins follows from M-round with C07's frame rule)"}
	r.TrustedBase = []string{"documented mask table (oracle.SoundRegs, from the property statement)", "go/ssa, abstract interpreter (bit provenance, gated joins, constant-branch pruning)"}
	it := c.W.It

	// ---- the power flag: the boolean cell bit 7 of NR52 reads from
	rd52 := c.evalDecoder(false, 0xFF26, 0xFF26, nil, nil)
	res52, _ := rd52.Result.(*ai.Int)
	if res52 == nil || res52.Bits[7].K != ai.BSrc {
		r.Fail("unresolved", "M-round", "power flag", "", "bit 7 of the NR52 read is not a single state bit: "+ai.ValueString(rd52.Result))
		return r
	}
	pk := it.Syms[res52.Bits[7].S].Cell
	powerObj := it.ObjectByIDFast(pk.Obj)
	if powerObj == nil {
		r.Fail("unresolved", "M-round", "power flag", "", "bit 7 of the NR52 read does not come from a machine cell")
		return r
	}
	power := func(on bool) func(*ai.State) {
		return func(st *ai.State) { st.SetCell(powerObj, pk.Path, ai.NewConstBool(on)) }
	}
	regs := oracle.SoundRegs()
	all := append([]oracle.SoundReg{}, regs...)
	all = append(all, oracle.SoundReg{Addr: 0xFF26, Name: "NR52", Mask: 0x70})

	handlerPos := func(ev *DecEval) string {
		if ev != nil && len(ev.Direct) > 0 {
			return firstPos(c, ev.Direct[0])
		}
		return ""
	}

	// ---- M-mask
	readDeps := map[string]bool{}
	for _, reg := range all {
		ev := c.evalDecoder(false, reg.Addr, reg.Addr, nil, nil)
		res, _ := ev.Result.(*ai.Int)
		name := fmt.Sprintf("%s (%04X)", reg.Name, reg.Addr)
		if res == nil || len(ev.Undecided) > 0 {
			r.Fail("undecided", "M-mask", name, handlerPos(ev), ai.ValueString(ev.Result)+" "+strings.Join(ev.Undecided, "; "))
			continue
		}
		ones := uint8(res.KnownOnes())
		r.Ob("M-mask", ones&reg.Mask == reg.Mask, name+" mask", handlerPos(ev), fmt.Sprintf("reads %s; bits known 1: %02X, documented mask %02X", bitsString(res.Bits), ones, reg.Mask))
		r.Ob("M-mask", len(ev.Stores) == 0, name+" read has no side effect", handlerPos(ev), fmt.Sprintf("stores %v", keysOf(ev.Stores)))
		for k := range c.depCells(res) {
			readDeps[k] = true
		}
	}
	for a := 0xFF30; a <= 0xFF3F; a += 0xF {
		ev := c.evalDecoder(false, a, a, nil, nil)
		for k := range c.depCells(ev.Result) {
			readDeps[k] = true
		}
	}

	// ---- M-round
	for _, reg := range regs {
		name := fmt.Sprintf("%s (%04X)", reg.Name, reg.Addr)
		w := c.evalDecoder(true, reg.Addr, reg.Addr, power(true), nil)
		if w.Post == nil || len(w.Undecided) > 0 {
			r.Fail("undecided", "M-round", name, handlerPos(w), strings.Join(w.Undecided, "; "))
			continue
		}
		rd := c.evalDecoderFrom(w.Post, false, reg.Addr, reg.Addr, nil, nil)
		res, _ := rd.Result.(*ai.Int)
		if res == nil {
			r.Fail("undecided", "M-round", name, handlerPos(w), "read after write gives "+ai.ValueString(rd.Result))
			continue
		}
		var bad []string
		for i := 0; i < 8; i++ {
			b := res.Bits[i]
			if reg.Mask>>uint(i)&1 == 1 {
				if b.K != ai.BOne {
					bad = append(bad, fmt.Sprintf("bit %d reads %s, documented 1", i, b.String()))
				}
			} else if !isSrcBit(b, w.ValSym, i) {
				bad = append(bad, fmt.Sprintf("bit %d reads %s, documented: bit %d of the written value", i, b.String(), i))
			}
		}
		r.Ob("M-round", len(bad) == 0, name+" read-back", handlerPos(w), fmt.Sprintf("write v then read gives %s: %s", bitsString(res.Bits), strings.Join(bad, "; ")))
		r.Sample(map[string]interface{}{"register": name, "mask": fmt.Sprintf("%02X", reg.Mask), "read_after_write_bits_msb_first": bitsString(res.Bits)})
	}
	// NR52 itself, case split on the written bit 7 and the previous power state
	vs52 := c.W.ParamSym(c.decoderFn(true), 2)
	var offPost *ai.State
	for _, wasOn := range []bool{true, false} {
		for _, bit7 := range []bool{true, false} {
			v := ai.WithBit(ai.NewSymInt(8, false, vs52), 7, bit7)
			w := c.evalDecoder(true, 0xFF26, 0xFF26, power(wasOn), v)
			name := fmt.Sprintf("NR52 write bit7=%v while power=%v", bit7, wasOn)
			if w.Post == nil || len(w.Undecided) > 0 {
				r.Fail("undecided", "M-round", name, handlerPos(w), strings.Join(w.Undecided, "; "))
				continue
			}
			if !bit7 && wasOn {
				offPost = w.Post
			}
			rd := c.evalDecoderFrom(w.Post, false, 0xFF26, 0xFF26, nil, nil)
			res, _ := rd.Result.(*ai.Int)
			ok := res != nil
			if ok {
				want := ai.BZero
				if bit7 {
					want = ai.BOne
				}
				ok = res.Bits[7].K == want && res.Bits[6].K == ai.BOne && res.Bits[5].K == ai.BOne && res.Bits[4].K == ai.BOne
				if !bit7 {
					for i := 0; i < 4; i++ {
						ok = ok && res.Bits[i].K == ai.BZero
					}
				}
				for i := 0; i < 7; i++ {
					if res.Bits[i].K == ai.BSrc && res.Bits[i].S == vs52 {
						ok = false // status bits and the constant bits never follow the written value
					}
				}
			}
			r.Ob("M-round", ok, name, handlerPos(w), "NR52 then reads "+ai.ValueString(rd.Result))
			// wave RAM survives power cycles
			var hit []string
			for k := range w.Stores {
				if strings.Contains(k, "[") {
					hit = append(hit, k)
				}
			}
			sort.Strings(hit)
			r.Ob("M-wave", len(hit) == 0, name+" leaves wave RAM alone", handlerPos(w), fmt.Sprintf("array cells stored: %v", hit))
		}
	}

	// ---- M-off
	if offPost == nil {
		r.Fail("undecided", "M-off", "power-off post-state", "", "the power-off write has no post-state")
	} else {
		for _, reg := range all {
			rd := c.evalDecoderFrom(offPost, false, reg.Addr, reg.Addr, nil, nil)
			cv, isc := constOf(rd.Result)
			r.Ob("M-off", isc && uint8(cv) == reg.Mask, fmt.Sprintf("%s (%04X) after power-off", reg.Name, reg.Addr), handlerPos(rd), fmt.Sprintf("reads %s, documented %02X", ai.ValueString(rd.Result), reg.Mask))
		}
	}

	// ---- M-ignored
	loaded := c.loadedAnywhere()
	r.Extra["cells_loaded_by_some_entry"] = len(loaded)
	for _, reg := range regs {
		name := fmt.Sprintf("%s (%04X) write while powered off", reg.Name, reg.Addr)
		w := c.evalDecoder(true, reg.Addr, reg.Addr, power(false), nil)
		if len(w.Undecided) > 0 {
			r.Fail("undecided", "M-ignored", name, handlerPos(w), strings.Join(w.Undecided, "; "))
			continue
		}
		var live, readable []string
		storesValue := false
		for k, v := range w.Stores {
			if loaded[k] {
				live = append(live, k)
			}
			if readDeps[k] {
				readable = append(readable, k)
			}
			if ai.DepsOf(v).Has(w.ValSym) {
				storesValue = true
			}
		}
		sort.Strings(live)
		sort.Strings(readable)
		if lengthRegs[reg.Addr] {
			r.Ob("M-ignored", storesValue && len(readable) == 0, name+" keeps only the length", handlerPos(w), fmt.Sprintf("stores %v (value stored: %v); cells a register read depends on: %v", keysOf(w.Stores), storesValue, readable))
		} else {
			r.Ob("M-ignored", len(live) == 0 && len(w.Externs) == 0, name+" is ignored", handlerPos(w), fmt.Sprintf("stores live state %v", live))
		}
	}

	// ---- M-own: what a register reads back is stored only by that register's own write and by power-off
	r.Rule("M-own", "the cells a register NR10..NR51 reads back are stored only under that register's own write handler or the NR52 write handler, over every run-phase entry: no trigger, sweep, envelope, length or per-cycle step rewrites them (read-back holds over any history, not only right after the write)")
	{
		readers := map[string][]int{}         // cell -> registers whose read depends on it
		handlers := map[int]map[string]bool{} // register -> its write handler(s)
		collect := func(addr int) {
			hs := map[string]bool{}
			for _, f := range c.evalDecoder(true, addr, addr, nil, nil).Direct {
				hs[fnName(f)] = true
			}
			handlers[addr] = hs
		}
		for _, reg := range oracle.SoundRegs() {
			rd := c.evalDecoder(false, reg.Addr, reg.Addr, nil, nil)
			for cell := range c.footprintOf(rd).cells {
				if cell == c.cellLabel(pk) {
					continue // the power flag belongs to NR52
				}
				readers[cell] = append(readers[cell], reg.Addr)
			}
			collect(reg.Addr)
		}
		collect(0xFF26)
		viol := map[string]string{}
		n := 0
		c.evalAllEntries(ai.Hooks{
			Store: func(_ *ai.State, at ssa.Instruction, p *ai.Ptr, keys []ai.CellKey, _ ai.Value, _ bool) {
				for _, k := range keys {
					lbl, _ := arrayLabel(c.cellLabel(ai.CellKey{Obj: k.Obj, Path: ai.NormPath(k.Path)}))
					regs := readers[lbl]
					if len(regs) == 0 {
						continue
					}
					n++
					ok := c.onStack(handlers[0xFF26])
					for _, a := range regs {
						ok = ok || c.onStack(handlers[a])
					}
					if !ok {
						var names []string
						for _, a := range regs {
							names = append(names, fmt.Sprintf("%04X", a))
						}
						viol[fmt.Sprintf("%s (read back by %s) stored by %s", lbl, strings.Join(names, ","), fnName(outerFn(at.Parent())))] = c.pos(at)
					}
				}
			},
		}, func(*world.Entry, *ai.State) {})
		for k, pos := range viol {
			r.Ob("M-own", false, k, pos, "a register's read-back state is rewritten outside its own write: the register no longer reads the last written value")
		}
		r.Ob("M-own", n > 0, "stores to register read-back cells examined over every run-phase entry", "", fmt.Sprintf("%d stores, %d cells", n, len(readers)))
		r.Instances["M-own"] += n
	}

	// ---- M-wave: plain memory while channel 3 is off
	probe := c.evalDecoder(false, 0xFF30, 0xFF3F, nil, nil)
	var ch3 []ai.CellKey
	for _, k := range c.boolCellsLoaded(probe) {
		ch3 = append(ch3, k)
	}
	if len(ch3) == 0 || len(ch3) > 3 {
		r.Fail("unresolved", "M-wave", "channel-3 playing flag", handlerPos(probe), fmt.Sprintf("%d boolean cells consulted by the wave RAM read", len(ch3)))
		return r
	}
	off := func(st *ai.State) {
		for _, k := range ch3 {
			st.SetCell(it.ObjectByIDFast(k.Obj), k.Path, ai.NewConstBool(false))
		}
	}
	arr := ""
	for _, write := range []bool{false, true} {
		ev := c.evalDecoder(write, 0xFF30, 0xFF3F, off, nil)
		kind := map[bool]string{false: "read", true: "write"}[write]
		var hits []elemAcc
		var hitOff int64
		for _, e := range ev.Elems {
			if off, isAff := addrOffset(e.Idx, ev.AddrSym, ev.Lo, ev.Hi); isAff {
				hits = append(hits, e)
				hitOff = off
			}
		}
		ok := len(hits) == 1 && hitOff == -0xFF30 && hits[0].Idx.Lo >= 0 && hits[0].Idx.Hi < hits[0].Len
		detail := fmt.Sprintf("%d element accesses indexed by the address", len(hits))
		if len(hits) == 1 {
			detail = fmt.Sprintf("accesses %s[addr%+d], index range [%d,%d], length %d", hits[0].Array, hitOff, hits[0].Idx.Lo, hits[0].Idx.Hi, hits[0].Len)
			if arr == "" {
				arr = hits[0].Array
			}
			ok = ok && hits[0].Array == arr
		}
		if write && ok {
			stored := false
			for cell, v := range ev.Stores {
				if strings.HasPrefix(cell, arr) {
					if iv, isInt := v.(*ai.Int); isInt {
						exact := true
						for i := 0; i < 8; i++ {
							exact = exact && isSrcBit(iv.Bits[i], ev.ValSym, i)
						}
						stored = stored || exact
					}
				}
			}
			ok = stored
			detail += fmt.Sprintf("; written byte stored there: %v", stored)
		}
		r.Ob("M-wave", ok, "wave RAM "+kind+" with channel 3 off", handlerPos(ev), detail)
	}
	// ... whether sound is powered or not (wave RAM is ordinary memory on the DMG; only NR10-NR51 are frozen by power-off):
	// with the power flag fixed either way the write stores the written byte and the read returns the stored byte
	if pObj, pPath := c.powerCell(); pObj != nil && arr != "" {
		for _, pw := range []bool{true, false} {
			setup := func(st *ai.State) {
				off(st)
				st.SetCell(pObj, pPath, ai.NewConstBool(pw))
			}
			ev := c.evalDecoder(true, 0xFF30, 0xFF3F, setup, nil)
			stored := false
			for cell, v := range ev.Stores {
				if strings.HasPrefix(cell, arr) {
					if iv, isInt := v.(*ai.Int); isInt {
						exact := true
						for i := 0; i < 8; i++ {
							exact = exact && isSrcBit(iv.Bits[i], ev.ValSym, i)
						}
						stored = stored || exact
					}
				}
			}
			same, n, got := c.readReturnsLoadedByte(0xFF30, 0xFF3F, setup)
			r.Ob("M-wave", stored && same && n == 1, fmt.Sprintf("wave RAM is written and read with channel 3 off and sound power %v", pw), handlerPos(ev), fmt.Sprintf("written byte stored: %v; read returns %s (element loads %d)", stored, got, n))
		}
	} else {
		r.Fail("unresolved", "M-wave", "power flag / wave array", "", "not found")
	}
	// no write to any other address stores into wave RAM while channel 3 is off (the unused addresses of the sound
	// block FF15, FF1F, FF27-FF2F included)
	if arr != "" {
		for _, iv := range c.elementaryIntervals() {
			if iv[0] >= 0xFF30 && iv[1] <= 0xFF3F {
				continue
			}
			w := c.evalDecoder(true, iv[0], iv[1], off, nil)
			var hit []string
			for cell := range w.Stores {
				if strings.HasPrefix(cell, arr) {
					hit = append(hit, cell)
				}
			}
			r.Ob("M-wave", len(hit) == 0, fmt.Sprintf("write %04X-%04X with channel 3 off leaves wave RAM alone", iv[0], iv[1]), handlerPos(w), fmt.Sprintf("stores %v", hit))
		}
	}
	// "off" is what NR52 reports: for every valuation of the flags NR52 and the wave RAM read consult in which
	// NR52 bit 2 reads 0, the wave RAM read returns the stored byte itself (no redirection to the play position)
	{
		nr52 := c.evalDecoder(false, 0xFF26, 0xFF26, nil, nil)
		cells := append([]ai.CellKey{}, ch3...)
		for _, k := range c.boolCellsLoaded(nr52) {
			dup := false
			for _, o := range cells {
				dup = dup || o == k
			}
			if !dup {
				cells = append(cells, k)
			}
		}
		if len(cells) > 8 {
			r.Fail("unresolved", "M-wave", "flags consulted by NR52 and the wave RAM read", "", fmt.Sprintf("%d cells", len(cells)))
			return r
		}
		var bad []string
		n0 := 0
		for v := 0; v < 1<<uint(len(cells)); v++ {
			setup := func(st *ai.State) {
				for i, k := range cells {
					st.SetCell(it.ObjectByIDFast(k.Obj), k.Path, ai.NewConstBool(v>>uint(i)&1 == 1))
				}
			}
			st52 := c.evalDecoder(false, 0xFF26, 0xFF26, setup, nil)
			iv, _ := st52.Result.(*ai.Int)
			if iv == nil || iv.Bits[2].K != ai.BZero {
				continue
			}
			n0++
			// a trigger of the stopped channel leaves wave RAM alone (the retrigger corruption belongs to a playing channel)
			trig := c.evalDecoder(true, 0xFF1E, 0xFF1E, setup, ai.WithBit(ai.NewSymInt(8, false, c.W.ParamSym(c.decoderFn(true), 2)), 7, true))
			for cell := range trig.Stores {
				if arr != "" && strings.HasPrefix(cell, arr) && len(bad) < 3 {
					var names []string
					for i, k := range cells {
						names = append(names, fmt.Sprintf("%s=%v", c.cellLabel(k), v>>uint(i)&1 == 1))
					}
					bad = append(bad, fmt.Sprintf("with %s (NR52 bit 2 = 0) an NR34 trigger stores into %s", strings.Join(names, ", "), cell))
				}
			}
			same, n, got := c.readReturnsLoadedByte(0xFF30, 0xFF3F, setup)
			if !same || n != 1 {
				var names []string
				for i, k := range cells {
					names = append(names, fmt.Sprintf("%s=%v", c.cellLabel(k), v>>uint(i)&1 == 1))
				}
				if len(bad) < 3 {
					bad = append(bad, fmt.Sprintf("with %s NR52 bit 2 reads 0 but a wave RAM read returns %s (element loads %d)", strings.Join(names, ", "), got, n))
				}
			}
		}
		r.Ob("M-wave", len(bad) == 0 && n0 > 0, "wave RAM is plain and untouched by a trigger whenever NR52 reports channel 3 off", handlerPos(probe), fmt.Sprintf("%d flag valuations with NR52 bit 2 = 0 examined; %s", n0, strings.Join(bad, "; ")))
	}
	r.Rule("M-status", "NR52 bits 0-3 are the channel status as C19 decides it (S-on, S-dac, S-power, S-sweep, S-length, S-off, S-extra, S-neg, S-seq re-stated)")
	adopt(r, c.sibling("C19"), map[string]string{"S-on": "M-status", "S-dac": "M-status", "S-power": "M-status", "S-sweep": "M-status", "S-length": "M-status", "S-off": "M-status", "S-extra": "M-status", "S-neg": "M-status", "S-seq": "M-status"}, "a channel left on or off against the documented causes makes NR52 read a wrong status bit")
	return r
}
