package checks

import (
	"fmt"
	"sort"
	"strings"

	"verif/sa/internal/ai"
	"verif/sa/internal/oracle"
	"verif/sa/internal/report"
)

func init() {
	register("C07", checkC07)
}

// footprint of one decoder evaluation, in location classes
type footprint struct {
	ev        *DecEval
	cells     map[string]bool  // scalar cells and arrays (array label without index)
	affine    map[string]int64 // array -> offset (index == address + offset)
	nonAffine map[string]bool
	sig       string
}

func arrayLabel(cell string) (string, bool) {
	if i := strings.Index(cell, "["); i >= 0 {
		return cell[:i], true
	}
	return cell, false
}

func (c *Ctx) footprintOf(ev *DecEval) *footprint {
	it := c.W.It
	fp := &footprint{ev: ev, cells: map[string]bool{}, affine: map[string]int64{}, nonAffine: map[string]bool{}, sig: ev.handlerSig()}
	if ev.Write {
		for cell := range ev.Stores {
			a, _ := arrayLabel(cell)
			fp.cells[a] = true
		}
	} else {
		for _, s := range ai.DepsOf(ev.Result) {
			info := it.Syms[s]
			if info.Cell.Obj == 0 || info.Cell.Obj > c.W.NObjInit {
				continue
			}
			lbl := c.cellLabel(ai.CellKey{Obj: info.Cell.Obj, Path: ai.NormPath(info.Cell.Path)})
			lbl = strings.TrimSuffix(lbl, "#len")
			a, _ := arrayLabel(lbl)
			fp.cells[a] = true
		}
	}
	for _, e := range ev.Elems {
		a, _ := arrayLabel(e.Array)
		if off, ok := addrOffset(e.Idx, ev.AddrSym, ev.Lo, ev.Hi); ok {
			if old, ok := fp.affine[a]; ok && old != off {
				fp.nonAffine[a] = true
			}
			fp.affine[a] = off
		} else {
			fp.nonAffine[a] = true
		}
	}
	return fp
}

func checkC07(c *Ctx) *report.Result {
	r := report.New("C07", "other", "may-interference analysis: write footprint of every write class against the result-dependence set of every read class (abstract interpretation with dependence tracking), compared with the documented effect matrix")
	r.Explanation = "A write can change what a later read returns only if the write handler may store into a location the read handler's result may depend on. Both sets are computed by evaluating Mapper.Write and Mapper.Read once per elementary address interval (all addresses, all values, all machine states at once): W = every abstract cell stored to, R = every cell the returned value depends on through data or control. Plain-memory arrays are refined by their affine index (address + constant): a write of element addr+a and a read of element addr'+b alias only when addr' = addr + (a-b), which must be the same address or the documented WRAM mirror. Every remaining (write class, read class) pair with a common location must be a documented effect (T-EFF: own address, mirrors, cartridge control, DIV, TMA->TIMA, LCDC, DMA, NR52, envelope/DAC/trigger/sweep registers, wave RAM). W and R over-approximate, so the absence of an undocumented pair decides the frame clause for single writes."
	r.Rule("E-frame", "for every write address interval A and read address interval B: W(A) and R(B) share a location only if B is A's own address, its mirror, or a documented side effect of A")
	r.NotDecided = []string{"that the documented effects have the right values", "effects mediated by later machine cycles (a write that arms something which changes a register some cycles later)"}
	r.TrustedBase = []string{"documented effect matrix (oracle.WriteMayAffect, from the property statement and Pan Docs)", "go/ssa, abstract interpreter dependence tracking"}

	var ws, rs []*footprint
	for _, iv := range c.elementaryIntervals() {
		ws = append(ws, c.footprintOf(c.evalDecoder(true, iv[0], iv[1], nil, nil)))
		rs = append(rs, c.footprintOf(c.evalDecoder(false, iv[0], iv[1], nil, nil)))
	}
	// NR52's status bits by the cell each one reads (a channel register may change only its own channel's bit)
	statusCell := map[int]string{}
	{
		ev := c.evalDecoder(false, 0xFF26, 0xFF26, nil, nil)
		if iv, ok := ev.Result.(*ai.Int); ok {
			for k := 0; k < 4; k++ {
				if b := iv.Bits[k]; b.K == ai.BSrc {
					info := c.W.It.Syms[b.S]
					lbl := c.cellLabel(ai.CellKey{Obj: info.Cell.Obj, Path: ai.NormPath(info.Cell.Path)})
					a, _ := arrayLabel(lbl)
					statusCell[k] = a
				}
			}
		}
		r.Extra["nr52_status_cells"] = fmt.Sprint(statusCell)
	}
	r.Extra["write_intervals"] = len(ws)
	r.Extra["read_intervals"] = len(rs)
	pairs, shared := 0, 0
	for _, w := range ws {
		if len(w.ev.Undecided) > 0 {
			r.Fail("undecided", "E-frame", fmt.Sprintf("write %04X-%04X", w.ev.Lo, w.ev.Hi), "", strings.Join(w.ev.Undecided, "; "))
		}
		for _, rd := range rs {
			pairs++
			var common []string
			for cell := range w.cells {
				if rd.cells[cell] {
					common = append(common, cell)
				}
			}
			if len(common) == 0 {
				r.Obligations++
				r.Discharged++
				continue
			}
			sort.Strings(common)
			shared++
			own := w.ev.Lo == rd.ev.Lo && w.ev.Hi == rd.ev.Hi
			var bad []string
			for _, cell := range common {
				wOff, wAff := w.affine[cell]
				rOff, rAff := rd.affine[cell]
				if wAff && rAff && !w.nonAffine[cell] && !rd.nonAffine[cell] {
					// element addrW+wOff vs addrR+rOff alias iff addrR = addrW + (wOff-rOff)
					delta := int(wOff - rOff)
					lo, hi := w.ev.Lo+delta, w.ev.Hi+delta
					if hi < rd.ev.Lo || lo > rd.ev.Hi {
						continue // no address of B aliases an address of A
					}
					if delta == 0 {
						continue // own address
					}
					mirror := (delta == 0x2000 || delta == -0x2000) && inWRAMPair(w.ev.Lo, rd.ev.Lo)
					if mirror {
						continue
					}
					bad = append(bad, fmt.Sprintf("%s (element of address%+d)", cell, delta))
					continue
				}
				if own {
					continue
				}
				if oracle.WriteMayAffect(w.ev.Lo, rd.ev.Lo) && oracle.WriteMayAffect(w.ev.Hi, rd.ev.Hi) {
					// a channel's own registers change that channel's status bit in NR52, never another channel's
					if ch := oracle.SoundChannelOf(w.ev.Lo); ch >= 0 && rd.ev.Lo == 0xFF26 && rd.ev.Hi == 0xFF26 && w.ev.Lo == w.ev.Hi {
						if sc, known := statusCell[ch]; !known || sc != cell {
							bad = append(bad, fmt.Sprintf("%s (NR52 status of another channel; channel %d's own is %s)", cell, ch+1, sc))
						}
					}
					continue
				}
				bad = append(bad, cell)
			}
			where := ""
			if len(bad) > 0 {
				if at, ok := w.ev.StoreAt[bad[0]]; ok {
					where = c.pos(at)
				} else {
					for cell, at := range w.ev.StoreAt {
						if strings.HasPrefix(cell, strings.Split(bad[0], " ")[0]) {
							where = c.pos(at)
						}
					}
				}
			}
			r.Ob("E-frame", len(bad) == 0, fmt.Sprintf("write %s changes %s read by %s", w.sig, strings.Join(bad, ", "), rd.sig), where,
				fmt.Sprintf("a write to %04X-%04X may store into %v, on which the value read from %04X-%04X depends; this effect is not documented", w.ev.Lo, w.ev.Hi, bad, rd.ev.Lo, rd.ev.Hi))
			if len(bad) == 0 && !own && shared%9 == 0 {
				r.Sample(map[string]interface{}{"write": fmt.Sprintf("%04X-%04X %s", w.ev.Lo, w.ev.Hi, w.sig), "read": fmt.Sprintf("%04X-%04X %s", rd.ev.Lo, rd.ev.Hi, rd.sig), "shared_locations": common, "documented": true})
			}
		}
	}
	r.Extra["pairs_examined"] = pairs
	r.Extra["pairs_with_shared_location"] = shared
	r.Instances["E-frame"] = pairs
	r.Rule("E-alias", "within cartridge RAM a write changes only the written cell and its documented mirrors: MBC2's 512 half-bytes repeat every 0x200 (rule R-mbc2 of C09 re-stated), banked RAM cells are distinct per bank (R-bank)")
	adopt(r, c.sibling("C09"), map[string]string{"R-mbc2": "E-alias", "R-bank": "E-alias", "R-gate": "E-alias"}, "a wrong mirror stride or bank index makes a write change the value read at another, undocumented address")
	return r
}

func inWRAMPair(a, b int) bool {
	in := func(x, lo, hi int) bool { return x >= lo && x <= hi }
	return (in(a, 0xC000, 0xDFFF) && in(b, 0xE000, 0xFDFF)) || (in(a, 0xE000, 0xFDFF) && in(b, 0xC000, 0xDFFF))
}
