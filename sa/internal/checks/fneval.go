package checks

import (
	"fmt"
	"go/types"
	"sort"
	"strings"

	"golang.org/x/tools/go/ssa"

	"verif/sa/internal/ai"
	"verif/sa/internal/report"
)

func newEval() *DecEval {
	return &DecEval{Stores: map[string]ai.Value{}, StoreAt: map[string]ssa.Instruction{}, Weak: map[string]bool{}, Loads: map[string]bool{}, ExternArg: map[string][]ai.Value{}, StoreObjs: map[int]bool{}}
}

// evalCall evaluates fn(args...) from a state (nil: the generic state), with the
// same observation as a decoder evaluation.  nil arguments become the function's
// memoised symbolic parameters.
func (c *Ctx) evalCall(from *ai.State, fn *ssa.Function, args []ai.Value, bind []ai.Value, setup func(*ai.State)) *DecEval {
	it := c.W.It
	ev := newEval()
	if fn == nil {
		ev.Undecided = append(ev.Undecided, "function not found")
		return ev
	}
	st := from
	if st == nil {
		st = it.StateOn(c.W.Generic)
	} else {
		st = st.Fork()
	}
	if setup != nil {
		setup(st)
	}
	full := make([]ai.Value, len(fn.Params))
	for i, p := range fn.Params {
		if i < len(args) && args[i] != nil {
			full[i] = args[i]
		} else {
			full[i] = c.W.ParamValue(fn, i, p.Type())
		}
	}
	it.Hooks = c.observeHooks(ev)
	res, post := it.CallFunction(st, fn, full, bind)
	it.Hooks = ai.Hooks{}
	ev.Result, ev.Post = res, post
	return ev
}

// ptrTo returns the pointer value of a singleton component object.
func ptrTo(o *ai.Object) *ai.Ptr { return &ai.Ptr{Obj: o, Elem: o.T} }

// cellInt loads an integer cell of an object from a state.
func (c *Ctx) cellInt(st *ai.State, o *ai.Object, path string) *ai.Int {
	if st == nil || o == nil {
		return nil
	}
	lt := ai.LeafTypeAt(o.T, path)
	if lt == nil {
		return nil
	}
	v, _ := st.LoadPtr(&ai.Ptr{Obj: o, Path: path, Elem: lt}).(*ai.Int)
	return v
}

func (c *Ctx) cellBool(st *ai.State, o *ai.Object, path string) *ai.Bool {
	if st == nil || o == nil {
		return nil
	}
	lt := ai.LeafTypeAt(o.T, path)
	if lt == nil {
		return nil
	}
	v, _ := st.LoadPtr(&ai.Ptr{Obj: o, Path: path, Elem: lt}).(*ai.Bool)
	return v
}

// symCell puts a fresh-named symbolic integer into a cell and returns its symbol.
func (c *Ctx) symCell(st *ai.State, o *ai.Object, path string) ai.Sym {
	it := c.W.It
	lt := ai.LeafTypeAt(o.T, path)
	w, sg := ai.TypeShape(lt)
	s := it.SymFor(o, path)
	st.SetCell(o, path, ai.NewSymInt(w, sg, s))
	return s
}

// methodsOfObject lists the source methods whose receiver is the object's type.
func (c *Ctx) methodsOfObject(o *ai.Object) []*ssa.Function {
	var out []*ssa.Function
	for _, f := range c.P.Funcs {
		if f.Synthetic == "" && f.Signature.Recv() != nil && recvTypeKey(f) == o.TypeKey {
			out = append(out, f)
		}
	}
	sort.Slice(out, func(i, j int) bool { return out[i].Name() < out[j].Name() })
	return out
}

// constsOfType lists the package-level constants of a named type, by name.
func constsOfType(t types.Type) map[string]int64 {
	out := map[string]int64{}
	n, ok := t.(*types.Named)
	if !ok || n.Obj().Pkg() == nil {
		return out
	}
	sc := n.Obj().Pkg().Scope()
	for _, name := range sc.Names() {
		if k, ok := sc.Lookup(name).(*types.Const); ok && types.Identical(k.Type(), t) {
			if v, ok := constInt64(k); ok {
				out[name] = v
			}
		}
	}
	return out
}

func constInt64(k *types.Const) (int64, bool) {
	s := k.Val().ExactString()
	var v int64
	if _, err := fmt.Sscan(s, &v); err != nil {
		return 0, false
	}
	return v, true
}

// isSrcBit: b is exactly bit j of symbol s.
func isSrcBit(b ai.Bit, s ai.Sym, j int) bool {
	return b.K == ai.BSrc && b.S == s && int(b.J) == j && !b.Neg
}

// cellsStored returns the labels of machine cells an evaluation stored to.
func cellsStored(ev *DecEval) []string { return keysOf(ev.Stores) }

// storedOutside reports stores of an evaluation whose label does not start with one of the prefixes.
func storedOutside(ev *DecEval, prefixes ...string) []string {
	var out []string
	for k := range ev.Stores {
		ok := false
		for _, p := range prefixes {
			if strings.HasPrefix(k, p) {
				ok = true
			}
		}
		if !ok {
			out = append(out, k)
		}
	}
	sort.Strings(out)
	return out
}

func firstPos(c *Ctx, fn *ssa.Function) string {
	if fn == nil || len(fn.Blocks) == 0 || len(fn.Blocks[0].Instrs) == 0 {
		return ""
	}
	return c.pos(fn.Blocks[0].Instrs[0])
}

// adopt re-states obligations of another property's rule set inside this result: the other
// check is evaluated on the same program and its obligations for the given rules are counted here
// under new rule names (a property that contains another property's clause decides it itself
// instead of referring to the sibling check).
func adopt(dst, src *report.Result, rules map[string]string, why string, only ...func(report.Finding) bool) {
	if src.Extra["sibling-cycle"] == true {
		// the sibling is itself being evaluated further up the stack (it re-states one of this check's rules):
		// this inner copy is only consulted for that other rule; the outer evaluation adopts for real
		return
	}
	for from, to := range rules {
		n := src.Instances[from]
		if n == 0 {
			// the sibling rule set did not get as far as this rule (its anchors were not resolved): fail closed
			dst.Fail("unresolved", to, "adopted rule "+from+" of "+src.Property, "", "the rule produced no instance on this program ["+why+"]")
			continue
		}
		bad := 0
		for _, f := range src.Findings {
			if f.Rule == from && (len(only) == 0 || only[0](f)) {
				bad++
				dst.Findings = append(dst.Findings, report.Finding{Property: dst.Property, Rule: to, Construct: f.Construct, Kind: f.Kind, Where: f.Where, Detail: f.Detail + " [" + why + "]"})
			}
		}
		dst.Obligations += n
		dst.Discharged += n - bad
		dst.Instances[to] += n
	}
}
