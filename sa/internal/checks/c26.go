package checks

import (
	"fmt"
	"go/token"
	"go/types"
	"strings"

	"golang.org/x/tools/go/ssa"

	"verif/sa/internal/ai"
	"verif/sa/internal/report"
)

func init() {
	register("C26", checkC26)
}

// staticCall describes a call/defer instruction with a statically known callee.
type staticCall struct {
	At     ssa.Instruction
	Callee *ssa.Function
	Recv   string // "pkg.Type" of the receiver, "" for plain functions
	Name   string
	Common *ssa.CallCommon
}

func recvTypeKey(fn *ssa.Function) string {
	if fn == nil || fn.Signature.Recv() == nil {
		return ""
	}
	t := fn.Signature.Recv().Type()
	if p, ok := t.(*types.Pointer); ok {
		t = p.Elem()
	}
	if n, ok := t.(*types.Named); ok && n.Obj().Pkg() != nil {
		return n.Obj().Pkg().Name() + "." + n.Obj().Name()
	}
	return t.String()
}

func callsIn(blocks []*ssa.BasicBlock) []staticCall {
	var out []staticCall
	for _, b := range blocks {
		for _, ins := range b.Instrs {
			var cc *ssa.CallCommon
			switch x := ins.(type) {
			case *ssa.Call:
				cc = x.Common()
			case *ssa.Defer:
				cc = x.Common()
			case *ssa.Go:
				cc = x.Common()
			}
			if cc == nil {
				continue
			}
			sc := staticCall{At: ins, Common: cc}
			if cc.IsInvoke() {
				sc.Name = "invoke:" + cc.Method.Name()
			} else if fn, ok := cc.Value.(*ssa.Function); ok {
				sc.Callee, sc.Recv, sc.Name = fn, recvTypeKey(fn), fn.Name()
			} else if _, ok := cc.Value.(*ssa.Builtin); ok {
				continue
			} else {
				sc.Name = "dynamic"
			}
			out = append(out, sc)
		}
	}
	return out
}

func loopBlocksInOrder(fn *ssa.Function, l *ai.LoopInfo) []*ssa.BasicBlock {
	var out []*ssa.BasicBlock
	for _, b := range fn.DomPreorder() {
		if l.Blocks[b] {
			out = append(out, b)
		}
	}
	return out
}

func checkC26(c *Ctx) *report.Result {
	r := report.New("C26", "proof", "CFG rules (loop shape, dominance, control dependence, call multiplicity) on the frame loop, Run, Cleanup and the per-cycle fan-out functions")
	r.Explanation = "The property is structural: it is about which calls the frame loop makes, how often, in which order and under which conditions. The check reads it off the control-flow graphs: the frame function is one counted loop 0..17555 whose only exit is its bound test; on every iteration it calls, exactly once each and with the CPU step first, the five per-cycle steps; the timer interrupt request is control dependent on exactly the timer step's result being true and is called nowhere else; the memory step fans out to DMA and RTC once each and the audio step to four clock ticks; the frame function returns the display's close request when a display exists and false otherwise; Run polls cancellation before every frame, leaves the loop on either signal, and its deferred Cleanup (registered before the loop, hence covering every return) releases speakers and display, each guarded only by its own presence test."
	r.Rule("L1", "frame function: exactly one loop, counter from 0 step 1, bound 17556, no other exit, no return or panic inside")
	r.Rule("L2", "loop body: CPU step, video, memory, audio and timer steps called exactly once per iteration, unconditionally, CPU first")
	r.Rule("L3", "timer request: called only from the frame loop, exactly once, control dependent exactly on the timer step's result being true")
	r.Rule("L4", "memory step calls the DMA tick and the RTC tick once each; audio step calls the clock tick exactly 4 times; all unconditional")
	r.Rule("L5", "frame function result: display's close request iff a display exists, else constant false")
	r.Rule("R1", "Run: Cleanup deferred in the entry block; every frame call is dominated, within the loop, by the cancellation poll; the loop exits exactly on cancellation or on a true frame result")
	r.Rule("R2", "Cleanup releases speakers and display, each control dependent only on its own non-nil test")
	r.TrustedBase = []string{"go/ssa CFG, dominators", "post-dominators/control dependence computed by the checker", "host libraries behind display/speakers"}
	it := c.W.It
	fn := c.W.RunFrameFn
	run := c.W.RunFn
	if fn == nil || run == nil {
		r.Fail("unresolved", "anchors", "Run / frame function", "", "not found")
		return r
	}
	at0 := func(f *ssa.Function) string { return c.pos(f.Blocks[0].Instrs[0]) }
	// ---- L1
	loops := ai.Loops(fn)
	r.Ob("L1", len(loops) == 1, "frame function has exactly one loop", at0(fn), fmt.Sprintf("%d loops found", len(loops)))
	if len(loops) != 1 {
		return r
	}
	l := loops[0]
	h := l.Header
	var bound int64 = -1
	var counter *ssa.Phi
	if iff, ok := h.Instrs[len(h.Instrs)-1].(*ssa.If); ok {
		if cmp, ok := iff.Cond.(*ssa.BinOp); ok && cmp.Op == token.LSS {
			if phi, ok := cmp.X.(*ssa.Phi); ok && phi.Block() == h {
				if k, ok := cmp.Y.(*ssa.Const); ok && k.Value != nil {
					bound = k.Int64()
					counter = phi
				}
			}
		}
	}
	okCounter := false
	if counter != nil && len(counter.Edges) == 2 {
		init, step := counter.Edges[0], counter.Edges[1]
		if l.Blocks[h.Preds[0]] {
			init, step = step, init
		}
		if k, ok := init.(*ssa.Const); ok && k.Value != nil && k.Int64() == 0 {
			if add, ok := step.(*ssa.BinOp); ok && add.Op == token.ADD && add.X == counter && isConstInt(add.Y, 1) {
				okCounter = true
			}
		}
	}
	r.Ob("L1", okCounter && bound == 17556, "loop counts 0..17555", c.pos(h.Instrs[len(h.Instrs)-1]), fmt.Sprintf("counter well-formed: %v, bound %d (documented 17556 machine cycles per frame)", okCounter, bound))
	exitsOK := true
	for b := range l.Blocks {
		for _, s := range b.Succs {
			if !l.Blocks[s] && b != h {
				exitsOK = false
			}
		}
		switch b.Instrs[len(b.Instrs)-1].(type) {
		case *ssa.Return, *ssa.Panic:
			exitsOK = false
		}
	}
	r.Ob("L1", exitsOK, "loop has no other exit", c.pos(h.Instrs[0]), "an edge other than the bound test leaves the loop, or the body returns/panics")
	// ---- L2
	body := loopBlocksInOrder(fn, l)
	calls := callsIn(body)
	steps := []struct{ recv, name string }{
		{"cpu.CPU", "ExecuteMachineCycle"}, {"ppu.PPU", "EndMachineCycle"}, {"memory.Mapper", "EndMachineCycle"}, {"audio.Audio", "EndMachineCycle"}, {"timer.Timer", "EndMachineCycle"},
	}
	cds := it.TransitiveControlDeps(fn)
	inLoopCond := func(b *ssa.BasicBlock) []ai.CtrlDep {
		var out []ai.CtrlDep
		for _, d := range cds[b] {
			if d.If.Block() != h && l.Blocks[d.If.Block()] {
				out = append(out, d)
			}
		}
		return out
	}
	// the per-cycle body may live in a helper of the same type that the loop calls once, unconditionally: then
	// the helper's body is the loop body (its own branches are the conditions that count)
	{
		isStepCall := func(cl staticCall) bool {
			for _, s := range steps {
				if cl.Recv == s.recv && cl.Name == s.name {
					return true
				}
			}
			return false
		}
		direct := 0
		for _, cl := range calls {
			if isStepCall(cl) {
				direct++
			}
		}
		if direct == 0 {
			var helpers []staticCall
			for _, cl := range calls {
				if cl.Callee != nil && recvTypeKey(cl.Callee) == recvTypeKey(fn) && len(cl.Callee.Blocks) > 0 {
					n := 0
					for _, inner := range callsIn(cl.Callee.Blocks) {
						if isStepCall(inner) {
							n++
						}
					}
					if n > 0 {
						helpers = append(helpers, cl)
					}
				}
			}
			if len(helpers) == 1 && len(inLoopCond(helpers[0].At.Block())) == 0 && len(ai.Loops(helpers[0].Callee)) == 0 {
				hf := helpers[0].Callee
				r.Extra["per_cycle_body_in_helper"] = fnName(hf)
				body = hf.Blocks
				calls = callsIn(body)
				hcds := it.TransitiveControlDeps(hf)
				inLoopCond = func(b *ssa.BasicBlock) []ai.CtrlDep { return hcds[b] }
			}
		}
	}
	var stepCalls []staticCall
	var timerStep *ssa.Call
	for _, s := range steps {
		var found []staticCall
		for _, cl := range calls {
			if cl.Recv == s.recv && cl.Name == s.name {
				found = append(found, cl)
			}
		}
		where := c.pos(h.Instrs[0])
		if len(found) > 0 {
			where = c.pos(found[0].At)
		}
		uncond := len(found) == 1 && len(inLoopCond(found[0].At.Block())) == 0
		r.Ob("L2", uncond, fmt.Sprintf("step %s.%s once per cycle", s.recv, s.name), where, fmt.Sprintf("%d call(s) in the loop body; must be exactly one and unconditional", len(found)))
		if len(found) == 1 {
			stepCalls = append(stepCalls, found[0])
			if s.recv == "timer.Timer" {
				timerStep, _ = found[0].At.(*ssa.Call)
			}
		}
	}
	if len(stepCalls) == len(steps) {
		// order: each step precedes the next in dominance/instruction order
		for i := 1; i < len(stepCalls); i++ {
			a, b := stepCalls[i-1].At, stepCalls[i].At
			before := false
			if a.Block() == b.Block() {
				for _, ins := range a.Block().Instrs {
					if ins == a {
						before = true
						break
					}
					if ins == b {
						break
					}
				}
			} else {
				before = a.Block().Dominates(b.Block())
			}
			r.Ob("L2", before, fmt.Sprintf("step order %s before %s", steps[i-1].recv, steps[i].recv), c.pos(b), "the per-cycle steps must run CPU, video, memory, audio, timer in this order")
		}
	}
	// no other repository call in the loop body except the timer request
	var others []staticCall
	for _, cl := range calls {
		isStep := false
		for _, s := range stepCalls {
			if s.At == cl.At {
				isStep = true
			}
		}
		if !isStep {
			others = append(others, cl)
		}
	}
	// ---- L3
	var req *staticCall
	for i := range others {
		if others[i].Recv == "interrupts.Interrupts" {
			req = &others[i]
		}
	}
	if req == nil || timerStep == nil {
		r.Ob("L3", false, "timer interrupt request in the loop", c.pos(h.Instrs[0]), "no call raising the timer interrupt request found in the frame loop")
	} else {
		deps := inLoopCond(req.At.Block())
		ok := len(deps) == 1 && deps[0].Branch && deps[0].If.Cond == ssa.Value(timerStep)
		r.Ob("L3", ok, "timer request guarded by the timer step's result", c.pos(req.At), fmt.Sprintf("control dependences inside the loop: %d; the request must depend exactly on the timer step returning true", len(deps)))
		// the callee sets IF bit 2 and nothing else
		c.checkTimerRequestEffect(r, req.Callee, c.pos(req.At))
		// who may call
		n := 0
		for _, f := range c.P.Funcs {
			for _, cl := range callsIn(f.Blocks) {
				if cl.Callee == req.Callee {
					n++
				}
			}
		}
		r.Ob("L3", n == 1, "timer request has a single call site", c.pos(req.At), fmt.Sprintf("%d call sites in the repository", n))
		// any further call in the loop body must leave the machine alone: it stores no machine state and reaches none
		// of the step routines (a trace or statistics hook is not a second advance of the hardware)
		var effectful []string
		stepFns := map[*ssa.Function]bool{req.Callee: true}
		for _, sc := range stepCalls {
			stepFns[sc.Callee] = true
		}
		for _, cl := range others {
			if cl.At == req.At {
				continue
			}
			if cl.Callee == nil {
				effectful = append(effectful, cl.Name+" (not a static call)")
				continue
			}
			ev := c.evalCall(nil, cl.Callee, nil, nil, nil)
			bad := len(ev.Stores) > 0 || ev.Post == nil || len(ev.Undecided) > 0
			for _, f := range ev.Callees {
				if stepFns[f] || c.W.CutFns[f] {
					bad = true
				}
			}
			if bad {
				effectful = append(effectful, fnName(cl.Callee))
			}
		}
		r.Ob("L2", len(effectful) == 0, "no further call in the loop body changes the machine", c.pos(h.Instrs[0]), fmt.Sprintf("%d calls besides the five steps and the timer request; with an effect on machine state or reaching a step routine: %v", len(others)-1, effectful))
	}
	// ---- L4
	c.fanOut(r, "memory.Mapper", "EndMachineCycle", map[string]int{"oam.OAM": 1, "memory.rtc": 1})
	c.fanOutSame(r, "audio.Audio", "EndMachineCycle", 4)
	// ---- L5
	for _, b := range fn.Blocks {
		ret, ok := b.Instrs[len(b.Instrs)-1].(*ssa.Return)
		if !ok || len(ret.Results) != 1 {
			continue
		}
		switch v := ret.Results[0].(type) {
		case *ssa.Const:
			r.Ob("L5", v.Value != nil && !constBool(v), "frame result without display is false", c.pos(ret), "constant result must be false")
		case *ssa.Call:
			callee, _ := v.Call.Value.(*ssa.Function)
			isDisplay := recvTypeKey(callee) == "display.Display"
			guard := false
			for _, d := range cds[b] {
				if cmp, ok := d.If.Cond.(*ssa.BinOp); ok && cmp.Op == token.NEQ && d.Branch {
					if isNilConst(cmp.Y) && strings.Contains(cmp.X.Type().String(), "display.Display") {
						guard = true
					}
				}
			}
			r.Ob("L5", isDisplay && guard, "frame result is the display's close request", c.pos(ret), fmt.Sprintf("returned call on %s, guarded by display != nil: %v", recvTypeKey(callee), guard))
			// the display routine answers, on every path, with the window's own close query (a call into the
			// host library), never with a constant or a cached value
			if isDisplay && callee != nil {
				nret := 0
				for _, db := range callee.Blocks {
					dret, ok := db.Instrs[len(db.Instrs)-1].(*ssa.Return)
					if !ok || len(dret.Results) != 1 {
						continue
					}
					nret++
					okq := false
					if q, isCall := dret.Results[0].(*ssa.Call); isCall {
						if qf := q.Call.StaticCallee(); qf != nil && !isRepoFn(qf) && qf.Name() == "ShouldClose" {
							okq = true
						}
					}
					r.Ob("L5", okq, "display frame routine returns the window's close query", c.pos(dret), "every return of the display's frame routine must be the host window's ShouldClose(); a constant or cached answer hides a close request from Run")
				}
				if nret == 0 {
					r.Fail("unresolved", "L5", "display frame routine", "", "no return found")
				}
			}
		default:
			r.Ob("L5", false, "frame result", c.pos(ret), "unexpected result expression")
		}
	}
	// ---- R1
	c.checkRun(r, run, fn)
	r.Rule("L-cpu", "the CPU step acts in every machine cycle it is called in: one sub-instruction per call, returning idle only when the fetch routine reports the CPU halted or stopped (rule S1 of C02 re-stated)")
	adopt(r, c.sibling("C02"), map[string]string{"S1": "L-cpu"}, "a CPU step that returns early for another reason lets the other components advance in a machine cycle in which the CPU did not act")
	r.Rule("L-timer", "the timer advances by its four clocks in every call of its step, on every path (rule W-div of C12 re-stated)")
	adopt(r, c.sibling("C12"), map[string]string{"W-div": "L-timer"}, "a timer step that swallows its advance in some machine cycle does not advance the timer once per machine cycle")
	r.Rule("L-audio", "every sound channel's per-clock routine runs in every clock of every machine cycle but the one of its own trigger (rule Q-clock of C21 re-stated)")
	adopt(r, c.sibling("C21"), map[string]string{"Q-clock": "L-audio"}, "a channel whose clock is held beyond the cycle of its trigger does not advance once per machine cycle")
	r.Rule("L-rtc", "the cartridge clock advances on every call of its step unless halted by its own halt bit (rule T-tick of C10 re-stated)")
	adopt(r, c.sibling("C10"), map[string]string{"T-tick": "L-rtc"}, "a clock step that returns early for another reason does not advance the cartridge clock once per machine cycle")
	return r
}

func constBool(k *ssa.Const) bool {
	if k.Value == nil {
		return false
	}
	return k.Value.String() == "true"
}

func isNilConst(v ssa.Value) bool {
	k, ok := v.(*ssa.Const)
	return ok && k.Value == nil
}

// checkTimerRequestEffect: evaluating the callee sets exactly IF bit 2.
func (c *Ctx) checkTimerRequestEffect(r *report.Result, callee *ssa.Function, where string) {
	it := c.W.It
	ints := c.objectOfType("interrupts.Interrupts")
	readIF := c.P.Func("gameboy/interrupts", "(*Interrupts).ReadIF")
	if ints == nil || readIF == nil || callee == nil {
		r.Fail("unresolved", "L3", "IF register", where, "Interrupts object or ReadIF not found")
		return
	}
	recv := &ai.Ptr{Obj: ints, Path: "", Elem: ints.T}
	st := it.StateOn(c.W.Generic)
	_, post := it.CallFunction(st, callee, []ai.Value{recv}, nil)
	if post == nil {
		r.Ob("L3", false, "timer request effect", where, "callee does not return")
		return
	}
	res, _ := it.CallFunction(post, readIF, []ai.Value{recv}, nil)
	pre, _ := it.CallFunction(it.StateOn(c.W.Generic), readIF, []ai.Value{recv}, nil)
	a, ok1 := res.(*ai.Int)
	b, ok2 := pre.(*ai.Int)
	ok := ok1 && ok2 && a.Bits[2].K == ai.BOne
	for i := 0; ok && i < 8; i++ {
		if i != 2 && a.Bits[i] != b.Bits[i] {
			ok = false
		}
	}
	r.Ob("L3", ok, "timer request sets exactly IF bit 2", where, fmt.Sprintf("IF before %s, after %s", ai.ValueString(pre), ai.ValueString(res)))
}

// fanOut: the method calls, unconditionally and outside any loop, exactly the given number of methods per receiver type.
func (c *Ctx) fanOut(r *report.Result, recv, name string, want map[string]int) {
	fn := c.methodOf(recv, name)
	if fn == nil {
		r.Fail("unresolved", "L4", recv+"."+name, "", "not found")
		return
	}
	it := c.W.It
	cds := it.TransitiveControlDeps(fn)
	got := map[string]int{}
	cond := false
	for _, cl := range callsIn(fn.Blocks) {
		got[cl.Recv]++
		if len(cds[cl.At.Block()]) > 0 {
			cond = true
		}
	}
	ok := len(ai.Loops(fn)) == 0 && !cond
	for k, v := range want {
		if got[k] != v {
			ok = false
		}
	}
	for k := range got {
		if _, w := want[k]; !w {
			ok = false
		}
	}
	r.Ob("L4", ok, recv+"."+name+" fan-out", c.pos(fn.Blocks[0].Instrs[0]), fmt.Sprintf("calls per receiver type %v (conditional: %v), documented %v", got, cond, want))
}

func (c *Ctx) fanOutSame(r *report.Result, recv, name string, n int) {
	fn := c.methodOf(recv, name)
	if fn == nil {
		r.Fail("unresolved", "L4", recv+"."+name, "", "not found")
		return
	}
	it := c.W.It
	cds := it.TransitiveControlDeps(fn)
	counts := map[*ssa.Function]int{}
	cond := false
	for _, cl := range callsIn(fn.Blocks) {
		counts[cl.Callee]++
		if len(cds[cl.At.Block()]) > 0 {
			cond = true
		}
	}
	ok := len(counts) == 1 && len(ai.Loops(fn)) == 0 && !cond
	for _, v := range counts {
		if v != n {
			ok = false
		}
	}
	r.Ob("L4", ok, recv+"."+name+" fan-out", c.pos(fn.Blocks[0].Instrs[0]), fmt.Sprintf("distinct callees %d, counts %v, conditional %v; documented: one callee called %d times", len(counts), valuesOf(counts), cond, n))
}

func valuesOf(m map[*ssa.Function]int) []int {
	var out []int
	for _, v := range m {
		out = append(out, v)
	}
	return out
}

func (c *Ctx) methodOf(recv, name string) *ssa.Function {
	for _, f := range c.P.Funcs {
		if f.Name() == name && recvTypeKey(f) == recv && f.Synthetic == "" {
			return f
		}
	}
	return nil
}

func (c *Ctx) checkRun(r *report.Result, run, frame *ssa.Function) {
	it := c.W.It
	entry := run.Blocks[0]
	// Cleanup deferred in the entry block
	var deferred *ssa.Function
	for _, ins := range entry.Instrs {
		if d, ok := ins.(*ssa.Defer); ok {
			if f, ok := d.Call.Value.(*ssa.Function); ok {
				deferred = f
			}
		}
	}
	rundefers := 0
	for _, b := range run.Blocks {
		for _, ins := range b.Instrs {
			if _, ok := ins.(*ssa.RunDefers); ok {
				rundefers++
			}
		}
	}
	okDefer := deferred != nil && recvTypeKey(deferred) == "gameboy.Gameboy" && rundefers > 0
	r.Ob("R1", okDefer, "Run defers the release of outputs before the loop", c.pos(entry.Instrs[0]), "a deferred call to the Gameboy's cleanup method must be registered in the entry block")
	loops := ai.Loops(run)
	r.Ob("R1", len(loops) == 1, "Run has one loop", c.pos(entry.Instrs[0]), fmt.Sprintf("%d loops", len(loops)))
	if len(loops) != 1 {
		return
	}
	l := loops[0]
	// frame calls and the poll
	var sel *ssa.Select
	for _, b := range run.Blocks {
		for _, ins := range b.Instrs {
			if s, ok := ins.(*ssa.Select); ok && l.Blocks[b] {
				sel = s
			}
		}
	}
	pollOK := false
	if sel != nil && !sel.Blocking && len(sel.States) == 1 && sel.States[0].Dir == types.RecvOnly {
		if call, ok := sel.States[0].Chan.(*ssa.Call); ok && call.Call.IsInvoke() && call.Call.Method.Name() == "Done" {
			if _, isParam := call.Call.Value.(*ssa.Parameter); isParam {
				pollOK = true
			}
		}
	}
	r.Ob("R1", pollOK, "Run polls ctx.Done() without blocking inside the loop", c.pos(l.Header.Instrs[0]), "a non-blocking select receiving from the context's Done channel must be in the loop")
	nFrame := 0
	for _, cl := range callsIn(run.Blocks) {
		if cl.Callee != frame {
			continue
		}
		nFrame++
		b := cl.At.Block()
		dom := sel != nil && l.Blocks[b] && sel.Block().Dominates(b)
		r.Ob("R1", dom, "frame call preceded by the cancellation poll", c.pos(cl.At), "every call of the frame function must be dominated by the poll of the same iteration")
		// returns when the frame reports true
		call, _ := cl.At.(*ssa.Call)
		retOnTrue := false
		if iff, ok := b.Instrs[len(b.Instrs)-1].(*ssa.If); ok && iff.Cond == ssa.Value(call) {
			if _, ok := b.Succs[0].Instrs[len(b.Succs[0].Instrs)-1].(*ssa.Return); ok || reachesReturnOnly(b.Succs[0]) {
				retOnTrue = true
			}
		}
		r.Ob("R1", retOnTrue, "Run stops when the frame reports a close request", c.pos(cl.At), "the true branch of the frame result must return")
	}
	r.Ob("R1", nFrame >= 1, "Run calls the frame function", c.pos(entry.Instrs[0]), fmt.Sprintf("%d calls", nFrame))
	// cancellation branch returns
	if sel != nil {
		cancelRet := false
		for _, b := range run.Blocks {
			if !l.Blocks[b] {
				continue
			}
			if iff, ok := b.Instrs[len(b.Instrs)-1].(*ssa.If); ok {
				if cmp, ok := iff.Cond.(*ssa.BinOp); ok && cmp.Op == token.EQL && isConstInt(cmp.Y, 0) {
					if ex, ok := cmp.X.(*ssa.Extract); ok && ex.Tuple == ssa.Value(sel) && ex.Index == 0 {
						if reachesReturnOnly(b.Succs[0]) {
							cancelRet = true
						}
					}
				}
			}
		}
		r.Ob("R1", cancelRet, "Run stops when the context is cancelled", c.pos(sel), "the branch taken when the Done channel is ready must return")
	}
	// ---- R2: Cleanup
	if deferred == nil {
		return
	}
	cds := it.TransitiveControlDeps(deferred)
	for _, want := range []string{"speakers.Speakers", "display.Display"} {
		found := false
		for _, cl := range callsIn(deferred.Blocks) {
			if cl.Recv != want {
				continue
			}
			found = true
			deps := cds[cl.At.Block()]
			ok := len(deps) == 1 && deps[0].Branch
			if ok {
				cmp, isCmp := deps[0].If.Cond.(*ssa.BinOp)
				ok = isCmp && cmp.Op == token.NEQ && isNilConst(cmp.Y) && strings.Contains(cmp.X.Type().String(), want)
			}
			r.Ob("R2", ok, "Cleanup releases "+want+" whenever it exists", c.pos(cl.At), fmt.Sprintf("the release call must be control dependent on exactly its own non-nil test; found %d conditions", len(deps)))
		}
		r.Ob("R2", found, "Cleanup releases "+want, c.pos(deferred.Blocks[0].Instrs[0]), "no release call found")
	}
}

func reachesReturnOnly(b *ssa.BasicBlock) bool {
	for i := 0; i < 4; i++ {
		switch b.Instrs[len(b.Instrs)-1].(type) {
		case *ssa.Return:
			return true
		case *ssa.Jump:
			b = b.Succs[0]
		default:
			return false
		}
	}
	return false
}
