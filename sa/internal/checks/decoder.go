package checks

import (
	"fmt"
	"go/constant"
	"go/token"
	"sort"
	"strings"

	"golang.org/x/tools/go/ssa"

	"verif/sa/internal/ai"
)

// DecEval is the summary of evaluating the memory decoder on one address class.
type DecEval struct {
	Lo, Hi     int
	Write      bool
	Result     ai.Value
	Post       *ai.State
	Callees    []*ssa.Function // repository functions entered, in order (depth-first)
	Direct     []*ssa.Function // direct callees of the decoder function
	Stores     map[string]ai.Value
	StoreObjs  map[int]bool // objects stored into
	StoreAt    map[string]ssa.Instruction
	Weak       map[string]bool
	Loads      map[string]bool
	Externs    []string
	ExternArg  map[string][]ai.Value
	ExternPath map[string]ai.Deps // path condition (symbols branched on) under which the host call was reached
	Panics     []ssa.Instruction
	HostPanics []ssa.Instruction
	Exits      []ssa.Instruction
	Undecided  []string
	Index      []indexOb
	Divs       []divOb
	Derefs     []derefOb
	AddrSym    ai.Sym
	ValSym     ai.Sym
	PathConds  int
	Elems      []elemAcc // element address computations (array label, index)
	Sends      []sendOb
}

type elemAcc struct {
	Array string
	Idx   *ai.Int
	Len   int64
	At    ssa.Instruction
	Obj   *ai.Object
	Path  string
}

type sendOb struct {
	At       ssa.Instruction
	Ch       ai.Value
	V        ai.Value
	PathDeps ai.Deps
}

type indexOb struct {
	At     ssa.Instruction
	Idx    *ai.Int
	Len    *ai.Int
	Proven bool
}
type divOb struct {
	At     ssa.Instruction
	Div    *ai.Int
	Proven bool
}
type derefOb struct {
	At     ssa.Instruction
	V      ai.Value
	Proven bool
}

// cellLabel names a cell by component type and path ("ppu.PPU.scy", "memory.Mapper.internalRAM[*]").
func (c *Ctx) cellLabel(k ai.CellKey) string {
	o := c.W.It.ObjectByIDFast(k.Obj)
	if o == nil {
		return k.String()
	}
	name := o.TypeKey
	if strings.HasPrefix(name, "[") || strings.HasPrefix(name, "*") {
		// anonymous array/slice storage: name it by its allocation site
		name = "mem:" + strings.NewReplacer("[", "(", "]", ")").Replace(o.Name)
	}
	// two objects of one type (the square channels) are told apart by their site
	if len(c.W.ObjByType[o.TypeKey]) > 1 {
		name = o.TypeKey + "#" + siteOrdinal(c, o)
	}
	return name + k.Path
}

func siteOrdinal(c *Ctx, o *ai.Object) string {
	objs := c.W.ObjByType[o.TypeKey]
	for i, x := range objs {
		if x == o {
			return fmt.Sprint(i + 1)
		}
	}
	return "?"
}

func (c *Ctx) decoderFn(write bool) *ssa.Function {
	for fn := range c.W.CutFns {
		if (fn.Signature.Results().Len() == 0) == write {
			return fn
		}
	}
	return nil
}

func (c *Ctx) mapperPtr() *ai.Ptr {
	for _, e := range c.W.Entries {
		if e.Kind == "decoder" && len(e.Args) > 0 {
			if p, ok := e.Args[0].(*ai.Ptr); ok {
				return p
			}
		}
	}
	return nil
}

// decoderBoundaries: every integer constant an address may be compared with,
// collected from the decoder and everything it can reach.
func (c *Ctx) decoderBoundaries() []int {
	var roots []*ssa.Function
	for fn := range c.W.CutFns {
		roots = append(roots, fn)
	}
	reach := c.W.ReachFrom(roots)
	set := map[int]bool{0: true, 0x10000: true}
	for fn := range reach {
		if !isRepoFn(fn) {
			continue
		}
		for _, b := range fn.Blocks {
			for _, ins := range b.Instrs {
				bo, ok := ins.(*ssa.BinOp)
				if !ok {
					continue
				}
				switch bo.Op {
				case token.EQL, token.NEQ, token.LSS, token.LEQ, token.GTR, token.GEQ:
				default:
					continue
				}
				for _, op := range []ssa.Value{bo.X, bo.Y} {
					if k, ok := op.(*ssa.Const); ok && k.Value != nil && k.Value.Kind() == constant.Int {
						if v, ok := constant.Int64Val(k.Value); ok && v >= 0 && v <= 0xffff {
							set[int(v)] = true
							set[int(v)+1] = true
						}
					}
				}
			}
		}
	}
	var out []int
	for v := range set {
		out = append(out, v)
	}
	sort.Ints(out)
	return out
}

// elementaryIntervals partitions 0..0xFFFF so that no compared constant lies strictly inside an interval.
func (c *Ctx) elementaryIntervals() [][2]int {
	b := c.decoderBoundaries()
	var out [][2]int
	for i := 0; i+1 < len(b); i++ {
		if b[i] > 0xffff {
			break
		}
		out = append(out, [2]int{b[i], b[i+1] - 1})
	}
	return out
}

// mbcAlternatives returns the cartridge controllers the machine may hold.
func (c *Ctx) mbcAlternatives() (cell string, alts []ai.Value) {
	mp := c.mapperPtr()
	if mp == nil {
		return "", nil
	}
	st := c.W.It.StateOn(c.W.Generic)
	for k, v := range st.RawCells(mp.Obj) {
		switch x := v.(type) {
		case *ai.Multi:
			isIface := false
			for _, a := range x.Alts {
				if _, ok := a.(*ai.Iface); ok {
					isIface = true
				}
			}
			if isIface {
				return k, x.Alts
			}
		case *ai.Iface:
			return k, []ai.Value{x}
		}
	}
	return "", nil
}

func altName(v ai.Value) string {
	switch x := v.(type) {
	case *ai.Iface:
		s := x.T.String()
		if i := strings.LastIndex(s, "."); i >= 0 {
			s = s[i+1:]
		}
		return s
	case *ai.NilV:
		return "nil"
	}
	return ai.ValueString(v)
}

// symbolic address/value for decoder evaluations
func (c *Ctx) addrValue(lo, hi int) (*ai.Int, ai.Sym) {
	s := c.W.ParamSym(c.decoderFn(false), 1)
	a := ai.NewSymInt(16, false, s)
	return ai.NarrowInt(a, int64(lo), int64(hi)), s
}

// evalDecoder evaluates Mapper.Read / Mapper.Write for addresses in [lo,hi].
// setup may adjust the start state (case splits); value is the byte written.
func (c *Ctx) evalDecoder(write bool, lo, hi int, setup func(st *ai.State), value ai.Value) *DecEval {
	return c.evalDecoderFrom(nil, write, lo, hi, setup, value)
}

// evalDecoderFrom is evalDecoder starting from a given state (e.g. the post-state of a write).
func (c *Ctx) evalDecoderFrom(from *ai.State, write bool, lo, hi int, setup func(st *ai.State), value ai.Value) *DecEval {
	it := c.W.It
	fn := c.decoderFn(write)
	mp := c.mapperPtr()
	ev := &DecEval{Lo: lo, Hi: hi, Write: write, Stores: map[string]ai.Value{}, StoreAt: map[string]ssa.Instruction{}, Weak: map[string]bool{}, Loads: map[string]bool{}, ExternArg: map[string][]ai.Value{}, StoreObjs: map[int]bool{}}
	if fn == nil || mp == nil {
		ev.Undecided = append(ev.Undecided, "decoder or mapper object not found")
		return ev
	}
	st := from
	if st == nil {
		st = it.StateOn(c.W.Generic)
	} else {
		st = st.Fork()
	}
	if setup != nil {
		setup(st)
	}
	addr, asym := c.addrValue(lo, hi)
	ev.AddrSym = asym
	args := []ai.Value{mp, addr}
	if write {
		if value == nil {
			vs := c.W.ParamSym(fn, 2)
			value = ai.NewSymInt(8, false, vs)
			ev.ValSym = vs
		}
		args = append(args, value)
	}
	it.Hooks = c.observeHooks(ev)
	res, post := it.CallFunction(st, fn, args, nil)
	it.Hooks = ai.Hooks{}
	ev.Result, ev.Post = res, post
	return ev
}

// observeHooks returns hooks that record everything an evaluation does into ev.
func (c *Ctx) observeHooks(ev *DecEval) ai.Hooks {
	it := c.W.It
	depth0 := len(it.Stack)
	return ai.Hooks{
		Call: func(_ *ai.State, at ssa.Instruction, callee *ssa.Function, _ []ai.Value) {
			ev.Callees = append(ev.Callees, callee)
			if len(it.Stack) == depth0+1 {
				ev.Direct = append(ev.Direct, callee)
			}
		},
		Store: func(_ *ai.State, at ssa.Instruction, p *ai.Ptr, keys []ai.CellKey, v ai.Value, strong bool) {
			if p == nil {
				ev.Undecided = append(ev.Undecided, "store through an unresolved pointer at "+c.pos(at))
				return
			}
			if p.Obj.ID > c.W.NObjInit {
				return
			}
			ev.StoreObjs[p.Obj.ID] = true
			for _, k := range keys {
				n := c.cellLabel(ai.CellKey{Obj: k.Obj, Path: ai.NormPath(k.Path)})
				if old, ok := ev.Stores[n]; ok {
					ev.Stores[n] = it.Join(old, v, nil, nil)
				} else {
					ev.Stores[n] = v
				}
				ev.StoreAt[n] = at
				if !strong {
					ev.Weak[n] = true
				}
			}
		},
		Load: func(_ *ai.State, at ssa.Instruction, p *ai.Ptr, _ ai.Value) {
			if p.Obj.ID <= c.W.NObjInit {
				ev.Loads[c.cellLabel(ai.CellKey{Obj: p.Obj.ID, Path: ai.NormPath(p.Path)})] = true
			}
		},
		Extern: func(st *ai.State, at ssa.Instruction, name string, a []ai.Value) {
			ev.Externs = append(ev.Externs, name)
			ev.ExternArg[name] = a
			if ev.ExternPath == nil {
				ev.ExternPath = map[string]ai.Deps{}
			}
			if st != nil {
				ev.ExternPath[name] = ai.Union(ev.ExternPath[name], st.PathDeps)
			}
		},
		Panic: func(st *ai.State, at ssa.Instruction) {
			if it.DependsOnHost(st.PathDeps) {
				ev.HostPanics = append(ev.HostPanics, at) // reachable only after a host call failed
				return
			}
			ev.Panics = append(ev.Panics, at)
		},
		Exit: func(_ *ai.State, at ssa.Instruction, _ string) { ev.Exits = append(ev.Exits, at) },
		Undecided: func(_ *ai.State, at ssa.Instruction, what string) {
			ev.Undecided = append(ev.Undecided, what+" @ "+c.pos(at))
		},
		Index: func(_ *ai.State, at ssa.Instruction, idx, ln *ai.Int, proven bool) {
			ev.Index = append(ev.Index, indexOb{at, idx, ln, proven})
		},
		Div: func(_ *ai.State, at ssa.Instruction, d *ai.Int, proven bool) {
			ev.Divs = append(ev.Divs, divOb{at, d, proven})
		},
		Deref: func(_ *ai.State, at ssa.Instruction, v ai.Value, proven bool) {
			if !proven {
				ev.Derefs = append(ev.Derefs, derefOb{at, v, proven})
			}
		},
		Branch: func(*ai.State, *ssa.If, *ai.Bool) { ev.PathConds++ },
		Send: func(st *ai.State, at ssa.Instruction, ch, v ai.Value) {
			ev.Sends = append(ev.Sends, sendOb{At: at, Ch: ch, V: v, PathDeps: st.PathDeps})
		},
		Elem: func(_ *ai.State, at ssa.Instruction, o *ai.Object, path string, idx *ai.Int, n int64) {
			if o.ID <= c.W.NObjInit {
				ev.Elems = append(ev.Elems, elemAcc{Array: c.cellLabel(ai.CellKey{Obj: o.ID, Path: ai.NormPath(path)}), Idx: idx, Len: n, At: at, Obj: o, Path: path})
			}
		},
	}
}

// handlerSig identifies the code an address class reaches.
func (ev *DecEval) handlerSig() string {
	var parts []string
	for _, f := range ev.Direct {
		parts = append(parts, fnName(f))
	}
	s := strings.Join(parts, ">")
	if len(ev.Panics) > 0 {
		s += "!panic"
	}
	if !ev.Write {
		if iv, ok := ev.Result.(*ai.Int); ok {
			if cv, isc := iv.Const(); isc && len(ev.Direct) == 0 {
				s += fmt.Sprintf("=const %#x", cv)
			}
		}
	}
	if s == "" {
		if ev.Write && len(ev.Stores) == 0 {
			return "ignored"
		}
		keys := make([]string, 0, len(ev.Stores))
		for k := range ev.Stores {
			keys = append(keys, k)
		}
		sort.Strings(keys)
		return "inline:" + strings.Join(keys, ",") + loadsSig(ev)
	}
	return s
}

func loadsSig(ev *DecEval) string {
	if ev.Write {
		return ""
	}
	var ks []string
	for k := range ev.Loads {
		ks = append(ks, k)
	}
	sort.Strings(ks)
	return strings.Join(ks, ",")
}

// DecClass is a maximal run of addresses reaching the same handler.
type DecClass struct {
	Lo, Hi int
	Sig    string
	Evals  []*DecEval
}

// decoderClasses evaluates every elementary interval and merges neighbours with equal handler signature.
func (c *Ctx) decoderClasses(write bool, setup func(*ai.State)) []*DecClass {
	var out []*DecClass
	for _, iv := range c.elementaryIntervals() {
		ev := c.evalDecoder(write, iv[0], iv[1], setup, nil)
		sig := ev.handlerSig()
		if n := len(out); n > 0 && out[n-1].Sig == sig && out[n-1].Hi+1 == iv[0] {
			out[n-1].Hi = iv[1]
			out[n-1].Evals = append(out[n-1].Evals, ev)
			continue
		}
		out = append(out, &DecClass{Lo: iv[0], Hi: iv[1], Sig: sig, Evals: []*DecEval{ev}})
	}
	return out
}

func findClass(cs []*DecClass, addr int) *DecClass {
	for _, k := range cs {
		if addr >= k.Lo && addr <= k.Hi {
			return k
		}
	}
	return nil
}

// addrOffset recognises an index that equals (address + off) for every address of the interval
// [lo,hi], whichever way the source spells it: as an affine form of the address symbol
// (addr - 0xc000) or as a bit mask (addr & 0x1fff) when the masked-off address bits are the same
// over the whole interval.
func addrOffset(idx *ai.Int, addrSym ai.Sym, lo, hi int) (off int64, ok bool) {
	if idx == nil {
		return 0, false
	}
	if idx.HasBase && idx.Base == addrSym {
		return idx.Off, true
	}
	if lo == hi {
		if cv, isc := idx.Const(); isc {
			return cv - int64(lo), true // a one-address interval: the address is a constant
		}
	}
	k := 0
	for k < len(idx.Bits) && isSrcBit(idx.Bits[k], addrSym, k) {
		k++
	}
	if k == 0 {
		return 0, false
	}
	for i := k; i < len(idx.Bits); i++ {
		if idx.Bits[i].K != ai.BZero {
			return 0, false
		}
	}
	if lo>>uint(k) != hi>>uint(k) {
		return 0, false
	}
	return -int64((lo >> uint(k)) << uint(k)), true
}

// readReturnsLoadedByte evaluates a decoder read of [lo,hi] with every array-element load replaced by
// one marker byte and reports whether the value returned is exactly that marker, bit for bit, on every
// path: a handler that sometimes answers with a constant instead (a lock-out, a busy state) or that
// post-processes the byte fails.  n is the number of element loads seen.
func (c *Ctx) readReturnsLoadedByte(lo, hi int, setup func(*ai.State)) (ok bool, n int, got string) {
	return c.readReturnsLoadedByteFrom(nil, lo, hi, setup)
}

// readReturnsLoadedByteFrom is readReturnsLoadedByte starting from a given state (nil: the generic state).
func (c *Ctx) readReturnsLoadedByteFrom(from *ai.State, lo, hi int, setup func(*ai.State)) (ok bool, n int, got string) {
	it := c.W.It
	fn := c.decoderFn(false)
	mp := c.mapperPtr()
	if fn == nil || mp == nil {
		return false, 0, "decoder not found"
	}
	st := from
	if st == nil {
		st = it.StateOn(c.W.Generic)
	} else {
		st = st.Fork()
	}
	if setup != nil {
		setup(st)
	}
	addr, _ := c.addrValue(lo, hi)
	marker := it.NewSym("loaded-byte", ai.CellKey{})
	it.Hooks = ai.Hooks{
		LoadOverride: func(_ *ai.State, _ ssa.Instruction, p *ai.Ptr, v ai.Value) (ai.Value, bool) {
			if p == nil || !strings.Contains(p.Path, "[") {
				return nil, false
			}
			if iv, isInt := v.(*ai.Int); !isInt || iv.W != 8 {
				return nil, false
			}
			n++
			return ai.NewSymInt(8, false, marker), true
		},
	}
	res, post := it.CallFunction(st, fn, []ai.Value{mp, addr}, nil)
	it.Hooks = ai.Hooks{}
	iv, isInt := res.(*ai.Int)
	if post == nil || !isInt {
		return false, n, ai.ValueString(res)
	}
	ok = true
	for i := 0; i < 8; i++ {
		if !isSrcBit(iv.Bits[i], marker, i) {
			ok = false
		}
	}
	return ok, n, ai.ValueString(res)
}
