package checks

import (
	"fmt"
	"go/token"
	"go/types"
	"sort"
	"strings"

	"golang.org/x/tools/go/ssa"

	"verif/sa/internal/ai"
	"verif/sa/internal/report"
	"verif/sa/internal/world"
)

func init() {
	register("C24", checkC24)
}

// host functions the emulation may call: output, formatting, pure helpers. The
// list is an allow-list on purpose: a new dependency is reported until reviewed.
var hostAllowed = map[string]string{
	"fmt":           "formatting / debug output only",
	"strconv":       "pure conversions",
	"strings":       "pure",
	"errors":        "pure",
	"sort":          "pure",
	"math":          "pure",
	"math/bits":     "pure",
	"image":         "frame buffer object",
	"image/color":   "pure values",
	"image/png":     "screenshot output",
	"io":            "output to the configured writer",
	"bufio":         "output",
	"encoding/json": "decodes the constant instruction metadata at package initialisation",
	"context":       "cancellation poll (affects only when Run stops)",
	"unicode/utf8":  "pure",
	"bytes":         "pure",
}

// individually allowed functions of otherwise forbidden packages
var hostAllowedFuncs = map[string]string{
	"os.Exit":              "deliberate stop on an undefined opcode / usage error",
	"os.Create":            "screenshot output file",
	"(*os.File).Close":     "screenshot output file",
	"io/ioutil.ReadFile":   "reads the ROM image once during construction (an input)",
	"os.ReadFile":          "reads the ROM image once during construction (an input)",
	"runtime.GOMAXPROCS":   "display package initialisation (host side)",
	"runtime.LockOSThread": "display package initialisation (host side)",
}

type nondet struct {
	Fn   *ssa.Function
	At   ssa.Instruction
	What string
}

// nondetConstructs lists the constructs of fn that can make two runs differ.
func nondetConstructs(fn *ssa.Function, hostSide func(*types.Package) bool) []nondet {
	var out []nondet
	for _, b := range fn.Blocks {
		for _, ins := range b.Instrs {
			switch x := ins.(type) {
			case *ssa.Range:
				if _, ok := x.X.Type().Underlying().(*types.Map); ok {
					out = append(out, nondet{fn, ins, "iteration over a map (order is randomised)"})
				}
			case *ssa.Select:
				if len(x.States) > 1 || !x.Blocking {
					out = append(out, nondet{fn, ins, "select whose outcome depends on scheduling"})
				}
			case *ssa.Go:
				out = append(out, nondet{fn, ins, "goroutine started inside the emulation"})
			case *ssa.UnOp:
				if x.Op.String() == "<-" {
					out = append(out, nondet{fn, ins, "channel receive (value depends on another goroutine)"})
				}
			case ssa.CallInstruction:
				cc := x.Common()
				var callee *ssa.Function
				if !cc.IsInvoke() {
					callee, _ = cc.Value.(*ssa.Function)
				}
				if callee == nil {
					continue
				}
				pkg := pkgOfFn(callee)
				if pkg == nil || world.IsRepo(pkg) || (hostSide != nil && hostSide(pkg)) {
					continue
				}
				name := callee.String()
				if _, ok := hostAllowedFuncs[name]; ok {
					continue
				}
				if _, ok := hostAllowed[pkg.Path()]; ok {
					continue
				}
				out = append(out, nondet{fn, ins, "call of " + name + " (package " + pkg.Path() + " is not on the reviewed list of deterministic host functions)"})
			}
		}
	}
	return out
}

func pkgOfFn(fn *ssa.Function) *types.Package {
	for fn != nil && fn.Parent() != nil {
		fn = fn.Parent()
	}
	if fn == nil {
		return nil
	}
	if fn.Pkg != nil {
		return fn.Pkg.Pkg
	}
	if o := fn.Object(); o != nil {
		return o.Pkg()
	}
	return nil
}

func checkC24(c *Ctx) *report.Result {
	r := report.New("C24", "other", "hermeticity analysis: reachability from New and every emulation-step entry over the resolved program + scan for nondeterminism sources; cross-run state by ownership analysis")
	r.Explanation = "Two runs with the same ROM, configuration and input schedule can only differ if the code that computes frames, samples, serial bytes, cartridge RAM or registers (a) consults a source of nondeterminism or (b) reads state that survived from an earlier run in the same process. (a): every repository function reachable from gameboy.New and from every emulation-step entry (frame-loop steps, all dispatch-table closures, the memory decoder) is scanned for calls into host packages that are not on a reviewed allow-list of deterministic functions, for iteration over maps, scheduler-dependent selects, goroutine starts and channel receives. (b): no store executed by New or by a step targets memory created by package initialisation (same engine as C25). The same scan runs over a small positive example that contains each forbidden construct and must flag all of them."
	r.Rule("N1", "no call from reachable repository code into a host package outside the reviewed deterministic allow-list (time, math/rand, crypto/rand, os environment, runtime introspection, reflect, unsafe ... are all outside it)")
	r.Rule("N2", "no map iteration, scheduler-dependent select, goroutine start or channel receive in reachable repository code (host-driven callbacks and Run's cancellation poll excepted, each by name with a reason)")
	r.Rule("N3", "no state surviving a run: no store by New or by a step into package-level memory")
	r.Rule("N0", "self-test: the positive example is flagged for each forbidden construct")
	r.NotDecided = []string{"determinism of the host libraries themselves (GL, PortAudio)", "floating-point differences between CPU architectures (the property compares runs on one machine)"}
	r.TrustedBase = []string{"the reviewed allow-list of host packages in checks/c24.go", "reference-graph reachability (over-approximate: every function value mentioned is considered called)", "go/ssa"}

	// reachable step code: entries except host-driven callbacks
	var roots []*ssa.Function
	for _, e := range c.W.Entries {
		if e.Kind == "host-callback" {
			continue
		}
		roots = append(roots, e.Fn)
		for _, b := range e.Bind {
			if f, ok := b.(*ai.Func); ok {
				roots = append(roots, f.Fn)
			}
		}
	}
	roots = append(roots, c.W.NewFn)
	reach := c.W.ReachFrom(roots)
	hostSide := func(p *types.Package) bool {
		// the stub-replaced GUI/audio libraries are reachable only through the display/speakers packages
		return strings.HasPrefix(p.Path(), "github.com/go-gl/") || p.Path() == "github.com/gordonklaus/portaudio"
	}
	// exceptions by symbol, each with a reason
	exceptions := map[string]string{
		"(*github.com/scottyw/tetromino/gameboy/speakers.Speakers).Callback": "host audio thread: consumes the samples, never feeds state back into the emulation",
		"(*github.com/scottyw/tetromino/gameboy.Gameboy).Run":                "cancellation poll: affects only when the loop stops, not what a frame computes",
	}
	var fns []*ssa.Function
	for fn := range reach {
		if isRepoFn(fn) && fn.Blocks != nil {
			fns = append(fns, fn)
		}
	}
	sort.Slice(fns, func(i, j int) bool { return fns[i].String() < fns[j].String() })
	nInstr := 0
	for _, fn := range fns {
		for _, b := range fn.Blocks {
			nInstr += len(b.Instrs)
		}
		if _, ok := exceptions[outerFn(fn).String()]; ok {
			continue
		}
		r.Instances["N1"]++
		r.Instances["N2"]++
		for _, nd := range nondetConstructs(fn, hostSide) {
			rule := "N2"
			if strings.HasPrefix(nd.What, "call of") {
				rule = "N1"
			}
			r.Findings = append(r.Findings, report.Finding{Property: "C24", Rule: rule, Kind: "violation",
				Construct: fnName(outerFn(fn)) + ": " + nd.What, Where: c.pos(nd.At),
				Detail: "reachable from construction or from an emulation step; " + nd.What})
		}
	}
	r.Obligations += 2 * len(fns)
	r.Discharged += 2*len(fns) - len(r.Findings)
	r.Extra["reachable_repo_functions"] = len(fns)
	r.Extra["reachable_instructions"] = nInstr
	r.Sample(map[string]interface{}{"reachable_functions": len(fns), "first": fnName(fns[0]), "last": fnName(fns[len(fns)-1])})
	// package initialisation runs once per process, but its result (the tables every instance reads) must not depend
	// on map iteration order either: a map loop there may only do per-key work - no value carried from one
	// iteration to the next, no variable declared outside the loop that the body both writes and reads
	r.Rule("N4", "map iterations during package initialisation are order-independent: no loop-carried value and no outer variable both written and read in the body (each iteration works on its own key's slot)")
	for _, fn := range c.P.Funcs {
		if !reach[fn] && isRepoFn(fn) && c.W.ReachNew[fn] {
			for _, nd := range nondetConstructs(fn, hostSide) {
				rng, isRange := nd.At.(*ssa.Range)
				if !isRange {
					r.Sample(map[string]interface{}{"package_init_only": fnName(fn), "construct": nd.What})
					continue
				}
				carried := mapLoopCarries(rng)
				r.Ob("N4", len(carried) == 0, fnName(fn)+": map iteration during package initialisation is order-independent", c.pos(rng), fmt.Sprintf("state carried between iterations: %v; the tables built here would differ from process to process", carried))
			}
		}
	}
	// N3
	writes, unresolvedStores, stores := findSharedWrites(c)
	r.Instances["N3"] += stores
	seenU := map[string]bool{}
	for _, u := range unresolvedStores {
		if key := fnName(u.Fn); !seenU[key] {
			seenU[key] = true
			r.Fail("undecided", "N3", "store through an unresolved pointer in "+key, c.pos(u.At), "the target of this store cannot be resolved to an allocation site, so it may be memory that survives a run (for example a value taken out of a package-level map)")
		}
	}
	r.Obligations++
	seen := map[string]bool{}
	for _, w := range writes {
		name := globalName(w.Obj)
		if name == "" {
			name = "init-time memory " + w.Obj.Name
		}
		key := name + " <- " + fnName(w.Fn)
		if seen[key] {
			continue
		}
		seen[key] = true
		r.Findings = append(r.Findings, report.Finding{Property: "C24", Rule: "N3", Kind: "violation",
			Construct: fmt.Sprintf("state surviving a run: %s written by %s", name, fnName(w.Fn)), Where: c.pos(w.At),
			Detail: "package-level memory written during " + w.Phase + " is still there when the next run in the same process starts"})
	}
	if len(writes) == 0 {
		r.Discharged++
	}
	// N0: self-test on the positive example
	if sp := c.P.Pkg("verif/sa/selftest/positive"); sp != nil {
		kinds := map[string]bool{}
		for _, m := range sp.Members {
			if fn, ok := m.(*ssa.Function); ok {
				for _, nd := range nondetConstructs(fn, nil) {
					kinds[strings.SplitN(nd.What, " (", 2)[0]] = true
				}
				for _, af := range fn.AnonFuncs {
					nondetConstructs(af, nil)
				}
			}
		}
		if tn := sp.Type("Machine"); tn != nil {
			for _, name := range []string{"Step"} {
				if fn := c.P.SSA.LookupMethod(types.NewPointer(tn.Type()), sp.Pkg, name); fn != nil {
					for _, nd := range nondetConstructs(fn, nil) {
						kinds[strings.SplitN(nd.What, " (", 2)[0]] = true
					}
				}
			}
		}
		want := []string{"iteration over a map", "select whose outcome depends on scheduling", "goroutine started inside the emulation", "call of time.Now", "call of math/rand.Intn"}
		for _, w := range want {
			r.Ob("N0", kinds[w], "self-test: "+w, "sa/selftest/positive/positive.go", fmt.Sprintf("the positive example must be flagged for %q; flagged kinds: %v", w, sortedKeys(kinds)))
		}
	} else {
		r.Fail("unresolved", "N0", "self-test package", "", "the positive example package was not loaded")
	}
	return r
}

// mapLoopCarries lists what a range-over-map loop carries from one iteration to the next: SSA values merged at the
// loop header, and variables allocated outside the loop (or package-level) that the loop body both writes
// (directly, through a field/element address, or by passing their address to a call) and reads.
func mapLoopCarries(rng *ssa.Range) []string {
	fn := rng.Parent()
	// the header is the block of the Next instruction that consumes this iterator
	var header *ssa.BasicBlock
	for _, ref := range *rng.Referrers() {
		if nx, ok := ref.(*ssa.Next); ok {
			header = nx.Block()
		}
	}
	if header == nil {
		return []string{"loop header not found"}
	}
	// natural loop: blocks dominated by the header from which the header is reachable
	inLoop := map[*ssa.BasicBlock]bool{}
	var reachesHeader func(b *ssa.BasicBlock, seen map[*ssa.BasicBlock]bool) bool
	reachesHeader = func(b *ssa.BasicBlock, seen map[*ssa.BasicBlock]bool) bool {
		if seen[b] {
			return false
		}
		seen[b] = true
		for _, s := range b.Succs {
			if s == header || (header.Dominates(s) && reachesHeader(s, seen)) {
				return true
			}
		}
		return false
	}
	for _, b := range fn.Blocks {
		if b == header || (header.Dominates(b) && reachesHeader(b, map[*ssa.BasicBlock]bool{})) {
			inLoop[b] = true
		}
	}
	var out []string
	for _, ins := range header.Instrs {
		phi, ok := ins.(*ssa.Phi)
		if !ok {
			continue
		}
		// a plain counter (n += const, used for nothing else inside the loop) ends with the same value in any order
		counter := true
		for _, ref := range *phi.Referrers() {
			ri, isInstr := ref.(ssa.Instruction)
			if !isInstr || !inLoop[ri.Block()] {
				continue
			}
			bo, isBin := ref.(*ssa.BinOp)
			_, constY := func() (ssa.Value, bool) {
				if !isBin {
					return nil, false
				}
				_, c := bo.Y.(*ssa.Const)
				return bo.Y, c
			}()
			if !isBin || !(bo.Op == token.ADD || bo.Op == token.SUB) || !constY || bo.X != ssa.Value(phi) {
				counter = false
				break
			}
			for _, r2 := range *bo.Referrers() {
				if r2 != ssa.Instruction(phi) {
					if i2, ok := r2.(ssa.Instruction); ok && inLoop[i2.Block()] {
						counter = false
					}
				}
			}
		}
		if !counter {
			out = append(out, "value "+phi.Comment+" merged at the loop header")
		}
	}
	root := func(v ssa.Value) ssa.Value {
		for {
			switch x := v.(type) {
			case *ssa.FieldAddr:
				v = x.X
			case *ssa.IndexAddr:
				v = x.X
			default:
				return v
			}
		}
	}
	outside := func(v ssa.Value) (string, bool) {
		switch x := v.(type) {
		case *ssa.Alloc:
			if !inLoop[x.Block()] {
				return "variable " + x.Comment, true
			}
		case *ssa.Global:
			return "package-level " + x.Name(), true
		}
		return "", false
	}
	written, read := map[string]bool{}, map[string]bool{}
	for b := range inLoop {
		for _, ins := range b.Instrs {
			switch x := ins.(type) {
			case *ssa.Store:
				if name, ok := outside(root(x.Addr)); ok {
					written[name] = true
				}
			case *ssa.UnOp:
				if x.Op == token.MUL {
					if name, ok := outside(root(x.X)); ok {
						read[name] = true
					}
				}
			case ssa.CallInstruction:
				for _, a := range x.Common().Args {
					if name, ok := outside(root(a)); ok {
						if _, isAlloc := root(a).(*ssa.Alloc); isAlloc {
							written[name], read[name] = true, true // its address escapes into the callee
						}
					}
				}
			}
		}
	}
	for name := range written {
		if read[name] {
			out = append(out, name+" written and read in the loop body")
		}
	}
	sort.Strings(out)
	return out
}
