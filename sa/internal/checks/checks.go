// Package checks holds one rule set per property (C01..C26).
package checks

import (
	"fmt"
	"go/types"
	"sort"
	"strings"

	"golang.org/x/tools/go/ssa"

	"verif/sa/internal/ai"
	"verif/sa/internal/load"
	"verif/sa/internal/report"
	"verif/sa/internal/world"
)

// Ctx is what every check receives.
type Ctx struct {
	P    *load.Program
	W    *world.World
	Tier string
	memo map[string]*report.Result
}

// sibling evaluates another property's rule set on the same program (once per run) so that a
// check can re-state the obligations of a clause it shares with that property (see adopt).
func (c *Ctx) sibling(id string) *report.Result {
	if c.memo == nil {
		c.memo = map[string]*report.Result{}
	}
	if r, ok := c.memo[id]; ok {
		return r
	}
	ph := report.New(id, "other", "") // a cycle between siblings (A re-states a rule of B, B one of A) resolves to a placeholder
	ph.Extra["sibling-cycle"] = true
	c.memo[id] = ph
	r := Registry[id](c)
	c.memo[id] = r
	return r
}

type CheckFn func(c *Ctx) *report.Result

var Registry = map[string]CheckFn{}

func register(id string, fn CheckFn) { Registry[id] = fn }

// IDs returns the registered property ids in order.
func IDs() []string {
	var out []string
	for k := range Registry {
		out = append(out, k)
	}
	sort.Strings(out)
	return out
}

// ---------------------------------------------------------------------------
// shared helpers

func (c *Ctx) pos(at ssa.Instruction) string { return c.W.Pos(at) }

func short(s string) string {
	s = strings.ReplaceAll(s, load.ModulePath+"/gameboy/", "")
	s = strings.ReplaceAll(s, load.ModulePath+"/", "")
	return s
}

func fnName(fn *ssa.Function) string {
	if fn == nil {
		return "?"
	}
	return short(fn.String())
}

// funcOf returns the source-level function an instruction belongs to (the
// enclosing named function for closures and bound wrappers).
func outerFn(fn *ssa.Function) *ssa.Function {
	for fn != nil && fn.Parent() != nil {
		fn = fn.Parent()
	}
	return fn
}

// evalAllEntries evaluates every entry from the generic state with the given
// hooks (the decoder is evaluated inline, not cut) and calls per for each.
func (c *Ctx) evalAllEntries(h ai.Hooks, per func(e *world.Entry, post *ai.State)) {
	it := c.W.It
	keepLocal := func(o *ai.Object) bool { return o.ID > c.W.NObjInit }
	if h.UnknownCall == nil {
		h.UnknownCall = func(st *ai.State, at ssa.Instruction) *ai.State { return st.Rebase(c.W.Generic, keepLocal) }
	}
	it.Hooks = h
	defer func() { it.Hooks = ai.Hooks{} }()
	// The decoder is evaluated for real in its own two entries; every other entry
	// sees it as one opaque step (same coverage, a fraction of the work) unless a
	// caller already installed its own intercepts.
	_, preset := func() (ai.Intercept, bool) {
		for fn := range c.W.CutFns {
			ic, ok := it.Intercepts[fn]
			return ic, ok
		}
		return nil, false
	}()
	for i := range c.W.Entries {
		e := &c.W.Entries[i]
		var restore func()
		if !preset && !c.W.CutFns[e.Fn] {
			restore = c.cutDecoder(nil)
		}
		post := c.W.RunEntry(e, nil)
		if restore != nil {
			restore()
		}
		if per != nil {
			per(e, post)
		}
	}
}

// cutDecoder installs intercepts that treat the memory decoder as an opaque step.
func (c *Ctx) cutDecoder(onCall func(fn *ssa.Function, st *ai.State, at ssa.Instruction, args []ai.Value)) func() {
	it := c.W.It
	keepLocal := func(o *ai.Object) bool { return o.ID > c.W.NObjInit }
	for fn := range c.W.CutFns {
		fnc := fn
		it.Intercepts[fnc] = func(st *ai.State, at ssa.Instruction, args []ai.Value) (ai.Value, *ai.State) {
			if onCall != nil {
				onCall(fnc, st, at, args)
			}
			var res ai.Value
			if fnc.Signature.Results().Len() == 1 {
				res = ai.TopOf(it, fnc.Signature.Results().At(0).Type(), nil)
			}
			return res, st.Rebase(c.W.Generic, keepLocal)
		}
	}
	return func() {
		for fn := range c.W.CutFns {
			delete(it.Intercepts, fn)
		}
	}
}

func objName(o *ai.Object) string {
	if o == nil {
		return "?"
	}
	return o.Name
}

// globalName returns the package-level variable an object is, or "".
func globalName(o *ai.Object) string {
	if g, ok := o.Site.(*ssa.Global); ok {
		return g.Pkg.Pkg.Name() + "." + g.Name()
	}
	return ""
}

func isRepoFn(fn *ssa.Function) bool {
	for fn != nil && fn.Parent() != nil {
		fn = fn.Parent()
	}
	if fn == nil {
		return false
	}
	if fn.Pkg != nil {
		return world.IsRepo(fn.Pkg.Pkg)
	}
	if o := fn.Object(); o != nil {
		return world.IsRepo(o.Pkg())
	}
	if len(fn.FreeVars) > 0 {
		t := fn.FreeVars[0].Type()
		if p, ok := t.(*types.Pointer); ok {
			t = p.Elem()
		}
		if n, ok := t.(*types.Named); ok {
			return world.IsRepo(n.Obj().Pkg())
		}
	}
	return false
}

func sortedKeys(m map[string]bool) []string {
	var out []string
	for k := range m {
		out = append(out, k)
	}
	sort.Strings(out)
	return out
}

var _ = fmt.Sprintf
