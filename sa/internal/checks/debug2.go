package checks

import "fmt"

// DumpDecoder renders the decoder classes (debugging aid).
func DumpDecoder(c *Ctx) []string {
	var out []string
	cell, alts := c.mbcAlternatives()
	out = append(out, fmt.Sprintf("mbc cell %s alternatives %d boundaries %d", cell, len(alts), len(c.decoderBoundaries())))
	for _, a := range alts {
		out = append(out, "  alt "+altName(a))
	}
	for _, w := range []bool{false, true} {
		for _, k := range c.decoderClasses(w, nil) {
			ev := k.Evals[0]
			out = append(out, fmt.Sprintf("write=%v %04X-%04X %s stores=%d loads=%d ext=%v und=%v", w, k.Lo, k.Hi, k.Sig, len(ev.Stores), len(ev.Loads), ev.Externs, ev.Undecided))
		}
	}
	return out
}
