package checks

import (
	"fmt"
	"go/types"
	"math"
	"regexp"
	"sort"
	"strings"

	"golang.org/x/tools/go/ssa"

	"verif/sa/internal/ai"
	"verif/sa/internal/report"
	"verif/sa/internal/world"
)

func init() {
	register("C20", checkC20)
}

// soundChannels identifies the four channel objects by role: channel k is the
// object whose "playing" flag NR52 reports in bit k-1.
func (c *Ctx) soundChannels() (objs [4]*ai.Object, enabledPath [4]string, err string) {
	it := c.W.It
	rd := c.evalDecoder(false, 0xFF26, 0xFF26, nil, nil)
	res, _ := rd.Result.(*ai.Int)
	if res == nil {
		return objs, enabledPath, "NR52 read is not an integer"
	}
	for k := 0; k < 4; k++ {
		b := res.Bits[k]
		if b.K != ai.BSrc {
			return objs, enabledPath, fmt.Sprintf("bit %d of the NR52 read is not a single state bit (%s)", k, b.String())
		}
		cell := it.Syms[b.S].Cell
		objs[k] = it.ObjectByIDFast(cell.Obj)
		enabledPath[k] = cell.Path
		if objs[k] == nil {
			return objs, enabledPath, fmt.Sprintf("bit %d of the NR52 read does not come from a machine cell", k)
		}
	}
	return objs, enabledPath, ""
}

// powerCell is the boolean cell NR52 bit 7 reads.
func (c *Ctx) powerCell() (*ai.Object, string) {
	it := c.W.It
	rd := c.evalDecoder(false, 0xFF26, 0xFF26, nil, nil)
	res, _ := rd.Result.(*ai.Int)
	if res == nil || res.Bits[7].K != ai.BSrc {
		return nil, ""
	}
	k := it.Syms[res.Bits[7].S].Cell
	return it.ObjectByIDFast(k.Obj), k.Path
}

func checkC20(c *Ctx) *report.Result {
	r := report.New("C20", "other", "abstract interpretation of the mixer (send observation, float intervals, dependence sets under routing case splits), control-dependence rules on the sampler call chain, channel-isolation (non-interference) over every run-phase entry, constructor evaluation for the output wiring")
	r.Explanation = "The sample stream is produced by one mixer routine that sends on the two output channels. The check decides, over all machine states at once: (gate) with sound off, or with either output missing, the mixer sends nothing; otherwise it sends exactly once on the left and once on the right output; (pace) the mixer is reached only from the per-clock routine, through unconditional calls, and there the call is control dependent on exactly '(tick counter mod 95) == 0', the counter advancing by exactly one per clock (the audio step runs four clocks per machine cycle: C26); (route) for each channel k and side s there is exactly one routing flag, it is the NR51 bit documented for (k,s), with the flag clear the value sent on s does not depend on any state of channel k, with it set it does, and with all four flags of a side clear the value is the constant 0; (iso) no run-phase entry stores into one channel's state a value that depends (by data or control) on another channel's state, so a sample cannot depend on an unrouted channel indirectly either; (range) with every field inside its inferred inductive range the float interval of both sent values lies inside [0,1) and is finite; (wire) the constructor passes (left, right) = the speakers' two queues when audio output is enabled and (nil, nil) otherwise, and the host callback fills even slots from the left queue and odd slots from the right."
	r.Rule("P-gate", "mixer: no send when sound is off or an output is missing; else exactly one send on each output")
	r.Rule("P-pace", "the mixer is called only via the per-clock routine; the call is control dependent exactly on (ticks % 95) == 0; ticks advances by 1 per clock; intermediate calls are unconditional")
	r.Rule("P-route", "8 routing flags <-> (channel, side) <-> NR51 bits 0-3 right / 4-7 left; flag clear => sent value independent of that channel; flag set => dependent; all clear => constant 0")
	r.Rule("P-iso", "no store into channel k's state depends on channel j's state (j != k), over every run-phase entry")
	r.Rule("P-range", "both sent values are finite and inside [0,1) by interval arithmetic over the inferred field ranges")
	r.Rule("P-wire", "New wires audio.New(speakers.Left, speakers.Right) when audio output is enabled, (nil,nil) when disabled; the callback reads left into even and right into odd slots")
	r.NotDecided = []string{"the number of samples per emulated second as a count over time (the tick counter wraps at 4194304, which 95 does not divide: once per emulated second the gap between two samples is 149 clocks; reported here, not alarmed, because the statement's own figure of 44,149 samples per second is not the exact quotient either)", "float32 rounding (intervals are computed in float64 and widened by one ulp at conversions)"}
	r.TrustedBase = []string{"go/ssa, abstract interpreter (float intervals, dependence sets, inferred field ranges)", "Go channel semantics (a send delivers exactly the sent value)"}
	it := c.W.It

	// ---- anchors by role
	var withOut, without *ai.Object
	initSt := it.StateOn(c.W.InitHeap)
	audios := c.objectsOfType("audio.Audio")
	var mix *ssa.Function
	for _, f := range c.P.Funcs {
		if isRepoFn(f) && recvTypeKey(f) == "audio.Audio" && len(sendsIn(f)) > 0 {
			if mix != nil {
				r.Fail("unresolved", "P-gate", "mixer routine", "", "more than one Audio method sends on a channel: "+fnName(mix)+", "+fnName(f))
				return r
			}
			mix = f
		}
	}
	if mix == nil || len(audios) == 0 {
		r.Fail("unresolved", "P-gate", "mixer routine", "", "no Audio method sends on a channel / no Audio object")
		return r
	}
	// the two output cells: the chan-typed cells of the Audio object
	var outPaths []string
	{
		seen := map[string]bool{}
		for _, s := range sendsIn(mix) {
			e := exprString(s.Chan)
			if i := strings.LastIndex(e, "."); i >= 0 && !seen[e[i:]] {
				seen[e[i:]] = true
				outPaths = append(outPaths, e[i:])
			}
		}
	}
	// left = first parameter of the audio constructor
	leftPath, rightPath := "", ""
	if ctor := c.P.Func("gameboy/audio", "New"); ctor != nil && len(ctor.Params) >= 2 {
		for _, b := range ctor.Blocks {
			for _, ins := range b.Instrs {
				if s, ok := ins.(*ssa.Store); ok {
					if fa, ok := s.Addr.(*ssa.FieldAddr); ok {
						name := "." + fieldName(fa)
						if s.Val == ctor.Params[0] {
							leftPath = name
						}
						if s.Val == ctor.Params[1] {
							rightPath = name
						}
					}
				}
			}
		}
	}
	if leftPath == "" || rightPath == "" || len(outPaths) != 2 {
		r.Fail("unresolved", "P-wire", "output cells", firstPos(c, mix), fmt.Sprintf("constructor parameters stored in %q/%q; mixer sends on %v", leftPath, rightPath, outPaths))
		return r
	}
	for _, o := range audios {
		if _, isNil := initSt.LoadPtr(&ai.Ptr{Obj: o, Path: leftPath, Elem: ai.LeafTypeAt(o.T, leftPath)}).(*ai.NilV); isNil {
			without = o
		} else {
			withOut = o
		}
	}
	if withOut == nil {
		r.Fail("unresolved", "P-gate", "audio object with outputs", "", "no Audio object has outputs attached in the constructed machine")
		return r
	}
	pObj, pPath := c.powerCell()
	chObjs, enPaths, cerr := c.soundChannels()
	if pObj == nil || cerr != "" {
		r.Fail("unresolved", "P-route", "power flag / channel objects", "", "NR52 does not expose them: "+cerr)
		return r
	}
	groups := [4]map[int]bool{}
	for k := 0; k < 4; k++ {
		groups[k] = c.reachableObjects(chObjs[k])
	}
	power := func(on bool, more func(*ai.State)) func(*ai.State) {
		return func(st *ai.State) {
			st.SetCell(pObj, pPath, ai.NewConstBool(on))
			if more != nil {
				more(st)
			}
		}
	}
	where := firstPos(c, mix)
	chanOf := func(st *ai.State, o *ai.Object, path string) ai.Value {
		return st.LoadPtr(&ai.Ptr{Obj: o, Path: path, Elem: ai.LeafTypeAt(o.T, path)})
	}
	sameChan := func(a, b ai.Value) bool {
		pa, ok1 := a.(*ai.Ptr)
		pb, ok2 := b.(*ai.Ptr)
		return ok1 && ok2 && pa.Obj == pb.Obj && pa.Path == pb.Path
	}

	// ---- P-gate
	{
		ev := c.evalCall(nil, mix, []ai.Value{ptrTo(withOut)}, nil, power(false, nil))
		r.Ob("P-gate", len(ev.Sends) == 0 && ev.Post != nil, "sound off: nothing is sent", where, fmt.Sprintf("%d sends", len(ev.Sends)))
		if without != nil {
			ev = c.evalCall(nil, mix, []ai.Value{ptrTo(without)}, nil, power(true, nil))
			r.Ob("P-gate", len(ev.Sends) == 0 && ev.Post != nil, "no outputs attached: nothing is sent", where, fmt.Sprintf("%d sends", len(ev.Sends)))
		}
		for _, p := range []string{leftPath, rightPath} {
			p := p
			ev = c.evalCall(nil, mix, []ai.Value{ptrTo(withOut)}, nil, power(true, func(st *ai.State) { st.SetCell(withOut, p, &ai.NilV{}) }))
			r.Ob("P-gate", len(ev.Sends) == 0 && ev.Post != nil, "output "+p+" missing: nothing is sent", where, fmt.Sprintf("%d sends", len(ev.Sends)))
		}
		ev = c.evalCall(nil, mix, []ai.Value{ptrTo(withOut)}, nil, power(true, nil))
		nl, nr := 0, 0
		st0 := it.StateOn(c.W.Generic)
		for _, s := range ev.Sends {
			if sameChan(s.Ch, chanOf(st0, withOut, leftPath)) {
				nl++
			}
			if sameChan(s.Ch, chanOf(st0, withOut, rightPath)) {
				nr++
			}
		}
		r.Ob("P-gate", len(ev.Sends) == 2 && nl == 1 && nr == 1 && len(ev.Undecided) == 0, "sound on with outputs: one left and one right sample per call", where, fmt.Sprintf("%d sends (%d left, %d right) %v", len(ev.Sends), nl, nr, ev.Undecided))
	}

	// ---- P-pace: the call chain from the audio machine-cycle step down to the mixer
	{
		step := c.methodOf("audio.Audio", "EndMachineCycle")
		var clock *ssa.Function
		if step != nil {
			count := map[*ssa.Function]int{}
			for _, sc := range callsIn(step.Blocks) {
				if sc.Callee != nil {
					count[sc.Callee]++
				}
			}
			for f, n := range count {
				if n == 4 {
					clock = f
				}
			}
		}
		if clock == nil {
			r.Fail("unresolved", "P-pace", "per-clock routine", "", "the audio machine-cycle step does not call one routine four times")
		} else {
			// walk up from the mixer
			cur := mix
			chainOK := true
			var chain []string
			for hops := 0; cur != clock && hops < 6; hops++ {
				callers := c.callersOf(cur)
				if len(callers) != 1 || callers[0].Name == "value-use" {
					r.Ob("P-pace", false, "callers of "+fnName(cur), firstPos(c, cur), fmt.Sprintf("%d call sites (want exactly one, a direct call)", len(callers)))
					chainOK = false
					break
				}
				site := callers[0]
				parent := site.At.Parent()
				guards := c.guardsOf(site.At.Block())
				chain = append(chain, fmt.Sprintf("%s -> %s under %v", fnName(parent), fnName(cur), guards))
				if parent == clock {
					c.checkPacing(r, clock, cur, withOut, site, guards)
				} else {
					r.Ob("P-pace", len(guards) == 0, "call "+fnName(parent)+" -> "+fnName(cur)+" is unconditional", c.pos(site.At), fmt.Sprintf("control dependent on %v", guards))
				}
				cur = parent
			}
			if chainOK && cur != clock {
				r.Ob("P-pace", false, "mixer call chain", where, "the mixer is not reached from the per-clock routine: "+strings.Join(chain, "; "))
			}
			r.Sample(map[string]interface{}{"call_chain_mixer_to_clock": chain})
		}
	}

	// ---- P-route
	ctlObj := pObj
	var flags []string
	for _, p := range c.boolCellsOf(ctlObj) {
		if p != pPath {
			flags = append(flags, p)
		}
	}
	st0 := it.StateOn(c.W.Generic)
	leftCh, rightCh := chanOf(st0, withOut, leftPath), chanOf(st0, withOut, rightPath)
	sentOn := func(ev *DecEval, ch ai.Value) ai.Value {
		for _, s := range ev.Sends {
			if sameChan(s.Ch, ch) {
				return ai.WithDeps(s.V, ai.Union(ai.DepsOf(s.V), s.PathDeps))
			}
		}
		return nil
	}
	dependsOnGroup := func(v ai.Value, g map[int]bool) bool {
		for _, s := range ai.DepsOf(v) {
			if k := it.Syms[s].Cell; k.Obj != 0 && g[k.Obj] {
				return true
			}
		}
		return false
	}
	// NR51 bit of each flag
	nr51 := c.evalDecoder(true, 0xFF25, 0xFF25, power(true, nil), nil)
	bitOfFlag := map[string]int{}
	for _, f := range flags {
		if b := c.cellBool(nr51.Post, ctlObj, f); b != nil && b.B.K == ai.BSrc && b.B.S == nr51.ValSym && !b.B.Neg {
			bitOfFlag[f] = int(b.B.J)
		}
	}
	type ks struct{ k, side int }
	routeOf := map[string]ks{}
	for _, f := range flags {
		f := f
		if _, isRoute := bitOfFlag[f]; !isRoute {
			continue
		}
		ev := c.evalCall(nil, mix, []ai.Value{ptrTo(withOut)}, nil, power(true, func(st *ai.State) {
			for _, g := range flags {
				if _, ok := bitOfFlag[g]; ok {
					st.SetCell(ctlObj, g, ai.NewConstBool(g != f))
				}
			}
		}))
		for side, ch := range []ai.Value{leftCh, rightCh} {
			v := sentOn(ev, ch)
			if v == nil {
				continue
			}
			var missing []int
			for k := 0; k < 4; k++ {
				if !dependsOnGroup(v, groups[k]) {
					missing = append(missing, k)
				}
			}
			if len(missing) == 1 {
				if old, dup := routeOf[f]; dup {
					r.Ob("P-route", false, "routing flag "+f, where, fmt.Sprintf("gates both (channel %d, side %d) and (channel %d, side %d)", old.k+1, old.side, missing[0]+1, side))
				}
				routeOf[f] = ks{missing[0], side}
			} else if len(missing) > 1 {
				r.Ob("P-route", false, "routing flag "+f, where, fmt.Sprintf("with only this flag clear the side-%d sample misses channels %v", side, missing))
			}
		}
	}
	covered := map[ks]string{}
	for f, x := range routeOf {
		covered[x] = f
	}
	sideName := []string{"left", "right"}
	for k := 0; k < 4; k++ {
		for side := 0; side < 2; side++ {
			f, ok := covered[ks{k, side}]
			wantBit := k
			if side == 0 {
				wantBit = k + 4
			}
			name := fmt.Sprintf("channel %d -> %s", k+1, sideName[side])
			if !ok {
				r.Ob("P-route", false, name+" has a routing flag", where, "no flag whose clearing removes exactly this channel from this side")
				continue
			}
			r.Ob("P-route", bitOfFlag[f] == wantBit, name+" is NR51 bit "+fmt.Sprint(wantBit), where, fmt.Sprintf("flag %s is written from NR51 bit %d", f, bitOfFlag[f]))
		}
	}
	// non-interference per (k, side) with every other flag symbolic, and dependence when set
	for k := 0; k < 4; k++ {
		for side := 0; side < 2; side++ {
			f, ok := covered[ks{k, side}]
			if !ok {
				continue
			}
			ch := []ai.Value{leftCh, rightCh}[side]
			name := fmt.Sprintf("channel %d, %s", k+1, sideName[side])
			ev := c.evalCall(nil, mix, []ai.Value{ptrTo(withOut)}, nil, power(true, func(st *ai.State) { st.SetCell(ctlObj, f, ai.NewConstBool(false)) }))
			v := sentOn(ev, ch)
			r.Ob("P-route", v != nil && !dependsOnGroup(v, groups[k]), name+": not routed => sample independent of the channel", where, fmt.Sprintf("sent value %s depends on %v", ai.ValueString(v), c.groupDeps(v, groups[k])))
			ev = c.evalCall(nil, mix, []ai.Value{ptrTo(withOut)}, nil, power(true, func(st *ai.State) { st.SetCell(ctlObj, f, ai.NewConstBool(true)) }))
			v = sentOn(ev, ch)
			r.Ob("P-route", v != nil && dependsOnGroup(v, groups[k]), name+": routed => sample depends on the channel", where, "sent value "+ai.ValueString(v))
		}
	}
	for side := 0; side < 2; side++ {
		ch := []ai.Value{leftCh, rightCh}[side]
		ev := c.evalCall(nil, mix, []ai.Value{ptrTo(withOut)}, nil, power(true, func(st *ai.State) {
			for k := 0; k < 4; k++ {
				if f, ok := covered[ks{k, side}]; ok {
					st.SetCell(ctlObj, f, ai.NewConstBool(false))
				}
			}
		}))
		v, _ := sentOn(ev, ch).(*ai.Float)
		r.Ob("P-route", v != nil && v.Lo == 0 && v.Hi == 0, "nothing routed to the "+sideName[side]+" => sample is 0", where, "sent value "+ai.ValueString(v))
	}

	// ---- P-silent: a channel that NR52 reports off contributes nothing
	r.Rule("P-silent", "with a channel's status flag (its NR52 bit) clear the sent values do not depend on any state of that channel; with all four status flags clear both samples are the constant 0, whatever is routed")
	{
		for k := 0; k < 4; k++ {
			k := k
			ev := c.evalCall(nil, mix, []ai.Value{ptrTo(withOut)}, nil, power(true, func(st *ai.State) {
				st.SetCell(chObjs[k], enPaths[k], ai.NewConstBool(false))
			}))
			for side, ch := range []ai.Value{leftCh, rightCh} {
				v := sentOn(ev, ch)
				r.Ob("P-silent", v != nil && !dependsOnGroup(v, groups[k]), fmt.Sprintf("channel %d off => %s sample independent of the channel", k+1, sideName[side]), where, fmt.Sprintf("sent value %s depends on %v", ai.ValueString(v), c.groupDeps(v, groups[k])))
			}
		}
		ev := c.evalCall(nil, mix, []ai.Value{ptrTo(withOut)}, nil, power(true, func(st *ai.State) {
			for k := 0; k < 4; k++ {
				st.SetCell(chObjs[k], enPaths[k], ai.NewConstBool(false))
			}
		}))
		for side, ch := range []ai.Value{leftCh, rightCh} {
			v, _ := sentOn(ev, ch).(*ai.Float)
			r.Ob("P-silent", v != nil && v.Lo == 0 && v.Hi == 0, "no channel on => "+sideName[side]+" sample is 0", where, "sent value "+ai.ValueString(v))
		}
	}

	// ---- P-range
	{
		ev := c.evalCall(nil, mix, []ai.Value{ptrTo(withOut)}, nil, power(true, nil))
		for side, ch := range []ai.Value{leftCh, rightCh} {
			v, _ := sentOn(ev, ch).(*ai.Float)
			ok := v != nil && v.Lo >= 0 && v.Hi < 1 && !math.IsInf(v.Hi, 0) && !math.IsNaN(v.Lo) && !math.IsNaN(v.Hi)
			r.Ob("P-range", ok, sideName[side]+" sample in [0,1)", where, "interval of the sent value: "+ai.ValueString(v))
			if v != nil {
				r.Sample(map[string]interface{}{"side": sideName[side], "sample_interval": []float64{v.Lo, v.Hi}})
			}
		}
	}

	// ---- P-iso
	{
		owner := map[int]int{}
		for k := 0; k < 4; k++ {
			for id := range groups[k] {
				owner[id] = k + 1
			}
		}
		viol := map[string]string{}
		n := 0
		c.evalAllEntries(ai.Hooks{
			Store: func(st *ai.State, at ssa.Instruction, p *ai.Ptr, keys []ai.CellKey, v ai.Value, _ bool) {
				if p == nil {
					return
				}
				k := owner[p.Obj.ID]
				if k == 0 {
					return
				}
				n++
				for _, s := range ai.Union(ai.DepsOf(v), st.PathDeps) {
					if cell := it.Syms[s].Cell; cell.Obj != 0 {
						if j := owner[cell.Obj]; j != 0 && j != k {
							key := fmt.Sprintf("store to channel %d state (%s) in %s", k, ai.NormPath(p.Path), fnName(outerFn(at.Parent())))
							viol[key] = fmt.Sprintf("%s: depends on channel %d state %s", c.pos(at), j, c.cellLabel(ai.CellKey{Obj: cell.Obj, Path: ai.NormPath(cell.Path)}))
						}
					}
				}
			},
		}, func(*world.Entry, *ai.State) {})
		var ks []string
		for k := range viol {
			ks = append(ks, k)
		}
		sort.Strings(ks)
		for _, k := range ks {
			r.Ob("P-iso", false, k, viol[k], viol[k])
		}
		r.Ob("P-iso", true, "channel state stores examined", "", "")
		r.Instances["P-iso"] += n
		r.Extra["channel_state_stores_examined"] = n
	}

	// ---- P-wire
	c.checkAudioWiring(r, leftPath, rightPath)
	r.Rule("P-step", "the audio unit is stepped once per machine cycle by the frame loop whatever the CPU is doing, and its step clocks the per-clock routine exactly four times (L2, L4 of C26 re-stated)")
	adopt(r, c.sibling("C26"), map[string]string{"L2": "P-step", "L4": "P-step"}, "an audio step skipped in some machine state (CPU stopped, sound off) loses the samples of those cycles")
	return r
}

func (c *Ctx) groupDeps(v ai.Value, g map[int]bool) []string {
	it := c.W.It
	set := map[string]bool{}
	for _, s := range ai.DepsOf(v) {
		if k := it.Syms[s].Cell; k.Obj != 0 && g[k.Obj] {
			set[c.cellLabel(ai.CellKey{Obj: k.Obj, Path: ai.NormPath(k.Path)})] = true
		}
	}
	return sortedKeys(set)
}

// checkAudioWiring evaluates the constructor with audio output enabled / disabled.
func (c *Ctx) checkAudioWiring(r *report.Result, leftPath, rightPath string) {
	it := c.W.It
	cfg, ok := c.W.Config.(*ai.Agg)
	if !ok {
		r.Fail("unresolved", "P-wire", "configuration value", "", "not an aggregate")
		return
	}
	flag := ""
	for k := range cfg.M {
		if strings.Contains(k, "DisableAudio") {
			flag = k
		}
	}
	if flag == "" {
		r.Fail("unresolved", "P-wire", "configuration flag", "", "Config has no DisableAudio* field")
		return
	}
	for _, disabled := range []bool{false, true} {
		m := map[string]ai.Value{}
		for k, v := range cfg.M {
			m[k] = v
		}
		m[flag] = ai.NewConstBool(disabled)
		st := it.StateOn(c.W.PkgInitHeap)
		ret, post := it.CallFunction(st, c.W.NewFn, []ai.Value{&ai.Agg{T: cfg.T, M: m}}, nil)
		gb, _ := ret.(*ai.Ptr)
		name := fmt.Sprintf("New with audio output disabled=%v", disabled)
		if gb == nil || post == nil {
			r.Fail("undecided", "P-wire", name, "", "constructor has no single result")
			continue
		}
		var audio, spk *ai.Object
		spkNil := false
		for path, v := range post.RawCells(gb.Obj) {
			_ = path
			switch x := v.(type) {
			case *ai.Ptr:
				if x.Obj.TypeKey == "audio.Audio" {
					audio = x.Obj
				}
				if x.Obj.TypeKey == "speakers.Speakers" {
					spk = x.Obj
				}
			case *ai.NilV:
				if strings.Contains(path, "speakers") {
					spkNil = true
				}
			}
		}
		if audio == nil {
			r.Ob("P-wire", false, name, firstPos(c, c.W.NewFn), "the machine's audio component is not a single object")
			continue
		}
		l := post.LoadPtr(&ai.Ptr{Obj: audio, Path: leftPath, Elem: ai.LeafTypeAt(audio.T, leftPath)})
		rr := post.LoadPtr(&ai.Ptr{Obj: audio, Path: rightPath, Elem: ai.LeafTypeAt(audio.T, rightPath)})
		if disabled {
			_, ln := l.(*ai.NilV)
			_, rn := rr.(*ai.NilV)
			r.Ob("P-wire", ln && rn && spk == nil, name+": no outputs, no speakers", firstPos(c, c.W.NewFn), fmt.Sprintf("left=%s right=%s speakers nil=%v", ai.ValueString(l), ai.ValueString(rr), spkNil))
			continue
		}
		if spk == nil {
			r.Ob("P-wire", false, name+": speakers exist", firstPos(c, c.W.NewFn), "no speakers object in the machine")
			continue
		}
		// which speakers cells hold these channels, and what do Left()/Right() return
		lf, rf := c.methodOf("speakers.Speakers", "Left"), c.methodOf("speakers.Speakers", "Right")
		var lv, rv ai.Value
		if lf != nil && rf != nil {
			lv, _ = it.CallFunction(post.Fork(), lf, []ai.Value{ptrTo(spk)}, nil)
			rv, _ = it.CallFunction(post.Fork(), rf, []ai.Value{ptrTo(spk)}, nil)
		}
		same := func(a, b ai.Value) bool {
			pa, ok1 := a.(*ai.Ptr)
			pb, ok2 := b.(*ai.Ptr)
			return ok1 && ok2 && pa.Obj == pb.Obj && pa.Path == pb.Path
		}
		r.Ob("P-wire", same(l, lv) && same(rr, rv) && !same(l, rr), name+": (left,right) = (speakers.Left(), speakers.Right())", firstPos(c, c.W.NewFn), fmt.Sprintf("audio left=%s right=%s; Left()=%s Right()=%s", ai.ValueString(l), ai.ValueString(rr), ai.ValueString(lv), ai.ValueString(rv)))
		// callback: even slots from the queue Left() returns, odd slots from Right()
		cb := c.methodOf("speakers.Speakers", "Callback")
		if cb == nil || lf == nil || rf == nil {
			r.Fail("unresolved", "P-wire", "speakers callback", "", "Callback/Left/Right not found")
			continue
		}
		retField := func(f *ssa.Function) string {
			for _, b := range f.Blocks {
				for _, ins := range b.Instrs {
					if ret, ok := ins.(*ssa.Return); ok && len(ret.Results) == 1 {
						e := exprString(ret.Results[0])
						if i := strings.LastIndex(e, "."); i >= 0 {
							return e[i:]
						}
					}
				}
			}
			return ""
		}
		lfld, rfld := retField(lf), retField(rf)
		slots := map[string]string{}
		for _, b := range cb.Blocks {
			for _, ins := range b.Instrs {
				if s, ok := ins.(*ssa.Store); ok {
					if ia, ok := s.Addr.(*ssa.IndexAddr); ok {
						src := exprString(s.Val)
						idx := exprString(ia.Index)
						slots[idx] = src
					}
				}
			}
		}
		var evenSrc, oddSrc string
		for idx, src := range slots {
			if strings.HasPrefix(idx, "phi(") {
				evenSrc = src
			} else if strings.Contains(idx, "+ 1)") {
				oddSrc = src
			}
		}
		r.Ob("P-wire", strings.HasSuffix(evenSrc, lfld) && strings.HasPrefix(evenSrc, "<-") && strings.HasSuffix(oddSrc, rfld) && strings.HasPrefix(oddSrc, "<-") && lfld != rfld && lfld != "", "host callback: even slots <- left queue, odd slots <- right queue", firstPos(c, cb), fmt.Sprintf("slot[i] = %s, slot[i+1] = %s; Left() returns %s, Right() returns %s", evenSrc, oddSrc, lfld, rfld))
	}
}

// checkPacing decides "one sample per 95 clocks" from the per-clock routine's transition on its pacing cell - the
// integer cell of the audio object the sampler call is control dependent on.  Two shapes are decided exactly:
// (small) the cell cycles through at most a few thousand values: the transition is enumerated value by value from the
// power-on value and the calls along the cycle must be exactly 95 steps apart; (modulo) the call is guarded by
// (cell % 95) == 0, the cell advances by one, and at every constant the routine compares the cell with the phase
// (cell mod 95) continues without a jump.
func (c *Ctx) checkPacing(r *report.Result, clock, sampler *ssa.Function, audio *ai.Object, site staticCall, guards []string) {
	it := c.W.It
	where := c.pos(site.At)
	// pacing cell: by the path condition of the sampler call
	cells := map[string]bool{}
	{
		st := it.StateOn(c.W.Generic)
		it.Hooks = ai.Hooks{Call: func(s *ai.State, _ ssa.Instruction, callee *ssa.Function, _ []ai.Value) {
			if callee != sampler {
				return
			}
			for _, sy := range s.PathDeps {
				if k := it.Syms[sy].Cell; k.Obj == audio.ID {
					if _, isInt := ai.LeafTypeAt(audio.T, ai.NormPath(k.Path)).Underlying().(*types.Basic); isInt && c.cellInt(st, audio, ai.NormPath(k.Path)) != nil {
						cells[ai.NormPath(k.Path)] = true
					}
				}
			}
		}}
		restore := c.cutDecoder(nil)
		it.CallFunction(st, clock, []ai.Value{ptrTo(audio)}, nil)
		restore()
		it.Hooks = ai.Hooks{}
	}
	if len(cells) != 1 {
		r.Fail("unresolved", "P-pace", "pacing cell", where, fmt.Sprintf("the sampler call is control dependent on %d integer cells of the audio object %v (want one counter)", len(cells), sortedKeys(cells)))
		return
	}
	field := sortedKeys(cells)[0]
	w := c.widthOf(audio, field)
	stepFrom := func(v int64) (next int64, called, ok bool) {
		ev := c.evalCall(nil, clock, []ai.Value{ptrTo(audio)}, nil, func(st *ai.State) {
			st.SetCell(audio, field, ai.NewConstInt(w, false, v))
		})
		for _, f := range ev.Callees {
			if f == sampler {
				called = true
			}
		}
		next, ok = constOf(c.cellInt(ev.Post, audio, field))
		return next, called, ok && ev.Post != nil
	}
	init, initOK := constOf(c.cellInt(it.StateOn(c.W.InitHeap), audio, field))
	if !initOK {
		r.Fail("unresolved", "P-pace", "pacing cell "+field, where, "its power-on value is not a constant")
		return
	}
	// (small) enumerate the orbit of the power-on value
	const cap = 4096
	seen := map[int64]int{}
	var calls []int
	v := init
	small := false
	for n := 0; n < cap; n++ {
		if at, dup := seen[v]; dup {
			small = true
			// the orbit closes: calls over [at, n) repeat for ever; spacing across the seam
			var inCycle []int
			for _, k := range calls {
				if k >= at {
					inCycle = append(inCycle, k)
				}
			}
			ok := len(inCycle) > 0
			for i := 1; i < len(calls); i++ {
				ok = ok && calls[i]-calls[i-1] == 95
			}
			if len(inCycle) > 0 {
				seam := (n - inCycle[len(inCycle)-1]) + (inCycle[0] - at)
				ok = ok && seam == 95
			}
			ok = ok && len(calls) > 0 && calls[0]+1 <= 95
			r.Ob("P-pace", ok, "sampler spacing over the orbit of the pacing counter "+field, where, fmt.Sprintf("orbit of %d values from the power-on value %d; sampler called at steps %v (documented: every 95th clock)", n, init, head(calls, 6)))
			r.Instances["P-pace"] += n
			break
		}
		seen[v] = n
		next, called, ok := stepFrom(v)
		if !ok {
			r.Fail("undecided", "P-pace", "pacing transition", where, fmt.Sprintf("from %s = %d the per-clock routine leaves no constant value", field, v))
			return
		}
		if called {
			calls = append(calls, n)
		}
		v = next
	}
	if small {
		return
	}
	// (modulo) guard shape, +1 away from the compared constants, phase continuity at them
	okGuard := false
	if len(guards) == 1 {
		if m := regexp.MustCompile(`^\(\((\w+)\.(\w+) % 95\) == 0\)$`).FindStringSubmatch(guards[0]); m != nil && "."+m[2] == field {
			okGuard = true
		}
	}
	r.Ob("P-pace", okGuard, "sampler call guard in "+fnName(clock), where, fmt.Sprintf("control dependent on %v; documented: exactly (%s %% 95) == 0 for a free-running counter", guards, field))
	if !okGuard {
		return
	}
	// constants the routine compares the counter with
	var consts []int64
	for _, b := range clock.Blocks {
		iff, ok := b.Instrs[len(b.Instrs)-1].(*ssa.If)
		if !ok {
			continue
		}
		bo, ok := iff.Cond.(*ssa.BinOp)
		if !ok || !strings.Contains(exprString(bo.X), field) {
			continue
		}
		if k, ok := bo.Y.(*ssa.Const); ok && k.Value != nil && !strings.Contains(exprString(bo.X), "%") {
			consts = append(consts, k.Int64())
		}
	}
	r.Extra["tick_counter_compared_with"] = consts
	lo, hi := int64(1), int64(1)<<40
	for _, k := range consts {
		if k > init && k < hi {
			hi = k
		}
	}
	var ts ai.Sym
	ev := c.evalCall(nil, clock, []ai.Value{ptrTo(audio)}, nil, func(st *ai.State) {
		ts = c.symCell(st, audio, field)
		st.SetCell(audio, field, ai.NarrowInt(c.cellInt(st, audio, field), lo, hi-1))
	})
	post := c.cellInt(ev.Post, audio, field)
	r.Ob("P-pace", post != nil && post.HasBase && post.Base == ts && post.Off == 1, "tick counter advances by one per clock", firstPos(c, clock), fmt.Sprintf("for %s in [%d,%d]: post value %s", field, lo, hi-1, ai.ValueString(post)))
	for _, k := range consts {
		for _, v := range []int64{k - 1, k, k + 1} {
			if v < 0 {
				continue
			}
			next, _, ok := stepFrom(v)
			cont := ok && ((next-(v+1))%95+95)%95 == 0
			r.Ob("P-pace", cont, fmt.Sprintf("sample phase continues across %s = %d", field, v), firstPos(c, clock), fmt.Sprintf("counter %d -> %d: the phase (counter mod 95) jumps by %d instead of advancing by one, so the gap between two samples there is not 95 clocks", v, next, ((next-(v+1))%95+95)%95))
		}
	}
}

func head(xs []int, n int) []int {
	if len(xs) > n {
		return xs[:n]
	}
	return xs
}
