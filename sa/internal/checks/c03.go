package checks

import (
	"fmt"
	"sort"
	"strings"

	"verif/sa/internal/oracle"
	"verif/sa/internal/report"
)

func init() {
	register("C03", checkC03)
}

func accKey(cycle int, kind byte, class string) string {
	return fmt.Sprintf("%d:%c %s", cycle, kind, class)
}

func checkC03(c *Ctx) *report.Result {
	r := report.New("C03", "other", "per-row abstract evaluation with the memory decoder cut: the cycle of a data access is the index of the sub-instruction that calls the decoder; address classes by bit provenance")
	r.Explanation = "One sub-instruction runs per machine cycle (lemma S1 of C02), so the machine cycle of a data access is the 1-based index of the row entry that calls Mapper.Read/Write. Every row (the one the fetch routine installs for the opcode byte) is evaluated entry by entry on one abstract state; each decoder call is recorded with its cycle, direction and address class, the class being read off the bits of the address argument (h:l, b:c, d:e, sp+k, pc+k, FF00+c, FF00+operand, operand word, operand word+1). The recorded schedule must equal the documented one exactly; the value stored by a read-modify-write must depend on the byte read in the documented earlier cycle; stack pushes store high byte then low byte and pops load low then high."
	r.Rule("M-sched", "for every defined opcode the multiset of (cycle, R/W, address class) of its data accesses equals the documented schedule")
	r.Rule("M-rmw", "a read-modify-write stores a value that depends on the byte read in the earlier documented cycle (the read is not repeated in the write cycle)")
	r.Rule("M-order", "16-bit stack and (nn) transfers move their bytes in the documented order and with the documented registers")
	r.Rule("M-operand", "operand bytes are fetched through pc in consecutive cycles before any entry that uses them; their count equals the instruction's operand length")
	r.NotDecided = []string{"the numeric value of the address (arithmetic of h:l etc.) and of the data", "what the addressed hardware does with the access (C06/C07)"}
	r.TrustedBase = []string{"documented access schedule (oracle.Base/CB, from the SM83 documentation and the property statement's examples)", "lemma S1 of C02 (one entry per cycle)", "go/ssa, abstract interpreter bit provenance"}
	m := c.machine()
	for _, e := range m.Errors {
		r.Fail("unresolved", "anchors", "machine", "", e)
	}
	if len(m.Errors) > 0 {
		return r
	}
	base, cb := oracle.Base(), oracle.CB()
	for page := 0; page < 2; page++ {
		for k := 0; k < 256; k++ {
			doc, row := base[k], m.Base[k]
			name := fmt.Sprintf("opcode 0x%02X", k)
			if page == 1 {
				doc, row = cb[k], m.CB[k]
				name = fmt.Sprintf("opcode CB 0x%02X", k)
			}
			if doc.Undefined || row == nil {
				continue
			}
			name += " (" + doc.Mnemonic + ")"
			if !row.FetchOK || len(row.Undecided) > 0 {
				r.Fail("undecided", "M-sched", name, "", fmt.Sprintf("row could not be summarised: %v", row.Undecided))
				continue
			}
			var got, want []string
			imm := 0
			lastImm := 0
			immOK := true
			where := ""
			for _, a := range row.Acc {
				if where == "" && a.At != nil {
					where = c.pos(a.At)
				}
				if a.Class == "PC" {
					if a.Kind != 'R' || a.Off != int64(imm) {
						immOK = false
					}
					if imm > 0 && a.Cycle != lastImm+1 {
						immOK = false
					}
					imm++
					lastImm = a.Cycle
					continue
				}
				got = append(got, accKey(a.Cycle, a.Kind, a.Class))
			}
			for _, d := range doc.Mem {
				want = append(want, accKey(d.Cycle, d.Kind, d.Class))
			}
			sort.Strings(got)
			sort.Strings(want)
			r.Ob("M-sched", strings.Join(got, ";") == strings.Join(want, ";"), name+" data accesses", where,
				fmt.Sprintf("row %v performs %v, documented %v", row.SubNames, got, want))
			var conditional []string
			for _, a := range row.Acc {
				if a.Cond {
					conditional = append(conditional, accKey(a.Cycle, a.Kind, a.Class))
				}
			}
			r.Ob("M-sched", len(conditional) == 0, name+" accesses happen on every path", where,
				fmt.Sprintf("accesses %v are performed only under a data-dependent branch of their row entry; a documented access happens whatever the data are (the addressed hardware sees it)", conditional))
			r.Ob("M-operand", immOK && imm == doc.Imm, name+" operand fetches", where,
				fmt.Sprintf("%d operand bytes fetched through pc (consecutive, in order: %v), documented %d", imm, immOK, doc.Imm))
			if len(doc.Mem) > 0 && (k%29 == 0) {
				r.Sample(map[string]interface{}{"opcode": name, "row": row.SubNames, "accesses": got, "documented": want})
			}
			// read-modify-write: same class read then written
			var rd, wr *Access
			for i := range row.Acc {
				a := &row.Acc[i]
				if a.Class == "PC" {
					continue
				}
				if a.Kind == 'R' && rd == nil {
					rd = a
				}
				if a.Kind == 'W' && wr == nil {
					wr = a
				}
			}
			if rd != nil && wr != nil && rd.Class == wr.Class && rd.Cycle < wr.Cycle && len(doc.Mem) == 2 && doc.Mem[0].Kind == 'R' && doc.Mem[1].Kind == 'W' {
				tag := fmt.Sprintf("mem@%d", rd.Cycle)
				has := false
				for _, d := range wr.ValDeps {
					if d == tag {
						has = true
					}
				}
				r.Ob("M-rmw", has, name+" read-modify-write", where, fmt.Sprintf("the value written in cycle %d depends on %v; it must depend on the byte read in cycle %d", wr.Cycle, wr.ValDeps, rd.Cycle))
			}
			// byte order of 16-bit transfers
			c.checkOrder(r, name, where, doc, row)
		}
	}
	// the cycle an access falls in is its position in the row only if the scheduler runs every row entry exactly once, in order
	r.Rule("M-step", "scheduler lemmas of C02 (S1 one entry per step, S2 every fetch installs this opcode's row and predicate, S3 finished predicate, S6 fetch gate) re-stated: a row entry that is skipped or cut off is an access that does not happen in its documented cycle")
	adopt(r, c.sibling("C02"), map[string]string{"S1": "M-step", "S2": "M-step", "S3": "M-step", "S6": "M-step", "L-cond": "M-step"}, "an instruction cut short or stretched by the scheduler performs its accesses in other cycles, or not at all")
	r.Rule("M-effect", "a store takes effect in the cycle it is made: register writes are applied by the decoder at once (B-readback / A-plain / A-mirror / A-void of C06: Write(v);Read() composes; cartridge RAM stores reach the selected bank: R-bank / R-gate / R-enable of C09) and the frame loop calls nothing but the five per-cycle steps (L2 of C26)")
	adopt(r, c.sibling("C06"), map[string]string{"B-readback": "M-effect", "A-plain": "M-effect", "A-mirror": "M-effect", "A-void": "M-effect"}, "a write that is queued and applied later reaches the hardware in another cycle than the one the instruction makes it in")
	adopt(r, c.sibling("C09"), map[string]string{"R-bank": "M-effect", "R-gate": "M-effect", "R-enable": "M-effect"}, "a store that lands in another cartridge RAM bank than the selected one, or is dropped, does not reach the addressed location in its cycle")
	adopt(r, c.sibling("C26"), map[string]string{"L2": "M-effect"}, "an extra step in the frame loop that delivers queued writes moves their effect to another cycle")
	return r
}

// checkOrder checks which register each byte of a 16-bit transfer comes from / goes to.
func (c *Ctx) checkOrder(r *report.Result, name, where string, doc oracle.Op, row *Row) {
	var data []Access
	for _, a := range row.Acc {
		if a.Class != "PC" {
			data = append(data, a)
		}
	}
	if len(data) != 2 || data[0].Class != data[1].Class && !(data[0].Class == "NN" && data[1].Class == "NN+1") {
		return
	}
	first, second := data[0], data[1]
	has := func(a Access, names ...string) bool {
		for _, n := range names {
			found := false
			for _, d := range a.ValDeps {
				if d == n {
					found = true
				}
			}
			if !found {
				return false
			}
		}
		return true
	}
	switch {
	case strings.HasPrefix(doc.Mnemonic, "PUSH"):
		p := (doc.Code >> 4) & 3
		hi, lo := [][2]string{{"b", "c"}, {"d", "e"}, {"h", "l"}, {"a", "f"}}[p][0], [][2]string{{"b", "c"}, {"d", "e"}, {"h", "l"}, {"a", "f"}}[p][1]
		ok := has(first, hi) && has(second, lo) && first.Off == -1 && second.Off == -2 && len(first.ValDeps) == 1 && len(second.ValDeps) == 1
		r.Ob("M-order", ok, name+" byte order", where, fmt.Sprintf("PUSH stores %v at SP%+d then %v at SP%+d; documented: %s at SP-1 then %s at SP-2", first.ValDeps, first.Off, second.ValDeps, second.Off, hi, lo))
	case strings.HasPrefix(doc.Mnemonic, "POP"):
		p := (doc.Code >> 4) & 3
		hi, lo := [][2]string{{"b", "c"}, {"d", "e"}, {"h", "l"}, {"a", "f"}}[p][0], [][2]string{{"b", "c"}, {"d", "e"}, {"h", "l"}, {"a", "f"}}[p][1]
		ok := has(first, lo) && has(second, hi) && first.Off == 0 && second.Off == 1
		r.Ob("M-order", ok, name+" byte order", where, fmt.Sprintf("POP loads %v from SP%+d then %v from SP%+d; documented: %s from SP then %s from SP+1", first.ValDeps, first.Off, second.ValDeps, second.Off, lo, hi))
	case strings.HasPrefix(doc.Mnemonic, "CALL") || strings.HasPrefix(doc.Mnemonic, "RST"):
		m := c.machine()
		c1, s1, ok1 := c.byteOf(m, first.Val)
		c2, s2, ok2 := c.byteOf(m, second.Val)
		ok := ok1 && ok2 && c1 == "pc" && c2 == "pc" && s1 == 8 && s2 == 0 && first.Off == -1 && second.Off == -2
		r.Ob("M-order", ok, name+" byte order", where, fmt.Sprintf("stores %v at SP%+d then %v at SP%+d; documented: return address high byte at SP-1, low byte at SP-2", first.ValDeps, first.Off, second.ValDeps, second.Off))
	case strings.HasPrefix(doc.Mnemonic, "RET"):
		ok := first.Off == 0 && second.Off == 1
		r.Ob("M-order", ok, name+" byte order", where, fmt.Sprintf("loads from SP%+d then SP%+d; documented SP then SP+1", first.Off, second.Off))
	case doc.Mnemonic == "LD (nn),SP":
		ok := has(first, "sp") && has(second, "sp") && first.Class == "NN" && second.Class == "NN+1"
		r.Ob("M-order", ok, name+" byte order", where, "low byte of SP at nn, high byte at nn+1")
	}
}
