package checks

import (
	"fmt"
	"go/token"
	"go/types"
	"strings"

	"golang.org/x/tools/go/ssa"

	"verif/sa/internal/ai"
	"verif/sa/internal/oracle"
	"verif/sa/internal/report"
)

func init() {
	register("C02", checkC02)
}

// earlyTable evaluates an early-exit predicate at every cycle count 0..n and
// classifies each outcome: 'F' constant false, 'T' constant true, or a literal
// on a bit of F ("f7", "!f7", "f4", "!f4"); "?" otherwise.
func (c *Ctx) earlyTable(m *Machine, early ai.Value, n int) []string {
	it := c.W.It
	f, ok := early.(*ai.Func)
	if !ok {
		return nil
	}
	fs, _ := it.CellSym(m.CPU, ".f")
	out := make([]string, n+2)
	for k := 0; k <= n+1; k++ {
		st := it.StateOn(c.W.Generic)
		res, post := it.CallFunction(st, f.Fn, []ai.Value{ai.NewConstInt(64, true, int64(k))}, f.Bind)
		out[k] = "?"
		if post == nil {
			continue
		}
		b, ok := res.(*ai.Bool)
		if !ok {
			continue
		}
		switch {
		case b.B.K == ai.BZero:
			out[k] = "F"
		case b.B.K == ai.BOne:
			out[k] = "T"
		case b.B.K == ai.BSrc && b.B.S == fs:
			neg := ""
			if b.B.Neg {
				neg = "!"
			}
			out[k] = fmt.Sprintf("%sf%d", neg, b.B.J)
		}
	}
	return out
}

func checkC02(c *Ctx) *report.Result {
	r := report.New("C02", "proof", "table extraction through the fetch routine + abstract evaluation of the scheduler and of every early-exit predicate, compared with the documented SM83 cycle table")
	r.Explanation = "In this interpreter an instruction occupies as many machine cycles as its dispatch row has entries, unless the row's early-exit predicate fires. The check (1) obtains, for each of the 512 opcodes, the row the fetch routine really installs for that opcode byte (by evaluating the fetch routine with the decoder returning that byte), (2) compares its length with the documented cycle count, (3) evaluates each early-exit predicate at every cycle count and requires the documented not-taken length, the negated documented condition read from F at that moment, and the taken length, (4) proves the scheduler lemmas that make 'row length = cycles' true: one sub-instruction call and one cycle increment per step, cycle reset and predicate installation at every fetch, finished <=> cycle == len(row) without a predicate, and no write to F before the early-exit cycle of a conditional row."
	r.Rule("L-len", "for every defined opcode (245 base + 256 CB) len(row installed by the fetch routine) == documented machine cycles")
	r.Rule("L-cond", "the 16 conditional opcodes carry a predicate that is false before the not-taken length, equals the negation of the documented condition (a literal on F's Z or C bit) at the not-taken length, and the row ends at the taken length; no other opcode has a predicate")
	r.Rule("S1", "machine-cycle step: exactly one call of the current sub-instruction, not in a loop, followed by exactly one increment of the cycle counter; idle return only when the fetch routine reports idle")
	r.Rule("S2", "fetch routine, for each opcode byte: installs that opcode's row, resets the cycle counter to 0, installs the row's predicate (none for CB rows) and advances pc by 1 (2 for CB)")
	r.Rule("S3", "finished predicate: without early-exit predicate it is cycle == len(row); with one it is the predicate's value")
	r.Rule("S4", "no sub-instruction before the early-exit cycle of a conditional row writes F; the first entry of every CB row has no effect (the prefix is consumed inside the row)")
	r.Rule("S6", "fetch gate: with halted and stopped clear and no interrupt sequence due, the fetch routine fetches (reports not idle, installs a row, resets the cycle counter) whatever the rest of the machine state is")
	r.Rule("L-int", "interrupt sequences: dispatch 5 cycles, from HALT 6, wake without dispatch 1")
	r.TrustedBase = []string{"documented SM83 cycle table (oracle.Base/CB)", "go/types, go/ssa", "abstract interpreter (inlining, constant propagation, known bits)"}
	m := c.machine()
	for _, e := range m.Errors {
		r.Fail("unresolved", "anchors", "machine", "", e)
	}
	if len(m.Errors) > 0 {
		return r
	}
	it := c.W.It
	base, cb := oracle.Base(), oracle.CB()
	nCond := 0
	for page := 0; page < 2; page++ {
		for k := 0; k < 256; k++ {
			doc := base[k]
			row := m.Base[k]
			name := fmt.Sprintf("opcode 0x%02X", k)
			if page == 1 {
				doc, row = cb[k], m.CB[k]
				name = fmt.Sprintf("opcode CB 0x%02X", k)
			}
			if page == 0 && k == 0xcb {
				continue // the prefix byte selects the second table; it is fetched as part of every CB opcode
			}
			where := ""
			if row != nil && row.Slice != nil {
				if s, ok := row.Slice.Obj.Site.(ssa.Instruction); ok {
					where = c.pos(s)
				}
			}
			// S2: fetch
			okFetch := row != nil && row.FetchOK && len(row.Undecided) == 0
			wantDelta := int64(1 + page)
			r.Ob("S2", okFetch && row.PCDelta == wantDelta, name+" fetch", where, func() string {
				if row == nil {
					return "no row"
				}
				return fmt.Sprintf("fetch routine: ok=%v undecided=%v pc advance=%d (documented %d)", row.FetchOK, row.Undecided, row.PCDelta, wantDelta)
			}())
			if !okFetch {
				continue
			}
			if doc.Undefined {
				continue
			}
			n := len(row.Subs)
			r.Ob("L-len", n == doc.Cycles, name+" ("+doc.Mnemonic+") cycles", where, fmt.Sprintf("row has %d entries %v, documented %d machine cycles", n, row.SubNames, doc.Cycles))
			if k%37 == 0 {
				r.Sample(map[string]interface{}{"opcode": name, "mnemonic": doc.Mnemonic, "row": row.SubNames, "row_len": n, "documented_cycles": doc.Cycles, "not_taken": doc.NotTaken})
			}
			_, isNil := row.Early.(*ai.NilV)
			hasEarly := row.Early != nil && !isNil
			if doc.NotTaken == 0 {
				r.Ob("L-cond", !hasEarly, name+" predicate", where, "an unconditional instruction carries an early-exit predicate: "+ai.ValueString(row.Early))
				continue
			}
			nCond++
			if !hasEarly {
				r.Ob("L-cond", false, name+" predicate", where, "conditional instruction "+doc.Mnemonic+" has no early-exit predicate: it always takes "+fmt.Sprint(n)+" cycles")
				continue
			}
			tab := c.earlyTable(m, row.Early, n)
			bit, whenSet := oracle.CondLiteral(doc.Cond)
			// finishes early when the condition is FALSE
			want := fmt.Sprintf("f%d", bit)
			if whenSet {
				want = "!" + want
			}
			ok := tab != nil
			detail := fmt.Sprintf("predicate by cycle %v; documented: false before %d, %s at %d (condition %s fails), end at %d", tab, doc.NotTaken, want, doc.NotTaken, doc.Cond, doc.Cycles)
			if ok {
				for cyc := 0; cyc <= n; cyc++ {
					switch {
					case cyc == doc.NotTaken:
						ok = ok && tab[cyc] == want
					case cyc == doc.Cycles:
						ok = ok && tab[cyc] == "T"
					default:
						ok = ok && tab[cyc] == "F"
					}
				}
			}
			r.Ob("L-cond", ok, name+" ("+doc.Mnemonic+") condition", where, detail)
			r.Sample(map[string]interface{}{"opcode": name, "mnemonic": doc.Mnemonic, "predicate_by_cycle": tab, "documented_not_taken": doc.NotTaken, "documented_taken": doc.Cycles})
			// S4a: F untouched before the early-exit cycle
			c.checkNoFlagWriteBefore(r, m, row, doc.NotTaken, name, where)
		}
	}
	r.Ob("L-cond", nCond == 16, "conditional opcode count", "", fmt.Sprintf("%d conditional opcodes checked, 16 documented", nCond))
	// S4b: CB rows start with a no-op
	for k := 0; k < 256; k++ {
		row := m.CB[k]
		if row == nil || !row.FetchOK || len(row.Subs) == 0 {
			continue
		}
		f, _ := row.Subs[0].(*ai.Func)
		ok := f != nil && c.isNoop(f)
		r.Ob("S4", ok, fmt.Sprintf("opcode CB 0x%02X first entry", k), "", "the first entry of a CB row must have no effect (the prefix fetch is accounted inside the row); found "+ai.ValueString(row.Subs[0]))
	}
	c.schedulerLemmas(r, m)
	c.interruptSequences(r, m)
	c.sequenceInstall(r, m)
	c.fetchGate(r, m)
	// the rows and predicates the lemmas talk about must belong to the instance that executes them
	r.Rule("S5", "the dispatch rows, interrupt sequences and early-exit predicates are per-instance state: nothing in package cpu that New or the run phase writes is package-level (rule G2 of C25 restricted to package cpu)")
	adopt(r, c.sibling("C25"), map[string]string{"G2": "S5"}, "a table shared between machines makes one machine's instruction length depend on another machine's flags", func(f report.Finding) bool {
		return strings.Contains(f.Construct, "state cpu.") || strings.Contains(f.Construct, "(*cpu.")
	})
	_ = it
	r.Rule("L-halt", "HALT decision table and ownership of the halted flag (H-halt, H-own of C05) re-stated: HALT occupies one machine cycle, idles only in the documented cases, and no other instruction puts the CPU to sleep")
	adopt(r, c.sibling("C05"), map[string]string{"H-halt": "L-halt", "H-own": "L-halt", "H-idle": "L-halt"}, "a HALT that enters the idle state in the halt-bug case, or an idle CPU that re-runs HALT's step, occupies extra machine cycles")
	r.Rule("S-step", "the machine-cycle step is called exactly once per machine cycle by the frame loop, unconditionally (rule L2 of C26 re-stated): an instruction's machine cycles are cycles of the whole machine")
	adopt(r, c.sibling("C26"), map[string]string{"L2": "S-step"}, "a CPU that is not stepped in some machine cycles stretches its instructions - or never leaves HALT - in emulated time")
	return r
}

// isNoop: evaluating the function from the generic state changes nothing and calls nothing.
func (c *Ctx) isNoop(f *ai.Func) bool {
	it := c.W.It
	st := it.StateOn(c.W.Generic)
	clean := true
	it.Hooks = ai.Hooks{
		Store:  func(*ai.State, ssa.Instruction, *ai.Ptr, []ai.CellKey, ai.Value, bool) { clean = false },
		Extern: func(*ai.State, ssa.Instruction, string, []ai.Value) { clean = false },
		Exit:   func(*ai.State, ssa.Instruction, string) { clean = false },
	}
	restore := c.cutDecoder(func(*ssa.Function, *ai.State, ssa.Instruction, []ai.Value) { clean = false })
	_, post := it.CallFunction(st, f.Fn, nil, f.Bind)
	restore()
	it.Hooks = ai.Hooks{}
	return clean && post != nil
}

func (c *Ctx) checkNoFlagWriteBefore(r *report.Result, m *Machine, row *Row, early int, name, where string) {
	it := c.W.It
	for i := 0; i < early && i < len(row.Subs); i++ {
		f, ok := row.Subs[i].(*ai.Func)
		if !ok {
			continue
		}
		st := it.StateOn(c.W.Generic)
		wrote := false
		it.Hooks = ai.Hooks{Store: func(_ *ai.State, _ ssa.Instruction, p *ai.Ptr, keys []ai.CellKey, _ ai.Value, _ bool) {
			if p != nil && p.Obj == m.CPU && p.Path == ".f" {
				wrote = true
			}
		}}
		restore := c.cutDecoder(nil)
		it.CallFunction(st, f.Fn, nil, f.Bind)
		restore()
		it.Hooks = ai.Hooks{}
		r.Ob("S4", !wrote, fmt.Sprintf("%s entry %d writes F before the condition is evaluated", name, i), where, "sub-instruction "+fnName(f.Fn)+" runs before the early-exit cycle and stores to F, so the condition would be evaluated on modified flags")
	}
}

// schedulerLemmas proves S1 and S3 on the step function and the finished predicate.
func (c *Ctx) schedulerLemmas(r *report.Result, m *Machine) {
	fn := m.ExecFn
	// S1 structural: dynamic calls, increments, loops
	var dyn []*ssa.Call
	var dynBlock *ssa.BasicBlock
	loops := false
	for _, b := range fn.Blocks {
		for _, s := range b.Succs {
			if s.Dominates(b) {
				loops = true
			}
		}
		for _, ins := range b.Instrs {
			if call, ok := ins.(*ssa.Call); ok && !call.Call.IsInvoke() {
				if _, static := call.Call.Value.(*ssa.Function); !static {
					if _, bi := call.Call.Value.(*ssa.Builtin); !bi {
						dyn = append(dyn, call)
						dynBlock = b
					}
				}
			}
		}
	}
	where := ""
	if len(fn.Blocks) > 0 && len(fn.Blocks[0].Instrs) > 0 {
		where = c.pos(fn.Blocks[0].Instrs[0])
	}
	r.Ob("S1", len(dyn) == 1 && !loops, "step: one sub-instruction call, no loop", where, fmt.Sprintf("dynamic calls in the machine-cycle step: %d (want 1); contains a loop: %v", len(dyn), loops))
	if len(dyn) != 1 {
		return
	}
	// the callee value is row[cycle]: IndexAddr/Index of a load of a []func() field with index = load of an int field
	callee := dyn[0].Call.Value
	idxOK, cycleField := false, ""
	if ld, ok := callee.(*ssa.UnOp); ok && ld.Op == token.MUL {
		if ia, ok := ld.X.(*ssa.IndexAddr); ok {
			if rowLd, ok := ia.X.(*ssa.UnOp); ok && isFuncSlice(rowLd.Type()) {
				if ixLd, ok := ia.Index.(*ssa.UnOp); ok {
					if fa, ok := ixLd.X.(*ssa.FieldAddr); ok {
						idxOK = true
						cycleField = fieldName(fa)
					}
				}
			}
		}
	}
	r.Ob("S1", idxOK, "step: callee is row[cycle]", c.pos(dyn[0]), "the dynamic call must call the entry of the current row indexed by the cycle counter")
	// increments of the cycle field: exactly one store of (load + 1), in a block dominated by the call's block
	incs, other := 0, 0
	for _, b := range fn.Blocks {
		for _, ins := range b.Instrs {
			st, ok := ins.(*ssa.Store)
			if !ok {
				continue
			}
			fa, ok := st.Addr.(*ssa.FieldAddr)
			if !ok || fieldName(fa) != cycleField {
				continue
			}
			if bo, ok := st.Val.(*ssa.BinOp); ok && bo.Op == token.ADD && isConstInt(bo.Y, 1) && dynBlock.Dominates(b) {
				incs++
			} else {
				other++
			}
		}
	}
	r.Ob("S1", incs == 1 && other == 0, "step: one increment of the cycle counter after the call", where, fmt.Sprintf("increments after the call: %d, other stores to the counter: %d", incs, other))
	// every return not dominated by the call must be guarded by the fetch routine reporting idle
	for _, b := range fn.Blocks {
		if ret, ok := b.Instrs[len(b.Instrs)-1].(*ssa.Return); ok && !dynBlock.Dominates(b) {
			guarded := false
			for _, p := range b.Preds {
				if iff, ok := p.Instrs[len(p.Instrs)-1].(*ssa.If); ok && p.Succs[0] == b {
					if call, ok := iff.Cond.(*ssa.Call); ok {
						if cal, ok := call.Call.Value.(*ssa.Function); ok && cal == m.NextFn {
							guarded = true
						}
					}
				}
			}
			r.Ob("S1", guarded, "step: early return only when idle", c.pos(ret), "a return that skips the sub-instruction call must be taken only when the fetch routine reports an idle (halted/stopped) CPU")
		}
	}
	// the fetch routine (boundary check + fetch) runs only before the sub-instruction of a machine cycle, never after
	// it: a boundary check made at the end of the completing instruction's last cycle runs before that cycle's
	// peripheral steps and misses the requests they raise
	for _, b := range fn.Blocks {
		for i, ins := range b.Instrs {
			call, ok := ins.(*ssa.Call)
			if !ok {
				continue
			}
			if cal, ok := call.Call.Value.(*ssa.Function); !ok || cal != m.NextFn {
				continue
			}
			after := b != dynBlock && (dynBlock.Dominates(b) || reachableFrom(dynBlock, b))
			if b == dynBlock {
				for j, x := range b.Instrs {
					if x == ssa.Instruction(dyn[0]) && j < i {
						after = true
					}
				}
			}
			r.Ob("S1", !after, "step: the fetch routine is called before the sub-instruction, not after it", c.pos(call), "the boundary check and fetch belong to the start of the machine cycle that executes the new instruction's first step")
		}
	}
	// S3 semantic: evaluate the finished predicate
	it := c.W.It
	cpuPtr := &ai.Ptr{Obj: m.CPU, Path: "", Elem: m.CPU.T}
	stt := m.CPU.T.Underlying().(*types.Struct)
	var earlyField, rowField string
	for i := 0; i < stt.NumFields(); i++ {
		f := stt.Field(i)
		if isEarlyType(f.Type()) {
			earlyField = f.Name()
		}
		if isFuncSlice(f.Type()) && rowField == "" {
			// the row slot is the []func() field the fetch routine stores to
			for _, b := range m.NextFn.Blocks {
				for _, ins := range b.Instrs {
					if st, ok := ins.(*ssa.Store); ok {
						if fa, ok := st.Addr.(*ssa.FieldAddr); ok && fieldName(fa) == f.Name() {
							rowField = f.Name()
						}
					}
				}
			}
		}
	}
	if earlyField == "" || rowField == "" || cycleField == "" {
		r.Fail("unresolved", "S3", "scheduler slots", where, fmt.Sprintf("row slot %q, predicate slot %q, cycle slot %q", rowField, earlyField, cycleField))
		return
	}
	for n := 1; n <= 6; n++ {
		for k := 0; k <= n; k++ {
			st := it.StateOn(c.W.Generic)
			row := m.Base[0].Slice
			ln := ai.NewConstInt(64, true, int64(n))
			st.SetCell(m.CPU, "."+rowField, &ai.Slice{Obj: row.Obj, Path: row.Path, Off: row.Off, Len: ln, Elem: row.Elem})
			st.SetCell(m.CPU, "."+earlyField, &ai.NilV{})
			st.SetCell(m.CPU, "."+cycleField, ai.NewConstInt(64, true, int64(k)))
			res, _ := it.CallFunction(st, m.IsFinishedFn, []ai.Value{cpuPtr}, nil)
			b, _ := res.(*ai.Bool)
			v, isc := false, false
			if b != nil {
				v, isc = b.Const()
			}
			r.Ob("S3", isc && v == (k == n), fmt.Sprintf("finished(no predicate, len=%d, cycle=%d)", n, k), where, fmt.Sprintf("finished predicate evaluates to %s, documented %v", ai.ValueString(res), k == n))
		}
	}
	// with a predicate: finished == predicate(cycle)
	for k := 0; k < 256; k++ {
		row := m.Base[k]
		if row == nil || !row.FetchOK {
			continue
		}
		if f, ok := row.Early.(*ai.Func); ok {
			n := len(row.Subs)
			tab := c.earlyTable(m, f, n)
			for cyc := 0; cyc <= n; cyc++ {
				st := it.StateOn(c.W.Generic)
				st.SetCell(m.CPU, "."+rowField, row.Slice)
				st.SetCell(m.CPU, "."+earlyField, f)
				st.SetCell(m.CPU, "."+cycleField, ai.NewConstInt(64, true, int64(cyc)))
				res, _ := it.CallFunction(st, m.IsFinishedFn, []ai.Value{cpuPtr}, nil)
				got := "?"
				if b, ok := res.(*ai.Bool); ok {
					switch b.B.K {
					case ai.BZero:
						got = "F"
					case ai.BOne:
						got = "T"
					case ai.BSrc:
						neg := ""
						if b.B.Neg {
							neg = "!"
						}
						got = fmt.Sprintf("%sf%d", neg, b.B.J)
					}
				}
				r.Ob("S3", tab != nil && got == tab[cyc], fmt.Sprintf("finished(opcode 0x%02X, cycle=%d) equals its predicate", k, cyc), where, fmt.Sprintf("finished gives %s, the predicate gives %v", got, tab))
			}
		}
	}
}

func fieldName(fa *ssa.FieldAddr) string {
	st := fa.X.Type().Underlying().(*types.Pointer).Elem().Underlying().(*types.Struct)
	return st.Field(fa.Field).Name()
}

func isConstInt(v ssa.Value, want int64) bool {
	c, ok := v.(*ssa.Const)
	if !ok || c.Value == nil {
		return false
	}
	return c.Int64() == want
}

// interruptSequences checks the lengths of the three interrupt rows reachable from the fetch routine.
func (c *Ctx) interruptSequences(r *report.Result, m *Machine) {
	// the rows are the []func() values the interrupt check can return
	it := c.W.It
	var checkFn *ssa.Function
	for _, b := range m.NextFn.Blocks {
		for _, ins := range b.Instrs {
			if call, ok := ins.(*ssa.Call); ok {
				if callee, ok := call.Call.Value.(*ssa.Function); ok && callee.Signature.Results().Len() == 1 && isFuncSlice(callee.Signature.Results().At(0).Type()) {
					checkFn = callee
				}
			}
		}
	}
	if checkFn == nil {
		r.Fail("unresolved", "L-int", "interrupt check", "", "the routine returning the interrupt sequence was not found in the fetch routine")
		return
	}
	cpuPtr := &ai.Ptr{Obj: m.CPU, Path: "", Elem: m.CPU.T}
	lens := map[int64]bool{}
	res, _ := it.CallFunction(it.StateOn(c.W.Generic), checkFn, []ai.Value{cpuPtr}, nil)
	collect := func(v ai.Value) {
		if s, ok := v.(*ai.Slice); ok {
			if n, ok := s.Len.Const(); ok {
				lens[n] = true
			}
		}
	}
	if mv, ok := res.(*ai.Multi); ok {
		for _, a := range mv.Alts {
			collect(a)
		}
	} else {
		collect(res)
	}
	r.Ob("L-int", len(lens) == 3 && lens[5] && lens[6] && lens[1], "interrupt sequence lengths", c.pos(checkFn.Blocks[0].Instrs[0]), fmt.Sprintf("sequence lengths found %v, documented {1,5,6}", lens))
}

// sequenceInstall: when the boundary check returns an interrupt sequence the fetch routine
// installs it with the cycle counter at 0 and WITHOUT an early-exit predicate (S2 for the
// non-opcode rows); otherwise the previous conditional instruction's predicate would decide
// when the sequence ends.
func (c *Ctx) sequenceInstall(r *report.Result, m *Machine) {
	it := c.W.It
	im := c.interruptModel(r, "S2")
	if im == nil {
		return
	}
	cpu := m.CPU
	for n, seq := range im.Seqs {
		seq := seq
		st := c.quietState(m)
		predField := ""
		if stt, ok := cpu.T.Underlying().(*types.Struct); ok {
			for i := 0; i < stt.NumFields(); i++ {
				if f := stt.Field(i); isEarlyType(f.Type()) {
					predField = "." + f.Name()
					st.SetCell(cpu, predField, &ai.Top{T: f.Type()})
				}
			}
		}
		it.Intercepts[im.CheckFn] = func(s *ai.State, _ ssa.Instruction, _ []ai.Value) (ai.Value, *ai.State) { return seq, s }
		ev, _ := c.evalCPU(st, m.NextFn, []ai.Value{ptrTo(cpu)}, nil, nil)
		delete(it.Intercepts, im.CheckFn)
		ok := ev.Post != nil && predField != ""
		if ok {
			_, isNil := ev.Post.LoadPtr(&ai.Ptr{Obj: cpu, Path: predField, Elem: ai.LeafTypeAt(cpu.T, predField)}).(*ai.NilV)
			cy := c.cellInt(ev.Post, cpu, ".currentCycle")
			cv, isc := constOf(cy)
			ok = isNil && isc && cv == 0
		}
		r.Ob("S2", ok, fmt.Sprintf("fetch routine installs the %d-entry interrupt sequence at cycle 0 without an early-exit predicate", n), firstPos(c, m.NextFn), "after installing an interrupt sequence the cycle counter is not 0 or an early-exit predicate (possibly the previous instruction's) is still set")
	}
}

// fetchGate: the only states in which the fetch routine may decline to fetch are halted and
// stopped (and an interrupt sequence being due).  Every other CPU cell is left symbolic, so a
// fetch that has been made conditional on anything else (a debugging flag, a latch) is visible
// as a non-constant "idle" result or a row that is not installed on every path.
func (c *Ctx) fetchGate(r *report.Result, m *Machine) {
	it := c.W.It
	im := c.interruptModel(r, "S6")
	if im == nil {
		return
	}
	cpu := m.CPU
	st := it.StateOn(c.W.Generic)
	for _, p := range []string{".halted", ".stopped"} {
		if ai.LeafTypeAt(cpu.T, p) == nil {
			r.Fail("unresolved", "S6", "cell "+p, "", "the CPU has no such cell")
			return
		}
		st.SetCell(cpu, p, ai.NewConstBool(false))
	}
	stt, _ := cpu.T.Underlying().(*types.Struct)
	rowField := ""
	for i := 0; stt != nil && i < stt.NumFields(); i++ {
		f := stt.Field(i)
		if isFuncSlice(f.Type()) && m.Base[0] != nil && m.Base[0].Slice != nil {
			// the row slot is the []func() cell the fetch of opcode 0 changed
			for _, b := range m.NextFn.Blocks {
				for _, ins := range b.Instrs {
					if sto, ok := ins.(*ssa.Store); ok {
						if fa, ok := sto.Addr.(*ssa.FieldAddr); ok && fieldName(fa) == f.Name() {
							rowField = "." + f.Name()
						}
					}
				}
			}
		}
	}
	it.Intercepts[im.CheckFn] = func(s *ai.State, _ ssa.Instruction, _ []ai.Value) (ai.Value, *ai.State) {
		return &ai.NilV{T: im.CheckFn.Signature.Results().At(0).Type()}, s
	}
	if rowField != "" {
		st.SetCell(cpu, rowField, &ai.NilV{T: ai.LeafTypeAt(cpu.T, rowField)}) // marker: "no row installed"
	}
	ev, calls := c.evalCPU(st, m.NextFn, []ai.Value{ptrTo(cpu)}, nil, nil)
	delete(it.Intercepts, im.CheckFn)
	idle, ic := boolConst(asBool(ev.Result))
	cy, cyc := constOf(c.cellInt(ev.Post, cpu, ".currentCycle"))
	rowStored := false
	if rowField != "" {
		lbl := c.cellLabel(ai.CellKey{Obj: cpu.ID, Path: rowField})
		_, rowStored = ev.Stores[lbl]
		if ev.Weak[lbl] || ev.Post == nil {
			rowStored = false
		} else {
			switch v := ev.Post.LoadPtr(&ai.Ptr{Obj: cpu, Path: rowField, Elem: ai.LeafTypeAt(cpu.T, rowField)}).(type) {
			case *ai.NilV:
				rowStored = false
			case *ai.Multi:
				for _, a := range v.Alts {
					if _, isNil := a.(*ai.NilV); isNil {
						rowStored = false // some path leaves the marker in place
					}
				}
			}
		}
	}
	reads := 0
	for _, mc := range calls {
		if !mc.Write {
			reads++
		}
	}
	ok := ev.Post != nil && ic && !idle && cyc && cy == 0 && rowStored && reads >= 1 && len(ev.Undecided) == 0
	r.Ob("S6", ok, "fetch routine with halted and stopped clear, no interrupt due, all other state symbolic", firstPos(c, m.NextFn),
		fmt.Sprintf("reports idle: %s (documented false); cycle counter afterwards %s (documented 0); row installed on every path: %v; opcode reads: %d; undecided %v", ai.ValueString(ev.Result), ai.ValueString(c.cellInt(ev.Post, cpu, ".currentCycle")), rowStored, reads, ev.Undecided))
}

// reachableFrom: block b can be reached from a's successors.
func reachableFrom(a, b *ssa.BasicBlock) bool {
	seen := map[*ssa.BasicBlock]bool{}
	work := append([]*ssa.BasicBlock(nil), a.Succs...)
	for len(work) > 0 {
		x := work[len(work)-1]
		work = work[:len(work)-1]
		if x == b {
			return true
		}
		if seen[x] {
			continue
		}
		seen[x] = true
		work = append(work, x.Succs...)
	}
	return false
}
