package checks

import (
	"fmt"
	"strings"

	"golang.org/x/tools/go/ssa"

	"verif/sa/internal/ai"
	"verif/sa/internal/report"
	"verif/sa/internal/world"
)

func init() {
	register("C16", checkC16)
}

func checkC16(c *Ctx) *report.Result {
	r := report.New("C16", "other", "transition table of the DMA state machine by abstract evaluation of the memory machine-cycle step for every transfer cycle 0..161 (base address, buffered byte, OAM and all other state symbolic; decoder reads observed with their affine address); bit provenance of the base address from the FF46 write by case split on the mirror range; gated reads of FE00-FEFF; write frame and ownership of the transfer state")
	r.Explanation = "An OAM DMA here is a counter-driven state machine stepped once per machine cycle by the memory step. The check evaluates that step for each value 0..161 of the transfer cycle with the transfer running and everything else symbolic, observing every call of the address decoder: cycle 0 does nothing; cycle k in 1..160 reads exactly one byte through the decoder at address base+(k-1) into the buffer; cycle k in 2..161 stores the byte buffered by the previous cycle, bit for bit, into OAM element k-2; cycle 161 ends the transfer; each cycle advances the counter by one and stores nothing else (in particular no corruption bookkeeping). So OAM element i receives, at cycle i+2, the byte read from base+i at cycle i+1, for every i in 0..159, and the transfer completes at the 162nd step. With no transfer running the step neither reads nor stores. The FF46 write (evaluated with the previous transfer state symbolic, so restarts are covered) leaves running set, the cycle 0 and base = value<<8, or that minus 0x2000 for values E0-FF (the same work RAM cells through the mirror, C06). While running every read of FE00-FEFF returns the constant FF; nothing else stores the transfer state."
	r.Rule("D-table", "per-cycle table of the running transfer (162 cycles): one decoder read at base+(k-1) for k in 1..160, buffered byte stored to OAM[k-2] for k in 2..161, counter+1, end at 161, no other store")
	r.Rule("D-idle", "no transfer running: the DMA tick reads and stores nothing")
	r.Rule("D-start", "FF46 write from any transfer state: running, cycle 0, base = value<<8 (E0-FF: optionally minus 0x2000), register reads back (C06)")
	r.Rule("D-block", "running: every read of FE00-FE9F and FEA0-FEFF is the constant FF; not running: FE00-FE9F is plain memory (C06)")
	r.Rule("D-own", "transfer state is stored only by the FF46 write and the DMA tick")
	r.NotDecided = []string{"CPU writes to OAM during a transfer (accepted by the emulator; outside the statement)", "the bus conflict behaviour of real hardware for CPU accesses outside HRAM during a transfer"}
	r.TrustedBase = []string{"C06 (E000-FDFF mirrors C000-DDFF)", "go/ssa, abstract interpreter (affine addresses, bit provenance)"}
	it := c.W.It
	oam := c.objectOfType("oam.OAM")
	memStep := c.methodOf("memory.Mapper", "EndMachineCycle")
	mp := c.mapperPtr()
	if oam == nil || memStep == nil || mp == nil {
		r.Fail("unresolved", "D-table", "OAM object / memory step", "", "not found")
		return r
	}
	for _, p := range []string{".dmaRunning", ".dmaCycle", ".dmaBaseAddr", ".dmaRead"} {
		if ai.LeafTypeAt(oam.T, p) == nil {
			r.Fail("unresolved", "D-table", "OAM field "+p, "", "not found (anchors: dmaRunning, dmaCycle, dmaBaseAddr, dmaRead)")
			return r
		}
	}
	where := firstPos(c, memStep)
	allowed := map[string]bool{}
	for _, p := range []string{".dmaRunning", ".dmaCycle", ".dmaRead"} {
		allowed[c.cellLabel(ai.CellKey{Obj: oam.ID, Path: p})] = true
	}
	oamArr := c.cellLabel(ai.CellKey{Obj: oam.ID, Path: ".oam"})

	// ---- D-table
	var bad []string
	nbad := 0
	for k := int64(0); k <= 161; k++ {
		st := it.StateOn(c.W.Generic)
		st.SetCell(oam, ".dmaRunning", ai.NewConstBool(true))
		st.SetCell(oam, ".dmaCycle", ai.NewConstInt(c.widthOf(oam, ".dmaCycle"), false, k))
		baseS := c.symCell(st, oam, ".dmaBaseAddr")
		bufS := c.symCell(st, oam, ".dmaRead")
		newByte := it.NewSym(fmt.Sprintf("dma-source-byte@%d", k), ai.CellKey{})
		ev, calls := c.evalCPU(st, memStep, []ai.Value{mp}, nil, ai.NewSymInt(8, false, newByte))
		var why []string
		// reads
		wantRead := k >= 1 && k <= 160
		if wantRead {
			if len(calls) != 1 || calls[0].Write {
				why = append(why, fmt.Sprintf("%d decoder accesses, documented exactly one read", len(calls)))
			} else if a := calls[0].Addr; a == nil || !a.HasBase || a.Base != baseS || uint16(a.Off) != uint16(k-1) {
				why = append(why, fmt.Sprintf("reads at %s, documented base+%d", ai.ValueString(calls[0].Addr), k-1))
			}
			buf := c.cellInt(ev.Post, oam, ".dmaRead")
			ok := buf != nil
			for i := 0; ok && i < 8; i++ {
				ok = isSrcBit(buf.Bits[i], newByte, i)
			}
			if !ok {
				why = append(why, "the byte read is not what the buffer holds afterwards: "+ai.ValueString(buf))
			}
		} else if len(calls) != 0 {
			why = append(why, fmt.Sprintf("%d decoder accesses, documented none", len(calls)))
		}
		// store
		if k >= 2 {
			el := ev.Post.LoadPtr(&ai.Ptr{Obj: oam, Path: fmt.Sprintf(".oam[%d]", k-2), Elem: ai.LeafTypeAt(oam.T, ".oam[0]")})
			iv, _ := el.(*ai.Int)
			ok := iv != nil
			for i := 0; ok && i < 8; i++ {
				ok = isSrcBit(iv.Bits[i], bufS, i)
			}
			if !ok {
				why = append(why, fmt.Sprintf("OAM[%d] afterwards %s, documented: the byte buffered in the previous cycle", k-2, ai.ValueString(el)))
			}
		}
		// nothing else, and only that element
		for cell := range ev.Stores {
			switch {
			case allowed[cell]:
			case strings.HasPrefix(cell, oamArr):
				if k < 2 {
					why = append(why, "stores into OAM before any byte was read")
				}
			case strings.HasPrefix(cell, c.cellLabel(ai.CellKey{Obj: oam.ID, Path: ""})):
				why = append(why, "also stores "+cell)
			}
		}
		if k >= 2 {
			n := 0
			for _, e := range ev.Elems {
				if e.Obj == oam && strings.HasPrefix(e.Path, ".oam") {
					n++
					if cv, isc := constOf(e.Idx); !isc || cv != k-2 {
						why = append(why, fmt.Sprintf("touches OAM element %s, documented %d only", ai.ValueString(e.Idx), k-2))
					}
				}
			}
		}
		cy, cyc := constOf(c.cellInt(ev.Post, oam, ".dmaCycle"))
		run, runc := boolConst(c.cellBool(ev.Post, oam, ".dmaRunning"))
		if !runc || run != (k != 161) {
			why = append(why, fmt.Sprintf("running afterwards %v, documented %v", run, k != 161))
		}
		if k < 161 && (!cyc || cy != k+1) {
			why = append(why, fmt.Sprintf("cycle afterwards %s, documented %d", ai.ValueString(c.cellInt(ev.Post, oam, ".dmaCycle")), k+1))
		}
		if len(ev.Undecided) > 0 {
			why = append(why, strings.Join(ev.Undecided, ", "))
		}
		if len(why) > 0 {
			nbad++
			if len(bad) < 4 {
				bad = append(bad, fmt.Sprintf("cycle %d: %s", k, strings.Join(why, "; ")))
			}
		}
		if k == 80 {
			r.Sample(map[string]interface{}{"cycle": k, "decoder_read": ai.ValueString(calls[0].Addr), "oam_element_stored": k - 2})
		}
	}
	if nbad > len(bad) {
		bad = append(bad, fmt.Sprintf("... %d cycles in all", nbad))
	}
	r.Ob("D-table", nbad == 0, "transfer table (cycles 0..161)", where, strings.Join(bad, "; "))
	r.Instances["D-table"] += 162

	// ---- D-idle
	{
		st := it.StateOn(c.W.Generic)
		st.SetCell(oam, ".dmaRunning", ai.NewConstBool(false))
		ev, calls := c.evalCPU(st, memStep, []ai.Value{mp}, nil, nil)
		var hit []string
		for cell := range ev.Stores {
			if strings.HasPrefix(cell, c.cellLabel(ai.CellKey{Obj: oam.ID, Path: ""})) {
				hit = append(hit, cell)
			}
		}
		r.Ob("D-idle", len(calls) == 0 && len(hit) == 0, "no transfer running: no read, no OAM state stored", where, fmt.Sprintf("decoder accesses %d, stores %v", len(calls), hit))
	}

	// ---- D-start
	{
		type cs struct {
			name   string
			bits   map[int]bool
			mirror bool
		}
		cases := []cs{
			{"value 00-7F", map[int]bool{7: false}, false},
			{"value 80-BF", map[int]bool{7: true, 6: false}, false},
			{"value C0-DF", map[int]bool{7: true, 6: true, 5: false}, false},
			{"value E0-FF", map[int]bool{7: true, 6: true, 5: true}, true},
		}
		vs := c.W.ParamSym(c.decoderFn(true), 2)
		for _, k := range cases {
			v := ai.NewSymInt(8, false, vs)
			for b, one := range k.bits {
				v = ai.WithBit(v, b, one)
			}
			w := c.evalDecoder(true, 0xFF46, 0xFF46, nil, v)
			run, runc := boolConst(c.cellBool(w.Post, oam, ".dmaRunning"))
			cy, cyc := constOf(c.cellInt(w.Post, oam, ".dmaCycle"))
			base := c.cellInt(w.Post, oam, ".dmaBaseAddr")
			ok := base != nil && len(base.Bits) >= 16
			for i := 0; ok && i < 16; i++ {
				b := base.Bits[i]
				switch {
				case i < 8:
					ok = b.K == ai.BZero
				case k.bits[i-8] && !(k.mirror && i == 13):
					ok = b.K == ai.BOne
				case !k.bits[i-8] && hasKey(k.bits, i-8):
					ok = b.K == ai.BZero
				case k.mirror && i == 13:
					ok = b.K == ai.BZero || b.K == ai.BOne // E000-FFFF or its image C000-DFFF: the same cells (C06 A-mirror)
				default:
					ok = isSrcBit(b, vs, i-8)
				}
			}
			r.Ob("D-start", runc && run && cyc && cy == 0 && ok, "FF46 write, "+k.name+": transfer (re)starts at cycle 0 from value<<8", hposOf(c, w), fmt.Sprintf("running %v, cycle %s, base %s", run, ai.ValueString(c.cellInt(w.Post, oam, ".dmaCycle")), ai.ValueString(base)))
		}
	}

	// ---- D-block
	for _, iv := range [][2]int{{0xFE00, 0xFE9F}, {0xFEA0, 0xFEFF}} {
		rd := c.evalDecoder(false, iv[0], iv[1], func(st *ai.State) { st.SetCell(oam, ".dmaRunning", ai.NewConstBool(true)) }, nil)
		cv, isc := constOf(rd.Result)
		r.Ob("D-block", isc && cv == 0xFF, fmt.Sprintf("transfer running: read of %04X-%04X returns FF", iv[0], iv[1]), hposOf(c, rd), "reads "+ai.ValueString(rd.Result))
	}

	// ---- D-own
	{
		own := map[string]bool{".dmaRunning": true, ".dmaCycle": true, ".dmaBaseAddr": true, ".dmaRead": true}
		okFns := map[string]bool{}
		w := c.evalDecoder(true, 0xFF46, 0xFF46, nil, nil)
		for _, f := range w.Callees {
			okFns[fnName(f)] = true
		}
		for _, sc := range callsIn(memStep.Blocks) {
			if sc.Callee != nil && recvTypeKey(sc.Callee) == "oam.OAM" {
				okFns[fnName(sc.Callee)] = true
			}
		}
		viol := map[string]string{}
		n := 0
		c.evalAllEntries(ai.Hooks{
			Store: func(_ *ai.State, at ssa.Instruction, p *ai.Ptr, keys []ai.CellKey, _ ai.Value, _ bool) {
				for _, k := range keys {
					if k.Obj == oam.ID && own[k.Path] {
						n++
						if fn := fnName(outerFn(at.Parent())); !okFns[fn] && !c.onStack(okFns) {
							viol[fn+" stores "+k.Path] = c.pos(at)
						}
					}
				}
			},
		}, func(*world.Entry, *ai.State) {})
		for k, pos := range viol {
			r.Ob("D-own", false, k, pos, "the transfer state may be stored only by the FF46 write and the DMA tick")
		}
		r.Ob("D-own", n > 0, "stores to the transfer state examined over every run-phase entry", "", fmt.Sprintf("%d stores", n))
		r.Instances["D-own"] += n
	}
	// the byte copied is the byte stored at the source address, whatever the rest of the machine is doing
	r.Rule("D-source", "a read of a source address in video RAM or work RAM (and its mirror) returns the stored byte in every machine state (no lock-out by PPU mode or anything else), so the transfer copies the source bytes as they are")
	for _, reg := range [][3]interface{}{{0x8000, 0x9FFF, "VRAM"}, {0xC000, 0xDFFF, "WRAM"}, {0xE000, 0xF19F, "WRAM mirror"}} {
		lo, hi := reg[0].(int), reg[1].(int)
		for _, iv := range c.elementaryIntervals() {
			if iv[1] < lo || iv[0] > hi {
				continue
			}
			a, b := iv[0], iv[1]
			if a < lo {
				a = lo
			}
			if b > hi {
				b = hi
			}
			ok, n, got := c.readReturnsLoadedByte(a, b, nil)
			r.Ob("D-source", ok && n == 1, fmt.Sprintf("source read %04X-%04X (%s) returns the stored byte in every state", a, b, reg[2]), "", fmt.Sprintf("element loads %d, value returned %s (documented: exactly the loaded byte)", n, got))
		}
	}
	r.Rule("D-step", "the DMA step is called exactly once per machine cycle by the frame loop, whatever the CPU is doing (rule L2 of C26 re-stated for the mapper step)")
	adopt(r, c.sibling("C26"), map[string]string{"L2": "D-step"}, "a transfer that is not stepped every machine cycle does not take 162 cycles", func(f report.Finding) bool {
		return strings.Contains(f.Construct, "Mapper") || strings.Contains(f.Construct, "floor")
	})
	// a transfer runs only because FF46 was written: the constructed machine starts with none
	{
		b, isc := boolConst(c.cellBool(c.W.It.StateOn(c.W.InitHeap), oam, ".dmaRunning"))
		r.Ob("D-idle", isc && !b, "no transfer is running in the machine gameboy.New returns", "", fmt.Sprintf("running flag after construction: %s (documented: a transfer starts only when FF46 is written)", ai.ValueString(c.cellBool(c.W.It.StateOn(c.W.InitHeap), oam, ".dmaRunning"))))
	}
	r.Rule("D-inst", "the DMA unit, its bus reader included, belongs to its machine: nothing in package oam that New or the run phase writes is package-level (rule G2 of C25 restricted to package oam)")
	adopt(r, c.sibling("C25"), map[string]string{"G2": "D-inst"}, "a transfer that reads through another machine's bus copies that machine's bytes", func(f report.Finding) bool {
		return strings.Contains(f.Construct, "oam.") || strings.Contains(f.Where, "gameboy/oam/")
	})
	return r
}

func hasKey(m map[int]bool, k int) bool {
	_, ok := m[k]
	return ok
}
