package checks

import (
	"fmt"
	"go/constant"
	"go/token"
	"go/types"
	"sort"
	"strings"

	"golang.org/x/tools/go/ssa"

	"verif/sa/internal/ai"
)

// exprString renders an SSA value as a canonical expression over constants,
// parameters and field loads ("recv.a.b"); calls are rendered by callee name.
// It is used to compare the *shape* of a guard with a documented one after
// constant folding (the spelling of the source does not matter).
func exprString(v ssa.Value) string { return exprStringD(v, 0) }

func exprStringD(v ssa.Value, depth int) string {
	if depth > 12 {
		return "..."
	}
	switch x := v.(type) {
	case *ssa.Const:
		if x.Value == nil {
			return "nil"
		}
		if x.Value.Kind() == constant.Int {
			if i, ok := constant.Int64Val(x.Value); ok {
				return fmt.Sprint(i)
			}
		}
		return x.Value.ExactString()
	case *ssa.Parameter:
		return x.Name()
	case *ssa.FreeVar:
		return x.Name()
	case *ssa.BinOp:
		return "(" + exprStringD(x.X, depth+1) + " " + x.Op.String() + " " + exprStringD(x.Y, depth+1) + ")"
	case *ssa.UnOp:
		switch x.Op {
		case token.MUL:
			return exprStringD(x.X, depth+1)
		case token.NOT:
			return "!" + exprStringD(x.X, depth+1)
		case token.ARROW:
			return "<-" + exprStringD(x.X, depth+1)
		}
		return x.Op.String() + exprStringD(x.X, depth+1)
	case *ssa.FieldAddr:
		st := x.X.Type().Underlying().(*types.Pointer).Elem().Underlying().(*types.Struct)
		return exprStringD(x.X, depth+1) + "." + st.Field(x.Field).Name()
	case *ssa.Field:
		st := x.X.Type().Underlying().(*types.Struct)
		return exprStringD(x.X, depth+1) + "." + st.Field(x.Field).Name()
	case *ssa.IndexAddr:
		return exprStringD(x.X, depth+1) + "[" + exprStringD(x.Index, depth+1) + "]"
	case *ssa.Index:
		return exprStringD(x.X, depth+1) + "[" + exprStringD(x.Index, depth+1) + "]"
	case *ssa.Convert:
		return exprStringD(x.X, depth+1)
	case *ssa.ChangeType:
		return exprStringD(x.X, depth+1)
	case *ssa.Call:
		if fn := x.Common().StaticCallee(); fn != nil {
			var as []string
			for _, a := range x.Common().Args {
				as = append(as, exprStringD(a, depth+1))
			}
			return fn.Name() + "(" + strings.Join(as, ",") + ")"
		}
		return "call?"
	case *ssa.Phi:
		var es []string
		for _, e := range x.Edges {
			es = append(es, exprStringD(e, depth+3))
		}
		return "phi(" + strings.Join(es, "|") + ")"
	case *ssa.Global:
		return x.Name()
	case *ssa.Alloc:
		return "local:" + x.Comment
	}
	return fmt.Sprintf("<%T>", v)
}

// guardsOf renders the conditions a block is (transitively) control dependent on
// within its function: "cond" for the true branch, "!cond" for the false branch.
func (c *Ctx) guardsOf(b *ssa.BasicBlock) []string {
	fn := b.Parent()
	tcd := c.W.It.TransitiveControlDeps(fn)
	var out []string
	for _, d := range tcd[b] {
		s := exprString(d.If.Cond)
		if !d.Branch {
			s = "!" + s
		}
		out = append(out, s)
	}
	sort.Strings(out)
	return out
}

// callersOf lists the static call sites of fn in repository code.
func (c *Ctx) callersOf(fn *ssa.Function) []staticCall {
	var out []staticCall
	for _, f := range c.P.Funcs {
		if !isRepoFn(f) {
			continue
		}
		for _, sc := range callsIn(f.Blocks) {
			if sc.Callee == fn {
				out = append(out, sc)
			}
		}
		// bound-method values / closures referring to fn count as unknown call sites
		for _, b := range f.Blocks {
			for _, ins := range b.Instrs {
				if _, isCall := ins.(ssa.CallInstruction); isCall {
					continue
				}
				for _, op := range ins.Operands(nil) {
					if g, ok := (*op).(*ssa.Function); ok && g == fn {
						out = append(out, staticCall{At: ins, Callee: fn, Name: "value-use"})
					}
				}
			}
		}
	}
	return out
}

// sendsIn lists the channel sends of a function.
func sendsIn(fn *ssa.Function) []*ssa.Send {
	var out []*ssa.Send
	for _, b := range fn.Blocks {
		for _, ins := range b.Instrs {
			if s, ok := ins.(*ssa.Send); ok {
				out = append(out, s)
			}
		}
	}
	return out
}

// objectsOfType returns all machine objects of a type.
func (c *Ctx) objectsOfType(key string) []*ai.Object { return c.W.ObjByType[key] }

// groupOf maps every object reachable through pointer cells from root (within the
// machine) to root: used to treat a channel and its embedded sub-objects as one.
func (c *Ctx) reachableObjects(root *ai.Object) map[int]bool {
	out := map[int]bool{}
	st := c.W.It.StateOn(c.W.Generic)
	var walk func(o *ai.Object)
	walk = func(o *ai.Object) {
		if o == nil || out[o.ID] {
			return
		}
		out[o.ID] = true
		for _, v := range st.RawCells(o) {
			switch x := v.(type) {
			case *ai.Ptr:
				walk(x.Obj)
			case *ai.Slice:
				walk(x.Obj)
			}
		}
	}
	walk(root)
	return out
}

// onStack reports whether one of the functions named in allowed (by short name) is on the
// interpreter's call stack: ownership rules ask "is this store made on behalf of routine X",
// not "is the store textually inside X", so extracting a helper does not change the verdict.
func (c *Ctx) onStack(allowed map[string]bool) bool {
	for _, f := range c.W.It.Stack {
		if allowed[fnName(f)] || allowed[fnName(unwrapBound(f))] || allowed[fnName(outerFn(f))] {
			return true
		}
	}
	return false
}
