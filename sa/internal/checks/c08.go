package checks

import (
	"fmt"
	"go/types"
	"os"
	"sort"
	"strings"

	"golang.org/x/tools/go/ssa"

	"verif/sa/internal/ai"
	"verif/sa/internal/report"
	"verif/sa/internal/world"
)

func init() {
	register("C08", checkC08)
}

// cartEnv prepares evaluations for one cartridge controller with fixed ROM/RAM sizes.
type cartEnv struct {
	c    *Ctx
	cell string
	ct   *Cart
	rom  *ai.Slice
	rams []*ai.Slice
}

func (c *Ctx) cartEnvs() (map[string]*cartEnv, string) {
	cell, carts, _ := c.carts()
	out := map[string]*cartEnv{}
	st := c.W.It.StateOn(c.W.Generic)
	for _, ct := range carts {
		if ct.Obj == nil {
			continue
		}
		env := &cartEnv{c: c, cell: cell, ct: ct}
		for path, v := range st.RawCells(ct.Obj) {
			switch path {
			case ".rom":
				env.rom, _ = v.(*ai.Slice)
			case ".ram":
				switch x := v.(type) {
				case *ai.Slice:
					env.rams = append(env.rams, x)
				case *ai.Multi:
					for _, a := range x.Alts {
						if s, ok := a.(*ai.Slice); ok {
							env.rams = append(env.rams, s)
						}
					}
				}
			}
		}
		out[ct.Name] = env
	}
	return out, cell
}

// setup fixes the controller, the number of ROM pages and (optionally) the RAM with the given bank count.
func (e *cartEnv) setup(romPages int64, ramBanks int64, more func(*ai.State)) func(*ai.State) {
	return e.c.withCart(e.cell, e.ct, func(st *ai.State) {
		if e.rom != nil && romPages > 0 {
			s := *e.rom
			s.Len = ai.NewConstInt(e.rom.Len.W, e.rom.Len.Signed, romPages)
			st.SetCell(e.ct.Obj, ".rom", &s)
		}
		if ramBanks > 0 {
			for _, ram := range e.rams {
				if n, ok := ram.Len.Const(); ok && n == ramBanks {
					st.SetCell(e.ct.Obj, ".ram", ram)
					break
				}
			}
		}
		if more != nil {
			more(st)
		}
	})
}

// bankIndex returns the first-level index used on the rom (or ram) storage by an evaluation, and the offset index.
func bankIndex(ev *DecEval, storage *ai.Object) (bank, off *ai.Int, n int) {
	for _, e := range ev.Elems {
		if e.Obj != storage {
			continue
		}
		n++
		if !strings.Contains(e.Path, "[") {
			bank = e.Idx
		} else {
			off = e.Idx
		}
	}
	return
}

// bitSpec describes where each bit of a bank number must come from: a written
// value bit (sym, index), a constant, or anything (nil).
type bitSpec struct {
	Const int // 0/1, or -1
	Sym   ai.Sym
	J     int
}

func specString(sp []bitSpec, it *ai.Interp) string {
	var parts []string
	for i := len(sp) - 1; i >= 0; i-- {
		switch {
		case sp[i].Const >= 0:
			parts = append(parts, fmt.Sprint(sp[i].Const))
		default:
			parts = append(parts, fmt.Sprintf("%s.%d", it.SymName(sp[i].Sym), sp[i].J))
		}
	}
	return strings.Join(parts, " ")
}

func matchBits(v *ai.Int, sp []bitSpec) bool {
	if v == nil {
		return false
	}
	for i := 0; i < len(v.Bits); i++ {
		want := bitSpec{Const: 0}
		if i < len(sp) {
			want = sp[i]
		}
		b := v.Bits[i]
		switch {
		case want.Const == 0:
			if b.K != ai.BZero {
				return false
			}
		case want.Const == 1:
			if b.K != ai.BOne {
				return false
			}
		default:
			if !isSrcBit(b, want.Sym, want.J) {
				return false
			}
		}
	}
	return true
}

func log2(n int64) int {
	k := 0
	for (int64(1) << uint(k)) < n {
		k++
	}
	return k
}

var romSizes = []int64{2, 4, 8, 16, 32, 64, 128, 256, 512}

func checkC08(c *Ctx) *report.Result {
	r := report.New("C08", "other", "abstract interpretation of the decoder per controller and per ROM size: control writes composed symbolically, then the bank index used by the windowed reads is compared bit for bit (provenance of the written register bits, reduced modulo a power-of-two size) with the documented bank number; constructor decision table over the header byte; who-may-write analysis of ROM storage")
	r.Explanation = "For every controller the constructor can return and every declared ROM size (2..512 banks) the check composes the controller's control writes with symbolic values (case split only where the documented function is not bitwise: the 0-to-1 remap) and then evaluates a read of 0000-3FFF and of 4000-7FFF: the element accessed must be rom[bank][addr - window base] with the bank index equal, bit for bit, to the documented bank number reduced modulo the number of banks (bits below log2(size) are the documented register bits, all higher bits 0). Both write orders are composed where two registers form the number (MBC1 BANK1/BANK2/mode, MBC5 low/high). MBC2's A8 decode is evaluated with address bit 8 fixed. The constructor is evaluated for each of the 256 cartridge-type bytes and must return the documented controller or refuse. No run-phase entry stores into any ROM storage."
	r.Rule("K-type", "constructor: header byte 0x147 -> none / MBC1 / MBC2 / MBC3 / MBC5 exactly as documented, every other type refused")
	r.Rule("K-bank", "4000-7FFF reads rom[documented bank number mod size][addr-0x4000]; 0000-3FFF reads rom[0][addr] (MBC1 mode 1: rom[(BANK2<<5) mod size][addr]) for every ROM size and both write orders")
	r.Rule("K-remap", "0-to-1 remap: a write whose bank field is all zero selects bank 1 (MBC1 5-bit field, MBC2, MBC3); MBC5 bank 0 stays 0")
	r.Rule("K-map", "control writes: only the documented address ranges (and A8 value for MBC2) change the selected bank; ROM-only ignores all writes")
	r.Rule("K-rom", "no run-phase store targets ROM storage")
	r.NotDecided = []string{"MBC1 multicart wiring", "ROM sizes that are not powers of two (refused by the constructor)", "contents of the image (the copy made by the constructor)"}
	r.TrustedBase = []string{"documented controller table (Pan Docs / property statement)", "go/ssa, abstract interpreter (bit provenance; x % 2^k keeps the low k bits)"}
	it := c.W.It
	envs, _ := c.cartEnvs()
	for _, name := range cartKinds {
		if envs[name] == nil || envs[name].rom == nil {
			r.Fail("unresolved", "K-bank", "controller "+name, "", "the constructed machine has no such controller alternative with ROM storage")
			return r
		}
	}
	vsym := c.W.ParamSym(c.decoderFn(true), 2)
	// fresh written values: distinct symbols per write
	newV := func(tag string) (*ai.Int, ai.Sym) {
		s := it.NewSym("written:"+tag, ai.CellKey{})
		return ai.NewSymInt(8, false, s), s
	}
	_ = vsym
	src := func(s ai.Sym, j int) bitSpec { return bitSpec{Const: -1, Sym: s, J: j} }
	k0, k1 := bitSpec{Const: 0}, bitSpec{Const: 1}
	reduce := func(sp []bitSpec, pages int64) []bitSpec {
		n := log2(pages)
		out := make([]bitSpec, len(sp))
		for i := range sp {
			if i < n {
				out[i] = sp[i]
			} else {
				out[i] = k0
			}
		}
		return out
	}
	type write struct {
		addr int
		v    ai.Value
	}
	// runs a sequence of control writes then reads lo..hi; returns the read evaluation
	compose := func(env *cartEnv, pages int64, ws []write, lo, hi int, more func(*ai.State)) *DecEval {
		var st *ai.State
		for i, w := range ws {
			var ev *DecEval
			if i == 0 {
				ev = c.evalDecoder(true, w.addr, w.addr, env.setup(pages, 0, more), w.v)
			} else {
				ev = c.evalDecoderFrom(st, true, w.addr, w.addr, nil, w.v)
			}
			if ev.Post == nil {
				return ev
			}
			st = ev.Post
		}
		if st == nil {
			return c.evalDecoder(false, lo, hi, env.setup(pages, 0, more), nil)
		}
		return c.evalDecoderFrom(st, false, lo, hi, nil, nil)
	}
	checkRead := func(rule, name string, env *cartEnv, ev *DecEval, want []bitSpec, base int) {
		bank, off, n := bankIndex(ev, env.rom.Obj)
		where := ""
		if len(ev.Callees) > 0 {
			where = firstPos(c, ev.Callees[len(ev.Callees)-1])
		}
		if len(ev.Undecided) > 0 || ev.Post == nil {
			r.Fail("undecided", rule, name, where, strings.Join(ev.Undecided, "; "))
			return
		}
		offv, offok := addrOffset(off, ev.AddrSym, ev.Lo, ev.Hi)
		okOff := offok && offv == -int64(base)
		if want == nil {
			// bank must be the constant 0
			cv, isc := constOf(bank)
			r.Ob(rule, n == 2 && isc && cv == 0 && okOff, name, where, fmt.Sprintf("reads rom[%s][%s]; documented rom[0][addr-%#x]", ai.ValueString(bank), ai.ValueString(off), base))
			return
		}
		r.Ob(rule, n == 2 && matchBits(bank, want) && okOff, name, where, fmt.Sprintf("reads rom[%s][%s]; documented bank bits (msb first) %s, offset addr-%#x", ai.ValueString(bank), ai.ValueString(off), specString(want, it), base))
	}

	for _, pages := range romSizes {
		sz := fmt.Sprintf("%d banks", pages)
		// ---------------- ROM only
		{
			env := envs["none"]
			if pages == 2 {
				ev := compose(env, pages, nil, 0x0000, 0x3FFF, nil)
				checkRead("K-bank", "ROM only: 0000-3FFF", env, ev, nil, 0)
				ev = compose(env, pages, nil, 0x4000, 0x7FFF, nil)
				checkRead("K-bank", "ROM only: 4000-7FFF", env, ev, []bitSpec{k1}, 0x4000)
				w := c.evalDecoder(true, 0x0000, 0x7FFF, env.setup(pages, 0, nil), nil)
				r.Ob("K-map", len(w.Stores) == 0, "ROM only: writes to 0000-7FFF change nothing", "", fmt.Sprintf("stores %v", keysOf(w.Stores)))
			}
		}
		// ---------------- MBC1
		{
			env := envs["mbc1"]
			for _, order := range [][]int{{0, 1, 2}, {2, 1, 0}, {1, 0, 2}} {
				for _, mode := range []int{0, 1} {
					for _, zero := range []bool{false, true} {
						v1, s1 := newV("bank1")
						v2, s2 := newV("bank2")
						if zero {
							for i := 0; i < 5; i++ {
								v1 = ai.WithBit(v1, i, false)
							}
						} else {
							// the field is non-zero: split on which bit is known set (5 sub-cases)
						}
						sub := []int{-1}
						if !zero {
							sub = []int{0, 1, 2, 3, 4}
						}
						for _, setBit := range sub {
							vv1 := v1
							if setBit >= 0 {
								vv1 = ai.WithBit(v1, setBit, true)
							}
							vm := ai.WithBit(ai.NewSymInt(8, false, it.NewSym("written:mode", ai.CellKey{})), 0, mode == 1)
							ws3 := []write{{0x2000, vv1}, {0x4000, v2}, {0x6000, vm}}
							var ws []write
							for _, i := range order {
								ws = append(ws, ws3[i])
							}
							want := make([]bitSpec, 7)
							for i := 0; i < 5; i++ {
								switch {
								case zero:
									want[i] = k0
									if i == 0 {
										want[i] = k1
									}
								case i == setBit:
									want[i] = k1
								default:
									want[i] = src(s1, i)
								}
							}
							want[5], want[6] = src(s2, 0), src(s2, 1)
							tag := fmt.Sprintf("MBC1 %s, write order %v, mode %d, BANK1 %s", sz, order, mode, map[bool]string{true: "field zero", false: fmt.Sprintf("bit %d set", setBit)}[zero])
							ev := compose(env, pages, ws, 0x4000, 0x7FFF, nil)
							rule := "K-bank"
							if zero {
								rule = "K-remap"
							}
							checkRead(rule, tag+": 4000-7FFF", env, ev, reduce(want, pages), 0x4000)
							if setBit <= 0 {
								ev = compose(env, pages, ws, 0x0000, 0x3FFF, nil)
								if mode == 0 {
									checkRead("K-bank", tag+": 0000-3FFF", env, ev, nil, 0)
								} else {
									low := []bitSpec{k0, k0, k0, k0, k0, src(s2, 0), src(s2, 1)}
									checkRead("K-bank", tag+": 0000-3FFF", env, ev, reduce(low, pages), 0)
								}
							}
						}
					}
				}
			}
		}
		// ---------------- MBC2
		{
			env := envs["mbc2"]
			for _, zero := range []bool{false, true} {
				sub := []int{-1}
				if !zero {
					sub = []int{0, 1, 2, 3}
				}
				for _, setBit := range sub {
					v, s := newV("romb")
					want := make([]bitSpec, 4)
					for i := 0; i < 4; i++ {
						switch {
						case zero:
							v = ai.WithBit(v, i, false)
							want[i] = k0
							if i == 0 {
								want[i] = k1
							}
						case i == setBit:
							v = ai.WithBit(v, i, true)
							want[i] = k1
						default:
							want[i] = src(s, i)
						}
					}
					// any address in 0000-3FFF with A8 set
					a8 := func(set bool) *DecEval {
						addr, _ := c.addrValue(0x0000, 0x3FFF)
						addr = ai.WithBit(addr, 8, set)
						fn := c.decoderFn(true)
						st := it.StateOn(c.W.Generic)
						env.setup(pages, 0, nil)(st)
						return c.evalCall(st, fn, []ai.Value{c.mapperPtr(), addr, v}, nil, nil)
					}
					w := a8(true)
					tag := fmt.Sprintf("MBC2 %s, bank field %s", sz, map[bool]string{true: "zero", false: fmt.Sprintf("bit %d set", setBit)}[zero])
					rd := c.evalDecoderFrom(w.Post, false, 0x4000, 0x7FFF, nil, nil)
					rule := "K-bank"
					if zero {
						rule = "K-remap"
					}
					checkRead(rule, tag+" (write with A8 set): 4000-7FFF", env, rd, reduce(want, pages), 0x4000)
					if setBit <= 0 {
						rd = c.evalDecoderFrom(w.Post, false, 0x0000, 0x3FFF, nil, nil)
						checkRead("K-bank", tag+": 0000-3FFF", env, rd, nil, 0)
						// A8 clear: the bank register is untouched
						w0 := a8(false)
						touched := false
						for _, p := range c.storedCellsOf(w0, env.ct.Obj) {
							if strings.Contains(strings.ToLower(p), "bank") {
								touched = true
							}
						}
						r.Ob("K-map", !touched, tag+": a write with A8 clear leaves the bank register alone", "", fmt.Sprintf("stores %v", c.storedCellsOf(w0, env.ct.Obj)))
					}
				}
			}
		}
		// ---------------- MBC3
		{
			env := envs["mbc3"]
			for _, zero := range []bool{false, true} {
				sub := []int{-1}
				if !zero {
					sub = []int{0, 1, 2, 3, 4, 5, 6}
				}
				for _, setBit := range sub {
					v, s := newV("romb")
					want := make([]bitSpec, 7)
					for i := 0; i < 7; i++ {
						switch {
						case zero:
							v = ai.WithBit(v, i, false)
							want[i] = k0
							if i == 0 {
								want[i] = k1
							}
						case i == setBit:
							v = ai.WithBit(v, i, true)
							want[i] = k1
						default:
							want[i] = src(s, i)
						}
					}
					tag := fmt.Sprintf("MBC3 %s, bank field %s", sz, map[bool]string{true: "zero", false: fmt.Sprintf("bit %d set", setBit)}[zero])
					ev := compose(env, pages, []write{{0x2000, v}}, 0x4000, 0x7FFF, nil)
					rule := "K-bank"
					if zero {
						rule = "K-remap"
					}
					checkRead(rule, tag+": 4000-7FFF", env, ev, reduce(want, pages), 0x4000)
					if setBit <= 0 {
						ev = compose(env, pages, []write{{0x3FFF, v}}, 0x0000, 0x3FFF, nil)
						checkRead("K-bank", tag+": 0000-3FFF", env, ev, nil, 0)
					}
				}
			}
		}
		// ---------------- MBC5
		{
			env := envs["mbc5"]
			for _, order := range [][]int{{0, 1}, {1, 0}} {
				vl, sl := newV("romb-low")
				vh, sh := newV("romb-high")
				ws2 := []write{{0x2000, vl}, {0x3000, vh}}
				ws := []write{ws2[order[0]], ws2[order[1]]}
				want := make([]bitSpec, 9)
				for i := 0; i < 8; i++ {
					want[i] = src(sl, i)
				}
				want[8] = src(sh, 0)
				tag := fmt.Sprintf("MBC5 %s, write order %v", sz, order)
				ev := compose(env, pages, ws, 0x4000, 0x7FFF, nil)
				checkRead("K-bank", tag+": 4000-7FFF", env, ev, reduce(want, pages), 0x4000)
				ev = compose(env, pages, ws, 0x0000, 0x3FFF, nil)
				checkRead("K-bank", tag+": 0000-3FFF", env, ev, nil, 0)
			}
			// bank 0 is allowed
			z := ai.NewConstInt(8, false, 0)
			ev := compose(env, pages, []write{{0x2000, z}, {0x3000, z}}, 0x4000, 0x7FFF, nil)
			checkRead("K-remap", fmt.Sprintf("MBC5 %s, bank 0 selected stays 0: 4000-7FFF", sz), env, ev, nil, 0x4000)
		}
	}

	// ---- K-init: the constructed controller. The compositions above start from any register state and write every
	// register that forms the bank number; here the start is the state the constructor leaves (every scalar cell that
	// is constant in the constructed machine) and at most one register is written, so the registers not written
	// contribute their power-on values.
	r.Rule("K-init", "from the constructed controller: 4000-7FFF shows bank 1 and 0000-3FFF bank 0 before any write; a write to just one bank register combines with the power-on value of the other (MBC5 high bit alone: bank 1 or 0x101; MBC1 BANK2 alone: BANK2<<5 | 1), for every ROM size")
	{
		initSt := it.StateOn(c.W.InitHeap)
		powerOn := func(env *cartEnv) (func(*ai.State), int) {
			type kv struct {
				p string
				v ai.Value
			}
			var cells []kv
			// (cells the constructor leaves at their zero value are absent from the constructed heap: read them through
			// the typed accessors, which give the zero value)
			for p, v := range it.StateOn(c.W.Generic).RawCells(env.ct.Obj) {
				switch v.(type) {
				case *ai.Int:
					if x := c.cellInt(initSt, env.ct.Obj, p); x != nil {
						if _, isc := x.Const(); isc {
							cells = append(cells, kv{p, x})
						}
					}
				case *ai.Bool:
					if x := c.cellBool(initSt, env.ct.Obj, p); x != nil {
						if _, isc := x.Const(); isc {
							cells = append(cells, kv{p, x})
						}
					}
				}
			}
			return func(st *ai.State) {
				for _, k := range cells {
					st.SetCell(env.ct.Obj, k.p, k.v)
				}
			}, len(cells)
		}
		for _, name := range []string{"mbc1", "mbc2", "mbc3", "mbc5"} {
			env := envs[name]
			po, ncells := powerOn(env)
			if ncells == 0 {
				r.Fail("unresolved", "K-init", name, "", "no scalar cell of the controller is constant in the constructed machine")
				continue
			}
			for _, pages := range romSizes {
				sz := fmt.Sprintf("%s %d banks", strings.ToUpper(name), pages)
				if name != "mbc1" {
					// (MBC1 precomputes its two windows from the registers and the ROM size inside the constructor; with the
					// size symbolic there the precomputed cells are not constants, so its first read is decided through the
					// single-register writes below, which recompute both windows from the power-on registers)
					ev := compose(env, pages, nil, 0x4000, 0x7FFF, po)
					checkRead("K-init", sz+", no write yet: 4000-7FFF", env, ev, []bitSpec{k1}, 0x4000)
					ev = compose(env, pages, nil, 0x0000, 0x3FFF, po)
					checkRead("K-init", sz+", no write yet: 0000-3FFF", env, ev, nil, 0)
				}
				switch name {
				case "mbc5":
					vh, sh := newV("romb-high")
					want := []bitSpec{k1, k0, k0, k0, k0, k0, k0, k0, src(sh, 0)}
					ev := compose(env, pages, []write{{0x3000, vh}}, 0x4000, 0x7FFF, po)
					checkRead("K-init", sz+", only the high bit written: 4000-7FFF", env, ev, reduce(want, pages), 0x4000)
					vl, sl := newV("romb-low")
					want = make([]bitSpec, 9)
					for i := 0; i < 8; i++ {
						want[i] = src(sl, i)
					}
					want[8] = k0
					ev = compose(env, pages, []write{{0x2000, vl}}, 0x4000, 0x7FFF, po)
					checkRead("K-init", sz+", only the low byte written: 4000-7FFF", env, ev, reduce(want, pages), 0x4000)
				case "mbc1":
					v2, s2 := newV("bank2")
					want := []bitSpec{k1, k0, k0, k0, k0, src(s2, 0), src(s2, 1)}
					ev := compose(env, pages, []write{{0x4000, v2}}, 0x4000, 0x7FFF, po)
					checkRead("K-init", sz+", only BANK2 written: 4000-7FFF", env, ev, reduce(want, pages), 0x4000)
					ev = compose(env, pages, []write{{0x4000, v2}}, 0x0000, 0x3FFF, po)
					checkRead("K-init", sz+", only BANK2 written (mode 0 at power-on): 0000-3FFF", env, ev, nil, 0)
					for _, mode := range []int{0, 1} {
						vm := ai.WithBit(ai.NewSymInt(8, false, it.NewSym("written:mode", ai.CellKey{})), 0, mode == 1)
						ev = compose(env, pages, []write{{0x6000, vm}}, 0x4000, 0x7FFF, po)
						checkRead("K-init", fmt.Sprintf("%s, only the mode written (%d): 4000-7FFF", sz, mode), env, ev, []bitSpec{k1}, 0x4000)
						ev = compose(env, pages, []write{{0x6000, vm}}, 0x0000, 0x3FFF, po)
						checkRead("K-init", fmt.Sprintf("%s, only the mode written (%d): 0000-3FFF", sz, mode), env, ev, nil, 0)
					}
					for setBit := 0; setBit < 5; setBit++ {
						v1, s1 := newV("bank1")
						v1 = ai.WithBit(v1, setBit, true)
						want := make([]bitSpec, 7)
						for i := 0; i < 5; i++ {
							want[i] = src(s1, i)
						}
						want[setBit] = k1
						want[5], want[6] = k0, k0
						ev = compose(env, pages, []write{{0x2000, v1}}, 0x4000, 0x7FFF, po)
						checkRead("K-init", fmt.Sprintf("%s, only BANK1 written (bit %d set): 4000-7FFF", sz, setBit), env, ev, reduce(want, pages), 0x4000)
					}
				}
			}
		}
	}

	// ---- K-map: which address intervals store to which controller cells (per controller, 8 banks)
	for _, name := range []string{"mbc1", "mbc2", "mbc3", "mbc5"} {
		env := envs[name]
		// the cells a read of the ROM windows depends on (besides storage)
		rd := c.evalDecoder(false, 0x0000, 0x7FFF, env.setup(8, 0, nil), nil)
		bankCells := map[string]bool{}
		for k := range rd.Loads {
			bankCells[k] = true
		}
		for _, iv := range c.elementaryIntervals() {
			if iv[0] >= 0x8000 && !(iv[0] >= 0xA000 && iv[1] <= 0xBFFF) {
				// outside the cartridge: must not touch the controller at all
				w := c.evalDecoder(true, iv[0], iv[1], env.setup(8, 0, nil), nil)
				r.Ob("K-map", len(c.storedCellsOf(w, env.ct.Obj)) == 0, fmt.Sprintf("%s: write %04X-%04X leaves the controller alone", name, iv[0], iv[1]), "", fmt.Sprintf("stores %v", c.storedCellsOf(w, env.ct.Obj)))
				continue
			}
			if iv[0] >= 0xA000 {
				w := c.evalDecoder(true, iv[0], iv[1], env.setup(8, 0, nil), nil)
				var hit []string
				for k := range w.Stores {
					if bankCells[k] && !strings.Contains(k, "[") {
						hit = append(hit, k)
					}
				}
				sort.Strings(hit)
				r.Ob("K-map", len(hit) == 0, fmt.Sprintf("%s: write %04X-%04X (RAM window) leaves the ROM bank registers alone", name, iv[0], iv[1]), "", fmt.Sprintf("stores %v", hit))
			}
		}
	}

	// ---- K-type
	c.checkCartTypes(r)

	// ---- K-rom
	{
		romObjs := map[*ai.Object]bool{}
		for _, env := range envs {
			if env.rom != nil {
				romObjs[env.rom.Obj] = true
			}
		}
		viol := map[string]string{}
		n := 0
		c.evalAllEntries(ai.Hooks{
			Store: func(_ *ai.State, at ssa.Instruction, p *ai.Ptr, _ []ai.CellKey, _ ai.Value, _ bool) {
				n++
				if p != nil && romObjs[p.Obj] {
					viol["store into ROM storage in "+fnName(outerFn(at.Parent()))] = c.pos(at)
				}
			},
		}, func(*world.Entry, *ai.State) {})
		for k, pos := range viol {
			r.Ob("K-rom", false, k, pos, "a run-phase store targets the ROM image")
		}
		r.Ob("K-rom", n > 0 && len(romObjs) > 0, "run-phase stores examined against ROM storage", "", fmt.Sprintf("%d stores, %d ROM storage objects", n, len(romObjs)))
		r.Instances["K-rom"] += n
	}
	r.Rule("K-own", "the ROM image a controller serves is its own: nothing in package memory that New or the run phase writes is package-level (rule G2 of C25 restricted to package memory)")
	adopt(r, c.sibling("C25"), map[string]string{"G2": "K-own"}, "ROM storage shared between machines lets one machine's cartridge overwrite what another machine reads at 0000-7FFF", func(f report.Finding) bool {
		return strings.Contains(f.Construct, "memory.") || strings.Contains(f.Where, "gameboy/memory/")
	})
	return r
}

// checkCartTypes evaluates the controller constructor for every cartridge-type byte.
func (c *Ctx) checkCartTypes(r *report.Result) {
	it := c.W.It
	fn := c.P.Func("gameboy/memory", "newMBC")
	if fn == nil {
		r.Fail("unresolved", "K-type", "controller constructor", "", "memory.newMBC not found")
		return
	}
	want := func(t int) string {
		switch {
		case t == 0x00:
			return "none"
		case t >= 0x01 && t <= 0x03:
			return "mbc1"
		case t == 0x05 || t == 0x06:
			return "mbc2"
		case t >= 0x0F && t <= 0x13:
			return "mbc3"
		case t >= 0x19 && t <= 0x1E:
			return "mbc5"
		}
		return ""
	}
	var bad []string
	n := 0
	for t := 0; t < 256; t++ {
		st := it.StateOn(c.W.PkgInitHeap)
		// the image: a symbolic byte slice of 32 KiB whose header bytes are fixed by the override below
		it.Hooks = ai.Hooks{
			LoadOverride: func(_ *ai.State, at ssa.Instruction, p *ai.Ptr, v ai.Value) (ai.Value, bool) {
				if p == nil {
					return nil, false
				}
				if os.Getenv("GBDEBUG") == "c08" && t == 0 {
					fmt.Printf("load %s path=%q idx=%d %s\n", p.Obj.Name, p.Path, len(p.Idx), c.pos(at))
				}
				cv, isc := int64(-1), false
				if len(p.Idx) == 1 && p.Idx[0] != nil {
					cv, isc = p.Idx[0].Const()
				} else if len(p.Idx) == 0 && strings.HasSuffix(p.Path, "]") {
					if i := strings.LastIndex(p.Path, "["); i >= 0 {
						if _, err := fmt.Sscan(p.Path[i+1:len(p.Path)-1], &cv); err == nil {
							isc = true
						}
					}
				}
				if u, ok := at.(*ssa.UnOp); ok && !isc {
					if ia, ok := u.X.(*ssa.IndexAddr); ok {
						if k, ok := ia.Index.(*ssa.Const); ok && k.Value != nil {
							cv, isc = k.Int64(), true
						}
					}
				}
				if isc {
					switch cv {
					case 0x0147:
						return ai.NewConstInt(8, false, int64(t)), true
					case 0x0148:
						return ai.NewConstInt(8, false, 0), true
					case 0x0149:
						return ai.NewConstInt(8, false, 0), true
					}
				}
				return nil, false
			},
		}
		args := []ai.Value{c.symbolicImage(0x8000), nil}
		full := make([]ai.Value, len(fn.Params))
		for i, p := range fn.Params {
			if i < len(args) && args[i] != nil {
				full[i] = args[i]
			} else {
				full[i] = c.W.ParamValue(fn, i, p.Type())
			}
		}
		res, post := it.CallFunction(st, fn, full, nil)
		it.Hooks = ai.Hooks{}
		n++
		got := ""
		if post != nil {
			got = altName(res)
		}
		if got != want(t) {
			if len(bad) < 6 {
				bad = append(bad, fmt.Sprintf("type %02X: constructor gives %q, documented %q", t, got, want(t)))
			}
		}
	}
	r.Ob("K-type", len(bad) == 0, "controller selection table (256 cartridge types)", firstPos(c, fn), strings.Join(bad, "; "))
	r.Instances["K-type"] += n
	r.Sample(map[string]interface{}{"rule": "K-type", "types_evaluated": n})
}

// symbolicImage returns a byte slice value of the given constant length with unknown contents.
func (c *Ctx) symbolicImage(n int64) ai.Value {
	it := c.W.It
	o := it.NewObject("rom-image", types.NewArray(types.Typ[types.Uint8], n), ai.ModeSym)
	return &ai.Slice{Obj: o, Path: "", Off: ai.NewConstInt(64, true, 0), Len: ai.NewConstInt(64, true, n), Elem: types.Typ[types.Uint8]}
}
