package checks

import (
	"fmt"
	"strings"

	"golang.org/x/tools/go/ssa"

	"verif/sa/internal/ai"
	"verif/sa/internal/report"
	"verif/sa/internal/world"
)

func init() {
	register("C12", checkC12)
}

func checkC12(c *Ctx) *report.Result {
	r := report.New("C12", "other", "abstract interpretation of the timer's per-cycle routine and register handlers: affine form of the divider, decision table of the edge detector over (TAC select, TAC enable, previous detector output, selected divider bit after the step) with the rest of the divider symbolic, and symbolic composition of the overflow / reload window through the public handlers only (overflow cycle, cycle A, cycle B, with and without TIMA/TMA/DIV writes in between), dependence (non-interference) of the reload on the divider")
	r.Explanation = "The timer is one per-machine-cycle routine plus eight register handlers. (div) DIV reads bits 15-8 of the divider bit for bit, the per-cycle routine adds exactly 4 to it on every path, and a DIV write leaves it 0 whatever is written and stores nothing else. (edge) The per-cycle routine is evaluated for the 4 TAC selects x enable x previous detector output x value of the selected divider bit after the +4 (low divider bits fixed so that the bit is known, all higher bits symbolic): TIMA advances by exactly one iff the previous output was 1 and (enable AND selected bit) is now 0 - whatever made it 0, so edges caused by DIV or TAC writes count - and otherwise keeps its value; the selected bits are 9/3/5/7; the detector output is stored as enable AND bit. (overflow) With TIMA = FF a counted edge leaves TIMA = 00 and returns the interrupt request; with TIMA in 00-FE it returns none. (window) Starting from that overflow state the next cycles are composed through the handlers only, with the divider symbolic and also after a DIV write: cycle A loads TIMA bit for bit from TMA unless TIMA was written since the overflow, in which case the written value stays; in the cycle after A a TIMA write is ignored and a TMA write also reaches TIMA at the end of that cycle; after it the timer is back to normal (a TIMA write is stored). None of these outcomes depends on the divider. (regs) TIMA and TMA read back what was written; TAC and DIV read-back is C06."
	r.Rule("W-div", "DIV = divider bits 15-8; +4 per machine cycle on every path; DIV write => divider 0 independent of the value, nothing else stored")
	r.Rule("W-edge", "edge detector decision table (32 cases): TIMA+1 iff previous output 1 and (enable AND divider bit 9/3/5/7) now 0; detector output stored")
	r.Rule("W-overflow", "TIMA FF + counted edge => TIMA 00 and the interrupt result; no interrupt result otherwise")
	r.Rule("W-window", "reload window composed through the handlers: cycle A reloads from TMA unless TIMA was written; next cycle ignores TIMA writes and forwards TMA writes; independent of the divider and of DIV writes")
	r.Rule("W-regs", "TIMA / TMA read back the written byte; the handlers store only their own register (plus the write markers)")
	r.NotDecided = []string{"the interleaving of CPU writes with the per-cycle routine inside a machine cycle (the emulator applies writes before the end-of-cycle step)", "long-run TIMA rates as counts over time (follow from W-div and W-edge by arithmetic)", "that the interrupt is requested by the frame loop exactly when the routine returns true (C26 L3)"}
	r.TrustedBase = []string{"documented DMG timer behaviour (property statement)", "go/ssa, abstract interpreter (affine forms, bit provenance, constant-branch pruning)"}
	it := c.W.It
	tm := c.objectOfType("timer.Timer")
	endFn := c.methodOf("timer.Timer", "EndMachineCycle")
	if tm == nil || endFn == nil {
		r.Fail("unresolved", "W-div", "timer object / per-cycle routine", "", "timer.Timer or its EndMachineCycle not found")
		return r
	}
	for _, p := range []string{".counter", ".tima", ".tma", ".tac", ".lastEdgeSet"} {
		if ai.LeafTypeAt(tm.T, p) == nil {
			r.Fail("unresolved", "W-div", "timer field "+p, "", "not found (anchors: counter, tima, tma, tac, lastEdgeSet)")
			return r
		}
	}
	where := firstPos(c, endFn)
	self := []ai.Value{ptrTo(tm)}
	wDIV, wTIMA, wTMA, wTAC := c.methodOf("timer.Timer", "WriteDIV"), c.methodOf("timer.Timer", "WriteTIMA"), c.methodOf("timer.Timer", "WriteTMA"), c.methodOf("timer.Timer", "WriteTAC")
	if wDIV == nil || wTIMA == nil || wTMA == nil || wTAC == nil {
		r.Fail("unresolved", "W-window", "timer register handlers", "", "WriteDIV/WriteTIMA/WriteTMA/WriteTAC not found")
		return r
	}

	// ---- W-div
	{
		rd := c.evalDecoder(false, 0xFF04, 0xFF04, func(st *ai.State) { c.symCell(st, tm, ".counter") }, nil)
		res, _ := rd.Result.(*ai.Int)
		cs, _ := it.CellSym(tm, ".counter")
		ok := res != nil
		for i := 0; ok && i < 8; i++ {
			ok = isSrcBit(res.Bits[i], cs, i+8)
		}
		r.Ob("W-div", ok, "DIV reads divider bits 15-8", "", "reads "+ai.ValueString(rd.Result))
		var s ai.Sym
		ev := c.evalCall(nil, endFn, self, nil, func(st *ai.State) { s = c.symCell(st, tm, ".counter") })
		post := c.cellInt(ev.Post, tm, ".counter")
		r.Ob("W-div", post != nil && post.HasBase && post.Base == s && post.Off == 4, "per-cycle routine adds 4 to the divider on every path", where, "divider afterwards "+ai.ValueString(post))
		w := c.evalDecoder(true, 0xFF04, 0xFF04, nil, nil)
		cv, isc := constOf(c.cellInt(w.Post, tm, ".counter"))
		others := storedOutside(w, c.cellLabel(ai.CellKey{Obj: tm.ID, Path: ".counter"}))
		r.Ob("W-div", isc && cv == 0 && len(others) == 0, "DIV write clears the divider and stores nothing else", "", fmt.Sprintf("divider afterwards %s, other stores %v", ai.ValueString(c.cellInt(w.Post, tm, ".counter")), others))
	}

	// a state in which no reload window is open: reached from construction by the property's own API
	// (the generic state covers it); we additionally force "no overflow pending" by running two cycles
	// with the detector quiet, which closes any window the generic state may have open.
	quiet := func(st *ai.State) *ai.State {
		// no reload window open (overflow, timaWrite, tmaWrite are the property's named bookkeeping anchors)
		for _, p := range []string{".overflow", ".timaWrite", ".tmaWrite"} {
			if ai.LeafTypeAt(tm.T, p) != nil {
				st.SetCell(tm, p, ai.NewConstBool(false))
			}
		}
		return st
	}

	// ---- W-edge / W-overflow
	bitOf := []int{9, 3, 5, 7}
	type edgeCase struct {
		sel, en, last, bit int
	}
	var base *ai.State
	{
		base = quiet(it.StateOn(c.W.Generic))
		c.dumpCells("c12", base, tm)
	}
	var runEdgeFrom func(from *ai.State, ec edgeCase, tima *ai.Int) (*DecEval, ai.Sym)
	runEdge := func(ec edgeCase, tima *ai.Int) (*DecEval, ai.Sym) { return runEdgeFrom(base, ec, tima) }
	runEdgeFrom = func(from *ai.State, ec edgeCase, tima *ai.Int) (*DecEval, ai.Sym) {
		k := bitOf[ec.sel]
		var ts ai.Sym
		ev := c.evalCall(from, endFn, self, nil, func(st *ai.State) {
			// divider: bits above k symbolic, bits 0..k fixed so that bit k after +4 is known
			cs := c.symCell(st, tm, ".counter")
			_ = cs
			x := c.cellInt(st, tm, ".counter")
			var low int64
			if ec.bit == 1 {
				low = (int64(1) << uint(k)) - 4 // ...0111100 -> +4 sets bit k
			} else {
				low = (int64(1) << uint(k+1)) - 4 // ...1111100 -> +4 clears bit k (carry out)
			}
			for i := 0; i <= k; i++ {
				x = ai.WithBit(x, i, low>>uint(i)&1 == 1)
			}
			st.SetCell(tm, ".counter", x)
			st.SetCell(tm, ".tac", ai.NewConstInt(c.widthOf(tm, ".tac"), false, int64(ec.sel|ec.en<<2)))
			st.SetCell(tm, ".lastEdgeSet", ai.NewConstBool(ec.last == 1))
			if tima != nil {
				st.SetCell(tm, ".tima", tima)
			} else {
				ts = c.symCell(st, tm, ".tima")
				st.SetCell(tm, ".tima", ai.NarrowInt(c.cellInt(st, tm, ".tima"), 0, 254))
			}
		})
		return ev, ts
	}
	{
		var bad []string
		n := 0
		for sel := 0; sel < 4; sel++ {
			for en := 0; en < 2; en++ {
				for last := 0; last < 2; last++ {
					for bit := 0; bit < 2; bit++ {
						ec := edgeCase{sel, en, last, bit}
						ev, ts := runEdge(ec, nil)
						n++
						now := en == 1 && bit == 1
						falling := last == 1 && !now
						tima := c.cellInt(ev.Post, tm, ".tima")
						wantOff := int64(0)
						if falling {
							wantOff = 1
						}
						okT := tima != nil && tima.HasBase && tima.Base == ts && tima.Off == wantOff
						le, lc := boolConst(c.cellBool(ev.Post, tm, ".lastEdgeSet"))
						irq, ic := boolConst(asBool(ev.Result))
						if !okT || !lc || le != now || !ic || irq {
							bad = append(bad, fmt.Sprintf("TAC=%d%d%d previous output %d, divider bit %d after the step = %d: TIMA' = %s (documented TIMA%+d), detector output %v (documented %v), interrupt result %v (documented false)", en, sel>>1, sel&1, last, bitOf[sel], bit, ai.ValueString(tima), wantOff, le, now, irq))
						}
					}
				}
			}
		}
		if len(bad) > 3 {
			bad = append(bad[:3], fmt.Sprintf("... %d more", len(bad)-3))
		}
		r.Ob("W-edge", len(bad) == 0, "edge detector decision table (32 cases, TIMA below FF)", where, strings.Join(bad, "; "))
		r.Instances["W-edge"] += n
		r.Sample(map[string]interface{}{"rule": "W-edge", "cases": n, "selected_bits": bitOf})
	}
	var overflowState *ai.State
	{
		for sel := 0; sel < 4; sel++ {
			ev, _ := runEdge(edgeCase{sel, 1, 1, 0}, ai.NewConstInt(8, false, 0xFF))
			cv, isc := constOf(c.cellInt(ev.Post, tm, ".tima"))
			irq, ic := boolConst(asBool(ev.Result))
			r.Ob("W-overflow", isc && cv == 0 && ic && irq, fmt.Sprintf("TAC select %d: TIMA FF + counted edge => TIMA 00 and the interrupt result", sel), where, fmt.Sprintf("TIMA' = %s, interrupt result %v", ai.ValueString(c.cellInt(ev.Post, tm, ".tima")), irq))
			if sel == 1 {
				overflowState = ev.Post
			}
			// no edge, TIMA FF: nothing
			ev2, _ := runEdge(edgeCase{sel, 1, 1, 1}, ai.NewConstInt(8, false, 0xFF))
			cv2, isc2 := constOf(c.cellInt(ev2.Post, tm, ".tima"))
			irq2, ic2 := boolConst(asBool(ev2.Result))
			r.Ob("W-overflow", isc2 && cv2 == 0xFF && ic2 && !irq2, fmt.Sprintf("TAC select %d: no edge => TIMA stays FF, no interrupt result", sel), where, "")
		}
	}

	// ---- W-window
	if overflowState == nil {
		r.Fail("undecided", "W-window", "overflow state", where, "no post-state of the overflowing cycle")
		return r
	}
	step := func(st *ai.State) (*ai.State, ai.Value) {
		ev := c.evalCall(st, endFn, self, nil, nil)
		return ev.Post, ev.Result
	}
	doWrite := func(st *ai.State, fn *ssa.Function, v ai.Value) *ai.State {
		ev := c.evalCall(st, fn, []ai.Value{ptrTo(tm), v}, nil, nil)
		return ev.Post
	}
	newV := func(tag string) (*ai.Int, ai.Sym) {
		s := it.NewSym("written:"+tag, ai.CellKey{})
		return ai.NewSymInt(8, false, s), s
	}
	exactly := func(v *ai.Int, s ai.Sym) bool {
		if v == nil {
			return false
		}
		for i := 0; i < 8; i++ {
			if !isSrcBit(v.Bits[i], s, i) {
				return false
			}
		}
		return true
	}
	// prepare: after the overflow, stop the detector (TAC write through the handler), make TMA and the divider symbolic
	prep := func(divWrite bool) (*ai.State, ai.Sym, ai.Sym) {
		st := doWrite(overflowState, wTAC, ai.NewConstInt(8, false, 0))
		st = st.Fork()
		tmaS := c.symCell(st, tm, ".tma")
		cntS := c.symCell(st, tm, ".counter")
		if divWrite {
			st = doWrite(st, wDIV, ai.NewSymInt(8, false, it.NewSym("written:div", ai.CellKey{})))
		}
		return st, tmaS, cntS
	}
	for _, divWrite := range []bool{false, true} {
		tag := map[bool]string{false: "divider arbitrary", true: "DIV written right after the overflow"}[divWrite]
		// (1) plain: A reloads from TMA; TIMA reads 00 until then
		{
			st, tmaS, cntS := prep(divWrite)
			cv, isc := constOf(c.cellInt(st, tm, ".tima"))
			a, _ := step(st)
			tima := c.cellInt(a, tm, ".tima")
			dep := tima != nil && tima.D.Has(cntS)
			r.Ob("W-window", isc && cv == 0 && exactly(tima, tmaS) && !dep, tag+": TIMA is 00 for one cycle, then equals TMA", where, fmt.Sprintf("TIMA before cycle A %s, after %s (depends on the divider: %v)", ai.ValueString(c.cellInt(st, tm, ".tima")), ai.ValueString(tima), dep))
			// (2) in the cycle after A: TIMA write ignored, TMA write forwarded
			v, _ := newV("tima-B")
			b0 := doWrite(a, wTIMA, v)
			t0 := c.cellInt(b0, tm, ".tima")
			r.Ob("W-window", exactly(t0, tmaS), tag+": a TIMA write in the cycle after the reload is ignored", firstPos(c, wTIMA), "TIMA after the write "+ai.ValueString(t0))
			v2, s2 := newV("tma-B")
			b1 := doWrite(a, wTMA, v2)
			b1e, _ := step(b1)
			t1 := c.cellInt(b1e, tm, ".tima")
			r.Ob("W-window", exactly(t1, s2), tag+": a TMA write in the cycle after the reload also reaches TIMA", firstPos(c, wTMA), "TIMA at the end of that cycle "+ai.ValueString(t1))
			// (3) afterwards back to normal: TIMA write is stored and survives cycles
			b, _ := step(a)
			v3, s3 := newV("tima-after")
			n1 := doWrite(b, wTIMA, v3)
			n2, _ := step(n1)
			t3 := c.cellInt(n2, tm, ".tima")
			r.Ob("W-window", exactly(t3, s3), tag+": two cycles after the overflow TIMA writes are stored again", firstPos(c, wTIMA), "TIMA after write and one more cycle "+ai.ValueString(t3))
			// and without any write TIMA keeps TMA's old value (no second reload)
			n3, _ := step(b)
			t4 := c.cellInt(n3, tm, ".tima")
			r.Ob("W-window", exactly(t4, tmaS), tag+": no further reload after the window", where, "TIMA three cycles after the overflow "+ai.ValueString(t4))
		}
		// (1b) TMA written during the 00 cycle: the reload that follows takes the new value (the modulo is read when the
		// reload happens, not when the overflow did)
		{
			st, _, _ := prep(divWrite)
			v, s := newV("tma-A")
			w := doWrite(st, wTMA, v)
			a, _ := step(w)
			tima := c.cellInt(a, tm, ".tima")
			r.Ob("W-window", exactly(tima, s), tag+": a TMA write in the 00 cycle is what the reload loads", firstPos(c, wTMA), "TIMA after cycle A "+ai.ValueString(tima)+"; documented: the value just written to TMA")
		}
		// (4) TIMA written during the 00 cycle: reload cancelled
		{
			st, _, _ := prep(divWrite)
			v, s := newV("tima-A")
			w := doWrite(st, wTIMA, v)
			a, _ := step(w)
			tima := c.cellInt(a, tm, ".tima")
			r.Ob("W-window", exactly(tima, s), tag+": a TIMA write in the 00 cycle cancels the reload", where, "TIMA after cycle A "+ai.ValueString(tima))
			// ... and with it the reload cycle: in the cycle after a cancelled reload a TIMA write is stored and a
			// TMA write stays in TMA (there is no reload cycle to ignore the one or forward the other)
			v5, s5 := newV("tima-after-cancel")
			c1 := doWrite(a, wTIMA, v5)
			c1e, _ := step(c1)
			t5 := c.cellInt(c1e, tm, ".tima")
			r.Ob("W-window", exactly(t5, s5), tag+": after a cancelled reload the next cycle's TIMA write is stored", firstPos(c, wTIMA), "TIMA after that write and the cycle's end "+ai.ValueString(t5)+"; documented: the written value (only the cycle of an actual reload ignores TIMA writes)")
			v6, _ := newV("tma-after-cancel")
			c2 := doWrite(a, wTMA, v6)
			c2e, _ := step(c2)
			t6 := c.cellInt(c2e, tm, ".tima")
			r.Ob("W-window", exactly(t6, s), tag+": after a cancelled reload a TMA write does not reach TIMA", firstPos(c, wTMA), "TIMA at the end of that cycle "+ai.ValueString(t6)+"; documented: still the value written in the 00 cycle")
		}
	}

	// (5) a TMA write made long before the overflow must not resurface: TMA written in normal operation, a cycle
	// passes, then overflow, TIMA written in the 00 cycle -> the written value survives cycles A and B
	{
		v0, _ := newV("tma-early")
		b0 := base.Fork()
		b0.SetCell(tm, ".lastEdgeSet", ai.NewConstBool(false)) // detector quiet: no counted edge while we wait
		s0 := doWrite(doWrite(b0, wTAC, ai.NewConstInt(8, false, 0)), wTMA, v0)
		s1, _ := step(s0)
		s1, _ = step(s1)
		ov, _ := runEdgeFrom(s1, edgeCase{1, 1, 1, 0}, ai.NewConstInt(8, false, 0xFF))
		if ov.Post == nil {
			r.Fail("undecided", "W-window", "overflow after an earlier TMA write", where, "no post-state")
		} else {
			st := doWrite(ov.Post, wTAC, ai.NewConstInt(8, false, 0))
			v, s := newV("tima-A2")
			st = doWrite(st, wTIMA, v)
			a, _ := step(st)
			b, _ := step(a)
			ta, tb := c.cellInt(a, tm, ".tima"), c.cellInt(b, tm, ".tima")
			r.Ob("W-window", exactly(ta, s) && exactly(tb, s), "a cancelled reload stays cancelled even if TMA was written some cycles before the overflow", where, fmt.Sprintf("TIMA after cycle A %s, after the next cycle %s; documented: the value written in the 00 cycle", ai.ValueString(ta), ai.ValueString(tb)))
		}
	}

	// (6) an overflow in the very cycle in which the previous overflow's reload cycle ends (TMA = FF and a counted edge two
	// cycles after the first overflow): it is an overflow like any other - interrupt result, TIMA 00, and the next cycle
	// reloads from TMA
	{
		st, _, _ := prep(false)
		a, _ := step(st) // cycle A of the first overflow: TIMA := TMA
		ov2, _ := runEdgeFrom(a, edgeCase{1, 1, 1, 0}, ai.NewConstInt(8, false, 0xFF))
		if a == nil || ov2.Post == nil {
			r.Fail("undecided", "W-window", "second overflow while the first reload cycle ends", where, "no post-state")
		} else {
			cv, isc := constOf(c.cellInt(ov2.Post, tm, ".tima"))
			irq, ic := boolConst(asBool(ov2.Result))
			z := doWrite(ov2.Post, wTAC, ai.NewConstInt(8, false, 0)).Fork()
			tmaS := c.symCell(z, tm, ".tma")
			z1, _ := step(z)
			t := c.cellInt(z1, tm, ".tima")
			r.Ob("W-window", isc && cv == 0 && ic && irq && exactly(t, tmaS), "an overflow in the cycle that ends the previous reload cycle opens its own window", where, fmt.Sprintf("TIMA after that cycle %s (documented 00), interrupt result %v, TIMA one cycle later %s (documented: TMA)", ai.ValueString(c.cellInt(ov2.Post, tm, ".tima")), irq, ai.ValueString(t)))
		}
	}

	// ---- W-own: the timer's state belongs to its per-cycle step and its four register handlers
	r.Rule("W-own", "every cell of the timer is stored only by its per-cycle step and under the DIV / TIMA / TMA / TAC write handlers, over every run-phase entry: no other per-cycle routine clears the write markers or moves the window before the step has looked at them")
	{
		allowed := map[string]bool{fnName(endFn): true}
		for a := 0xFF04; a <= 0xFF07; a++ {
			for _, f := range c.evalDecoder(true, a, a, nil, nil).Direct {
				allowed[fnName(f)] = true
			}
		}
		viol := map[string]string{}
		n := 0
		c.evalAllEntries(ai.Hooks{
			Store: func(_ *ai.State, at ssa.Instruction, p *ai.Ptr, keys []ai.CellKey, _ ai.Value, _ bool) {
				for _, k := range keys {
					if k.Obj != tm.ID {
						continue
					}
					n++
					if !c.onStack(allowed) {
						viol[fmt.Sprintf("%s stores timer cell %s", fnName(outerFn(at.Parent())), k.Path)] = c.pos(at)
					}
				}
			},
		}, func(*world.Entry, *ai.State) {})
		for k, pos := range viol {
			r.Ob("W-own", false, k, pos, "only the timer's per-cycle step and its register write handlers may store timer state (the frame loop runs the memory step before the timer step: a marker cleared there is gone before the timer tests it)")
		}
		r.Ob("W-own", n > 0, "stores to timer cells examined over every run-phase entry", "", fmt.Sprintf("%d stores", n))
		r.Instances["W-own"] += n
	}

	// ---- W-irq: the interrupt request is wired to the routine's result (rule L3 of C26, evaluated on this tree)
	r.Rule("W-irq", "the frame loop requests the timer interrupt exactly when the per-cycle routine returns true, and nothing else requests it (rule L3 of C26)")
	adopt(r, c.sibling("C26"), map[string]string{"L3": "W-irq"}, "a request that is dropped, delayed or made conditional breaks 'exactly one interrupt per overflow'")

	// ---- W-regs
	for _, reg := range []struct {
		addr int
		name string
		path string
	}{{0xFF05, "TIMA", ".tima"}, {0xFF06, "TMA", ".tma"}} {
		w := c.evalDecoderFrom(base, true, reg.addr, reg.addr, nil, nil)
		rd := c.evalDecoderFrom(w.Post, false, reg.addr, reg.addr, nil, nil)
		res, _ := rd.Result.(*ai.Int)
		ok := exactly(res, w.ValSym)
		var foreign []string
		for _, p := range c.storedCellsOf(w, tm) {
			if p != reg.path && !strings.Contains(strings.ToLower(p), "write") {
				foreign = append(foreign, p)
			}
		}
		r.Ob("W-regs", ok && len(foreign) == 0, reg.name+" reads back the written byte; the write stores only its register and write marker", "", fmt.Sprintf("reads %s; other cells stored %v", ai.ValueString(rd.Result), foreign))
	}
	r.Rule("W-cpu", "DIV is cleared only by the program's own DIV writes: every CPU row performs exactly its documented memory writes (S-cpu of C23 re-stated)")
	adopt(r, c.sibling("C23"), map[string]string{"S-cpu": "W-cpu"}, "an instruction that writes FF04 on its own account clears the divider although the program made no DIV write")
	return r
}
