package checks

import (
	"fmt"
	"sort"
	"strings"

	"verif/sa/internal/ai"
)

// DumpRows renders the row summaries (debugging aid).
func DumpRows(c *Ctx) []string {
	m := c.machine()
	var out []string
	out = append(out, fmt.Sprintf("errors=%v imm=%v", m.Errors, sortedKeys(m.ImmCells)))
	for page := 0; page < 2; page++ {
		for k := 0; k < 256; k++ {
			row := m.Base[k]
			if page == 1 {
				row = m.CB[k]
			}
			if row == nil {
				continue
			}
			var acc []string
			for _, a := range row.Acc {
				acc = append(acc, fmt.Sprintf("%s%+d->%v", a.String(), a.Off, a.ValDeps))
			}
			var wr []string
			for n := range row.Written {
				wr = append(wr, n+"<-"+strings.Join(row.Deps[n], ",")+"="+ai.ValueString(row.Written[n]))
			}
			sort.Strings(wr)
			early := ""
			if row.Early != nil {
				if _, isNil := row.Early.(*ai.NilV); !isNil {
					early = " early"
				}
			}
			out = append(out, fmt.Sprintf("%d/%02X len=%d flags=%s exits=%v oam=%v%s acc=%v W=%v und=%v", page, k, len(row.Subs), string(row.FlagClass[:]), row.Exits, row.OAM, early, acc, wr, row.Undecided))
		}
	}
	return out
}
