package oracle

// IOReg is the documented read-back behaviour of one memory-mapped register (T-IO).
type IOReg struct {
	Addr     int
	Name     string
	Ones     uint8 // bits that always read 1
	Writable uint8 // bits that read back the last written value
	ReadOnly uint8 // bits driven by hardware, never by the written value
	NoStore  bool  // the written value is never stored (DIV, LY)
}

// IORegs lists the registers whose read-back the property C06 states.
func IORegs() []IOReg {
	return []IOReg{
		{Addr: 0xFF00, Name: "JOYP", Ones: 0xC0, Writable: 0x30, ReadOnly: 0x0F},
		{Addr: 0xFF04, Name: "DIV", NoStore: true, ReadOnly: 0xFF},
		{Addr: 0xFF07, Name: "TAC", Ones: 0xF8, Writable: 0x07},
		{Addr: 0xFF0F, Name: "IF", Ones: 0xE0, Writable: 0x1F},
		{Addr: 0xFF40, Name: "LCDC", Writable: 0xFF},
		{Addr: 0xFF41, Name: "STAT", Ones: 0x80, Writable: 0x78, ReadOnly: 0x07},
		{Addr: 0xFF42, Name: "SCY", Writable: 0xFF},
		{Addr: 0xFF43, Name: "SCX", Writable: 0xFF},
		{Addr: 0xFF44, Name: "LY", NoStore: true, ReadOnly: 0xFF},
		{Addr: 0xFF45, Name: "LYC", Writable: 0xFF},
		{Addr: 0xFF46, Name: "DMA", Writable: 0xFF},
		{Addr: 0xFF47, Name: "BGP", Writable: 0xFF},
		{Addr: 0xFF48, Name: "OBP0", Writable: 0xFF},
		{Addr: 0xFF49, Name: "OBP1", Writable: 0xFF},
		{Addr: 0xFF4A, Name: "WY", Writable: 0xFF},
		{Addr: 0xFF4B, Name: "WX", Writable: 0xFF},
		{Addr: 0xFFFF, Name: "IE", Writable: 0xFF},
	}
}

// Unmapped lists the I/O addresses with nothing behind them: reads FF, writes ignored.
func Unmapped() [][2]int {
	return [][2]int{{0xFF03, 0xFF03}, {0xFF08, 0xFF0E}, {0xFF15, 0xFF15}, {0xFF1F, 0xFF1F}, {0xFF27, 0xFF2F}, {0xFF4C, 0xFF7F}}
}

// PlainMemory lists the plain-memory regions: address range, and the address
// whose cell each address shares (mirror base), 0 for none.
type Region struct {
	Lo, Hi   int
	Name     string
	MirrorOf int // the address Lo aliases (E000 aliases C000), or -1
}

func PlainRegions() []Region {
	return []Region{
		{0x8000, 0x9FFF, "VRAM", -1},
		{0xC000, 0xDFFF, "WRAM", -1},
		{0xE000, 0xFDFF, "WRAM mirror", 0xC000},
		{0xFE00, 0xFE9F, "OAM", -1},
		{0xFF80, 0xFFFE, "HRAM", -1},
	}
}

// SoundRegs: address, name, read mask (bits that read 1) for NR10..NR52 (C18).
type SoundReg struct {
	Addr int
	Name string
	Mask uint8
}

func SoundRegs() []SoundReg {
	return []SoundReg{
		{0xFF10, "NR10", 0x80}, {0xFF11, "NR11", 0x3F}, {0xFF12, "NR12", 0x00}, {0xFF13, "NR13", 0xFF}, {0xFF14, "NR14", 0xBF},
		{0xFF16, "NR21", 0x3F}, {0xFF17, "NR22", 0x00}, {0xFF18, "NR23", 0xFF}, {0xFF19, "NR24", 0xBF},
		{0xFF1A, "NR30", 0x7F}, {0xFF1B, "NR31", 0xFF}, {0xFF1C, "NR32", 0x9F}, {0xFF1D, "NR33", 0xFF}, {0xFF1E, "NR34", 0xBF},
		{0xFF20, "NR41", 0xFF}, {0xFF21, "NR42", 0x00}, {0xFF22, "NR43", 0x00}, {0xFF23, "NR44", 0xBF},
		{0xFF24, "NR50", 0x00}, {0xFF25, "NR51", 0x00},
	}
}

// Effects is T-EFF: may a write to address w change what a read of address r returns?
// (own address and mirrors are handled by the caller.)
func WriteMayAffect(w, r int) bool {
	in := func(x, lo, hi int) bool { return x >= lo && x <= hi }
	cart := func(x int) bool { return in(x, 0x0000, 0x7FFF) || in(x, 0xA000, 0xBFFF) }
	switch {
	case in(w, 0x0000, 0x7FFF):
		return cart(r) // bank / enable / latch registers change both cartridge windows
	case in(w, 0xA000, 0xBFFF):
		return in(r, 0xA000, 0xBFFF) // cartridge RAM window (MBC2 repeats, RTC registers)
	case w == 0xFF40:
		return r == 0xFF40 || r == 0xFF41 || r == 0xFF44 // LCD on/off resets line and mode
	case w == 0xFF46:
		return r == 0xFF46 || in(r, 0xFE00, 0xFEFF) // DMA blocks OAM and fills it
	case w == 0xFF26:
		return in(r, 0xFF10, 0xFF3F) // power off clears every sound register
	case w == 0xFF12 || w == 0xFF17 || w == 0xFF21:
		return r == w || r == 0xFF26 // envelope/DAC: channel status
	case w == 0xFF1A:
		return r == w || r == 0xFF26 || in(r, 0xFF30, 0xFF3F) // ch3 DAC: status, wave RAM access mode
	case w == 0xFF14 || w == 0xFF19 || w == 0xFF23:
		return r == w || r == 0xFF26 // trigger / length enable: channel status
	case w == 0xFF1E:
		return r == w || r == 0xFF26 || in(r, 0xFF30, 0xFF3F) // ch3 trigger: status, wave RAM access/corruption
	case w == 0xFF10:
		return r == w || r == 0xFF26 // sweep direction change may disable channel 1
	case in(w, 0xFF30, 0xFF3F):
		return in(r, 0xFF30, 0xFF3F) // wave RAM (while ch3 plays, accesses hit the current byte)
	case in(w, 0xFE00, 0xFEFF):
		return in(r, 0xFE00, 0xFEFF)
	}
	return false
}

// SoundChannelOf returns the channel (0-3) a sound register address belongs to, or -1.
func SoundChannelOf(addr int) int {
	switch {
	case addr >= 0xFF10 && addr <= 0xFF14:
		return 0
	case addr >= 0xFF16 && addr <= 0xFF19:
		return 1
	case addr >= 0xFF1A && addr <= 0xFF1E:
		return 2
	case addr >= 0xFF20 && addr <= 0xFF23:
		return 3
	}
	return -1
}
