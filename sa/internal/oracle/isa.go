// Package oracle holds the documented tables the code is compared with. They
// are written from the SM83 / DMG documentation (Pan Docs, the opcode tables)
// and from the property statements, never from the repository's code.
package oracle

import "fmt"

// MemAcc is one data access of an instruction: machine cycle (1-based), kind
// 'R' or 'W' and the address class.
type MemAcc struct {
	Cycle int
	Kind  byte
	Class string // HL BC DE NN NN+1 FF00+N FF00+C SP
}

func (m MemAcc) String() string { return fmt.Sprintf("%d:%c %s", m.Cycle, m.Kind, m.Class) }

// Op is the documented behaviour of one opcode (T-ISA).
type Op struct {
	Code      int
	Prefixed  bool
	Mnemonic  string
	Undefined bool
	Cycles    int      // machine cycles (taken)
	NotTaken  int      // machine cycles when the condition fails (0 = unconditional)
	Cond      string   // "", NZ, Z, NC, C
	Flags     [4]byte  // Z N H C: '-' untouched, '0', '1', '*' computed
	Out       []string // architectural state written besides flags: a b c d e h l sp pc ime halted haltbug stopped
	// In lists, per output (register name, "f" for the computed flags, "mem" for a
	// stored byte, "pc"), the architectural inputs it depends on. Flags as
	// inputs are written "fZ fN fH fC".
	In     map[string][]string
	Mem    []MemAcc
	OAMBug bool // 16-bit inc/dec unit or stack/HL+- addressing: OAM-bug bookkeeping allowed
	Imm    int  // immediate operand bytes (fetched through pc)
}

var r8 = []string{"b", "c", "d", "e", "h", "l", "(hl)", "a"}
var rpLo = [][2]string{{"b", "c"}, {"d", "e"}, {"h", "l"}, {"sp", ""}}
var rp2 = [][2]string{{"b", "c"}, {"d", "e"}, {"h", "l"}, {"a", "f"}}
var cc = []string{"NZ", "Z", "NC", "C"}
var aluN = []string{"ADD", "ADC", "SUB", "SBC", "AND", "XOR", "OR", "CP"}
var rotN = []string{"RLC", "RRC", "RL", "RR", "SLA", "SRA", "SWAP", "SRL"}

func flags(s string) [4]byte { return [4]byte{s[0], s[1], s[2], s[3]} }

func pair(p [2]string) []string {
	if p[1] == "" {
		return []string{p[0]}
	}
	return []string{p[0], p[1]}
}

// Base returns the documented table of the 256 base opcodes.
func Base() [256]Op {
	var t [256]Op
	undefined := map[int]bool{0xd3: true, 0xdb: true, 0xdd: true, 0xe3: true, 0xe4: true, 0xeb: true, 0xec: true, 0xed: true, 0xf4: true, 0xfc: true, 0xfd: true}
	for op := 0; op < 256; op++ {
		o := Op{Code: op, Flags: flags("----"), In: map[string][]string{}}
		x, y, z := op>>6, (op>>3)&7, op&7
		p, q := y>>1, y&1
		switch {
		case undefined[op]:
			o.Undefined = true
			o.Mnemonic = "undefined"
		case op == 0xcb:
			o.Undefined = true // prefix: never dispatched as an instruction
			o.Mnemonic = "PREFIX"
		case x == 0:
			switch z {
			case 0:
				switch {
				case y == 0:
					o.Mnemonic, o.Cycles = "NOP", 1
				case y == 1:
					o.Mnemonic, o.Cycles, o.Imm = "LD (nn),SP", 5, 2
					o.Out = []string{"pc"}
					o.Mem = []MemAcc{{4, 'W', "NN"}, {5, 'W', "NN+1"}}
					o.In["mem"] = []string{"sp"}
				case y == 2:
					o.Mnemonic, o.Cycles = "STOP", 1
					o.Out = []string{"stopped"}
				case y == 3:
					o.Mnemonic, o.Cycles, o.Imm = "JR e", 3, 1
					o.Out = []string{"pc"}
					o.In["pc"] = []string{"pc", "imm"}
				default:
					o.Mnemonic, o.Cycles, o.NotTaken, o.Imm = "JR "+cc[y-4]+",e", 3, 2, 1
					o.Cond = cc[y-4]
					o.Out = []string{"pc"}
					o.In["pc"] = []string{"pc", "imm"}
				}
			case 1:
				if q == 0 {
					o.Mnemonic, o.Cycles, o.Imm = "LD rp,nn", 3, 2
					o.Out = append(pair(rpLo[p]), "pc")
					for _, r := range pair(rpLo[p]) {
						o.In[r] = []string{"imm"}
					}
				} else {
					o.Mnemonic, o.Cycles = "ADD HL,rp", 2
					o.Flags = flags("-0**")
					o.Out = []string{"h", "l"}
					src := pair(rpLo[p])
					o.In["h"] = append([]string{"h", "l"}, src...)
					o.In["l"] = append([]string{"l"}, src...)
					o.In["f"] = append([]string{"h", "l"}, src...)
				}
			case 2:
				cls := []string{"BC", "DE", "HL", "HL"}[p]
				if q == 0 {
					o.Mnemonic, o.Cycles = "LD ("+cls+"),A", 2
					o.Mem = []MemAcc{{2, 'W', cls}}
					o.In["mem"] = []string{"a"}
				} else {
					o.Mnemonic, o.Cycles = "LD A,("+cls+")", 2
					o.Mem = []MemAcc{{2, 'R', cls}}
					o.Out = []string{"a"}
					o.In["a"] = []string{"mem"}
				}
				if p >= 2 {
					o.Out = append(o.Out, "h", "l")
					o.In["h"] = []string{"h", "l"}
					o.In["l"] = []string{"l"}
					o.OAMBug = true
				}
			case 3:
				o.Mnemonic, o.Cycles = []string{"INC rp", "DEC rp"}[q], 2
				o.Out = pair(rpLo[p])
				o.OAMBug = true
				if p < 3 {
					hi, lo := rpLo[p][0], rpLo[p][1]
					o.In[hi] = []string{hi, lo}
					o.In[lo] = []string{lo}
				} else {
					o.In["sp"] = []string{"sp"}
				}
			case 4, 5:
				name := []string{"INC", "DEC"}[z-4]
				o.Mnemonic = name + " " + r8[y]
				if z == 4 {
					o.Flags = flags("*0*-")
				} else {
					o.Flags = flags("*1*-")
				}
				if y == 6 {
					o.Cycles = 3
					o.Mem = []MemAcc{{2, 'R', "HL"}, {3, 'W', "HL"}}
					o.In["mem"] = []string{"mem"}
					o.In["f"] = []string{"mem"}
				} else {
					o.Cycles = 1
					o.Out = []string{r8[y]}
					o.In[r8[y]] = []string{r8[y]}
					o.In["f"] = []string{r8[y]}
				}
			case 6:
				o.Mnemonic, o.Imm = "LD "+r8[y]+",n", 1
				o.Out = []string{"pc"}
				if y == 6 {
					o.Cycles = 3
					o.Mem = []MemAcc{{3, 'W', "HL"}}
					o.In["mem"] = []string{"imm"}
				} else {
					o.Cycles = 2
					o.Out = append(o.Out, r8[y])
					o.In[r8[y]] = []string{"imm"}
				}
			case 7:
				o.Cycles = 1
				o.Mnemonic = []string{"RLCA", "RRCA", "RLA", "RRA", "DAA", "CPL", "SCF", "CCF"}[y]
				switch y {
				case 0, 1:
					o.Flags = flags("000*")
					o.Out = []string{"a"}
					o.In["a"] = []string{"a"}
					o.In["f"] = []string{"a"}
				case 2, 3:
					o.Flags = flags("000*")
					o.Out = []string{"a"}
					o.In["a"] = []string{"a", "fC"}
					o.In["f"] = []string{"a"}
				case 4:
					o.Flags = flags("*-0*")
					o.Out = []string{"a"}
					o.In["a"] = []string{"a", "fN", "fH", "fC"}
					o.In["f"] = []string{"a", "fN", "fH", "fC"}
				case 5:
					o.Flags = flags("-11-")
					o.Out = []string{"a"}
					o.In["a"] = []string{"a"}
				case 6:
					o.Flags = flags("-001")
				case 7:
					o.Flags = flags("-00*")
					o.In["f"] = []string{"fC"}
				}
			}
		case x == 1:
			if op == 0x76 {
				o.Mnemonic, o.Cycles = "HALT", 1
				o.Out = []string{"halted", "haltbug"}
				break
			}
			o.Mnemonic = "LD " + r8[y] + "," + r8[z]
			switch {
			case z == 6:
				o.Cycles = 2
				o.Mem = []MemAcc{{2, 'R', "HL"}}
				o.Out = []string{r8[y]}
				o.In[r8[y]] = []string{"mem"}
			case y == 6:
				o.Cycles = 2
				o.Mem = []MemAcc{{2, 'W', "HL"}}
				o.In["mem"] = []string{r8[z]}
			default:
				o.Cycles = 1
				if y != z {
					o.Out = []string{r8[y]}
					o.In[r8[y]] = []string{r8[z]}
				}
			}
		case x == 2:
			o.Mnemonic = aluN[y] + " A," + r8[z]
			src := r8[z]
			if z == 6 {
				o.Cycles = 2
				o.Mem = []MemAcc{{2, 'R', "HL"}}
				src = "mem"
			} else {
				o.Cycles = 1
			}
			aluEffects(&o, y, src)
		case x == 3:
			switch z {
			case 0:
				switch {
				case y < 4:
					o.Mnemonic, o.Cycles, o.NotTaken, o.Cond = "RET "+cc[y], 5, 2, cc[y]
					o.Mem = []MemAcc{{3, 'R', "SP"}, {4, 'R', "SP"}}
					o.Out = []string{"pc", "sp"}
					o.In["pc"] = []string{"mem"}
					o.In["sp"] = []string{"sp"}
					o.OAMBug = true
				case y == 4:
					o.Mnemonic, o.Cycles, o.Imm = "LDH (n),A", 3, 1
					o.Out = []string{"pc"}
					o.Mem = []MemAcc{{3, 'W', "FF00+N"}}
					o.In["mem"] = []string{"a"}
				case y == 6:
					o.Mnemonic, o.Cycles, o.Imm = "LDH A,(n)", 3, 1
					o.Out = []string{"pc", "a"}
					o.Mem = []MemAcc{{3, 'R', "FF00+N"}}
					o.In["a"] = []string{"mem"}
				case y == 5:
					o.Mnemonic, o.Cycles, o.Imm = "ADD SP,e", 4, 1
					o.Flags = flags("00**")
					o.Out = []string{"pc", "sp"}
					o.In["sp"] = []string{"sp", "imm"}
					o.In["f"] = []string{"sp", "imm"}
				case y == 7:
					o.Mnemonic, o.Cycles, o.Imm = "LD HL,SP+e", 3, 1
					o.Flags = flags("00**")
					o.Out = []string{"pc", "h", "l"}
					o.In["h"] = []string{"sp", "imm"}
					o.In["l"] = []string{"sp", "imm"}
					o.In["f"] = []string{"sp", "imm"}
				}
			case 1:
				if q == 0 {
					o.Mnemonic, o.Cycles = "POP rp2", 3
					o.Mem = []MemAcc{{2, 'R', "SP"}, {3, 'R', "SP"}}
					o.OAMBug = true
					o.Out = []string{"sp"}
					o.In["sp"] = []string{"sp"}
					if p == 3 {
						o.Out = append(o.Out, "a")
						o.In["a"] = []string{"mem"}
						o.Flags = flags("****")
						o.In["f"] = []string{"mem"}
					} else {
						o.Out = append(o.Out, rp2[p][0], rp2[p][1])
						o.In[rp2[p][0]] = []string{"mem"}
						o.In[rp2[p][1]] = []string{"mem"}
					}
				} else {
					switch p {
					case 0, 1:
						o.Mnemonic, o.Cycles = []string{"RET", "RETI"}[p], 4
						o.Mem = []MemAcc{{2, 'R', "SP"}, {3, 'R', "SP"}}
						o.Out = []string{"pc", "sp"}
						o.In["pc"] = []string{"mem"}
						o.In["sp"] = []string{"sp"}
						o.OAMBug = true
						if p == 1 {
							o.Out = append(o.Out, "ime")
						}
					case 2:
						o.Mnemonic, o.Cycles = "JP HL", 1
						o.Out = []string{"pc"}
						o.In["pc"] = []string{"h", "l"}
					case 3:
						o.Mnemonic, o.Cycles = "LD SP,HL", 2
						o.Out = []string{"sp"}
						o.In["sp"] = []string{"h", "l"}
					}
				}
			case 2:
				switch {
				case y < 4:
					o.Mnemonic, o.Cycles, o.NotTaken, o.Cond, o.Imm = "JP "+cc[y]+",nn", 4, 3, cc[y], 2
					o.Out = []string{"pc"}
					o.In["pc"] = []string{"imm"}
				case y == 4:
					o.Mnemonic, o.Cycles = "LD (C),A", 2
					o.Mem = []MemAcc{{2, 'W', "FF00+C"}}
					o.In["mem"] = []string{"a"}
				case y == 6:
					o.Mnemonic, o.Cycles = "LD A,(C)", 2
					o.Mem = []MemAcc{{2, 'R', "FF00+C"}}
					o.Out = []string{"a"}
					o.In["a"] = []string{"mem"}
				case y == 5:
					o.Mnemonic, o.Cycles, o.Imm = "LD (nn),A", 4, 2
					o.Out = []string{"pc"}
					o.Mem = []MemAcc{{4, 'W', "NN"}}
					o.In["mem"] = []string{"a"}
				case y == 7:
					o.Mnemonic, o.Cycles, o.Imm = "LD A,(nn)", 4, 2
					o.Out = []string{"pc", "a"}
					o.Mem = []MemAcc{{4, 'R', "NN"}}
					o.In["a"] = []string{"mem"}
				}
			case 3:
				switch y {
				case 0:
					o.Mnemonic, o.Cycles, o.Imm = "JP nn", 4, 2
					o.Out = []string{"pc"}
					o.In["pc"] = []string{"imm"}
				case 6:
					o.Mnemonic, o.Cycles = "DI", 1
					o.Out = []string{"ime"}
				case 7:
					o.Mnemonic, o.Cycles = "EI", 1
					o.Out = []string{"ime"}
				}
			case 4:
				if y < 4 {
					o.Mnemonic, o.Cycles, o.NotTaken, o.Cond, o.Imm = "CALL "+cc[y]+",nn", 6, 3, cc[y], 2
					callEffects(&o)
				}
			case 5:
				if q == 0 {
					o.Mnemonic, o.Cycles = "PUSH rp2", 4
					o.Mem = []MemAcc{{3, 'W', "SP"}, {4, 'W', "SP"}}
					o.Out = []string{"sp"}
					o.In["sp"] = []string{"sp"}
					o.OAMBug = true
					if p == 3 {
						o.In["mem"] = []string{"a", "fZ", "fN", "fH", "fC"}
					} else {
						o.In["mem"] = []string{rp2[p][0], rp2[p][1]}
					}
				} else if p == 0 {
					o.Mnemonic, o.Cycles, o.Imm = "CALL nn", 6, 2
					callEffects(&o)
				}
			case 6:
				o.Mnemonic, o.Cycles, o.Imm = aluN[y]+" A,n", 2, 1
				aluEffects(&o, y, "imm")
				o.Out = append(o.Out, "pc")
			case 7:
				o.Mnemonic, o.Cycles = fmt.Sprintf("RST %02XH", y*8), 4
				o.Mem = []MemAcc{{3, 'W', "SP"}, {4, 'W', "SP"}}
				o.Out = []string{"pc", "sp"}
				o.In["sp"] = []string{"sp"}
				o.In["mem"] = []string{"pc"}
				o.OAMBug = true
			}
		}
		if o.Mnemonic == "" {
			o.Undefined = true
			o.Mnemonic = "undefined"
		}
		t[op] = o
	}
	return t
}

func callEffects(o *Op) {
	o.Mem = []MemAcc{{5, 'W', "SP"}, {6, 'W', "SP"}}
	o.Out = []string{"pc", "sp"}
	o.In["pc"] = []string{"imm"}
	o.In["sp"] = []string{"sp"}
	o.In["mem"] = []string{"pc"}
	o.OAMBug = true
}

func aluEffects(o *Op, y int, src string) {
	switch y {
	case 0, 2: // ADD SUB
		if y == 0 {
			o.Flags = flags("*0**")
		} else {
			o.Flags = flags("*1**")
		}
		o.Out = []string{"a"}
		o.In["a"] = []string{"a", src}
		o.In["f"] = []string{"a", src}
	case 1, 3: // ADC SBC
		if y == 1 {
			o.Flags = flags("*0**")
		} else {
			o.Flags = flags("*1**")
		}
		o.Out = []string{"a"}
		o.In["a"] = []string{"a", src, "fC"}
		o.In["f"] = []string{"a", src, "fC"}
	case 4: // AND
		o.Flags = flags("*010")
		o.Out = []string{"a"}
		o.In["a"] = []string{"a", src}
		o.In["f"] = []string{"a", src}
	case 5, 6: // XOR OR
		o.Flags = flags("*000")
		o.Out = []string{"a"}
		o.In["a"] = []string{"a", src}
		o.In["f"] = []string{"a", src}
	case 7: // CP
		o.Flags = flags("*1**")
		o.In["f"] = []string{"a", src}
	}
}

// CB returns the documented table of the 256 CB-prefixed opcodes.
func CB() [256]Op {
	var t [256]Op
	for op := 0; op < 256; op++ {
		o := Op{Code: op, Prefixed: true, Flags: flags("----"), In: map[string][]string{}}
		x, y, z := op>>6, (op>>3)&7, op&7
		reg := r8[z]
		isM := z == 6
		switch x {
		case 0:
			o.Mnemonic = rotN[y] + " " + reg
			if y == 6 {
				o.Flags = flags("*000")
			} else {
				o.Flags = flags("*00*")
			}
			carryIn := y == 2 || y == 3
			tgt := reg
			if isM {
				tgt = "mem"
				o.Cycles = 4
				o.Mem = []MemAcc{{3, 'R', "HL"}, {4, 'W', "HL"}}
			} else {
				o.Cycles = 2
				o.Out = []string{reg}
			}
			o.In[tgt] = []string{tgt}
			o.In["f"] = []string{tgt}
			if carryIn {
				o.In[tgt] = append(o.In[tgt], "fC")
			}
		case 1:
			o.Mnemonic = fmt.Sprintf("BIT %d,%s", y, reg)
			o.Flags = flags("*01-")
			if isM {
				o.Cycles = 3
				o.Mem = []MemAcc{{3, 'R', "HL"}}
				o.In["f"] = []string{"mem"}
			} else {
				o.Cycles = 2
				o.In["f"] = []string{reg}
			}
		case 2, 3:
			o.Mnemonic = fmt.Sprintf("%s %d,%s", []string{"RES", "SET"}[x-2], y, reg)
			if isM {
				o.Cycles = 4
				o.Mem = []MemAcc{{3, 'R', "HL"}, {4, 'W', "HL"}}
				o.In["mem"] = []string{"mem"}
			} else {
				o.Cycles = 2
				o.Out = []string{reg}
				o.In[reg] = []string{reg}
			}
		}
		t[op] = o
	}
	return t
}

// CondLiteral returns, for a condition code, the F bit tested and whether the
// condition holds when the bit is SET.
func CondLiteral(c string) (bit int, whenSet bool) {
	switch c {
	case "NZ":
		return 7, false
	case "Z":
		return 7, true
	case "NC":
		return 4, false
	case "C":
		return 4, true
	}
	return -1, false
}
