package ai

import (
	"fmt"
	"go/token"
	"go/types"
	"strings"

	"golang.org/x/tools/go/ssa"
)

// pure host functions: no effect on repository memory, result unknown.
var pureExtern = map[string]bool{
	"fmt.Sprintf": true, "fmt.Println": true, "fmt.Printf": true, "fmt.Sprint": true, "fmt.Errorf": true,
	"fmt.Fprintf": true, "fmt.Fprintln": true,
	"strconv.ParseUint": true, "strconv.Itoa": true,
	"image.Rect": true, "(image.Point).Size": true, "(image.Rectangle).Size": true,
	"(*os.File).Close": true, "os.Create": true, "image/png.Encode": true,
	"log.Printf": true, "log.Println": true,
	"flag.Bool": true, "flag.Parse": true, "flag.Arg": true,
	"context.Background": true,
	"runtime.GOMAXPROCS": true, "runtime.LockOSThread": true,
}

// process-terminating host functions.
var exitExtern = map[string]bool{
	"os.Exit": true, "log.Fatal": true, "log.Fatalf": true, "log.Fatalln": true, "runtime.Goexit": true,
}

func (f *frame) call(st *State, x *ssa.Call) (Value, *State) {
	it := f.it
	c := x.Common()
	args := make([]Value, len(c.Args))
	for i, a := range c.Args {
		args[i] = f.operand(st, a)
	}
	if c.IsInvoke() {
		recv := f.operand(st, c.Value)
		return f.invoke(st, x, recv, c.Method, args)
	}
	switch callee := c.Value.(type) {
	case *ssa.Builtin:
		return f.builtin(st, x, callee, args), st
	case *ssa.Function:
		return it.callResolved(st, x, callee, args, nil)
	}
	fv := f.operand(st, c.Value)
	return f.callValue(st, x, fv, args)
}

func (f *frame) callValue(st *State, x ssa.CallInstruction, fv Value, args []Value) (Value, *State) {
	it := f.it
	switch fn := fv.(type) {
	case *Func:
		if it.Hooks.Deref != nil {
			it.Hooks.Deref(st, x, fv, true)
		}
		return it.callResolved(st, x, fn.Fn, args, fn.Bind)
	case *NilV:
		if it.Hooks.Deref != nil {
			it.Hooks.Deref(st, x, fv, false)
		}
		return nil, nil
	case *Multi:
		var res Value
		var out *State
		allFunc := true
		for _, alt := range fn.Alts {
			fa, ok := alt.(*Func)
			if !ok {
				allFunc = false
				continue
			}
			s2 := st.Fork()
			r, o := it.callResolved(s2, x, fa.Fn, args, fa.Bind)
			if o == nil {
				continue
			}
			if out == nil {
				res, out = r, o
			} else {
				res = it.Join(res, r, nil, nil)
				out = it.JoinStates(out, o, nil, nil)
			}
		}
		if it.Hooks.Deref != nil {
			it.Hooks.Deref(st, x, fv, allFunc)
		}
		if out != nil {
			out.env = st.env
		}
		return res, out
	}
	if it.Hooks.Deref != nil {
		it.Hooks.Deref(st, x, fv, false)
	}
	if it.Hooks.Extern != nil {
		it.Hooks.Extern(st, x, "<dynamic call of unknown function>", args)
	}
	if it.Hooks.UnknownCall != nil {
		st = it.Hooks.UnknownCall(st, x)
	}
	var rt types.Type
	if v := x.Value(); v != nil {
		rt = v.Type()
	}
	return it.topOf(rt, depsOfAll(args)), st
}

func depsOfAll(vs []Value) Deps {
	var d Deps
	for _, v := range vs {
		d = Union(d, DepsOf(v))
	}
	return d
}

func (f *frame) invoke(st *State, x *ssa.Call, recv Value, m *types.Func, args []Value) (Value, *State) {
	it := f.it
	one := func(s *State, r Value) (Value, *State, bool) {
		ifc, ok := r.(*Iface)
		if !ok {
			return nil, nil, false
		}
		fn := it.Prog.LookupMethod(ifc.T, m.Pkg(), m.Name())
		if fn == nil {
			return nil, nil, false
		}
		v, o := it.callResolved(s, x, fn, append([]Value{ifc.V}, args...), nil)
		return v, o, true
	}
	switch r := recv.(type) {
	case *Iface:
		if it.Hooks.Deref != nil {
			it.Hooks.Deref(st, x, recv, true)
		}
		if v, o, ok := one(st, r); ok {
			return v, o
		}
	case *NilV:
		if it.Hooks.Deref != nil {
			it.Hooks.Deref(st, x, recv, false)
		}
		return nil, nil
	case *Multi:
		var res Value
		var out *State
		all := true
		for _, alt := range r.Alts {
			if _, isNil := alt.(*NilV); isNil {
				all = false
				continue
			}
			s2 := st.Fork()
			v, o, ok := one(s2, alt)
			if !ok {
				all = false
				continue
			}
			if o == nil {
				continue
			}
			if out == nil {
				res, out = v, o
			} else {
				res = it.Join(res, v, nil, nil)
				out = it.JoinStates(out, o, nil, nil)
			}
		}
		if it.Hooks.Deref != nil {
			it.Hooks.Deref(st, x, recv, all)
		}
		if out != nil {
			out.env = st.env
		}
		return res, out
	}
	// unknown receiver: host object (io.Writer, error, context ...)
	name := "invoke " + m.FullName()
	if it.Hooks.Extern != nil {
		it.Hooks.Extern(st, x, name, append([]Value{recv}, args...))
	}
	return it.topOf(x.Type(), Union3(DepsOf(recv), depsOfAll(args), Deps{it.HostSym(name)})), st
}

// callResolved calls a known function (interpreted, intercepted or extern).
func (it *Interp) callResolved(st *State, at ssa.Instruction, fn *ssa.Function, args []Value, bind []Value) (Value, *State) {
	if ic, ok := it.Intercepts[fn]; ok {
		return ic(st, at, args)
	}
	if fn.Blocks == nil || fn.Pkg == nil && fn.Synthetic == "" || !it.isRepoFunc(fn) {
		name := fn.String()
		if exitExtern[name] {
			if it.Hooks.Exit != nil {
				it.Hooks.Exit(st, at, name)
			}
			return nil, nil
		}
		return it.extern(st, at, fn, args), st
	}
	if it.Hooks.Call != nil {
		it.Hooks.Call(st, at, fn, args)
	}
	if it.Hooks.Args != nil {
		args = it.Hooks.Args(fn, args)
	}
	it.CallSites = append(it.CallSites, at)
	v, out := it.CallFunction(st, fn, args, bind)
	it.CallSites = it.CallSites[:len(it.CallSites)-1]
	return v, out
}

func (it *Interp) isRepoFunc(fn *ssa.Function) bool {
	if fn.Pkg != nil {
		return it.RepoPkg(fn.Pkg.Pkg)
	}
	if fn.Parent() != nil {
		return it.isRepoFunc(fn.Parent())
	}
	// synthetic wrappers ($bound, thunks): decide by the wrapped object
	if o := fn.Object(); o != nil && o.Pkg() != nil {
		return it.RepoPkg(o.Pkg())
	}
	if fn.Signature.Recv() != nil {
		if n := namedOf(fn.Signature.Recv().Type()); n != nil && n.Obj().Pkg() != nil {
			return it.RepoPkg(n.Obj().Pkg())
		}
	}
	// $bound wrappers have the receiver as a free variable
	if len(fn.FreeVars) > 0 {
		if n := namedOf(fn.FreeVars[0].Type()); n != nil && n.Obj().Pkg() != nil {
			return it.RepoPkg(n.Obj().Pkg())
		}
	}
	return false
}

func namedOf(t types.Type) *types.Named {
	if p, ok := t.(*types.Pointer); ok {
		t = p.Elem()
	}
	n, _ := t.(*types.Named)
	return n
}

// extern models a call into host code.
func (it *Interp) extern(st *State, at ssa.Instruction, fn *ssa.Function, args []Value) Value {
	name := fn.String()
	rt := resultType(fn.Signature)
	if it.Hooks.Extern != nil {
		it.Hooks.Extern(st, at, name, args)
	}
	d := Union(depsOfAll(args), Deps{it.HostSym(name)})
	if !pureExtern[name] {
		// unknown host code may write through the pointers it is given
		for _, a := range args {
			it.havocReachable(st, a)
		}
	}
	switch name {
	case "io/ioutil.ReadFile", "os.ReadFile":
		o := it.NewObject("host:"+name, types.NewSlice(types.Typ[types.Uint8]), ModeOpaque)
		s := it.NewSym("len("+name+")", CellKey{})
		ln := NewSymInt(64, true, s)
		ln.Lo = 0
		ln.HasBase = false
		ln.normalize()
		ln.IsLen = o
		return &Tuple{Vs: []Value{
			&Slice{Obj: o, Path: "", Off: NewConstInt(64, true, 0), Len: ln, Elem: types.Typ[types.Uint8]},
			&Top{T: fn.Signature.Results().At(1).Type(), D: d},
		}}
	case "image.NewRGBA":
		o := it.NewObject("host:image.RGBA", fn.Signature.Results().At(0).Type().(*types.Pointer).Elem(), ModeOpaque)
		return &Ptr{Obj: o, Path: "", Elem: o.T}
	}
	if rt == nil {
		return nil
	}
	if tup, ok := rt.(*types.Tuple); ok {
		vs := make([]Value, tup.Len())
		for i := 0; i < tup.Len(); i++ {
			vs[i] = it.externResult(name, i, tup.At(i).Type(), d)
		}
		return &Tuple{Vs: vs}
	}
	return it.externResult(name, 0, rt, d)
}

func (it *Interp) externResult(name string, i int, t types.Type, d Deps) Value {
	// pointer results of host constructors: a distinct opaque object per function
	if p, ok := t.Underlying().(*types.Pointer); ok {
		o := it.NewObject("host:"+name+"#"+itoa(int64(i)), p.Elem(), ModeOpaque)
		return &Multi{Alts: []Value{&Ptr{Obj: o, Path: "", Elem: p.Elem()}, &NilV{T: t}}}
	}
	return it.topOf(t, d)
}

func (it *Interp) havocReachable(st *State, v Value) {
	switch x := v.(type) {
	case *Ptr:
		if x.Obj.Mode != ModeOpaque && st.ModeOf(x.Obj) != ModeOpaque {
			c := st.cellsRW(x.Obj)
			c.mode = ModeOpaque
			c.m = map[string]Value{}
		}
	case *Iface:
		it.havocReachable(st, x.V)
	case *Multi:
		for _, a := range x.Alts {
			it.havocReachable(st, a)
		}
	case *Slice:
		if st.ModeOf(x.Obj) != ModeOpaque {
			c := st.cellsRW(x.Obj)
			c.mode = ModeOpaque
			c.m = map[string]Value{}
		}
	}
}

func (f *frame) builtin(st *State, x *ssa.Call, b *ssa.Builtin, args []Value) Value {
	it := f.it
	switch b.Name() {
	case "len", "cap":
		switch a := args[0].(type) {
		case *Slice:
			return toShape(a.Len, 64, true)
		case *Str:
			if a.Known {
				return NewConstInt(64, true, int64(len(a.S)))
			}
			r := NewTopInt(64, true, a.D)
			r.Lo = 0
			return r.normalize()
		case *NilV:
			return NewConstInt(64, true, 0)
		case *Multi:
			var res Value
			for _, alt := range a.Alts {
				switch s := alt.(type) {
				case *Slice:
					res = it.Join(res, toShape(s.Len, 64, true), nil, nil)
				case *NilV:
					res = it.Join(res, NewConstInt(64, true, 0), nil, nil)
				default:
					res = nil
				}
			}
			if res != nil {
				return res
			}
		case *Ptr:
			if arr, ok := a.Elem.Underlying().(*types.Array); ok {
				return NewConstInt(64, true, arr.Len())
			}
		case *Agg:
			if arr, ok := a.T.Underlying().(*types.Array); ok {
				return NewConstInt(64, true, arr.Len())
			}
		}
		r := NewTopInt(64, true, DepsOf(args[0]))
		r.Lo = 0
		return r.normalize()
	case "copy":
		dst, ok1 := args[0].(*Slice)
		if ok1 {
			var srcv Value = &Top{}
			if src, ok := args[1].(*Slice); ok {
				srcv = st.LoadPtr(&Ptr{Obj: src.Obj, Path: src.Path + "[*]", Elem: src.Elem})
				if arr, ok := leafTypeAtOrSelf(src.Obj.T, src.Path).(*types.Array); ok && arr.Len() <= perIndexLimit {
					srcv = nil
					lo, hi := src.Off.Lo, src.Off.Hi+src.Len.Hi-1
					if hi >= arr.Len() || hi < 0 {
						hi = arr.Len() - 1
					}
					if lo < 0 {
						lo = 0
					}
					for i := lo; i <= hi; i++ {
						srcv = it.Join(srcv, st.LoadPtr(&Ptr{Obj: src.Obj, Path: src.Path + "[" + itoa(i) + "]", Elem: src.Elem}), nil, nil)
					}
					if srcv == nil {
						srcv = &Top{}
					}
				}
			}
			srcv = WithDeps(srcv, st.PathDeps)
			// weak write of every destination element in range
			n := int64(-1)
			if arr, ok := leafTypeAtOrSelf(dst.Obj.T, dst.Path).(*types.Array); ok {
				n = arr.Len()
			}
			var p *Ptr
			if n >= 0 && n <= perIndexLimit {
				lo, hi := dst.Off.Lo, dst.Off.Hi+dst.Len.Hi-1
				if lo < 0 {
					lo = 0
				}
				if hi >= n || hi < lo {
					hi = n - 1
				}
				rng := NewTopInt(64, true, Union(dst.Off.D, dst.Len.D))
				rng.Lo, rng.Hi = lo, hi
				p = &Ptr{Obj: dst.Obj, Path: dst.Path + "[?" + itoa(n) + "]", Idx: []*Int{rng}, Elem: dst.Elem}
			} else {
				p = &Ptr{Obj: dst.Obj, Path: dst.Path + "[*]", Elem: dst.Elem}
			}
			keys, _ := st.StorePtr(p, srcv)
			if it.Hooks.Store != nil {
				it.Hooks.Store(st, x, p, keys, srcv, false)
			}
		}
		r := NewTopInt(64, true, depsOfAll(args))
		r.Lo = 0
		return r.normalize()
	case "append":
		if r := f.appendExactInPlace(st, x, args); r != nil {
			return r
		}
		f.appendInPlace(st, x, args)
		if r := f.appendSmall(st, x, args); r != nil {
			return r
		}
		// result: an opaque slice summarising old and new elements
		o := it.ObjectFor(x, x.Type(), siteName(x), ModeOpaque)
		ln := NewTopInt(64, true, depsOfAll(args))
		ln.Lo = 0
		ln.normalize()
		var elem types.Type
		if s, ok := x.Type().Underlying().(*types.Slice); ok {
			elem = s.Elem()
		}
		// remember what flows into it (for DumpRAM-style dependence rules)
		var d Deps
		for _, a := range args {
			if s, ok := a.(*Slice); ok {
				v := st.LoadPtr(&Ptr{Obj: s.Obj, Path: s.Path + "[*]", Elem: s.Elem})
				d = Union(d, DepsOf(v))
			}
		}
		st.SetCell(o, "[*]", &Top{T: elem, D: d})
		return &Slice{Obj: o, Path: "", Off: NewConstInt(64, true, 0), Len: ln, Elem: elem}
	case "print", "println", "delete", "close":
		return nil
	case "ssa:wrapnilchk":
		return args[0]
	case "min", "max":
		if len(args) == 2 {
			a, ok1 := args[0].(*Int)
			bb, ok2 := args[1].(*Int)
			if ok1 && ok2 {
				r := NewTopInt(a.W, a.Signed, Union(a.D, bb.D))
				if b.Name() == "min" {
					r.Lo, r.Hi = min64(a.Lo, bb.Lo), min64(a.Hi, bb.Hi)
				} else {
					r.Lo, r.Hi = max64(a.Lo, bb.Lo), max64(a.Hi, bb.Hi)
				}
				return r.normalize()
			}
		}
	}
	if x.Type() != nil {
		if strings.HasPrefix(b.Name(), "ssa:") {
			return args[0]
		}
		return it.topOf(x.Type(), depsOfAll(args))
	}
	return nil
}

var _ = token.ADD

// appendSmall models append exactly when both operands have small constant lengths (tables built
// element by element): the result is a fresh array holding the old elements followed by the new ones.
func (f *frame) appendSmall(st *State, x *ssa.Call, args []Value) Value {
	it := f.it
	if len(args) != 2 {
		return nil
	}
	st0, ok := x.Type().Underlying().(*types.Slice)
	if !ok {
		return nil
	}
	elem := st0.Elem()
	type part struct {
		s *Slice
		n int64
	}
	var parts []part
	total := int64(0)
	for _, a := range args {
		switch v := a.(type) {
		case *NilV:
			parts = append(parts, part{nil, 0})
		case *Slice:
			n, ok1 := v.Len.Const()
			off, ok2 := v.Off.Const()
			if !ok1 || !ok2 || off != 0 || n < 0 {
				return nil
			}
			parts = append(parts, part{v, n})
			total += n
		default:
			return nil
		}
	}
	if total > 64 {
		return nil
	}
	it.appendSeq++
	o := it.NewObject(fmt.Sprintf("append@%s#%d", siteName(x), it.appendSeq), types.NewArray(elem, total), ModeZero)
	st.ResetObject(o, ModeZero)
	k := int64(0)
	for _, p := range parts {
		for i := int64(0); i < p.n; i++ {
			v := st.LoadPtr(&Ptr{Obj: p.s.Obj, Path: fmt.Sprintf("%s[%d]", p.s.Path, i), Elem: elem})
			st.StorePtr(&Ptr{Obj: o, Path: fmt.Sprintf("[%d]", k), Elem: elem}, v)
			k++
		}
	}
	ln := NewConstInt(64, true, total)
	ln.IsLen = o
	return &Slice{Obj: o, Path: "", Off: NewConstInt(64, true, 0), Len: ln, Elem: elem, CapKnown: true, Cap: total}
}

// appendExactInPlace models append when the first operand has a known constant capacity that the result fits
// into: the new elements are stored behind the slice in the SAME backing storage and the result shares it, so
// two appends to one short slice overwrite each other exactly as in Go.
func (f *frame) appendExactInPlace(st *State, x *ssa.Call, args []Value) Value {
	it := f.it
	if len(args) != 2 {
		return nil
	}
	s, ok := args[0].(*Slice)
	if !ok || s.Obj == nil || !s.CapKnown {
		return nil
	}
	off, ok1 := s.Off.Const()
	ln, ok2 := s.Len.Const()
	if !ok1 || !ok2 {
		return nil
	}
	var vals []Value
	switch a := args[1].(type) {
	case *NilV:
	case *Slice:
		n, isc := a.Len.Const()
		aoff, okA := a.Off.Const()
		if !isc || !okA || n < 0 || n > 64 {
			return nil
		}
		for i := int64(0); i < n; i++ {
			vals = append(vals, st.LoadPtr(&Ptr{Obj: a.Obj, Path: fmt.Sprintf("%s[%d]", a.Path, aoff+i), Elem: a.Elem}))
		}
	default:
		return nil
	}
	if ln+int64(len(vals)) > s.Cap {
		return nil // does not fit: append allocates (appendSmall)
	}
	for i, v := range vals {
		p := &Ptr{Obj: s.Obj, Path: fmt.Sprintf("%s[%d]", s.Path, off+ln+int64(i)), Elem: s.Elem}
		keys, strong := st.StorePtr(p, v)
		if it.Hooks.Store != nil {
			it.Hooks.Store(st, x, p, keys, v, strong)
		}
	}
	nl := NewConstInt(64, true, ln+int64(len(vals)))
	return &Slice{Obj: s.Obj, Path: s.Path, Off: s.Off, Len: nl, Elem: s.Elem, CapKnown: true, Cap: s.Cap}
}

// appendInPlace accounts for append re-using the backing array of its first operand when that
// slice may have spare capacity (it does not reach the end of its array, or the extent is not
// known): the appended values may be stored right behind the slice.  The stores are weak and are
// reported through the Store hook like any other store, so ownership rules see a write into, say,
// a package-level table that is extended with append(table[:n], x).  The result value is still
// modelled as a fresh array (reads through the old array see the new elements as a possibility).
func (f *frame) appendInPlace(st *State, x *ssa.Call, args []Value) {
	it := f.it
	if len(args) != 2 {
		return
	}
	s, ok := args[0].(*Slice)
	if !ok || s.Obj == nil {
		return
	}
	arrLen := int64(-1)
	if at, ok := leafTypeAt(s.Obj.T, s.Path).(*types.Array); ok {
		arrLen = at.Len()
	} else if s.Path == "" {
		if at, ok := s.Obj.T.Underlying().(*types.Array); ok {
			arrLen = at.Len()
		}
	}
	off, okOff := s.Off.Const()
	ln, okLen := s.Len.Const()
	if arrLen >= 0 && okOff && okLen && off+ln == arrLen {
		return // the slice ends where its array ends: append must allocate
	}
	// values appended
	var vals []Value
	switch a := args[1].(type) {
	case *NilV:
		return
	case *Slice:
		if n, isc := a.Len.Const(); isc && n >= 0 && n <= 64 {
			if n == 0 {
				return
			}
			aoff, okA := a.Off.Const()
			for i := int64(0); i < n; i++ {
				path := a.Path + "[*]"
				if okA {
					path = fmt.Sprintf("%s[%d]", a.Path, aoff+i)
				}
				vals = append(vals, st.LoadPtr(&Ptr{Obj: a.Obj, Path: path, Elem: a.Elem}))
			}
		} else {
			vals = append(vals, st.LoadPtr(&Ptr{Obj: a.Obj, Path: a.Path + "[*]", Elem: a.Elem}))
		}
	default:
		return
	}
	for i, v := range vals {
		path := s.Path + "[*]"
		if okOff && okLen && arrLen >= 0 && len(vals) > 0 {
			if k := off + ln + int64(i); k < arrLen {
				path = fmt.Sprintf("%s[%d]", s.Path, k)
			} else {
				continue // beyond the array: this element cannot be stored in place
			}
		}
		p := &Ptr{Obj: s.Obj, Path: path, Elem: s.Elem}
		old := st.LoadPtr(p)
		keys, _ := st.StorePtr(p, it.Join(old, v, nil, st.PathDeps))
		if it.Hooks.Store != nil {
			it.Hooks.Store(st, x, p, keys, v, false)
		}
	}
}
