package ai

import (
	"go/token"
	"math"
)

// WrapHook, when non-nil, is told about arithmetic whose mathematical result
// may fall outside the type's range (unsigned underflow/overflow, signed
// overflow) together with the instruction being evaluated (set by the
// interpreter in curInstr).
type wrapInfo struct {
	Op   token.Token
	X, Y *Int
}

func addSat(a, b int64) (int64, bool) {
	c := a + b
	if (a > 0 && b > 0 && c < 0) || (a < 0 && b < 0 && c >= 0) {
		if a > 0 {
			return math.MaxInt64, true
		}
		return math.MinInt64, true
	}
	return c, false
}

func mulSat(a, b int64) (int64, bool) {
	if a == 0 || b == 0 {
		return 0, false
	}
	c := a * b
	if c/b != a || (a == math.MinInt64 && b == -1) || (b == math.MinInt64 && a == -1) {
		if (a > 0) == (b > 0) {
			return math.MaxInt64, true
		}
		return math.MinInt64, true
	}
	return c, false
}

func min64(a, b int64) int64 {
	if a < b {
		return a
	}
	return b
}
func max64(a, b int64) int64 {
	if a > b {
		return a
	}
	return b
}

func newInt(w int, signed bool, bits []Bit, lo, hi int64, d Deps) *Int {
	v := &Int{W: w, Signed: signed, Bits: bits, Lo: lo, Hi: hi, D: d, VID: nextVID()}
	return v.normalize()
}

// fits reports whether the mathematical interval [lo,hi] lies in the type range.
func fits(w int, signed bool, lo, hi int64, sat bool) bool {
	if sat {
		return false
	}
	tlo, thi := rangeOf(w, signed)
	if !signed && w >= 64 {
		return lo >= 0 // hi clamped
	}
	return lo >= tlo && hi <= thi
}

// BinInt evaluates x op y for integer operands of equal shape (shifts: y may differ).
// wrapped reports that the mathematical result may leave the type range.
func BinInt(op token.Token, x, y *Int) (res *Int, wrapped bool) {
	res, wrapped = binInt0(op, x, y)
	// identities (x & mask, x % m with x already in range) hand back a copy of the operand, form included;
	// everything else is a new number whose form is computed here
	if res != nil && res.Lin == nil {
		res.Lin = linBin(op, x, y, res, wrapped)
		refineFromLin(res)
	}
	return res, wrapped
}

// refineFromLin tightens the interval of a value from its linear form: if the form determines the value
// (it is exact, or valid modulo 2^W) and the range of the expression lies inside one window of 2^W
// consecutive integers, the value's interval is that range shifted into the type.
func refineFromLin(r *Int) {
	l := r.Lin
	if l == nil || r.W >= 62 || (l.Mod != 0 && l.Mod < r.W) {
		return
	}
	lo, hi, ok := l.rangeOfLin()
	if !ok {
		return
	}
	span := int64(1) << uint(r.W)
	tlo, _ := rangeOf(r.W, r.Signed)
	k1, k2 := floorDiv(lo-tlo, span), floorDiv(hi-tlo, span)
	if k1 != k2 {
		return
	}
	lo, hi = lo-k1*span, hi-k1*span
	if nlo, nhi := max64(r.Lo, lo), min64(r.Hi, hi); (nlo > r.Lo || nhi < r.Hi) && nlo <= nhi {
		r.Lo, r.Hi = nlo, nhi
		r.normalize()
	}
}

func binInt0(op token.Token, x, y *Int) (res *Int, wrapped bool) {
	w, signed := x.W, x.Signed
	d := Union(x.D, y.D)
	tlo, thi := rangeOf(w, signed)
	switch op {
	case token.AND:
		// x & (2^k-1) with x already inside [0, 2^k-1] is x itself (keeps the affine form)
		for _, p := range [][2]*Int{{x, y}, {y, x}} {
			if m, isc := p[1].Const(); isc && m >= 0 && m&(m+1) == 0 && p[0].Lo >= 0 && p[0].Hi <= m {
				r := p[0].clone()
				r.D = d
				return r, false
			}
		}
		bits := make([]Bit, w)
		for i := range bits {
			bits[i] = bitAnd(x.Bits[i], ybit(y, i))
		}
		lo, hi := tlo, thi
		if x.Lo >= 0 && y.Lo >= 0 {
			lo, hi = 0, min64(x.Hi, y.Hi)
		} else if x.Lo >= 0 {
			lo, hi = 0, x.Hi
		} else if y.Lo >= 0 {
			lo, hi = 0, y.Hi
		}
		// x & ^(2^k-1) rounds x down to a multiple of 2^k: monotone, so the bounds carry over
		for _, p := range [][2]*Int{{x, y}, {y, x}} {
			if m, isc := p[1].Const(); isc && p[1].allBitsConst() && m > 0 && p[0].Lo >= 0 && p[0].Hi < math.MaxInt64 && w < 63 {
				full := int64(1)<<uint(w) - 1
				if signed {
					full = int64(1)<<uint(w-1) - 1
				}
				low := ^m & full
				if low&(low+1) == 0 && low != 0 && m|low == full {
					lo, hi = max64(lo, p[0].Lo&m), min64(hi, p[0].Hi&m)
				}
			}
		}
		r := newInt(w, signed, bits, lo, hi, d)
		return r, false
	case token.OR:
		bits := make([]Bit, w)
		for i := range bits {
			bits[i] = bitOr(x.Bits[i], ybit(y, i))
		}
		lo, hi := tlo, thi
		if x.Lo >= 0 && y.Lo >= 0 {
			lo = max64(x.Lo, y.Lo)
			if x.Hi < math.MaxInt64 && y.Hi < math.MaxInt64 {
				n := bitLen(uint64(max64(x.Hi, y.Hi)))
				if n < 63 {
					hi = (int64(1) << uint(n)) - 1
				}
			}
		}
		return newInt(w, signed, bits, lo, hi, d), false
	case token.XOR:
		bits := make([]Bit, w)
		for i := range bits {
			bits[i] = bitXor(x.Bits[i], ybit(y, i))
		}
		lo, hi := tlo, thi
		if x.Lo >= 0 && y.Lo >= 0 && x.Hi < math.MaxInt64 && y.Hi < math.MaxInt64 {
			n := bitLen(uint64(max64(x.Hi, y.Hi)))
			if n < 63 {
				lo, hi = 0, (int64(1)<<uint(n))-1
			}
		}
		return newInt(w, signed, bits, lo, hi, d), false
	case token.AND_NOT:
		bits := make([]Bit, w)
		for i := range bits {
			bits[i] = bitAnd(x.Bits[i], ybit(y, i).Not())
		}
		lo, hi := tlo, thi
		if x.Lo >= 0 {
			lo, hi = 0, x.Hi
		}
		return newInt(w, signed, bits, lo, hi, d), false
	case token.ADD, token.SUB:
		bits := make([]Bit, w)
		carry := bit0
		if op == token.SUB {
			carry = bit1
		}
		for i := 0; i < w; i++ {
			a := x.Bits[i]
			b := ybit(y, i)
			if op == token.SUB {
				b = b.Not()
			}
			bits[i] = bitXor(bitXor(a, b), carry)
			carry = bitMaj(a, b, carry)
		}
		var lo, hi int64
		var s1, s2 bool
		if op == token.ADD {
			lo, s1 = addSat(x.Lo, y.Lo)
			hi, s2 = addSat(x.Hi, y.Hi)
		} else {
			lo, s1 = addSat(x.Lo, -y.Hi)
			hi, s2 = addSat(x.Hi, -y.Lo)
			if y.Hi == math.MinInt64 || y.Lo == math.MinInt64 {
				s1 = true
			}
		}
		unb := !signed && w >= 64 && (x.Hi == math.MaxInt64 || y.Hi == math.MaxInt64)
		ok := fits(w, signed, lo, hi, s1 || s2) && !unb
		if !ok {
			wrapped = true
			// try modular reasoning: if the whole interval wraps uniformly keep it
			span := uint64(0)
			if w < 63 {
				span = uint64(1) << uint(w)
			}
			if span != 0 && !(s1 || s2) && !signed {
				// unsigned: if both ends are on the same side of one wrap, shift
				if lo < 0 && hi < 0 && lo >= -int64(span) {
					lo += int64(span)
					hi += int64(span)
				} else if lo > thi && hi > thi && hi <= thi+int64(span) {
					lo -= int64(span)
					hi -= int64(span)
				} else {
					lo, hi = tlo, thi
				}
			} else {
				lo, hi = tlo, thi
			}
		}
		r := newInt(w, signed, bits, lo, hi, d)
		// offset of another number (only when no wrap-around is possible)
		if c, isc := y.Const(); isc && !wrapped && !x.IsConst() {
			base, off := x.VID, int64(0)
			if x.RelVID != 0 {
				base, off = x.RelVID, x.RelOff
			}
			r.RelVID = base
			if op == token.ADD {
				r.RelOff = off + c
			} else {
				r.RelOff = off - c
			}
		}
		// affine form
		if c, isc := y.Const(); isc && x.HasBase {
			r.HasBase, r.Base = true, x.Base
			if op == token.ADD {
				r.Off = x.Off + c
			} else {
				r.Off = x.Off - c
			}
		} else if c, isc := x.Const(); isc && y.HasBase && op == token.ADD {
			r.HasBase, r.Base, r.Off = true, y.Base, y.Off+c
		}
		return r, wrapped
	case token.MUL:
		// multiplication by a power of two is a shift
		if c, isc := y.Const(); isc && c > 0 && c&(c-1) == 0 {
			return shiftLeft(x, uint(bitLen(uint64(c))-1), d)
		}
		if c, isc := x.Const(); isc && c > 0 && c&(c-1) == 0 {
			return shiftLeft(y, uint(bitLen(uint64(c))-1), d)
		}
		cands := [4][2]int64{{x.Lo, y.Lo}, {x.Lo, y.Hi}, {x.Hi, y.Lo}, {x.Hi, y.Hi}}
		lo, hi := int64(math.MaxInt64), int64(math.MinInt64)
		sat := false
		for _, c := range cands {
			p, s := mulSat(c[0], c[1])
			sat = sat || s
			lo, hi = min64(lo, p), max64(hi, p)
		}
		unb := !signed && w >= 64 && (x.Hi == math.MaxInt64 || y.Hi == math.MaxInt64)
		if !fits(w, signed, lo, hi, sat) || unb {
			wrapped = true
			lo, hi = tlo, thi
		}
		bits := topBits(w)
		// low zero bits accumulate
		tz := trailingZeroBits(x) + trailingZeroBits(y)
		for i := 0; i < tz && i < w; i++ {
			bits[i] = bit0
		}
		return newInt(w, signed, bits, lo, hi, d), wrapped
	case token.QUO:
		if c, isc := y.Const(); isc && c > 0 && c&(c-1) == 0 && x.Lo >= 0 {
			return shiftRight(x, uint(bitLen(uint64(c))-1), d), false
		}
		lo, hi := tlo, thi
		if y.Lo > 0 && x.Lo >= 0 {
			lo, hi = x.Lo/y.Hi, x.Hi/y.Lo
			if x.Hi == math.MaxInt64 {
				hi = math.MaxInt64
			}
		} else if y.Lo > 0 {
			lo, hi = min64(x.Lo/y.Lo, x.Lo/y.Hi), max64(x.Hi/y.Lo, x.Hi/y.Hi)
		}
		return newInt(w, signed, topBits(w), lo, hi, d), false
	case token.REM:
		if c, isc := y.Const(); isc && c > 0 && c&(c-1) == 0 && x.Lo >= 0 {
			bits := make([]Bit, w)
			n := bitLen(uint64(c)) - 1
			for i := range bits {
				if i < n {
					bits[i] = x.Bits[i]
				} else {
					bits[i] = bit0
				}
			}
			return newInt(w, signed, bits, 0, min64(x.Hi, c-1), d), false
		}
		if xc, xok := x.Const(); xok {
			if yc, yok := y.Const(); yok && yc != 0 && x.allBitsConst() && y.allBitsConst() {
				r := NewConstInt(w, signed, xc%yc)
				r.D = d
				return r, false
			}
		}
		lo, hi := tlo, thi
		if y.Lo > 0 {
			if x.Lo >= 0 {
				lo, hi = 0, y.Hi-1
				if x.Hi < hi {
					hi = x.Hi
				}
				if x.Hi < y.Lo {
					lo = x.Lo // x % y == x
				}
			} else {
				lo, hi = -(y.Hi - 1), y.Hi-1
			}
		}
		r := newInt(w, signed, topBits(w), lo, hi, d)
		if y.IsLen != nil && y.Lo > 0 && x.Lo >= 0 {
			r.LtLen = y.IsLen
		}
		if x.Lo >= 0 && y.Lo > 0 && x.Hi < y.Lo {
			// identity: keep bits of x
			r = x.clone()
			r.D = d
			r.VID = nextVID()
		}
		return r, false
	case token.SHL:
		if c, isc := y.Const(); isc && c >= 0 {
			return shiftLeft(x, uint(c), d)
		}
		// non-constant count
		lo, hi := tlo, thi
		if x.Lo >= 0 && y.Lo >= 0 && y.Hi < 62 && x.Hi < math.MaxInt64 {
			h, sat := mulSat(x.Hi, int64(1)<<uint(y.Hi))
			if !sat && h <= thi {
				lo, hi = x.Lo, h
			} else {
				wrapped = true
			}
		} else {
			wrapped = true
		}
		return newInt(w, signed, topBits(w), lo, hi, d), wrapped
	case token.SHR:
		if c, isc := y.Const(); isc && c >= 0 {
			return shiftRight(x, uint(c), d), false
		}
		lo, hi := tlo, thi
		if x.Lo >= 0 {
			lo, hi = 0, x.Hi
		}
		return newInt(w, signed, topBits(w), lo, hi, d), false
	}
	return NewTopInt(w, signed, d), false
}

func ybit(y *Int, i int) Bit {
	if i < len(y.Bits) {
		return y.Bits[i]
	}
	if y.Signed && len(y.Bits) > 0 {
		return y.Bits[len(y.Bits)-1]
	}
	return bit0
}

func trailingZeroBits(x *Int) int {
	n := 0
	for _, b := range x.Bits {
		if b.K != BZero {
			break
		}
		n++
	}
	return n
}

func shiftLeft(x *Int, n uint, d Deps) (*Int, bool) {
	w := x.W
	bits := make([]Bit, w)
	lost := false
	for i := 0; i < w; i++ {
		if uint(i) < n {
			bits[i] = bit0
		} else {
			bits[i] = x.Bits[uint(i)-n]
		}
	}
	for i := w - int(n); i < w; i++ {
		if i >= 0 && x.Bits[i].K != BZero {
			lost = true
		}
	}
	if int(n) >= w {
		lost = x.Hi != 0 || x.Lo != 0
	}
	tlo, thi := rangeOf(w, x.Signed)
	lo, hi := tlo, thi
	if !lost && n < 62 && x.Lo >= 0 {
		l, s1 := mulSat(x.Lo, int64(1)<<n)
		h, s2 := mulSat(x.Hi, int64(1)<<n)
		if !s1 && !s2 && h <= thi {
			lo, hi = l, h
		}
	}
	return newInt(w, x.Signed, bits, lo, hi, d), lost
}

func shiftRight(x *Int, n uint, d Deps) *Int {
	w := x.W
	bits := make([]Bit, w)
	fill := bit0
	if x.Signed {
		fill = x.Bits[w-1]
	}
	for i := 0; i < w; i++ {
		j := uint(i) + n
		if j < uint(w) {
			bits[i] = x.Bits[j]
		} else {
			bits[i] = fill
		}
	}
	tlo, thi := rangeOf(w, x.Signed)
	lo, hi := tlo, thi
	if n < 63 {
		if x.Lo >= 0 {
			lo, hi = x.Lo>>n, x.Hi>>n
			if x.Hi == math.MaxInt64 && !x.Signed && w >= 64 {
				hi = math.MaxInt64 >> n << 1 // conservative: true max is (2^64-1)>>n
				if n == 0 {
					hi = math.MaxInt64
				}
			}
		} else {
			lo, hi = x.Lo>>n, x.Hi>>n
		}
	} else if x.Lo >= 0 {
		lo, hi = 0, 1
	}
	return newInt(w, x.Signed, bits, lo, hi, d)
}

// NotInt is ^x.
func NotInt(x *Int) *Int {
	r := notInt0(x)
	r.Lin = nil
	if a := linOf(x); a != nil && x.W < 62 {
		// ^x == -x-1 (signed) == 2^W-1-x (unsigned)
		l := linScale(a, -1)
		if x.Signed {
			l.K--
		} else {
			l.K += int64(1)<<uint(x.W) - 1
		}
		if !a.exact() {
			l.Mod = a.modOf(x.W)
		}
		r.Lin = l
	}
	return r
}

func notInt0(x *Int) *Int {
	bits := make([]Bit, x.W)
	for i := range bits {
		bits[i] = x.Bits[i].Not()
	}
	tlo, thi := rangeOf(x.W, x.Signed)
	lo, hi := tlo, thi
	if !x.Signed && x.W < 63 {
		lo, hi = thi-x.Hi, thi-x.Lo
	} else if x.Signed {
		lo, hi = -x.Hi-1, -x.Lo-1
		if x.Hi == math.MaxInt64 {
			lo = math.MinInt64
		}
		if x.Lo == math.MinInt64 {
			hi = math.MaxInt64
		}
	}
	return newInt(x.W, x.Signed, bits, lo, hi, x.D)
}

// NegInt is -x.
func NegInt(x *Int) (*Int, bool) {
	z := NewConstInt(x.W, x.Signed, 0)
	return BinInt(token.SUB, z, x)
}

// ConvertInt converts x to the integer shape (w, signed).
// truncated reports that the value may not be representable in the target.
func ConvertInt(x *Int, w int, signed bool) (res *Int, truncated bool) {
	res, truncated = convertInt0(x, w, signed)
	res.Lin = linConvert(linOf(x), x, res, truncated)
	return res, truncated
}

func convertInt0(x *Int, w int, signed bool) (res *Int, truncated bool) {
	bits := make([]Bit, w)
	ext := bit0
	if x.Signed {
		ext = x.Bits[x.W-1]
	}
	for i := 0; i < w; i++ {
		if i < x.W {
			bits[i] = x.Bits[i]
		} else {
			bits[i] = ext
		}
	}
	tlo, thi := rangeOf(w, signed)
	lo, hi := x.Lo, x.Hi
	unb := !x.Signed && x.W >= 64 && x.Hi == math.MaxInt64
	inRange := lo >= tlo && hi <= thi && !(unb && !(w >= 64 && !signed))
	if unb && signed && w >= 64 {
		inRange = false
	}
	if !inRange {
		truncated = true
		lo, hi = tlo, thi
		// modular shift for uniform wrap (e.g. int8(uint8 in [128,255]))
		if w < 63 && x.Lo >= 0 && x.Hi < math.MaxInt64 {
			span := int64(1) << uint(w)
			klo, khi := floorDiv(x.Lo-tlo, span), floorDiv(x.Hi-tlo, span)
			if klo == khi {
				lo, hi = x.Lo-klo*span, x.Hi-klo*span
			}
		}
	}
	r := newInt(w, signed, bits, lo, hi, x.D)
	if !truncated {
		r.LtLen, r.IsLen = x.LtLen, x.IsLen
		r.VID = x.VID // same number: refinements of one apply to the other
		r.From = x.From
		r.RelVID, r.RelOff = x.RelVID, x.RelOff
	}
	if x.HasBase && (w <= x.W || !truncated) {
		// (base+off) mod 2^W truncated to fewer bits is still base+off mod 2^w;
		// widening keeps the form only when no wrap happened (not tracked): keep
		// only for narrowing or same width
		if w <= x.W {
			r.HasBase, r.Base, r.Off = true, x.Base, x.Off
		}
	}
	return r, truncated
}

func floorDiv(a, b int64) int64 {
	q := a / b
	if (a%b != 0) && ((a < 0) != (b < 0)) {
		q--
	}
	return q
}

// CmpInt evaluates x op y to an abstract boolean.
func CmpInt(op token.Token, x, y *Int) *Bool {
	d := Union(x.D, y.D)
	res := &Bool{B: bitTop, D: d, VID: nextVID()}
	ops := map[token.Token]string{token.EQL: "==", token.NEQ: "!=", token.LSS: "<", token.LEQ: "<=", token.GTR: ">", token.GEQ: ">="}
	flip := map[string]string{"==": "==", "!=": "!=", "<": ">", "<=": ">=", ">": "<", ">=": "<="}
	o := ops[op]
	if c, ok := y.Const(); ok && y.allBitsConst() {
		res.Cmp = &Cmp{Op: o, X: x, C: c}
	} else if c, ok := x.Const(); ok && x.allBitsConst() {
		res.Cmp = &Cmp{Op: flip[o], X: y, C: c}
	} else {
		res.Cmp = &Cmp{Op: o, X: x, Y: y}
	}
	// interval decision
	unbX := !x.Signed && x.W >= 64 && x.Hi == math.MaxInt64
	unbY := !y.Signed && y.W >= 64 && y.Hi == math.MaxInt64
	decide := func(b bool) *Bool {
		if b {
			res.B = bit1
		} else {
			res.B = bit0
		}
		return res
	}
	switch op {
	case token.EQL, token.NEQ:
		eq := op == token.EQL
		if x.Hi < y.Lo && !unbX || y.Hi < x.Lo && !unbY {
			return decide(!eq)
		}
		if x.Lo == x.Hi && y.Lo == y.Hi && x.Lo == y.Lo && !unbX && !unbY && x.allBitsConst() && y.allBitsConst() {
			return decide(eq)
		}
		// same value identity
		if x.VID == y.VID {
			return decide(eq)
		}
		// a value the number is known not to be
		if cy, ok := y.Const(); ok && y.allBitsConst() {
			for _, n := range x.Not {
				if n == cy {
					return decide(!eq)
				}
			}
		}
		if cx, ok := x.Const(); ok && x.allBitsConst() {
			for _, n := range y.Not {
				if n == cx {
					return decide(!eq)
				}
			}
		}
		// known-bit disagreement
		for i := 0; i < x.W && i < y.W; i++ {
			a, b := x.Bits[i], y.Bits[i]
			if a.IsConst() && b.IsConst() && a.K != b.K {
				return decide(!eq)
			}
			if sameSrc(a, b) && a.Neg != b.Neg {
				return decide(!eq)
			}
		}
	case token.LSS:
		if x.Hi < y.Lo && !unbX {
			return decide(true)
		}
		if x.Lo >= y.Hi && !unbY {
			return decide(false)
		}
	case token.LEQ:
		if x.Hi <= y.Lo && !unbX {
			return decide(true)
		}
		if x.Lo > y.Hi && !unbY {
			return decide(false)
		}
	case token.GTR:
		if x.Lo > y.Hi && !unbY {
			return decide(true)
		}
		if x.Hi <= y.Lo && !unbX {
			return decide(false)
		}
	case token.GEQ:
		if x.Lo >= y.Hi && !unbY {
			return decide(true)
		}
		if x.Hi < y.Lo && !unbX {
			return decide(false)
		}
	}
	// single-unknown-bit decision against a constant: the outcome is a literal
	if c := res.Cmp; c != nil && c.Y == nil && c.X.Lo >= 0 {
		unk := -1
		nunk := 0
		var base uint64
		for i, b := range c.X.Bits {
			switch b.K {
			case BOne:
				if i < 63 {
					base |= 1 << uint(i)
				}
			case BZero:
			default:
				unk = i
				nunk++
			}
		}
		if nunk == 1 && unk < 62 && c.X.Bits[unk].K == BSrc && c.C >= 0 {
			ev := func(v uint64) bool {
				switch c.Op {
				case "==":
					return int64(v) == c.C
				case "!=":
					return int64(v) != c.C
				case "<":
					return int64(v) < c.C
				case "<=":
					return int64(v) <= c.C
				case ">":
					return int64(v) > c.C
				case ">=":
					return int64(v) >= c.C
				}
				return false
			}
			r0, r1 := ev(base), ev(base|1<<uint(unk))
			src := c.X.Bits[unk]
			switch {
			case r0 == r1:
				return decide(r0)
			case r1:
				res.B = src
			default:
				res.B = src.Not()
			}
		}
	}
	return res
}

// RefineInt narrows x under the assumption (x op c) == outcome.
func RefineInt(x *Int, op string, c int64, outcome bool) *Int {
	r, _ := RefineIntFeasible(x, op, c, outcome)
	return r
}

// RefineIntFeasible is RefineInt that also reports whether the assumption is
// satisfiable for the abstract value (false: the branch cannot be taken).
// Values excluded from the middle of a small interval are remembered (Not), so
// that a chain of equality tests over a small range is decided exactly.
func RefineIntFeasible(x *Int, op string, c int64, outcome bool) (*Int, bool) {
	if !outcome {
		neg := map[string]string{"==": "!=", "!=": "==", "<": ">=", "<=": ">", ">": "<=", ">=": "<"}
		op = neg[op]
	}
	excluded := func(v int64) bool {
		for _, n := range x.Not {
			if n == v {
				return true
			}
		}
		return false
	}
	r := x.clone()
	switch op {
	case "==":
		if c < r.Lo || c > r.Hi || excluded(c) {
			return x, false
		}
		r.Lo, r.Hi = c, c
		r.Not = nil
	case "!=":
		if r.Lo == c && r.Hi == c {
			return x, false
		}
		if c > r.Lo && c < r.Hi && r.Hi-r.Lo <= 64 && !excluded(c) {
			r.Not = append(append([]int64(nil), x.Not...), c)
		}
		if r.Lo == c {
			r.Lo++
		}
		if r.Hi == c {
			r.Hi--
		}
	case "<":
		if c != math.MinInt64 && c-1 < r.Hi {
			r.Hi = c - 1
		}
	case "<=":
		if c < r.Hi {
			r.Hi = c
		}
	case ">":
		if c != math.MaxInt64 && c+1 > r.Lo {
			r.Lo = c + 1
		}
	case ">=":
		if c > r.Lo {
			r.Lo = c
		}
	}
	// step over excluded end points
	for changed := true; changed && r.Lo <= r.Hi; {
		changed = false
		for _, n := range r.Not {
			if n == r.Lo {
				r.Lo++
				changed = true
			}
			if n == r.Hi {
				r.Hi--
				changed = true
			}
		}
	}
	if r.Lo > r.Hi {
		return x, false
	}
	if len(r.Not) > 0 {
		var keep []int64
		for _, n := range r.Not {
			if n > r.Lo && n < r.Hi {
				keep = append(keep, n)
			}
		}
		r.Not = keep
	}
	return r.normalize(), true
}

// JoinInt is the least upper bound (per bit equal-or-unknown, interval hull).
// If gate is a boolean literal, bits are selected (t when gate true).
func JoinInt(t, f *Int, gate *Bit, extra Deps) *Int {
	if t == f {
		return t
	}
	r := joinInt0(t, f, gate, extra)
	if r == t || r == f {
		if t.VID == f.VID {
			return r
		}
		r = r.clone()
	}
	if t.W == f.W {
		l := linJoin(t, f, gate)
		if r.Lin != l {
			if r == t || r == f {
				r = r.clone()
			}
			r.Lin = l
		}
	} else {
		r.Lin = nil
	}
	return r
}

func joinInt0(t, f *Int, gate *Bit, extra Deps) *Int {
	if t == f {
		return t
	}
	if t.W != f.W {
		return NewTopInt(t.W, t.Signed, Union3(t.D, f.D, extra))
	}
	same := t.Lo == f.Lo && t.Hi == f.Hi && t.LtLen == f.LtLen && t.IsLen == f.IsLen
	bits := make([]Bit, t.W)
	for i := range bits {
		a, b := t.Bits[i], f.Bits[i]
		if a == b {
			bits[i] = a
			continue
		}
		same = false
		if t.VID == f.VID && ((a.K == BSrc || a.K == BFn) && b.IsConst() || (b.K == BSrc || b.K == BFn) && a.IsConst()) {
			// two refinements of one and the same number: a bit that one path
			// learned to be constant is still that number's bit
			if a.K == BSrc || a.K == BFn {
				bits[i] = a
			} else {
				bits[i] = b
			}
			continue
		}
		if gate != nil {
			bits[i] = gateBit(*gate, a, b)
		} else {
			bits[i] = bitTop
		}
	}
	if same && DepsEqual(t.D, f.D) {
		if t.VID == f.VID {
			return t
		}
		c := t.clone()
		c.VID = nextVID()
		c.From = nil
		c.Not = nil
		if !(t.HasBase && f.HasBase && t.Base == f.Base && t.Off == f.Off) {
			c.HasBase = false
		}
		return c
	}
	d := Union(t.D, f.D)
	if !same {
		d = Union(d, extra)
	}
	r := &Int{W: t.W, Signed: t.Signed, Bits: bits, Lo: min64(t.Lo, f.Lo), Hi: max64(t.Hi, f.Hi), D: d, VID: nextVID()}
	if t.LtLen == f.LtLen {
		r.LtLen = t.LtLen
	} else if t.LtLen != nil && f.LtLen == nil && f.Lo >= 0 && t.LtLen.MinLenSet && f.Hi < t.LtLen.MinLen {
		r.LtLen = t.LtLen // the other side is a small constant below every possible length
	} else if f.LtLen != nil && t.LtLen == nil && t.Lo >= 0 && f.LtLen.MinLenSet && t.Hi < f.LtLen.MinLen {
		r.LtLen = f.LtLen
	}
	if t.IsLen == f.IsLen {
		r.IsLen = t.IsLen
	}
	if t.HasBase && f.HasBase && t.Base == f.Base && t.Off == f.Off {
		r.HasBase, r.Base, r.Off = true, t.Base, t.Off
	}
	if t.VID == f.VID {
		r.VID = t.VID
		if t.From != nil && f.From != nil && *t.From == *f.From {
			r.From = t.From
		}
	}
	// the hull must not be tightened by gated bits beyond soundness: normalize
	// only uses known bits, which are sound for both sides.
	return r.normalize()
}

// WidenInt widens old towards new using thresholds.
func WidenInt(old, nw *Int, thresholds []int64) *Int {
	j := JoinInt(old, nw, nil, nil)
	if j.Lo == old.Lo && j.Hi == old.Hi {
		return j
	}
	r := j.clone()
	r.Lin = nil
	// the known bits of the hull would pull the widened bound back: forget them
	r.Bits = topBits(r.W)
	tlo, thi := rangeOf(r.W, r.Signed)
	if j.Hi > old.Hi {
		r.Hi = thi
		for _, t := range thresholds { // ascending
			if t >= j.Hi {
				if t < r.Hi {
					r.Hi = t
				}
				break
			}
		}
	}
	if j.Lo < old.Lo {
		r.Lo = tlo
		for i := len(thresholds) - 1; i >= 0; i-- {
			if thresholds[i] <= j.Lo {
				if thresholds[i] > r.Lo {
					r.Lo = thresholds[i]
				}
				break
			}
		}
	}
	return r.normalize()
}

// IntLeq reports whether a is included in b (interval and bits).
func IntLeq(a, b *Int) bool {
	if a.Lo < b.Lo || a.Hi > b.Hi {
		return false
	}
	for i := range b.Bits {
		if b.Bits[i].K == BTop {
			continue
		}
		if i >= len(a.Bits) || a.Bits[i] != b.Bits[i] {
			return false
		}
	}
	if b.LtLen != nil && a.LtLen != b.LtLen && !(a.LtLen == nil && a.Lo >= 0 && b.LtLen.MinLenSet && a.Hi < b.LtLen.MinLen) {
		return false
	}
	return true
}
