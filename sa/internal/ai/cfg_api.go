package ai

import "golang.org/x/tools/go/ssa"

// CtrlDep says: the block executes only if `If` takes the given branch.
type CtrlDep struct {
	If     *ssa.If
	Branch bool
}

// PostDominates reports whether a post-dominates b in the graph whose back
// edges are cut (a == b counts).
func (it *Interp) PostDominates(fn *ssa.Function, a, b *ssa.BasicBlock) bool {
	c := it.cfg(fn)
	for i := b.Index; ; {
		if i == a.Index {
			return true
		}
		if i >= c.n {
			return false
		}
		i = c.ipdom[i]
	}
}

// ControlDeps returns, for every block, the conditional branches it is
// directly control dependent on (Ferrante et al.: B depends on edge A->S iff B
// post-dominates S and does not strictly post-dominate A).
func (it *Interp) ControlDeps(fn *ssa.Function) map[*ssa.BasicBlock][]CtrlDep {
	out := map[*ssa.BasicBlock][]CtrlDep{}
	for _, a := range fn.Blocks {
		iff, ok := a.Instrs[len(a.Instrs)-1].(*ssa.If)
		if !ok {
			continue
		}
		for si, s := range a.Succs {
			for _, b := range fn.Blocks {
				if it.PostDominates(fn, b, s) && !(b != a && it.PostDominates(fn, b, a)) {
					out[b] = append(out[b], CtrlDep{If: iff, Branch: si == 0})
				}
			}
		}
	}
	return out
}

// TransitiveControlDeps closes ControlDeps over the blocks of the branches.
func (it *Interp) TransitiveControlDeps(fn *ssa.Function) map[*ssa.BasicBlock][]CtrlDep {
	direct := it.ControlDeps(fn)
	out := map[*ssa.BasicBlock][]CtrlDep{}
	for _, b := range fn.Blocks {
		seen := map[*ssa.If]bool{}
		var walk func(x *ssa.BasicBlock)
		walk = func(x *ssa.BasicBlock) {
			for _, d := range direct[x] {
				if seen[d.If] {
					continue
				}
				seen[d.If] = true
				out[b] = append(out[b], d)
				walk(d.If.Block())
			}
		}
		walk(b)
	}
	return out
}

// LoopInfo describes a natural loop.
type LoopInfo struct {
	Header *ssa.BasicBlock
	Blocks map[*ssa.BasicBlock]bool
	Latch  []*ssa.BasicBlock
}

// Loops returns the natural loops of fn.
func Loops(fn *ssa.Function) []*LoopInfo {
	byHeader := map[*ssa.BasicBlock]*LoopInfo{}
	var order []*ssa.BasicBlock
	for _, b := range fn.Blocks {
		for _, s := range b.Succs {
			if s.Dominates(b) {
				l := byHeader[s]
				if l == nil {
					l = &LoopInfo{Header: s, Blocks: map[*ssa.BasicBlock]bool{s: true}}
					byHeader[s] = l
					order = append(order, s)
				}
				l.Latch = append(l.Latch, b)
				// blocks that reach the latch without passing the header
				var stack []*ssa.BasicBlock
				if !l.Blocks[b] {
					l.Blocks[b] = true
					stack = append(stack, b)
				}
				for len(stack) > 0 {
					x := stack[len(stack)-1]
					stack = stack[:len(stack)-1]
					for _, p := range x.Preds {
						if !l.Blocks[p] {
							l.Blocks[p] = true
							stack = append(stack, p)
						}
					}
				}
			}
		}
	}
	var out []*LoopInfo
	for _, h := range order {
		out = append(out, byHeader[h])
	}
	return out
}

// pathSplit reports whether the function is evaluated path-sensitively: it is
// small (at most 12 conditional branches, no loop) and contains a panic, i.e.
// it is a decision table whose default arm must be shown unreachable.
func (f *frame) pathSplit() bool {
	it := f.it
	if v, ok := it.pathSplitFn[f.fn]; ok {
		return v
	}
	ifs, panics, loops := 0, 0, false
	for _, b := range f.fn.Blocks {
		for _, s := range b.Succs {
			if s.Dominates(b) {
				loops = true
			}
		}
		switch b.Instrs[len(b.Instrs)-1].(type) {
		case *ssa.If:
			ifs++
		case *ssa.Panic:
			panics++
		}
	}
	v := panics > 0 && ifs <= 12 && !loops
	if it.pathSplitFn == nil {
		it.pathSplitFn = map[*ssa.Function]bool{}
	}
	it.pathSplitFn[f.fn] = v
	return v
}

// orderedOffsets: lo and hi are offsets of one and the same number and lo's offset is not larger.
func orderedOffsets(lo, hi *Int) bool {
	lb, lo0 := lo.RelVID, lo.RelOff
	if lb == 0 {
		lb, lo0 = lo.VID, 0
	}
	hb, hi0 := hi.RelVID, hi.RelOff
	if hb == 0 {
		hb, hi0 = hi.VID, 0
	}
	return lb == hb && lo0 <= hi0
}
