// Package ai is engine E2: a forward abstract interpreter over go/ssa.
//
// Domain: integers are a reduced product of a provenance-carrying known-bits
// vector (each bit is 0, 1, a (possibly negated) bit of a named symbolic input,
// or unknown), an interval, an optional affine form "symbol + constant", and a
// relational tag "< len(slice)"; every value also carries the set of symbols it
// may depend on (data and control dependence).  Pointers are (object, path)
// pairs into an abstract heap whose objects are allocation sites.  Calls are
// inlined (the program has no recursion), branches on non-constant conditions
// are evaluated on both sides and joined at the immediate post-dominator with a
// per-bit gated join, loops are unrolled while their conditions stay constant
// and otherwise solved by fixpoint iteration with threshold widening.
//
// It never runs the program and has no solver behind it.
package ai

import (
	"fmt"
	"go/types"
	"math"
	"sort"
	"strings"

	"golang.org/x/tools/go/ssa"
)

// ---------------------------------------------------------------------------
// symbols and dependence sets

// Sym names one unknown input: the initial content of a heap cell in the
// generic state, a parameter of the function under analysis, or an opaque
// source such as the result of a host library call.
type Sym int32

type SymInfo struct {
	Name string
	Cell CellKey // zero if not a cell symbol
	W    int
}

// Deps is an immutable sorted set of symbols.
type Deps []Sym

func (d Deps) Has(s Sym) bool {
	i := sort.Search(len(d), func(i int) bool { return d[i] >= s })
	return i < len(d) && d[i] == s
}

func Union(a, b Deps) Deps {
	if len(a) == 0 {
		return b
	}
	if len(b) == 0 {
		return a
	}
	// fast path: identical slices
	if len(a) == len(b) && &a[0] == &b[0] {
		return a
	}
	out := make(Deps, 0, len(a)+len(b))
	i, j := 0, 0
	for i < len(a) && j < len(b) {
		switch {
		case a[i] < b[j]:
			out = append(out, a[i])
			i++
		case a[i] > b[j]:
			out = append(out, b[j])
			j++
		default:
			out = append(out, a[i])
			i++
			j++
		}
	}
	out = append(out, a[i:]...)
	out = append(out, b[j:]...)
	if len(out) == len(a) {
		return a
	}
	if len(out) == len(b) {
		return b
	}
	return out
}

func Union3(a, b, c Deps) Deps { return Union(Union(a, b), c) }

func (d Deps) Minus(b Deps) Deps {
	if len(b) == 0 || len(d) == 0 {
		return d
	}
	var out Deps
	for _, s := range d {
		if !b.Has(s) {
			out = append(out, s)
		}
	}
	return out
}

func (d Deps) SubsetOf(b Deps) bool {
	for _, s := range d {
		if !b.Has(s) {
			return false
		}
	}
	return true
}

func DepsEqual(a, b Deps) bool {
	if len(a) != len(b) {
		return false
	}
	for i := range a {
		if a[i] != b[i] {
			return false
		}
	}
	return true
}

// ---------------------------------------------------------------------------
// bits

const (
	BZero uint8 = iota
	BOne
	BSrc // bit J of symbol S, negated if Neg
	BTop
	BFn // a boolean function of two input bits: TT[(x<<1)|y] with x = bit J of S, y = bit J2 of S2, (S,J) < (S2,J2)
)

type Bit struct {
	K   uint8
	Neg bool
	J   uint8
	S   Sym
	J2  uint8
	TT  uint8
	S2  Sym
}

var (
	bit0   = Bit{K: BZero}
	bit1   = Bit{K: BOne}
	bitTop = Bit{K: BTop}
)

func (b Bit) IsConst() bool { return b.K == BZero || b.K == BOne }
func (b Bit) Not() Bit {
	switch b.K {
	case BZero:
		return bit1
	case BOne:
		return bit0
	case BSrc:
		b.Neg = !b.Neg
		return b
	case BFn:
		b.TT = ^b.TT & 0xf
		return b
	}
	return bitTop
}
func (b Bit) String() string {
	switch b.K {
	case BZero:
		return "0"
	case BOne:
		return "1"
	case BSrc:
		n := ""
		if b.Neg {
			n = "!"
		}
		return fmt.Sprintf("%ss%d.%d", n, b.S, b.J)
	case BFn:
		return fmt.Sprintf("fn%04b(s%d.%d,s%d.%d)", b.TT, b.S, b.J, b.S2, b.J2)
	}
	return "?"
}

// bit2 combines two bits with a boolean operator when together they depend on at most two input bits:
// the result is a constant, an input bit (possibly negated) or a two-input function given by its truth table.
func bit2(op func(x, y bool) bool, a, b Bit) Bit {
	type src struct {
		S Sym
		J uint8
	}
	var vars []src
	add := func(s Sym, j uint8) {
		for _, v := range vars {
			if v.S == s && v.J == j {
				return
			}
		}
		vars = append(vars, src{s, j})
	}
	for _, x := range []Bit{a, b} {
		switch x.K {
		case BZero, BOne:
		case BSrc:
			add(x.S, x.J)
		case BFn:
			add(x.S, x.J)
			add(x.S2, x.J2)
		default:
			return bitTop
		}
	}
	if len(vars) > 2 {
		return bitTop
	}
	if len(vars) == 2 && (vars[1].S < vars[0].S || (vars[1].S == vars[0].S && vars[1].J < vars[0].J)) {
		vars[0], vars[1] = vars[1], vars[0]
	}
	val := func(x Bit, asg [2]bool) bool {
		get := func(s Sym, j uint8) bool {
			for i, v := range vars {
				if v.S == s && v.J == j {
					return asg[i]
				}
			}
			return false
		}
		switch x.K {
		case BOne:
			return true
		case BSrc:
			return get(x.S, x.J) != x.Neg
		case BFn:
			i := 0
			if get(x.S, x.J) {
				i |= 2
			}
			if get(x.S2, x.J2) {
				i |= 1
			}
			return x.TT>>uint(i)&1 == 1
		}
		return false
	}
	var tt uint8
	for i := 0; i < 4; i++ {
		asg := [2]bool{i&2 != 0, i&1 != 0}
		if op(val(a, asg), val(b, asg)) {
			tt |= 1 << uint(i)
		}
	}
	// simplify
	switch {
	case tt == 0:
		return bit0
	case tt == 0xf:
		return bit1
	}
	if len(vars) >= 1 {
		if tt == 0b1100 { // x
			return Bit{K: BSrc, S: vars[0].S, J: vars[0].J}
		}
		if tt == 0b0011 {
			return Bit{K: BSrc, S: vars[0].S, J: vars[0].J, Neg: true}
		}
	}
	if len(vars) == 2 {
		if tt == 0b1010 { // y
			return Bit{K: BSrc, S: vars[1].S, J: vars[1].J}
		}
		if tt == 0b0101 {
			return Bit{K: BSrc, S: vars[1].S, J: vars[1].J, Neg: true}
		}
		return Bit{K: BFn, S: vars[0].S, J: vars[0].J, S2: vars[1].S, J2: vars[1].J, TT: tt}
	}
	return bitTop
}

func sameSrc(a, b Bit) bool { return a.K == BSrc && b.K == BSrc && a.S == b.S && a.J == b.J }

func bitAnd(a, b Bit) Bit {
	switch {
	case a.K == BZero || b.K == BZero:
		return bit0
	case a.K == BOne:
		return b
	case b.K == BOne:
		return a
	case sameSrc(a, b):
		if a.Neg == b.Neg {
			return a
		}
		return bit0
	}
	return bit2(func(x, y bool) bool { return x && y }, a, b)
}

func bitOr(a, b Bit) Bit {
	switch {
	case a.K == BOne || b.K == BOne:
		return bit1
	case a.K == BZero:
		return b
	case b.K == BZero:
		return a
	case sameSrc(a, b):
		if a.Neg == b.Neg {
			return a
		}
		return bit1
	}
	return bit2(func(x, y bool) bool { return x || y }, a, b)
}

func bitXor(a, b Bit) Bit {
	switch {
	case a.K == BZero:
		return b
	case b.K == BZero:
		return a
	case a.K == BOne:
		return b.Not()
	case b.K == BOne:
		return a.Not()
	case sameSrc(a, b):
		if a.Neg == b.Neg {
			return bit0
		}
		return bit1
	}
	return bit2(func(x, y bool) bool { return x != y }, a, b)
}

func bitMaj(a, b, c Bit) Bit {
	// majority(a,b,c) = ab | c(a^b)
	switch {
	case a.K == BZero:
		return bitAnd(b, c)
	case a.K == BOne:
		return bitOr(b, c)
	case b.K == BZero:
		return bitAnd(a, c)
	case b.K == BOne:
		return bitOr(a, c)
	case c.K == BZero:
		return bitAnd(a, b)
	case c.K == BOne:
		return bitOr(a, b)
	}
	if a == b {
		return a
	}
	if a == c {
		return a
	}
	if b == c {
		return b
	}
	if sameSrc(a, b) {
		return c
	}
	if sameSrc(a, c) {
		return b
	}
	if sameSrc(b, c) {
		return a
	}
	return bitTop
}

// gateBit selects t when g is true and f when g is false.
func gateBit(g, t, f Bit) Bit {
	if t == f {
		return t
	}
	switch g.K {
	case BOne:
		return t
	case BZero:
		return f
	case BSrc:
		if t.K == BOne && f.K == BZero {
			return g
		}
		if t.K == BZero && f.K == BOne {
			return g.Not()
		}
		// t == g-consistent simplifications
		if sameSrc(g, t) && f.K == BZero && t.Neg == g.Neg {
			return g // g ? g : 0 == g
		}
		if sameSrc(g, f) && t.K == BOne && f.Neg == g.Neg {
			return g // g ? 1 : g == g
		}
	}
	return bitTop
}

// ---------------------------------------------------------------------------
// values

type Value interface{ vkind() string }

// Int is an abstract integer of a fixed width.
type Int struct {
	W       int
	Signed  bool
	Bits    []Bit // len W, LSB first
	Lo, Hi  int64 // interval (unsigned 64-bit values above MaxInt64 are clamped to MaxInt64 = "unbounded")
	D       Deps
	VID     int64    // identity of the computed value (copies keep it), used by branch refinement
	From    *CellKey // the cell this value was loaded from, if any
	LtLen   *Object  // value < len(slice backed by this object)
	IsLen   *Object  // value == len(slice backed by this object)
	Base    Sym      // affine form: value == value-of-Base + Off (mod 2^W), valid if HasBase
	Off     int64
	HasBase bool
	Not     []int64 // values inside [Lo,Hi] the number is known not to be (small ranges only)
	// RelVID/RelOff: this number equals (the number with identity RelVID) + RelOff,
	// computed without wrap-around; lets two offsets of one quantity be ordered.
	RelVID int64
	RelOff int64
	// Lin: linear normal form over input symbols (see lin.go); nil if unknown
	Lin *Lin
}

type Bool struct {
	B    Bit
	D    Deps
	VID  int64
	From *CellKey
	Cmp  *Cmp
}

// Cmp records how a boolean was computed, for branch refinement and for
// structural rules that need the shape of a stored predicate.
type Cmp struct {
	Op  string // "==", "!=", "<", "<=", ">", ">="
	X   *Int   // left operand (non-constant)
	C   int64  // right operand (constant)
	Y   *Int   // right operand if not constant (then C unused, no refinement)
	Neg bool
	// for boolean combinations
	NotOf *Bool
	// for pointer nil tests
	NilOf Value
	NilEq bool
}

type Ptr struct {
	Obj  *Object
	Path string
	Idx  []*Int // intervals for each "[?]" placeholder in Path
	Elem types.Type
}

type NilV struct{ T types.Type }

type Func struct {
	Fn   *ssa.Function
	Bind []Value
}

type Slice struct {
	Obj  *Object // backing array object
	Path string  // path of the array within Obj
	Off  *Int    // offset of element 0 within the array
	Len  *Int
	Elem types.Type
	// LenRef, if set, names "the slice held by the cell this value was loaded from"
	// (see tagSliceSource); an index carrying LtLen == LenRef is in bounds.
	LenRef *Object
	// CapKnown/Cap: the capacity (elements from Off to the end of the backing storage, or to the third slicing
	// index) when it is a known constant; append stores in place while Len+n <= Cap and allocates otherwise
	CapKnown bool
	Cap      int64
}

type Iface struct {
	T types.Type
	V Value
}

type Multi struct{ Alts []Value }

type Agg struct {
	T types.Type
	M map[string]Value // relative leaf path -> value
}

type Str struct {
	Known bool
	S     string
	D     Deps
}

type Float struct {
	Lo, Hi float64
	D      Deps
}

type Top struct {
	T types.Type
	D Deps
}

type Tuple struct{ Vs []Value }

func (*Int) vkind() string   { return "int" }
func (*Bool) vkind() string  { return "bool" }
func (*Ptr) vkind() string   { return "ptr" }
func (*NilV) vkind() string  { return "nil" }
func (*Func) vkind() string  { return "func" }
func (*Slice) vkind() string { return "slice" }
func (*Iface) vkind() string { return "iface" }
func (*Multi) vkind() string { return "multi" }
func (*Agg) vkind() string   { return "agg" }
func (*Str) vkind() string   { return "str" }
func (*Float) vkind() string { return "float" }
func (*Top) vkind() string   { return "top" }
func (*Tuple) vkind() string { return "tuple" }

// DepsOf returns the dependence set of any value.
func DepsOf(v Value) Deps {
	switch x := v.(type) {
	case *Int:
		return x.D
	case *Bool:
		return x.D
	case *Float:
		return x.D
	case *Top:
		return x.D
	case *Str:
		return x.D
	case *Iface:
		return DepsOf(x.V)
	case *Multi:
		var d Deps
		for _, a := range x.Alts {
			d = Union(d, DepsOf(a))
		}
		return d
	case *Agg:
		var d Deps
		for _, a := range x.M {
			d = Union(d, DepsOf(a))
		}
		return d
	case *Slice:
		var d Deps
		if x.Len != nil {
			d = x.Len.D
		}
		if x.Off != nil {
			d = Union(d, x.Off.D)
		}
		return d
	case *Ptr:
		var d Deps
		for _, i := range x.Idx {
			d = Union(d, i.D)
		}
		return d
	case *Tuple:
		var d Deps
		for _, a := range x.Vs {
			d = Union(d, DepsOf(a))
		}
		return d
	}
	return nil
}

// WithDeps returns v with extra dependences added.
func WithDeps(v Value, d Deps) Value {
	if len(d) == 0 || v == nil {
		return v
	}
	switch x := v.(type) {
	case *Int:
		nd := Union(x.D, d)
		if len(nd) == len(x.D) {
			return x
		}
		c := *x
		c.D = nd
		return &c
	case *Bool:
		nd := Union(x.D, d)
		if len(nd) == len(x.D) {
			return x
		}
		c := *x
		c.D = nd
		return &c
	case *Float:
		c := *x
		c.D = Union(x.D, d)
		return &c
	case *Top:
		c := *x
		c.D = Union(x.D, d)
		return &c
	case *Str:
		c := *x
		c.D = Union(x.D, d)
		return &c
	case *Iface:
		return &Iface{T: x.T, V: WithDeps(x.V, d)}
	case *Agg:
		m := make(map[string]Value, len(x.M))
		for k, a := range x.M {
			m[k] = WithDeps(a, d)
		}
		return &Agg{T: x.T, M: m}
	}
	return v
}

// ---------------------------------------------------------------------------
// integer helpers

func typeWidth(t types.Type) (w int, signed bool, ok bool) {
	b, isb := t.Underlying().(*types.Basic)
	if !isb {
		return 0, false, false
	}
	switch b.Kind() {
	case types.Int8:
		return 8, true, true
	case types.Int16:
		return 16, true, true
	case types.Int32:
		return 32, true, true
	case types.Int64, types.Int, types.UntypedInt, types.UntypedRune:
		return 64, true, true
	case types.Uint8:
		return 8, false, true
	case types.Uint16:
		return 16, false, true
	case types.Uint32:
		return 32, false, true
	case types.Uint64, types.Uint, types.Uintptr:
		return 64, false, true
	}
	return 0, false, false
}

// IntWidthOverride lets the driver analyse with 32-bit int (GOARCH=386).
var IntIs32 = false

func typeWidthArch(t types.Type) (int, bool, bool) {
	w, s, ok := typeWidth(t)
	if ok && IntIs32 {
		if b, isb := t.Underlying().(*types.Basic); isb {
			switch b.Kind() {
			case types.Int, types.Uint, types.Uintptr:
				w = 32
			}
		}
	}
	return w, s, ok
}

func rangeOf(w int, signed bool) (int64, int64) {
	if signed {
		if w >= 64 {
			return math.MinInt64, math.MaxInt64
		}
		return -(int64(1) << (w - 1)), (int64(1) << (w - 1)) - 1
	}
	if w >= 63 {
		return 0, math.MaxInt64
	}
	return 0, (int64(1) << w) - 1
}

var vidCounter int64

func nextVID() int64 { vidCounter++; return vidCounter }

func topBits(w int) []Bit {
	b := make([]Bit, w)
	for i := range b {
		b[i] = bitTop
	}
	return b
}

// NewTopInt returns the unconstrained integer of the given type shape.
func NewTopInt(w int, signed bool, d Deps) *Int {
	lo, hi := rangeOf(w, signed)
	return &Int{W: w, Signed: signed, Bits: topBits(w), Lo: lo, Hi: hi, D: d, VID: nextVID()}
}

// NewConstInt returns the constant c.
func NewConstInt(w int, signed bool, c int64) *Int {
	bits := make([]Bit, w)
	for i := 0; i < w; i++ {
		if i < 64 && (uint64(c)>>uint(i))&1 == 1 {
			bits[i] = bit1
		} else if i >= 64 && c < 0 {
			bits[i] = bit1
		}
	}
	v := &Int{W: w, Signed: signed, Bits: bits, Lo: c, Hi: c, VID: nextVID()}
	if !signed && w == 64 && c < 0 {
		// huge unsigned constant: keep bits, clamp interval
		v.Lo, v.Hi = math.MaxInt64, math.MaxInt64
	}
	return v
}

// NewSymInt returns the symbolic integer whose bit j is bit j of symbol s.
func NewSymInt(w int, signed bool, s Sym) *Int {
	bits := make([]Bit, w)
	for i := range bits {
		bits[i] = Bit{K: BSrc, S: s, J: uint8(i)}
	}
	lo, hi := rangeOf(w, signed)
	return &Int{W: w, Signed: signed, Bits: bits, Lo: lo, Hi: hi, D: Deps{s}, VID: nextVID(), Base: s, HasBase: true, Lin: linSym(s, w, signed)}
}

func (v *Int) IsConst() bool { return v.Lo == v.Hi && v.allBitsConst() }

func (v *Int) allBitsConst() bool {
	for _, b := range v.Bits {
		if !b.IsConst() {
			return false
		}
	}
	return true
}

// Const returns the constant value if v is a constant.
func (v *Int) Const() (int64, bool) {
	if v.Lo == v.Hi {
		return v.Lo, true
	}
	return 0, false
}

// KnownOnes / KnownZeros as masks over the low 64 bits.
func (v *Int) KnownOnes() uint64 {
	var m uint64
	for i, b := range v.Bits {
		if i < 64 && b.K == BOne {
			m |= 1 << uint(i)
		}
	}
	return m
}
func (v *Int) KnownZeros() uint64 {
	var m uint64
	for i, b := range v.Bits {
		if i < 64 && b.K == BZero {
			m |= 1 << uint(i)
		}
	}
	return m
}

// normalize performs the reduction between bits and interval.
func (v *Int) normalize() *Int {
	w := v.W
	tlo, thi := rangeOf(w, v.Signed)
	if v.Lo < tlo {
		v.Lo = tlo
	}
	if v.Hi > thi {
		v.Hi = thi
	}
	if v.Lo > v.Hi {
		v.Lo, v.Hi = tlo, thi
	}
	if !v.Signed || v.Lo >= 0 {
		// non-negative view: bits and interval talk about the same number
		if v.Signed {
			v.Bits[w-1] = bit0
		}
		var mn, mx uint64
		unbounded := false
		for i, b := range v.Bits {
			if i >= 63 {
				if b.K != BZero {
					unbounded = true
				}
				continue
			}
			switch b.K {
			case BOne:
				mn |= 1 << uint(i)
				mx |= 1 << uint(i)
			case BZero:
			default:
				mx |= 1 << uint(i)
			}
		}
		if int64(mn) > v.Lo {
			v.Lo = int64(mn)
		}
		if !unbounded && int64(mx) < v.Hi {
			v.Hi = int64(mx)
		}
		// known-zero low bits: the value is a multiple of 2^tz
		tz := 0
		for tz < w && tz < 62 && v.Bits[tz].K == BZero {
			tz++
		}
		if tz > 0 && tz < 62 && v.Hi < math.MaxInt64 {
			m := int64(1) << uint(tz)
			if r := v.Lo % m; r != 0 && v.Lo+(m-r) > v.Lo {
				v.Lo += m - r
			}
			v.Hi -= v.Hi % m
		}
		if v.Lo > v.Hi {
			// contradictory facts: the value is unreachable; keep it well formed
			v.Lo = v.Hi
		}
		if v.Hi < math.MaxInt64 {
			for i := bitLen(uint64(v.Hi)); i < w; i++ {
				v.Bits[i] = bit0
			}
			// bits above the highest bit in which the bounds differ are shared by every value in between
			for i := bitLen(uint64(v.Lo ^ v.Hi)); i < w && i < 63; i++ {
				if (uint64(v.Lo)>>uint(i))&1 == 1 {
					v.Bits[i] = bit1
				} else {
					v.Bits[i] = bit0
				}
			}
		}
		if v.Lo == v.Hi && v.Hi < math.MaxInt64 {
			for i := 0; i < w && i < 63; i++ {
				if (uint64(v.Lo)>>uint(i))&1 == 1 {
					v.Bits[i] = bit1
				} else {
					v.Bits[i] = bit0
				}
			}
		}
	} else if v.Lo == v.Hi {
		for i := 0; i < w && i < 64; i++ {
			if (uint64(v.Lo)>>uint(i))&1 == 1 {
				v.Bits[i] = bit1
			} else {
				v.Bits[i] = bit0
			}
		}
	} else if v.Hi < 0 {
		v.Bits[w-1] = bit1
	}
	return v
}

func bitLen(x uint64) int {
	n := 0
	for x != 0 {
		n++
		x >>= 1
	}
	return n
}

func (v *Int) clone() *Int {
	c := *v
	c.Bits = append([]Bit(nil), v.Bits...)
	return &c
}

func (v *Int) String() string {
	if v == nil {
		return "<none>"
	}
	var sb strings.Builder
	if c, ok := v.Const(); ok && v.allBitsConst() {
		fmt.Fprintf(&sb, "%#x", c)
		return sb.String()
	}
	fmt.Fprintf(&sb, "[%d,%d]", v.Lo, v.Hi)
	interesting := false
	for _, b := range v.Bits {
		if b.K != BTop {
			interesting = true
		}
	}
	if interesting {
		sb.WriteString("{")
		for i := len(v.Bits) - 1; i >= 0; i-- {
			if i < len(v.Bits)-1 {
				sb.WriteString(" ")
			}
			sb.WriteString(v.Bits[i].String())
		}
		sb.WriteString("}")
	}
	return sb.String()
}

func NewConstBool(b bool) *Bool {
	if b {
		return &Bool{B: bit1, VID: nextVID()}
	}
	return &Bool{B: bit0, VID: nextVID()}
}

func (b *Bool) Const() (bool, bool) {
	switch b.B.K {
	case BOne:
		return true, true
	case BZero:
		return false, true
	}
	return false, false
}

func (b *Bool) String() string {
	if b == nil {
		return "<none>"
	}
	return "bool(" + b.B.String() + ")"
}

// ValueString renders any value for diagnostics.
func ValueString(v Value) string {
	switch x := v.(type) {
	case nil:
		return "<nil-value>"
	case *Int:
		return x.String()
	case *Bool:
		return x.String()
	case *Ptr:
		return fmt.Sprintf("&%s%s", x.Obj.Name, x.Path)
	case *NilV:
		return "nil"
	case *Func:
		if len(x.Bind) > 0 {
			parts := []string{}
			for _, b := range x.Bind {
				parts = append(parts, ValueString(b))
			}
			return fmt.Sprintf("func %s{%s}", x.Fn.String(), strings.Join(parts, ","))
		}
		return "func " + x.Fn.String()
	case *Slice:
		return fmt.Sprintf("slice(%s%s len=%s)", x.Obj.Name, x.Path, x.Len)
	case *Iface:
		return fmt.Sprintf("iface(%s:%s)", x.T, ValueString(x.V))
	case *Multi:
		parts := []string{}
		for _, a := range x.Alts {
			parts = append(parts, ValueString(a))
		}
		return "multi{" + strings.Join(parts, " | ") + "}"
	case *Agg:
		return fmt.Sprintf("agg(%s)", x.T)
	case *Str:
		if x.Known {
			return fmt.Sprintf("%q", x.S)
		}
		return "str(?)"
	case *Float:
		if x == nil {
			return "<none>"
		}
		return fmt.Sprintf("float[%g,%g]", x.Lo, x.Hi)
	case *Top:
		return fmt.Sprintf("top(%v)", x.T)
	case *Tuple:
		parts := []string{}
		for _, a := range x.Vs {
			parts = append(parts, ValueString(a))
		}
		return "(" + strings.Join(parts, ", ") + ")"
	}
	return fmt.Sprintf("%T", v)
}
