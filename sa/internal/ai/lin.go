package ai

import (
	"fmt"
	"go/token"
	"math"
	"sort"
	"strings"
)

// Lin is a linear normal form of an integer over input symbols:
//
//	value == K + sum(C_i * term_i)            if Mod == 0 (exact, as mathematical integers)
//	value == K + sum(C_i * term_i) (mod 2^Mod) otherwise
//
// A term is a whole input symbol (J < 0; W and Signed give its shape, [Lo,Hi] the
// range it is known to lie in) or one bit of a symbol (J >= 0, range [0,1]).  The
// form is what lets a check say "the byte stored to A is A + B + carry (mod 256)"
// or "PC becomes PC + 2 + e - 256" for all values at once, where intervals and
// known bits alone cannot.  Forms are immutable.
type Lin struct {
	T   []LinTerm
	K   int64
	Mod int
}

type LinTerm struct {
	S      Sym
	J      int8 // bit index, or -1 for the whole symbol
	C      int64
	W      uint8 // width of the whole symbol (J < 0)
	Signed bool
	Lo, Hi int64 // range of the term's value
}

const linMaxTerms = 40

func linConst(k int64) *Lin { return &Lin{K: k} }

func linSym(s Sym, w int, signed bool) *Lin {
	lo, hi := rangeOf(w, signed)
	return &Lin{T: []LinTerm{{S: s, J: -1, C: 1, W: uint8(w), Signed: signed, Lo: lo, Hi: hi}}}
}

func (l *Lin) exact() bool { return l != nil && l.Mod == 0 }

// modOf is the modulus the form is valid for inside a value of width w.
func (l *Lin) modOf(w int) int {
	if l.Mod == 0 || l.Mod > w {
		return w
	}
	return l.Mod
}

func termLess(a, b LinTerm) bool {
	if a.S != b.S {
		return a.S < b.S
	}
	return a.J < b.J
}

// linCombine returns a + sign*b (terms merged, zero coefficients dropped); nil if too large.
func linCombine(a, b *Lin, sign int64) *Lin {
	r := &Lin{K: a.K + sign*b.K}
	m := map[[2]int64]int{}
	for _, t := range a.T {
		m[[2]int64{int64(t.S), int64(t.J)}] = len(r.T)
		r.T = append(r.T, t)
	}
	for _, t := range b.T {
		key := [2]int64{int64(t.S), int64(t.J)}
		if i, ok := m[key]; ok {
			r.T[i].C += sign * t.C
			// the same term seen with two ranges: both hold
			if t.Lo > r.T[i].Lo {
				r.T[i].Lo = t.Lo
			}
			if t.Hi < r.T[i].Hi {
				r.T[i].Hi = t.Hi
			}
		} else {
			t.C *= sign
			m[key] = len(r.T)
			r.T = append(r.T, t)
		}
	}
	out := r.T[:0]
	for _, t := range r.T {
		if t.C != 0 {
			out = append(out, t)
		}
	}
	r.T = out
	if len(r.T) > linMaxTerms {
		return nil
	}
	sort.Slice(r.T, func(i, j int) bool { return termLess(r.T[i], r.T[j]) })
	return r
}

func linScale(a *Lin, c int64) *Lin {
	r := &Lin{K: a.K * c, Mod: a.Mod}
	if c == 0 {
		return &Lin{}
	}
	for _, t := range a.T {
		t.C *= c
		r.T = append(r.T, t)
	}
	return r
}

// rangeOfLin is the interval of the expression from its term ranges (ok=false on overflow).
func (l *Lin) rangeOfLin() (lo, hi int64, ok bool) {
	lo, hi = l.K, l.K
	for _, t := range l.T {
		a, s1 := mulSat(t.C, t.Lo)
		b, s2 := mulSat(t.C, t.Hi)
		if s1 || s2 {
			return 0, 0, false
		}
		if a > b {
			a, b = b, a
		}
		var s3, s4 bool
		lo, s3 = addSat(lo, a)
		hi, s4 = addSat(hi, b)
		if s3 || s4 {
			return 0, 0, false
		}
	}
	return lo, hi, true
}

// linOf returns the form of x: the attached one, a constant, or one read off the known bits
// (every bit constant or a bit of an input symbol).
func linOf(x *Int) *Lin {
	if x == nil {
		return nil
	}
	if l := x.Lin; l != nil {
		// a bare symbol whose holder has been narrowed since: the term's range follows
		if len(l.T) == 1 && l.K == 0 && l.Mod == 0 && l.T[0].J < 0 && l.T[0].C == 1 && (x.Lo > l.T[0].Lo || x.Hi < l.T[0].Hi) {
			t := l.T[0]
			t.Lo, t.Hi = max64(t.Lo, x.Lo), min64(t.Hi, x.Hi)
			return &Lin{T: []LinTerm{t}}
		}
		return l
	}
	if c, ok := x.Const(); ok && x.allBitsConst() {
		return linConst(c)
	}
	if x.W > 32 && !(x.Lo >= 0) {
		return nil
	}
	r := &Lin{}
	for i, b := range x.Bits {
		if i >= 62 {
			if b.K != BZero {
				return nil
			}
			continue
		}
		wgt := int64(1) << uint(i)
		if x.Signed && i == x.W-1 {
			wgt = -wgt
		}
		switch b.K {
		case BZero:
		case BOne:
			r.K += wgt
		case BSrc:
			t := LinTerm{S: b.S, J: int8(b.J), C: wgt, Lo: 0, Hi: 1}
			if b.Neg {
				r.K += wgt
				t.C = -wgt
			}
			r.T = append(r.T, t)
		default:
			return nil
		}
	}
	if len(r.T) > linMaxTerms {
		return nil
	}
	return linCombine(r, &Lin{}, 1)
}

// linBin computes the form of r = x op y (r already computed by BinInt; wrapped is BinInt's verdict).
func linBin(op token.Token, x, y, r *Int, wrapped bool) *Lin {
	if r == nil || (r.IsConst() && r.allBitsConst()) {
		return nil
	}
	w := r.W
	switch op {
	case token.ADD, token.SUB:
		a, b := linOf(x), linOf(y)
		if a == nil || b == nil {
			return nil
		}
		sign := int64(1)
		if op == token.SUB {
			sign = -1
		}
		res := linCombine(a, b, sign)
		if res == nil {
			return nil
		}
		if a.exact() && b.exact() && !wrapped {
			res.Mod = 0
		} else {
			res.Mod = minInt(a.modOf(w), b.modOf(w))
		}
		return res
	case token.MUL, token.SHL:
		var a *Lin
		var c int64
		if op == token.SHL {
			n, ok := y.Const()
			if !ok || n < 0 || n >= 62 {
				return nil
			}
			a, c = linOf(x), int64(1)<<uint(n)
		} else if cy, ok := y.Const(); ok && y.allBitsConst() {
			a, c = linOf(x), cy
		} else if cx, ok := x.Const(); ok && x.allBitsConst() {
			a, c = linOf(y), cx
		} else {
			return nil
		}
		if a == nil || c == 0 || c > 1<<31 || c < -(1<<31) {
			return nil
		}
		res := linScale(a, c)
		if a.exact() && !wrapped {
			res.Mod = 0
		} else {
			res.Mod = a.modOf(w)
		}
		return res
	case token.SHR, token.QUO:
		var n int64
		if op == token.SHR {
			c, ok := y.Const()
			if !ok || c < 0 || c >= 62 {
				return nil
			}
			n = c
		} else {
			c, ok := y.Const()
			if !ok || c <= 0 || c&(c-1) != 0 || x.Lo < 0 {
				return nil
			}
			n = int64(bitLen(uint64(c)) - 1)
		}
		a := linOf(x)
		if a == nil {
			return nil
		}
		return linShiftRight(a, x, int(n))
	case token.AND, token.AND_NOT:
		// x & m
		var v, mk *Int
		if _, ok := y.Const(); ok && y.allBitsConst() {
			v, mk = x, y
		} else if _, ok := x.Const(); ok && x.allBitsConst() && op == token.AND {
			v, mk = y, x
		} else {
			return linOf0(r)
		}
		m := maskOf(mk, w)
		if op == token.AND_NOT {
			m = ^m & widthMask(w)
		}
		a := linOf(v)
		if a == nil {
			return linOf0(r)
		}
		if m&(m+1) == 0 { // 2^k - 1: keeps the low k bits
			k := bitLen(m)
			if k >= w {
				return a
			}
			if k == 0 {
				return nil
			}
			res := &Lin{T: a.T, K: a.K, Mod: minInt(a.modOf(w), k)}
			return res
		}
		// high mask ^(2^k-1): clears low bits; if those are known constants the result is x - c
		lowClear := ^m & widthMask(w)
		if lowClear&(lowClear+1) == 0 {
			k := bitLen(lowClear)
			c := int64(0)
			for i := 0; i < k; i++ {
				switch v.Bits[i].K {
				case BZero:
				case BOne:
					c |= 1 << uint(i)
				default:
					return linOf0(r)
				}
			}
			res := linCombine(a, linConst(c), -1)
			if res != nil {
				res.Mod = a.Mod // subtracting the low bits cannot wrap
			}
			return res
		}
		return linOf0(r)
	case token.REM:
		c, ok := y.Const()
		if !ok || c <= 0 || c&(c-1) != 0 || x.Lo < 0 {
			return nil
		}
		a := linOf(x)
		if a == nil {
			return nil
		}
		k := bitLen(uint64(c)) - 1
		if k == 0 {
			return nil
		}
		return &Lin{T: a.T, K: a.K, Mod: minInt(a.modOf(w), k)}
	case token.OR, token.XOR:
		// disjoint bit sets: x | y == x ^ y == x + y, without carries
		for i := 0; i < w; i++ {
			if x.Bits[i].K != BZero && ybit(y, i).K != BZero {
				return linOf0(r)
			}
		}
		a, b := linOf(x), linOf(y)
		if a == nil || b == nil {
			return linOf0(r)
		}
		res := linCombine(a, b, 1)
		if res == nil {
			return nil
		}
		if a.exact() && b.exact() {
			res.Mod = 0
		} else {
			res.Mod = minInt(a.modOf(w), b.modOf(w))
		}
		return res
	}
	return nil
}

// linOf0 is the bit-derived form of a freshly computed value (nil if its bits are not all known).
func linOf0(r *Int) *Lin {
	if r == nil || r.Lin != nil {
		return nil
	}
	return linOf(r)
}

func widthMask(w int) uint64 {
	if w >= 64 {
		return math.MaxUint64
	}
	return (uint64(1) << uint(w)) - 1
}

func maskOf(x *Int, w int) uint64 {
	c, _ := x.Const()
	return uint64(c) & widthMask(w)
}

func minInt(a, b int) int {
	if a < b {
		return a
	}
	return b
}

// linShiftRight: floor(E / 2^n) for a value whose form is E.  The form is split into the part whose
// coefficients are multiples of 2^n and a remainder; if the remainder's range lies inside one window
// [q*2^n, (q+1)*2^n) the quotient is (divisible part)/2^n + q.  For a form valid only modulo 2^m the
// value must be the canonical residue (unsigned holder of width m); the quotient is then valid modulo 2^(m-n).
func linShiftRight(a *Lin, holder *Int, n int) *Lin {
	if n == 0 {
		return a
	}
	if !a.exact() {
		if holder.Signed || a.Mod != holder.W || n >= a.Mod {
			return nil
		}
	}
	// first with whole symbols kept whole (their narrowed ranges bound the remainder), then with the
	// symbols that are not multiples of 2^n split into bits (the bits above n divide exactly)
	if q := linShiftRight1(a, n); q != nil {
		return q
	}
	if e := a.expandFor(n); e != nil && e != a {
		return linShiftRight1(e, n)
	}
	return nil
}

func linShiftRight1(a *Lin, n int) *Lin {
	p := int64(1) << uint(n)
	q := &Lin{}
	rem := &Lin{}
	for _, t := range a.T {
		if t.C%p == 0 {
			t.C /= p
			q.T = append(q.T, t)
		} else {
			rem.T = append(rem.T, t)
		}
	}
	// constant: split so that the remainder constant is in [0, p)
	kq := floorDiv(a.K, p)
	rem.K = a.K - kq*p
	q.K = kq
	lo, hi, ok := rem.rangeOfLin()
	if !ok {
		return nil
	}
	w1, w2 := floorDiv(lo, p), floorDiv(hi, p)
	if w1 != w2 {
		return nil
	}
	q.K += w1
	if !a.exact() {
		q.Mod = a.Mod - n
	}
	sort.Slice(q.T, func(i, j int) bool { return termLess(q.T[i], q.T[j]) })
	return q
}

// expandFor rewrites whole-symbol terms whose coefficient is not a multiple of 2^n into their bits
// (so that the bits above the shift distance can be divided exactly).
func (l *Lin) expandFor(n int) *Lin {
	p := int64(1) << uint(n)
	need := false
	for _, t := range l.T {
		if t.J < 0 && t.C%p != 0 && !t.Signed && t.W > 0 {
			need = true
		}
	}
	if !need {
		return l
	}
	r := &Lin{K: l.K, Mod: l.Mod}
	for _, t := range l.T {
		if t.J < 0 && t.C%p != 0 && !t.Signed && t.W > 0 {
			for j := 0; j < int(t.W); j++ {
				// a bit above the symbol's known range is 0
				if t.Hi >= 0 && t.Hi < math.MaxInt64 && j >= bitLen(uint64(t.Hi)) && t.Lo >= 0 {
					continue
				}
				r.T = append(r.T, LinTerm{S: t.S, J: int8(j), C: t.C << uint(j), Lo: 0, Hi: 1})
			}
		} else {
			r.T = append(r.T, t)
		}
	}
	return linCombine(r, &Lin{}, 1)
}

// linConvert is the form of the conversion of x (form a) to (w, signed); res is the converted value.
func linConvert(a *Lin, x, res *Int, truncated bool) *Lin {
	if a == nil {
		return nil
	}
	w := res.W
	if a.exact() {
		if !truncated {
			return a
		}
		// uniform wrap: the value is the expression shifted by a multiple of 2^w
		if w < 62 && x.Lo > math.MinInt64 && x.Hi < math.MaxInt64 {
			span := int64(1) << uint(w)
			tlo, _ := rangeOf(w, res.Signed)
			klo, khi := floorDiv(x.Lo-tlo, span), floorDiv(x.Hi-tlo, span)
			if klo == khi {
				return &Lin{T: a.T, K: a.K - klo*span}
			}
		}
		return &Lin{T: a.T, K: a.K, Mod: w}
	}
	m := a.Mod
	if w < x.W || w == x.W {
		m = minInt(m, w)
	} else if m > x.W {
		m = x.W
	}
	return &Lin{T: a.T, K: a.K, Mod: m}
}

// linJoin is the form of "gate ? t : f" (gate may be nil: then only equal forms survive).
func linJoin(t, f *Int, gate *Bit) *Lin {
	a, b := linOf(t), linOf(f)
	if a == nil || b == nil {
		return nil
	}
	if a.Mod != b.Mod {
		m := minInt(a.modOf(t.W), b.modOf(t.W))
		a = &Lin{T: a.T, K: a.K, Mod: m}
		b = &Lin{T: b.T, K: b.K, Mod: m}
	}
	d := linCombine(a, b, -1)
	if d == nil {
		return nil
	}
	if len(d.T) == 0 && d.K == 0 {
		return linHull(a, b)
	}
	if gate == nil || gate.K != BSrc || len(d.T) != 0 {
		return nil
	}
	// f + d*gate
	g := &Lin{T: []LinTerm{{S: gate.S, J: int8(gate.J), C: d.K, Lo: 0, Hi: 1}}}
	if gate.Neg {
		g.K = d.K
		g.T[0].C = -d.K
	}
	r := linCombine(linHull(b, a), g, 1)
	if r != nil {
		r.Mod = a.Mod
	}
	return r
}

// linHull returns a with every term's range widened to cover the range the same term has in b: the
// ranges are facts about the path a value was computed on, and a join holds on either path.
func linHull(a, b *Lin) *Lin {
	r := &Lin{K: a.K, Mod: a.Mod, T: append([]LinTerm(nil), a.T...)}
	for i := range r.T {
		found := false
		for _, t := range b.T {
			if t.S == r.T[i].S && t.J == r.T[i].J {
				found = true
				r.T[i].Lo, r.T[i].Hi = min64(r.T[i].Lo, t.Lo), max64(r.T[i].Hi, t.Hi)
			}
		}
		if !found {
			if r.T[i].J >= 0 {
				r.T[i].Lo, r.T[i].Hi = 0, 1
			} else {
				r.T[i].Lo, r.T[i].Hi = rangeOf(int(r.T[i].W), r.T[i].Signed)
			}
		}
	}
	return r
}

// ---------------------------------------------------------------------------
// canonical comparison

// LinKey is a term of the canonical (bit-expanded) form.
type LinKey struct {
	S Sym
	J int
}

// Canon expands the form of x to coefficients over single bits of symbols, reduced modulo 2^mod
// (mod 0: not reduced).  ok is false if x has no form valid modulo 2^mod.
func Canon(x *Int, mod int) (coef map[LinKey]int64, k int64, ok bool) {
	l := linOf(x)
	if l == nil {
		return nil, 0, false
	}
	if mod == 0 && !l.exact() {
		return nil, 0, false
	}
	if mod != 0 && !l.exact() && l.Mod < mod {
		return nil, 0, false
	}
	coef = map[LinKey]int64{}
	k = l.K
	for _, t := range l.T {
		if t.J >= 0 {
			coef[LinKey{t.S, int(t.J)}] += t.C
			continue
		}
		for j := 0; j < int(t.W); j++ {
			wgt := int64(1) << uint(j)
			if t.Signed && j == int(t.W)-1 {
				wgt = -wgt
			}
			coef[LinKey{t.S, j}] += t.C * wgt
		}
	}
	if mod != 0 && mod < 62 {
		m := int64(1) << uint(mod)
		red := func(v int64) int64 { return ((v % m) + m) % m }
		k = red(k)
		for key, v := range coef {
			coef[key] = red(v)
		}
	}
	for key, v := range coef {
		if v == 0 {
			delete(coef, key)
		}
	}
	return coef, k, true
}

// LinEqual compares the form of x modulo 2^mod with an expected canonical form.
func LinEqual(x *Int, mod int, want map[LinKey]int64, wantK int64) bool {
	got, k, ok := Canon(x, mod)
	if !ok {
		return false
	}
	if mod != 0 && mod < 62 {
		m := int64(1) << uint(mod)
		wantK = ((wantK % m) + m) % m
		w2 := map[LinKey]int64{}
		for key, v := range want {
			if r := ((v % m) + m) % m; r != 0 {
				w2[key] = r
			}
		}
		want = w2
	}
	if k != wantK || len(got) != len(want) {
		return false
	}
	for key, v := range want {
		if got[key] != v {
			return false
		}
	}
	return true
}

// LinString renders the form of x (for diagnostics).
func LinString(it *Interp, x *Int) string {
	l := linOf(x)
	if l == nil {
		return "<no linear form>"
	}
	var parts []string
	for _, t := range l.T {
		name := fmt.Sprint(t.S)
		if it != nil {
			name = it.SymName(t.S)
		}
		if t.J >= 0 {
			name = fmt.Sprintf("%s.%d", name, t.J)
		}
		switch t.C {
		case 1:
			parts = append(parts, "+"+name)
		case -1:
			parts = append(parts, "-"+name)
		default:
			parts = append(parts, fmt.Sprintf("%+d*%s", t.C, name))
		}
	}
	if l.K != 0 || len(parts) == 0 {
		parts = append(parts, fmt.Sprintf("%+d", l.K))
	}
	s := strings.TrimPrefix(strings.Join(parts, " "), "+")
	if l.Mod != 0 {
		s += fmt.Sprintf(" (mod 2^%d)", l.Mod)
	}
	return s
}

// SymWhole is the canonical form of a whole unsigned symbol of width w scaled by c: for building expectations.
func SymWhole(dst map[LinKey]int64, s Sym, w int, c int64) {
	for j := 0; j < w; j++ {
		dst[LinKey{s, j}] += c << uint(j)
	}
}
