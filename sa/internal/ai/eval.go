package ai

import (
	"fmt"
	"go/token"
	"go/types"
	"math"
	"os"
	"sort"
	"strconv"
	"strings"

	"golang.org/x/tools/go/ssa"
)

// frame is one function activation on one evaluation.
type frame struct {
	it    *Interp
	fn    *ssa.Function
	cfg   *cfgInfo
	depth int
}

// outcome maps a stop block (nil = function exit) to the state arriving there.
type outcome map[*ssa.BasicBlock]*State

type budgetExceeded struct{}

// CallFunction evaluates fn on st with the given arguments and free-variable
// bindings; it returns the joined result and post-state (nil state: no path
// returns, i.e. every path panics or exits).
func (it *Interp) CallFunction(st *State, fn *ssa.Function, args []Value, bind []Value) (Value, *State) {
	if fn.Blocks == nil {
		return it.extern(st, nil, fn, args), st
	}
	if len(it.Stack) >= it.MaxDepth {
		it.undecided(st, nil, "call depth exceeded at "+fn.String())
		return it.topOf(resultType(fn.Signature), nil), st
	}
	for _, f := range it.Stack {
		if f == fn {
			it.undecided(st, nil, "recursion through "+fn.String())
			return it.topOf(resultType(fn.Signature), nil), st
		}
	}
	it.Stats.Calls++
	it.Stack = append(it.Stack, fn)
	defer func() { it.Stack = it.Stack[:len(it.Stack)-1] }()

	saved := st.env
	savedRets := st.rets
	st.env = make(map[ssa.Value]Value, 32)
	st.rets = nil
	for i, p := range fn.Params {
		if i < len(args) {
			st.env[p] = args[i]
		} else {
			st.env[p] = it.topOf(p.Type(), nil)
		}
	}
	for i, fv := range fn.FreeVars {
		if i < len(bind) {
			st.env[fv] = bind[i]
		} else {
			st.env[fv] = it.topOf(fv.Type(), nil)
		}
	}
	f := &frame{it: it, fn: fn, cfg: it.cfg(fn), depth: len(it.Stack)}
	out := f.run(fn.Blocks[0], st, nil)
	res := out[nil]
	if res == nil {
		return nil, nil
	}
	var ret Value
	switch len(res.rets) {
	case 0:
	case 1:
		ret = res.rets[0]
	default:
		ret = &Tuple{Vs: res.rets}
	}
	res.env = saved
	res.rets = savedRets
	return ret, res
}

func resultType(sig *types.Signature) types.Type {
	switch sig.Results().Len() {
	case 0:
		return nil
	case 1:
		return sig.Results().At(0).Type()
	}
	return sig.Results()
}

func (it *Interp) undecided(st *State, at ssa.Instruction, what string) {
	if at == nil {
		at = it.curInstr
	}
	if it.Hooks.Undecided != nil {
		it.Hooks.Undecided(st, at, what)
	}
}

func mergeOutcome(it *Interp, dst outcome, src outcome) {
	for k, s := range src {
		if s == nil {
			continue
		}
		if d, ok := dst[k]; ok && d != nil {
			dst[k] = it.JoinStates(d, s, nil, nil)
		} else {
			dst[k] = s
		}
	}
}

// enter binds the phi nodes of block b for an arrival from pred.
func (f *frame) enter(st *State, b, pred *ssa.BasicBlock) {
	if pred == nil {
		return
	}
	idx := -1
	for i, p := range b.Preds {
		if p == pred {
			idx = i
			break
		}
	}
	if idx < 0 {
		return
	}
	var phis []*ssa.Phi
	var vals []Value
	for _, ins := range b.Instrs {
		phi, ok := ins.(*ssa.Phi)
		if !ok {
			break
		}
		phis = append(phis, phi)
		vals = append(vals, f.operand(st, phi.Edges[idx]))
	}
	for i, phi := range phis {
		st.env[phi] = vals[i]
	}
}

// run evaluates from block b (whose phis are bound) until a stop block or the
// function exit is reached on every path.
func (f *frame) run(b *ssa.BasicBlock, st *State, stops map[*ssa.BasicBlock]bool) outcome {
	it := f.it
	res := outcome{}
	first := true
	for {
		if !first && f.cfg.isHeader[b.Index] && !stops[b] {
			// entering a loop from outside
			mergeOutcome(it, res, f.loop(b, st, stops))
			return res
		}
		if first && f.cfg.isHeader[b.Index] && !stops[b] && !f.inLoopDriver(b) {
			mergeOutcome(it, res, f.loop(b, st, stops))
			return res
		}
		first = false
		term, nst, dead := f.execBlock(b, st)
		if dead {
			return res
		}
		st = nst
		switch t := term.(type) {
		case *ssa.Return:
			rets := make([]Value, len(t.Results))
			for i, r := range t.Results {
				rets[i] = f.operand(st, r)
			}
			st.rets = rets
			mergeOutcome(it, res, outcome{nil: st})
			return res
		case *ssa.Jump:
			next := b.Succs[0]
			f.enter(st, next, b)
			if stops[next] {
				mergeOutcome(it, res, outcome{next: st})
				return res
			}
			b = next
			continue
		case *ssa.If:
			cv := f.operand(st, t.Cond)
			cond, _ := cv.(*Bool)
			if cond == nil {
				cond = &Bool{B: bitTop, D: DepsOf(cv), VID: nextVID()}
			}
			if c, ok := cond.Const(); ok {
				next := b.Succs[1]
				if c {
					next = b.Succs[0]
				}
				f.enter(st, next, b)
				if stops[next] {
					mergeOutcome(it, res, outcome{next: st})
					return res
				}
				b = next
				continue
			}
			if it.Hooks.Branch != nil {
				it.Hooks.Branch(st, t, cond)
			}
			it.Stats.Forks++
			M := f.cfg.Ipdom(b)
			if f.pathSplit() {
				// small function guarding a panic with correlated tests: keep the two
				// sides apart until the function exit (path-sensitive evaluation)
				M = nil
			}
			inner := map[*ssa.BasicBlock]bool{}
			for k := range stops {
				inner[k] = true
			}
			if M != nil {
				inner[M] = true
			}
			pre := st.PathDeps
			sT := st.Fork()
			sF := st
			sT.PathDeps = Union(pre, cond.D)
			sF.PathDeps = Union(pre, cond.D)
			sT.Conds = append(sT.Conds, CondRec{At: t, C: cond, Out: true})
			sF.Conds = append(sF.Conds[:len(sF.Conds):len(sF.Conds)], CondRec{At: t, C: cond, Out: false})
			okT := it.refine(sT, cond, true)
			okF := it.refine(sF, cond, false)
			var rT, rF outcome
			if okT {
				f.enter(sT, b.Succs[0], b)
				if inner[b.Succs[0]] {
					rT = outcome{b.Succs[0]: sT}
				} else {
					rT = f.run(b.Succs[0], sT, inner)
				}
			}
			if okF {
				f.enter(sF, b.Succs[1], b)
				if inner[b.Succs[1]] {
					rF = outcome{b.Succs[1]: sF}
				} else {
					rF = f.run(b.Succs[1], sF, inner)
				}
			}
			merged := outcome{}
			keys := map[*ssa.BasicBlock]bool{}
			for k := range rT {
				keys[k] = true
			}
			for k := range rF {
				keys[k] = true
			}
			for k := range keys {
				a, c := rT[k], rF[k]
				switch {
				case a != nil && c != nil:
					merged[k] = it.JoinStates(a, c, cond, pre)
				case a != nil:
					merged[k] = a
				case c != nil:
					merged[k] = c
				}
			}
			var cont *State
			if M != nil && !stops[M] {
				cont = merged[M]
				delete(merged, M)
			}
			mergeOutcome(it, res, merged)
			if cont == nil {
				return res
			}
			b, st = M, cont
			// M's phis were bound at arrival; continue executing M
			if f.cfg.isHeader[M.Index] {
				mergeOutcome(it, res, f.loopFromBound(M, st, stops))
				return res
			}
			first = false
			continue
		case *ssa.Panic:
			if it.Hooks.Panic != nil {
				it.Hooks.Panic(st, t)
			}
			return res
		default:
			// blocks without a terminator we know (unreachable)
			return res
		}
	}
}

// loop drivers -----------------------------------------------------------------

var activeLoops = map[*ssa.BasicBlock]int{}

func (f *frame) inLoopDriver(h *ssa.BasicBlock) bool { return activeLoops[h] > 0 }

// loop evaluates the natural loop with header h; st has h's phis bound from the entry edge.
func (f *frame) loop(h *ssa.BasicBlock, st *State, stops map[*ssa.BasicBlock]bool) outcome {
	return f.loopFromBound(h, st, stops)
}

func (f *frame) loopFromBound(h *ssa.BasicBlock, st *State, stops map[*ssa.BasicBlock]bool) outcome {
	it := f.it
	res := outcome{}
	inner := map[*ssa.BasicBlock]bool{h: true}
	for k := range stops {
		inner[k] = true
	}
	activeLoops[h]++
	defer func() { activeLoops[h]-- }()
	cur := st
	concrete := true
	fixIter := 0
	for iter := 0; ; iter++ {
		forksBefore := it.Stats.Forks
		body := cur.Fork()
		out := f.runBody(h, body, inner)
		back := out[h]
		delete(out, h)
		if it.Stats.Forks != forksBefore {
			concrete = false
		}
		if concrete && iter < it.UnrollLimit {
			// pure unrolling: exactly one path
			mergeOutcome(it, res, out)
			if back == nil {
				return res
			}
			cur = back
			continue
		}
		// fixpoint mode
		it.Stats.LoopFix++
		mergeOutcome(it, res, out)
		if back == nil {
			return res
		}
		fixIter++
		thr := f.thresholds()
		if fixIter >= 20 {
			thr = nil // give up on the ladder: widen to the type bounds
		}
		next := it.widenStates(cur, back, fixIter >= 3, thr)
		if it.stateLeq(next, cur, headerPhis(h)) {
			return res
		}
		cur = next
		DebugLeq = fixIter > 36 && debugEnv
		if fixIter > 40 {
			DebugLeq = false
			it.undecided(cur, h.Instrs[0], "loop did not stabilise in "+f.fn.String())
			return res
		}
	}
}

// runBody runs one iteration starting at header h without treating h as a loop entry.
func (f *frame) runBody(h *ssa.BasicBlock, st *State, stops map[*ssa.BasicBlock]bool) outcome {
	// h is in stops (for the back edge); run() checks stops only on transfer, so
	// starting at h executes it.
	return f.runNoLoopCheck(h, st, stops)
}

func (f *frame) runNoLoopCheck(b *ssa.BasicBlock, st *State, stops map[*ssa.BasicBlock]bool) outcome {
	// identical to run but the first block is not treated as a loop entry
	activeLoops[b]++ // ensures inLoopDriver(b) is true for the first-block check
	defer func() { activeLoops[b]-- }()
	return f.run(b, st, stops)
}

// widenStates joins (or widens) the loop-head state with the state arriving on the back edge.
func (it *Interp) widenStates(old, nw *State, widen bool, thr []int64) *State {
	j := it.JoinStates(old.Fork(), nw, nil, nil)
	if !widen {
		return j
	}
	// widen integers that grew
	for id, c := range j.objs {
		o := it.ObjectByIDFast(id)
		for k, v := range c.m {
			iv, ok := v.(*Int)
			if !ok {
				continue
			}
			var ov Value
			if oc := old.cellsRO(o); oc != nil {
				ov = oc.m[k]
			}
			if oi, ok := ov.(*Int); ok && (iv.Lo < oi.Lo || iv.Hi > oi.Hi) {
				cc := j.cellsRW(o)
				cc.m[k] = WidenInt(oi, iv, thr)
			}
		}
	}
	for k, v := range j.env {
		iv, ok := v.(*Int)
		if !ok {
			continue
		}
		if oi, ok := old.env[k].(*Int); ok && (iv.Lo < oi.Lo || iv.Hi > oi.Hi) {
			j.env[k] = WidenInt(oi, iv, thr)
		}
	}
	return j
}

func (it *Interp) valueLeq(a, b Value) bool {
	if a == b {
		return true
	}
	switch x := a.(type) {
	case *Int:
		y, ok := b.(*Int)
		return ok && IntLeq(x, y) && x.D.SubsetOf(y.D)
	case *Bool:
		y, ok := b.(*Bool)
		return ok && (y.B.K == BTop || y.B == x.B) && x.D.SubsetOf(y.D)
	case *Float:
		y, ok := b.(*Float)
		return ok && x.Lo >= y.Lo && x.Hi <= y.Hi
	case *Top:
		_, ok := b.(*Top)
		return ok
	case *Agg:
		y, ok := b.(*Agg)
		if !ok {
			return false
		}
		for k, v := range x.M {
			if !it.valueLeq(v, y.M[k]) {
				return false
			}
		}
		return true
	case *Multi:
		y, ok := b.(*Multi)
		if !ok {
			return false
		}
		for _, a1 := range x.Alts {
			found := false
			for _, b1 := range y.Alts {
				if it.sameValue(a1, b1) || it.valueLeq(a1, b1) {
					found = true
				}
			}
			if !found {
				return false
			}
		}
		return true
	case *Slice:
		y, ok := b.(*Slice)
		return ok && x.Obj == y.Obj && IntLeq(x.Len, y.Len) && IntLeq(x.Off, y.Off)
	case *Str:
		y, ok := b.(*Str)
		return ok && (!y.Known || (x.Known && x.S == y.S))
	case *Tuple:
		y, ok := b.(*Tuple)
		if !ok || len(x.Vs) != len(y.Vs) {
			return false
		}
		for i := range x.Vs {
			if x.Vs[i] == nil && y.Vs[i] == nil {
				continue
			}
			if !it.valueLeq(x.Vs[i], y.Vs[i]) {
				return false
			}
		}
		return true
	case *Ptr:
		y, ok := b.(*Ptr)
		if ok && x.Obj == y.Obj && x.Path == y.Path && len(x.Idx) == len(y.Idx) {
			for i := range x.Idx {
				if !IntLeq(x.Idx[i], y.Idx[i]) {
					return false
				}
			}
			return true
		}
	case *Iface:
		y, ok := b.(*Iface)
		if ok && types.Identical(x.T, y.T) {
			return it.valueLeq(x.V, y.V)
		}
	case *NilV:
		if _, ok := b.(*NilV); ok {
			return true
		}
	}
	if _, ok := b.(*Top); ok {
		return true
	}
	if m, ok := b.(*Multi); ok {
		for _, alt := range m.Alts {
			if it.sameValue(a, alt) {
				return true
			}
		}
		return false
	}
	return it.sameValue(a, b)
}

// stateLeq reports a ⊑ b on cells and environment.
func (it *Interp) stateLeq(a, b *State, phis []ssa.Value) bool {
	for id, ca := range a.objs {
		o := it.ObjectByIDFast(id)
		cb := b.cellsRO(o)
		for k, va := range ca.m {
			var vb Value
			if cb != nil {
				vb = cb.m[k]
			}
			if vb == nil {
				lt := leafTypeAt(o.T, k)
				if lt == nil {
					continue
				}
				mode := o.Mode
				if cb != nil {
					mode = cb.mode
				}
				vb = b.defaultCell(o, k, lt, mode)
			}
			if !it.valueLeq(va, vb) {
				if DebugLeq {
					println("stateLeq: cell", o.Name+k, ValueString(va), " !<= ", ValueString(vb))
				}
				return false
			}
		}
	}
	// only loop-carried SSA values matter: everything else is recomputed from them
	for _, k := range phis {
		va, ok1 := a.env[k]
		vb, ok2 := b.env[k]
		if ok1 && ok2 && !it.valueLeq(va, vb) {
			if DebugLeq {
				println("stateLeq: env", k.Name(), ValueString(va), " !<= ", ValueString(vb))
			}
			return false
		}
	}
	return true
}

// ---------------------------------------------------------------------------
// refinement

func (it *Interp) refine(st *State, c *Bool, outcome bool) bool {
	if c.Cmp != nil && c.Cmp.NotOf != nil {
		return it.refine(st, c.Cmp.NotOf, !outcome)
	}
	// boolean cell / value becomes constant
	it.replaceBool(st, c, outcome)
	if c.Cmp == nil {
		return true
	}
	if c.Cmp.NilOf != nil {
		return true
	}
	if c.Cmp.X == nil || c.Cmp.Y != nil {
		return true
	}
	x := c.Cmp.X
	// refine the current version of the number (an earlier branch may already
	// have narrowed it: all versions share the VID)
	cur := x
	for _, v := range st.env {
		if iv, ok := v.(*Int); ok && iv.VID == x.VID && iv.W == x.W {
			cur = iv
			break
		}
	}
	r, feasible := RefineIntFeasible(cur, c.Cmp.Op, c.Cmp.C, outcome)
	if !feasible {
		return false
	}
	if r == cur {
		return true
	}
	it.replaceInt(st, x, r)
	return true
}

func (it *Interp) replaceInt(st *State, old, nw *Int) {
	for k, v := range st.env {
		if iv, ok := v.(*Int); ok && iv.VID == old.VID {
			st.env[k] = narrowLike(iv, nw)
		}
	}
	if old.From != nil {
		o := it.ObjectByIDFast(old.From.Obj)
		if o != nil && !strings.Contains(old.From.Path, "[*]") {
			lt := leafTypeAt(o.T, old.From.Path)
			if lt != nil {
				cur := st.readLeaf(o, old.From.Path, lt)
				if ci, ok := cur.(*Int); ok && ci.VID == old.VID {
					st.SetCell(o, old.From.Path, narrowLike(ci, nw))
				}
			}
		}
	}
}

// narrowLike applies the interval/bits of nw to v (same number, possibly different width).
func narrowLike(v, nw *Int) *Int {
	r := v.clone()
	if nw.Lo > r.Lo {
		r.Lo = nw.Lo
	}
	if nw.Hi < r.Hi {
		r.Hi = nw.Hi
	}
	if r.Lo > r.Hi {
		return v
	}
	if len(nw.Not) > 0 {
		r.Not = nw.Not
	}
	return r.normalize()
}

func (it *Interp) replaceBool(st *State, c *Bool, outcome bool) {
	nb := NewConstBool(outcome)
	nb.D = c.D
	nb.VID = c.VID
	nb.From = c.From
	for k, v := range st.env {
		if bv, ok := v.(*Bool); ok && bv.VID == c.VID {
			st.env[k] = nb
		}
	}
	if c.From != nil {
		o := it.ObjectByIDFast(c.From.Obj)
		if o != nil && !strings.Contains(c.From.Path, "[*]") {
			if lt := leafTypeAt(o.T, c.From.Path); lt != nil {
				cur := st.readLeaf(o, c.From.Path, lt)
				if cb, ok := cur.(*Bool); ok && cb.VID == c.VID {
					st.SetCell(o, c.From.Path, nb)
				}
			}
		}
	}
	// a literal condition also decides every other boolean built on the same literal
	if c.B.K == BSrc {
		want := outcome
		for k, v := range st.env {
			if bv, ok := v.(*Bool); ok && bv.VID != c.VID && sameSrc(bv.B, c.B) {
				val := want
				if bv.B.Neg != c.B.Neg {
					val = !want
				}
				n2 := NewConstBool(val)
				n2.D = bv.D
				st.env[k] = n2
			}
		}
	}
}

// ---------------------------------------------------------------------------
// operands

func (f *frame) operand(st *State, v ssa.Value) Value {
	it := f.it
	switch x := v.(type) {
	case *ssa.Const:
		return it.constValue(x)
	case *ssa.Global:
		o := it.globalObject(x)
		return &Ptr{Obj: o, Path: "", Elem: x.Type().(*types.Pointer).Elem()}
	case *ssa.Function:
		return &Func{Fn: x}
	case *ssa.Builtin:
		return &Top{T: x.Type()}
	}
	if val, ok := st.env[v]; ok {
		return val
	}
	// value defined on a path not taken to here (should not happen) or unmodelled
	return it.topOf(v.Type(), nil)
}

func (it *Interp) globalObject(g *ssa.Global) *Object {
	t := g.Type().(*types.Pointer).Elem()
	mode := ModeZero
	if g.Pkg == nil || !it.RepoPkg(g.Pkg.Pkg) {
		mode = ModeOpaque
	}
	return it.ObjectFor(g, t, siteName(g), mode)
}

// ---------------------------------------------------------------------------
// instruction execution

// execBlock executes the non-phi instructions of b; returns the terminator.
// dead reports that the path ended (process exit, nil dereference ...).
func (f *frame) execBlock(b *ssa.BasicBlock, st *State) (term ssa.Instruction, out *State, dead bool) {
	it := f.it
	for _, ins := range b.Instrs {
		it.Stats.Instrs++
		if it.StepBudget > 0 && it.Stats.Instrs > it.StepBudget {
			panic(budgetExceeded{})
		}
		it.curInstr = ins
		switch x := ins.(type) {
		case *ssa.Phi:
			continue
		case *ssa.DebugRef:
			continue
		case *ssa.If, *ssa.Jump, *ssa.Return, *ssa.Panic:
			return ins, st, false
		case *ssa.Alloc:
			t := x.Type().(*types.Pointer).Elem()
			o := it.ObjectFor(x, t, siteName(x), ModeZero)
			st.ResetObject(o, ModeZero)
			st.env[x] = &Ptr{Obj: o, Path: "", Elem: t}
		case *ssa.BinOp:
			st.env[x] = f.binop(st, x)
		case *ssa.UnOp:
			v, d := f.unop(st, x)
			if d {
				return nil, st, true
			}
			st.env[x] = v
		case *ssa.Convert:
			st.env[x] = f.convert(st, x)
		case *ssa.ChangeType:
			st.env[x] = f.operand(st, x.X)
		case *ssa.ChangeInterface:
			st.env[x] = f.operand(st, x.X)
		case *ssa.MakeInterface:
			st.env[x] = &Iface{T: x.X.Type(), V: f.operand(st, x.X)}
		case *ssa.MakeClosure:
			bind := make([]Value, len(x.Bindings))
			for i, bv := range x.Bindings {
				bind[i] = f.operand(st, bv)
			}
			st.env[x] = &Func{Fn: x.Fn.(*ssa.Function), Bind: bind}
		case *ssa.MakeSlice:
			t := x.Type().Underlying().(*types.Slice)
			o := it.ObjectFor(x, types.NewSlice(t.Elem()), siteName(x), ModeZero)
			st.ResetObject(o, ModeZero)
			ln := f.intOperand(st, x.Len)
			ln = ln.clone()
			if ln.Lo < 0 {
				ln.Lo = 0 // negative length panics
				ln.normalize()
			}
			ln.IsLen = o
			sl := &Slice{Obj: o, Path: "", Off: NewConstInt(64, true, 0), Len: ln, Elem: t.Elem()}
			if cp := f.intOperand(st, x.Cap); cp != nil {
				if cv, isc := cp.Const(); isc && cp.allBitsConst() {
					sl.CapKnown, sl.Cap = true, cv
				}
			}
			st.env[x] = sl
		case *ssa.MakeMap:
			// a map whose type is never updated by run-phase code is a lookup table: its entries
			// are kept per constant key; other maps are opaque
			mode := ModeOpaque
			if it.PreciseMap != nil && it.PreciseMap(x.Type()) {
				mode = ModeZero
			}
			o := it.ObjectFor(x, x.Type(), siteName(x), mode)
			if mode == ModeZero {
				st.ResetObject(o, ModeZero)
			}
			st.env[x] = &Ptr{Obj: o, Path: "", Elem: x.Type()}
		case *ssa.MakeChan:
			o := it.ObjectFor(x, x.Type(), siteName(x), ModeOpaque)
			st.env[x] = &Ptr{Obj: o, Path: "", Elem: x.Type()}
		case *ssa.FieldAddr:
			v, d := f.fieldAddr(st, x)
			if d {
				return nil, st, true
			}
			st.env[x] = v
		case *ssa.Field:
			st.env[x] = f.field(st, x)
		case *ssa.IndexAddr:
			v, d := f.indexAddr(st, x)
			if d {
				return nil, st, true
			}
			st.env[x] = v
		case *ssa.Index:
			st.env[x] = f.index(st, x)
		case *ssa.Slice:
			st.env[x] = f.sliceOp(st, x)
		case *ssa.Store:
			if f.store(st, x) {
				return nil, st, true
			}
		case *ssa.Call:
			v, d := f.call(st, x)
			if d == nil {
				return nil, st, true
			}
			st = d
			st.env[x] = v
		case *ssa.Extract:
			tv := f.operand(st, x.Tuple)
			if tp, ok := tv.(*Tuple); ok && x.Index < len(tp.Vs) {
				st.env[x] = tp.Vs[x.Index]
			} else {
				st.env[x] = it.topOf(x.Type(), DepsOf(tv))
			}
		case *ssa.TypeAssert:
			v := f.operand(st, x.X)
			if !x.CommaOk && it.Hooks.TypeAssert != nil {
				it.Hooks.TypeAssert(st, x)
			}
			if ifc, ok := v.(*Iface); ok && types.Identical(ifc.T, x.AssertedType) && !x.CommaOk {
				st.env[x] = ifc.V
			} else {
				st.env[x] = it.topOf(x.Type(), DepsOf(v))
			}
		case *ssa.Lookup:
			idx := f.operand(st, x.Index)
			xv := f.operand(st, x.X)
			if sv, ok := xv.(*Str); ok {
				_ = sv
				st.env[x] = NewTopInt(8, false, Union(DepsOf(xv), DepsOf(idx)))
			} else if v, ok := f.mapLookup(st, x, xv, idx); ok {
				st.env[x] = v
			} else {
				st.env[x] = it.topOf(x.Type(), Union(DepsOf(xv), DepsOf(idx)))
			}
		case *ssa.MapUpdate:
			f.mapUpdate(st, x)
		case *ssa.Range:
			st.env[x] = &Top{T: x.Type(), D: DepsOf(f.operand(st, x.X))}
		case *ssa.Next:
			d := DepsOf(f.operand(st, x.Iter))
			tt := x.Type().(*types.Tuple)
			vs := make([]Value, tt.Len())
			for i := 0; i < tt.Len(); i++ {
				vs[i] = it.topOf(tt.At(i).Type(), d)
			}
			st.env[x] = &Tuple{Vs: vs}
		case *ssa.Send:
			if it.Hooks.Send != nil {
				it.Hooks.Send(st, x, f.operand(st, x.Chan), f.operand(st, x.X))
			}
		case *ssa.Select:
			st.env[x] = it.topOf(x.Type(), nil)
		case *ssa.Go:
			// goroutine bodies are not evaluated here (E5 rules inspect them)
		case *ssa.Defer:
			// evaluated where they run: at the function's RunDefers
		case *ssa.RunDefers:
			st2, alive := f.runDefers(st, x)
			if !alive {
				return nil, st, true
			}
			st = st2
		case *ssa.SliceToArrayPointer:
			st.env[x] = it.topOf(x.Type(), nil)
		default:
			it.undecided(st, ins, fmt.Sprintf("unsupported instruction %T", ins))
			if v, ok := ins.(ssa.Value); ok {
				st.env[v] = it.topOf(v.Type(), nil)
			}
		}
	}
	return nil, st, true
}

func (f *frame) intOperand(st *State, v ssa.Value) *Int {
	val := f.operand(st, v)
	if i, ok := val.(*Int); ok {
		return i
	}
	w, s, ok := typeWidthArch(v.Type())
	if !ok {
		w, s = 64, true
	}
	return NewTopInt(w, s, DepsOf(val))
}

func (f *frame) binop(st *State, x *ssa.BinOp) Value {
	it := f.it
	a, b := f.operand(st, x.X), f.operand(st, x.Y)
	switch av := a.(type) {
	case *Int:
		bv, ok := b.(*Int)
		if !ok {
			break
		}
		switch x.Op {
		case token.EQL, token.NEQ, token.LSS, token.LEQ, token.GTR, token.GEQ:
			r := CmpInt(x.Op, av, bv)
			if c := r.Cmp; c != nil && c.Y == nil && c.X != nil && c.X.From != nil {
				it.noteThreshold(*c.X.From, c.C)
			}
			return r
		case token.QUO, token.REM:
			proven := bv.Lo > 0 || bv.Hi < 0
			if it.Hooks.Div != nil {
				it.Hooks.Div(st, x, bv, proven)
			}
		}
		r, wrapped := BinInt(x.Op, av, bv)
		if wrapped && it.Hooks.Wrap != nil {
			it.Hooks.Wrap(st, x, x.Op, av, bv)
		}
		return r
	case *Bool:
		bv, ok := b.(*Bool)
		if !ok {
			break
		}
		d := Union(av.D, bv.D)
		switch x.Op {
		case token.EQL:
			return &Bool{B: bitXor(av.B, bv.B).Not(), D: d, VID: nextVID()}
		case token.NEQ:
			return &Bool{B: bitXor(av.B, bv.B), D: d, VID: nextVID()}
		case token.AND, token.LAND:
			return &Bool{B: bitAnd(av.B, bv.B), D: d, VID: nextVID()}
		case token.OR, token.LOR:
			return &Bool{B: bitOr(av.B, bv.B), D: d, VID: nextVID()}
		}
	case *Float:
		bv, ok := b.(*Float)
		if !ok {
			break
		}
		return floatBin(x.Op, av, bv)
	case *Str:
		if bv, ok := b.(*Str); ok {
			d := Union(av.D, bv.D)
			switch x.Op {
			case token.ADD:
				if av.Known && bv.Known {
					return &Str{Known: true, S: av.S + bv.S, D: d}
				}
				return &Str{D: d}
			case token.EQL, token.NEQ:
				if av.Known && bv.Known {
					return NewConstBool((av.S == bv.S) == (x.Op == token.EQL))
				}
				return &Bool{B: bitTop, D: d, VID: nextVID()}
			}
		}
	}
	// pointer / nil / interface comparisons
	if x.Op == token.EQL || x.Op == token.NEQ {
		eq := x.Op == token.EQL
		res := func(same bool) Value { return NewConstBool(same == eq) }
		_, an := a.(*NilV)
		_, bn := b.(*NilV)
		switch {
		case an && bn:
			return res(true)
		case an || bn:
			other := a
			if an {
				other = b
			}
			switch o := other.(type) {
			case *Ptr, *Func:
				return res(false)
			case *Slice:
				_ = o
				return res(false)
			case *Iface:
				return res(false)
			case *Multi:
				hasNil, hasNon := false, false
				for _, alt := range o.Alts {
					if _, ok := alt.(*NilV); ok {
						hasNil = true
					} else {
						hasNon = true
					}
				}
				if hasNil && !hasNon {
					return res(true)
				}
				if !hasNil {
					return res(false)
				}
			}
			return &Bool{B: bitTop, D: DepsOf(other), VID: nextVID(), Cmp: &Cmp{NilOf: other, NilEq: eq}}
		}
		if pa, ok := a.(*Ptr); ok {
			if pb, ok := b.(*Ptr); ok && len(pa.Idx) == 0 && len(pb.Idx) == 0 {
				return res(pa.Obj == pb.Obj && pa.Path == pb.Path)
			}
		}
	}
	return it.topOf(x.Type(), Union(DepsOf(a), DepsOf(b)))
}

func floatBin(op token.Token, a, b *Float) Value {
	d := Union(a.D, b.D)
	mk := func(lo, hi float64) Value {
		if math.IsNaN(lo) || math.IsNaN(hi) {
			return &Float{Lo: negInf, Hi: posInf, D: d}
		}
		return &Float{Lo: lo, Hi: hi, D: d}
	}
	switch op {
	case token.ADD:
		return mk(a.Lo+b.Lo, a.Hi+b.Hi)
	case token.SUB:
		return mk(a.Lo-b.Hi, a.Hi-b.Lo)
	case token.MUL:
		c := []float64{a.Lo * b.Lo, a.Lo * b.Hi, a.Hi * b.Lo, a.Hi * b.Hi}
		lo, hi := c[0], c[0]
		for _, v := range c {
			if math.IsNaN(v) {
				return mk(math.NaN(), math.NaN())
			}
			lo, hi = math.Min(lo, v), math.Max(hi, v)
		}
		return mk(lo, hi)
	case token.QUO:
		if b.Lo > 0 || b.Hi < 0 {
			c := []float64{a.Lo / b.Lo, a.Lo / b.Hi, a.Hi / b.Lo, a.Hi / b.Hi}
			lo, hi := c[0], c[0]
			for _, v := range c {
				if math.IsNaN(v) {
					return mk(math.NaN(), math.NaN())
				}
				lo, hi = math.Min(lo, v), math.Max(hi, v)
			}
			return mk(lo, hi)
		}
		return mk(negInf, posInf)
	case token.EQL, token.NEQ, token.LSS, token.LEQ, token.GTR, token.GEQ:
		r := &Bool{B: bitTop, D: d, VID: nextVID()}
		switch op {
		case token.LSS:
			if a.Hi < b.Lo {
				r.B = bit1
			} else if a.Lo >= b.Hi {
				r.B = bit0
			}
		case token.GTR:
			if a.Lo > b.Hi {
				r.B = bit1
			} else if a.Hi <= b.Lo {
				r.B = bit0
			}
		}
		return r
	}
	return mk(negInf, posInf)
}

func (f *frame) unop(st *State, x *ssa.UnOp) (Value, bool) {
	it := f.it
	v := f.operand(st, x.X)
	switch x.Op {
	case token.MUL: // load
		return f.load(st, x, v, x.Type())
	case token.NOT:
		if b, ok := v.(*Bool); ok {
			return &Bool{B: b.B.Not(), D: b.D, VID: nextVID(), Cmp: &Cmp{NotOf: b}}, false
		}
	case token.SUB:
		switch a := v.(type) {
		case *Int:
			r, wrapped := NegInt(a)
			if wrapped && it.Hooks.Wrap != nil && !a.Signed {
				// unsigned negation is deliberate two's complement in this code base
			}
			return r, false
		case *Float:
			return &Float{Lo: -a.Hi, Hi: -a.Lo, D: a.D}, false
		}
	case token.XOR:
		if a, ok := v.(*Int); ok {
			return NotInt(a), false
		}
	case token.ARROW:
		return it.topOf(x.Type(), DepsOf(v)), false
	}
	return it.topOf(x.Type(), DepsOf(v)), false
}

// load dereferences pointer value pv.
func (f *frame) load(st *State, at ssa.Instruction, pv Value, t types.Type) (Value, bool) {
	it := f.it
	switch p := pv.(type) {
	case *Ptr:
		if it.Hooks.Deref != nil {
			it.Hooks.Deref(st, at, pv, true)
		}
		v := st.LoadPtr(p)
		if it.Hooks.LoadOverride != nil {
			if nv, ok := it.Hooks.LoadOverride(st, at, p, v); ok {
				v = nv
			}
		}
		if it.Hooks.Load != nil {
			it.Hooks.Load(st, at, p, v)
		}
		return v, false
	case *NilV:
		if it.Hooks.Deref != nil {
			it.Hooks.Deref(st, at, pv, false)
		}
		return nil, true
	case *Multi:
		var res Value
		nonNil := 0
		for _, alt := range p.Alts {
			if pp, ok := alt.(*Ptr); ok {
				nonNil++
				v := st.LoadPtr(pp)
				if it.Hooks.Load != nil {
					it.Hooks.Load(st, at, pp, v)
				}
				res = it.Join(res, v, nil, nil)
			}
		}
		if it.Hooks.Deref != nil {
			it.Hooks.Deref(st, at, pv, nonNil == len(p.Alts))
		}
		if res == nil {
			return nil, true
		}
		return res, false
	}
	if it.Hooks.Deref != nil {
		it.Hooks.Deref(st, at, pv, false)
	}
	return it.topOf(t, DepsOf(pv)), false
}

func (f *frame) store(st *State, x *ssa.Store) (dead bool) {
	it := f.it
	pv := f.operand(st, x.Addr)
	v := f.operand(st, x.Val)
	v = WithDeps(v, st.PathDeps)
	switch p := pv.(type) {
	case *Ptr:
		if it.Hooks.Deref != nil {
			it.Hooks.Deref(st, x, pv, true)
		}
		keys, strong := st.StorePtr(p, v)
		if it.Hooks.Store != nil {
			it.Hooks.Store(st, x, p, keys, v, strong)
		}
	case *NilV:
		if it.Hooks.Deref != nil {
			it.Hooks.Deref(st, x, pv, false)
		}
		return true
	case *Multi:
		n := 0
		for _, alt := range p.Alts {
			if pp, ok := alt.(*Ptr); ok {
				n++
				// weak: the pointer is one of several
				weak := &Ptr{Obj: pp.Obj, Path: pp.Path, Idx: pp.Idx, Elem: pp.Elem}
				old := st.LoadPtr(weak)
				keys, _ := st.StorePtr(weak, it.Join(old, v, nil, st.PathDeps))
				if it.Hooks.Store != nil {
					it.Hooks.Store(st, x, weak, keys, v, false)
				}
			}
		}
		if it.Hooks.Deref != nil {
			it.Hooks.Deref(st, x, pv, n == len(p.Alts))
		}
	default:
		if it.Hooks.Deref != nil {
			it.Hooks.Deref(st, x, pv, false)
		}
		if it.Hooks.Store != nil {
			it.Hooks.Store(st, x, nil, nil, v, false)
		}
	}
	return false
}

func (f *frame) fieldAddr(st *State, x *ssa.FieldAddr) (Value, bool) {
	it := f.it
	pv := f.operand(st, x.X)
	stt := x.X.Type().Underlying().(*types.Pointer).Elem().Underlying().(*types.Struct)
	fld := stt.Field(x.Field)
	mk := func(p *Ptr) *Ptr {
		return &Ptr{Obj: p.Obj, Path: p.Path + "." + fld.Name(), Idx: p.Idx, Elem: fld.Type()}
	}
	switch p := pv.(type) {
	case *Ptr:
		return mk(p), false
	case *NilV:
		if it.Hooks.Deref != nil {
			it.Hooks.Deref(st, x, pv, false)
		}
		return nil, true
	case *Multi:
		var alts []Value
		allPtr := true
		for _, alt := range p.Alts {
			if pp, ok := alt.(*Ptr); ok {
				alts = append(alts, mk(pp))
			} else {
				allPtr = false
			}
		}
		if it.Hooks.Deref != nil {
			it.Hooks.Deref(st, x, pv, allPtr)
		}
		if len(alts) == 0 {
			return nil, true
		}
		if len(alts) == 1 {
			return alts[0], false
		}
		return &Multi{Alts: alts}, false
	}
	if it.Hooks.Deref != nil {
		it.Hooks.Deref(st, x, pv, false)
	}
	return it.topOf(x.Type(), DepsOf(pv)), false
}

func (f *frame) field(st *State, x *ssa.Field) Value {
	v := f.operand(st, x.X)
	stt := x.X.Type().Underlying().(*types.Struct)
	fld := stt.Field(x.Field)
	if ag, ok := v.(*Agg); ok {
		if isScalarLeaf(fld.Type()) {
			if fv, ok := ag.M["."+fld.Name()]; ok {
				return fv
			}
		} else {
			m := map[string]Value{}
			pre := "." + fld.Name()
			for k, fv := range ag.M {
				if strings.HasPrefix(k, pre) && (len(k) == len(pre) || k[len(pre)] == '.' || k[len(pre)] == '[') {
					m[k[len(pre):]] = fv
				}
			}
			return &Agg{T: fld.Type(), M: m}
		}
	}
	return f.it.topOf(fld.Type(), DepsOf(v))
}

// indexToken builds the path token and placeholder for indexing an array of length n (n<0: unknown).
func indexToken(idx *Int, n int64) (tok string, ph *Int) {
	if n < 0 || n > perIndexLimit {
		return "[*]", nil
	}
	if c, ok := idx.Const(); ok && idx.allBitsConst() {
		return "[" + itoa(c) + "]", nil
	}
	return "[?" + itoa(n) + "]", idx
}

func (f *frame) checkIndex(st *State, at ssa.Instruction, idx *Int, length *Int, backing *Object) {
	it := f.it
	if it.Hooks.Index == nil {
		return
	}
	proven := idx.Lo >= 0 && length != nil && idx.Hi < length.Lo
	if !proven && idx.Lo >= 0 && backing != nil && idx.LtLen == backing {
		proven = true
		if it.LenProofUsed == nil {
			it.LenProofUsed = map[*Object]bool{}
		}
		it.LenProofUsed[backing] = true
	}
	it.Hooks.Index(st, at, idx, length, proven)
}

func (f *frame) indexAddr(st *State, x *ssa.IndexAddr) (Value, bool) {
	it := f.it
	base := f.operand(st, x.X)
	idx := f.intOperand(st, x.Index)
	elemT := x.Type().(*types.Pointer).Elem()
	one := func(b Value) (Value, bool) {
		switch p := b.(type) {
		case *Ptr: // pointer to array
			arr, ok := p.Elem.Underlying().(*types.Array)
			if !ok {
				return it.topOf(x.Type(), nil), false
			}
			f.checkIndex(st, x, idx, NewConstInt(64, true, arr.Len()), nil)
			if it.Hooks.Elem != nil {
				it.Hooks.Elem(st, x, p.Obj, p.Path, idx, arr.Len())
			}
			tok, ph := indexToken(idx, arr.Len())
			np := &Ptr{Obj: p.Obj, Path: p.Path + tok, Idx: p.Idx, Elem: elemT}
			if ph != nil {
				np.Idx = append(append([]*Int(nil), p.Idx...), ph)
			}
			return np, false
		case *Slice:
			if p.LenRef != nil {
				f.checkIndex(st, x, idx, p.Len, p.LenRef)
			} else {
				f.checkIndex(st, x, idx, p.Len, p.Obj)
			}
			n := int64(-1)
			if arr, ok := leafTypeAtOrSelf(p.Obj.T, p.Path).(*types.Array); ok {
				n = arr.Len()
			}
			eff := idx
			if c, ok := p.Off.Const(); !ok || c != 0 {
				eff, _ = BinInt(token.ADD, toShape(idx, 64, true), toShape(p.Off, 64, true))
			}
			if it.Hooks.Elem != nil {
				it.Hooks.Elem(st, x, p.Obj, p.Path, eff, n)
			}
			tok, ph := indexToken(eff, n)
			np := &Ptr{Obj: p.Obj, Path: p.Path + tok, Elem: elemT}
			if ph != nil {
				np.Idx = []*Int{ph}
			}
			return np, false
		case *NilV:
			f.checkIndex(st, x, idx, NewConstInt(64, true, 0), nil)
			return nil, true
		}
		if it.Hooks.Index != nil {
			it.Hooks.Index(st, x, idx, nil, false)
		}
		return it.topOf(x.Type(), Union(DepsOf(b), idx.D)), false
	}
	if m, ok := base.(*Multi); ok {
		var alts []Value
		for _, alt := range m.Alts {
			v, dead := one(alt)
			if !dead && v != nil {
				alts = append(alts, v)
			}
		}
		if len(alts) == 0 {
			return nil, true
		}
		if len(alts) == 1 {
			return alts[0], false
		}
		return &Multi{Alts: alts}, false
	}
	return one(base)
}

func leafTypeAtOrSelf(t types.Type, path string) types.Type {
	lt := leafTypeAt(t, path)
	if lt == nil {
		return t
	}
	if s, ok := lt.Underlying().(*types.Slice); ok {
		_ = s
		return lt
	}
	return lt.Underlying()
}

func toShape(x *Int, w int, signed bool) *Int {
	if x.W == w && x.Signed == signed {
		return x
	}
	r, _ := ConvertInt(x, w, signed)
	return r
}

func (f *frame) index(st *State, x *ssa.Index) Value {
	it := f.it
	base := f.operand(st, x.X)
	idx := f.intOperand(st, x.Index)
	if arr, ok := x.X.Type().Underlying().(*types.Array); ok {
		f.checkIndex(st, x, idx, NewConstInt(64, true, arr.Len()), nil)
		if ag, ok := base.(*Agg); ok {
			lo, hi := idx.Lo, idx.Hi
			if lo < 0 {
				lo = 0
			}
			if hi >= arr.Len() {
				hi = arr.Len() - 1
			}
			var res Value
			if arr.Len() > perIndexLimit {
				res = ag.M["[*]"]
			} else {
				for i := lo; i <= hi; i++ {
					res = it.Join(res, ag.M["["+itoa(i)+"]"], nil, nil)
				}
			}
			if res != nil {
				return WithDeps(res, idx.D)
			}
		}
	}
	return it.topOf(x.Type(), Union(DepsOf(base), idx.D))
}

func (f *frame) sliceOp(st *State, x *ssa.Slice) Value {
	it := f.it
	base := f.operand(st, x.X)
	var lo, hi *Int
	if x.Low != nil {
		lo = toShape(f.intOperand(st, x.Low), 64, true)
	} else {
		lo = NewConstInt(64, true, 0)
	}
	if x.High != nil {
		hi = toShape(f.intOperand(st, x.High), 64, true)
	}
	var elem types.Type
	if s, ok := x.Type().Underlying().(*types.Slice); ok {
		elem = s.Elem()
	}
	switch b := base.(type) {
	case *Ptr: // pointer to array
		arr, ok := b.Elem.Underlying().(*types.Array)
		if !ok {
			break
		}
		n := NewConstInt(64, true, arr.Len())
		if hi == nil {
			hi = n
		}
		if it.Hooks.Index != nil {
			// slice bounds: 0 <= lo <= hi <= len
			proven := lo.Lo >= 0 && hi.Hi <= arr.Len() && (lo.Hi <= hi.Lo || orderedOffsets(lo, hi))
			one := NewConstInt(64, true, 1)
			lim, _ := BinInt(token.ADD, n, one)
			it.Hooks.Index(st, x, hi, lim, proven)
		}
		ln, _ := BinInt(token.SUB, hi, lo)
		if ln.Lo < 0 {
			ln = ln.clone()
			ln.Lo = 0
			ln.normalize()
		}
		if len(b.Idx) > 0 {
			break
		}
		res := &Slice{Obj: b.Obj, Path: b.Path, Off: lo, Len: ln, Elem: elem}
		if lc, isc := lo.Const(); isc {
			res.CapKnown, res.Cap = true, arr.Len()-lc
			if x.Max != nil {
				res.CapKnown = false
				if mv, ok := f.intOperand(st, x.Max).Const(); ok {
					res.CapKnown, res.Cap = true, mv-lc
				}
			}
		}
		return res
	case *Slice:
		if hi == nil {
			hi = toShape(b.Len, 64, true)
		}
		if it.Hooks.Index != nil {
			proven := lo.Lo >= 0 && (lo.Hi <= hi.Lo || orderedOffsets(lo, hi)) && (hi.VID == b.Len.VID || hi.Hi <= b.Len.Lo)
			one := NewConstInt(64, true, 1)
			lim, _ := BinInt(token.ADD, toShape(b.Len, 64, true), one)
			it.Hooks.Index(st, x, hi, lim, proven)
		}
		ln, _ := BinInt(token.SUB, hi, lo)
		if ln.Lo < 0 {
			ln = ln.clone()
			ln.Lo = 0
			ln.normalize()
		}
		off, _ := BinInt(token.ADD, toShape(b.Off, 64, true), lo)
		if c, ok := lo.Const(); ok && c == 0 && x.High == nil {
			return b
		}
		res := &Slice{Obj: b.Obj, Path: b.Path, Off: off, Len: ln, Elem: b.Elem}
		if lc, isc := lo.Const(); isc {
			if x.Max != nil {
				if mv, ok := f.intOperand(st, x.Max).Const(); ok {
					res.CapKnown, res.Cap = true, mv-lc
				}
			} else if b.CapKnown {
				res.CapKnown, res.Cap = true, b.Cap-lc
			}
		}
		return res
	case *Str:
		return &Str{D: b.D}
	case *NilV:
		return b
	}
	return it.topOf(x.Type(), DepsOf(base))
}

func (f *frame) convert(st *State, x *ssa.Convert) Value {
	it := f.it
	v := f.operand(st, x.X)
	tw, ts, tok := typeWidthArch(x.Type())
	switch a := v.(type) {
	case *Int:
		if tok {
			r, trunc := ConvertInt(a, tw, ts)
			if trunc && it.Hooks.Trunc != nil {
				it.Hooks.Trunc(st, x, a, x.Type())
			}
			return r
		}
		if b, ok := x.Type().Underlying().(*types.Basic); ok && b.Info()&types.IsFloat != 0 {
			lo, hi := float64(a.Lo), float64(a.Hi)
			if !a.Signed && a.W >= 64 && a.Hi == math.MaxInt64 {
				hi = math.MaxUint64
			}
			return &Float{Lo: lo, Hi: hi, D: a.D}
		}
		if b, ok := x.Type().Underlying().(*types.Basic); ok && b.Info()&types.IsString != 0 {
			return &Str{D: a.D}
		}
	case *Float:
		if tok {
			r := NewTopInt(tw, ts, a.D)
			if !math.IsInf(a.Lo, 0) && !math.IsInf(a.Hi, 0) && a.Lo > -9e18 && a.Hi < 9e18 {
				r.Lo, r.Hi = max64(r.Lo, int64(math.Floor(a.Lo))), min64(r.Hi, int64(math.Ceil(a.Hi)))
				r.normalize()
			}
			return r
		}
		if b, ok := x.Type().Underlying().(*types.Basic); ok && b.Info()&types.IsFloat != 0 {
			if b.Kind() == types.Float32 {
				// rounding to float32 may move the bounds by one ulp outward
				return &Float{Lo: float64(math.Nextafter32(float32(a.Lo), float32(negInf))), Hi: float64(math.Nextafter32(float32(a.Hi), float32(posInf))), D: a.D}
			}
			return a
		}
	case *Str:
		return it.topOf(x.Type(), a.D)
	case *Slice:
		if b, ok := x.Type().Underlying().(*types.Basic); ok && b.Info()&types.IsString != 0 {
			return &Str{D: DepsOf(a)}
		}
	}
	return it.topOf(x.Type(), DepsOf(v))
}

// thresholds returns the integer constants of the function (sparse widening ladder).
func (f *frame) thresholds() []int64 {
	it := f.it
	if t, ok := it.fnThr[f.fn]; ok {
		return t
	}
	set := map[int64]bool{}
	for _, b := range f.fn.Blocks {
		for _, ins := range b.Instrs {
			for _, op := range ins.Operands(nil) {
				if c, ok := (*op).(*ssa.Const); ok && c.Value != nil {
					if iv, ok := it.constValue(c).(*Int); ok {
						if v, ok := iv.Const(); ok {
							set[v] = true
							set[v-1] = true
						}
					}
				}
			}
		}
	}
	var out []int64
	for v := range set {
		out = append(out, v)
	}
	sortInt64(out)
	it.fnThr[f.fn] = out
	return out
}

func sortInt64(a []int64) {
	for i := 1; i < len(a); i++ {
		for j := i; j > 0 && a[j] < a[j-1]; j-- {
			a[j], a[j-1] = a[j-1], a[j]
		}
	}
}

func (it *Interp) noteThreshold(k CellKey, c int64) {
	cur := it.CellThr[k]
	for _, v := range []int64{c - 1, c, c + 1} {
		found := false
		for _, e := range cur {
			if e == v {
				found = true
			}
		}
		if !found {
			cur = append(cur, v)
		}
	}
	sortInt64(cur)
	it.CellThr[k] = cur
}

var DebugLeq bool
var debugEnv = os.Getenv("GBDEBUG") != ""

func headerPhis(h *ssa.BasicBlock) []ssa.Value {
	var out []ssa.Value
	for _, ins := range h.Instrs {
		if phi, ok := ins.(*ssa.Phi); ok {
			out = append(out, phi)
		} else {
			break
		}
	}
	return out
}

// ---------------------------------------------------------------------------
// maps used as lookup tables

// mapKeyPath renders a constant key as a cell path component.
func mapKeyPath(k Value) (string, bool) {
	switch x := k.(type) {
	case *Int:
		if c, ok := x.Const(); ok && x.allBitsConst() {
			return "{" + strconv.FormatInt(c, 10) + "}", true
		}
	case *Str:
		if x.Known {
			return "{" + strconv.Quote(x.S) + "}", true
		}
	case *Bool:
		if c, ok := x.Const(); ok {
			return "{" + strconv.FormatBool(c) + "}", true
		}
	}
	return "", false
}

func (f *frame) preciseMapObj(st *State, v Value) (*Object, *types.Map) {
	p, ok := v.(*Ptr)
	if !ok || p.Path != "" {
		return nil, nil
	}
	mt, ok := p.Obj.T.Underlying().(*types.Map)
	if !ok || st.ModeOf(p.Obj) != ModeZero {
		return nil, nil
	}
	if _, bad := st.RawCells(p.Obj)["#imprecise"]; bad {
		return nil, nil
	}
	return p.Obj, mt
}

func (f *frame) mapUpdate(st *State, x *ssa.MapUpdate) {
	it := f.it
	mv := f.operand(st, x.Map)
	o, mt := f.preciseMapObj(st, mv)
	if o == nil {
		// an opaque map: its contents are not modelled, but the update is still a store into that object,
		// which ownership rules (who writes package-level memory) must see
		report := func(p *Ptr) {
			if p == nil || p.Obj == nil || it.Hooks.Store == nil {
				return
			}
			wp := &Ptr{Obj: p.Obj, Path: p.Path + "{*}", Elem: nil}
			it.Hooks.Store(st, x, wp, []CellKey{{Obj: p.Obj.ID, Path: wp.Path}}, f.operand(st, x.Value), false)
		}
		switch m := mv.(type) {
		case *Ptr:
			report(m)
		case *Multi:
			for _, a := range m.Alts {
				if p, ok := a.(*Ptr); ok {
					report(p)
				}
			}
		default:
			if it.Hooks.Store != nil {
				it.Hooks.Store(st, x, nil, nil, f.operand(st, x.Value), false)
			}
		}
		return
	}
	kp, ok := mapKeyPath(f.operand(st, x.Key))
	if !ok {
		st.SetCell(o, "#imprecise", NewConstBool(true))
		if it.Hooks.Store != nil {
			wp := &Ptr{Obj: o, Path: "{*}", Elem: mt.Elem()}
			it.Hooks.Store(st, x, wp, []CellKey{{Obj: o.ID, Path: wp.Path}}, f.operand(st, x.Value), false)
		}
		return
	}
	p := &Ptr{Obj: o, Path: kp, Elem: mt.Elem()}
	v := f.operand(st, x.Value)
	keys, strong := st.StorePtr(p, v)
	if it.Hooks.Store != nil {
		it.Hooks.Store(st, x, p, keys, v, strong)
	}
}

func (f *frame) mapLookup(st *State, x *ssa.Lookup, mv, key Value) (Value, bool) {
	it := f.it
	o, mt := f.preciseMapObj(st, mv)
	if o == nil {
		return nil, false
	}
	present := map[string]bool{}
	for path := range st.RawCells(o) {
		if strings.HasPrefix(path, "{") {
			if end := strings.IndexByte(path, '}'); end > 0 {
				present[path[:end+1]] = true
			}
		}
	}
	load := func(kp string) Value {
		p := &Ptr{Obj: o, Path: kp, Elem: mt.Elem()}
		v := st.LoadPtr(p)
		if it.Hooks.Load != nil {
			it.Hooks.Load(st, x, p, v)
		}
		return v
	}
	var val Value
	var okv *Bool
	if kp, isc := mapKeyPath(key); isc {
		if present[kp] {
			val, okv = load(kp), NewConstBool(true)
		} else {
			val, okv = it.zeroValue(mt.Elem()), NewConstBool(false)
		}
	} else {
		// unknown key: any entry, or the zero value
		val = it.zeroValue(mt.Elem())
		var ks []string
		for k := range present {
			ks = append(ks, k)
		}
		sort.Strings(ks)
		for _, k := range ks {
			val = it.Join(val, load(k), nil, nil)
		}
		val = WithDeps(val, Union(DepsOf(val), DepsOf(key)))
		okv = &Bool{B: bitTop, D: DepsOf(key), VID: nextVID()}
	}
	if x.CommaOk {
		return &Tuple{Vs: []Value{val, okv}}, true
	}
	return val, true
}

// runDefers evaluates the function's deferred calls at a RunDefers instruction, last deferred first.
// A defer statement that every path to this point has executed exactly once (its block dominates this one and
// lies on no cycle) is evaluated as a call made here: its operands are SSA values fixed at the defer statement.
// Any other defer statement (conditional, or in a loop) is reported as undecided.
func (f *frame) runDefers(st *State, at *ssa.RunDefers) (*State, bool) {
	it := f.it
	var ds []*ssa.Defer
	for _, b := range f.fn.Blocks {
		for _, ins := range b.Instrs {
			if d, ok := ins.(*ssa.Defer); ok {
				ds = append(ds, d)
			}
		}
	}
	if len(ds) == 0 {
		return st, true
	}
	onCycle := func(b *ssa.BasicBlock) bool {
		seen := map[*ssa.BasicBlock]bool{}
		work := append([]*ssa.BasicBlock(nil), b.Succs...)
		for len(work) > 0 {
			x := work[len(work)-1]
			work = work[:len(work)-1]
			if x == b {
				return true
			}
			if seen[x] {
				continue
			}
			seen[x] = true
			work = append(work, x.Succs...)
		}
		return false
	}
	// order: a dominating sequence is totally ordered by dominance; within a block by position
	pos := func(d *ssa.Defer) int {
		for i, ins := range d.Block().Instrs {
			if ins == d {
				return i
			}
		}
		return 0
	}
	sort.SliceStable(ds, func(i, j int) bool {
		bi, bj := ds[i].Block(), ds[j].Block()
		if bi == bj {
			return pos(ds[i]) > pos(ds[j])
		}
		return bj.Dominates(bi) // later (dominated) first
	})
	for _, d := range ds {
		b := d.Block()
		if !(b == at.Block() || b.Dominates(at.Block())) || onCycle(b) {
			it.undecided(st, d, "deferred call that is conditional or in a loop")
			continue
		}
		c := d.Common()
		args := make([]Value, len(c.Args))
		for i, a := range c.Args {
			args[i] = f.operand(st, a)
		}
		if c.IsInvoke() {
			it.undecided(st, d, "deferred interface method call")
			continue
		}
		var out *State
		switch callee := c.Value.(type) {
		case *ssa.Builtin:
			continue // close / recover / print: no machine state
		case *ssa.Function:
			_, out = it.callResolved(st, d, callee, args, nil)
		default:
			_, out = f.callValue(st, d, f.operand(st, c.Value), args)
		}
		if out == nil {
			return nil, false
		}
		st = out
	}
	return st, true
}
