package ai

import (
	"golang.org/x/tools/go/ssa"
)

// cfgInfo holds, per function, the loop structure and the immediate
// post-dominators of the graph in which every back edge is redirected to the
// virtual exit (so loop bodies are acyclic regions).
type cfgInfo struct {
	fn       *ssa.Function
	n        int
	ipdom    []int // block index -> index of immediate post-dominator; n = virtual exit
	isHeader []bool
	back     map[[2]int]bool // (from,to) back edges
}

func (it *Interp) cfg(fn *ssa.Function) *cfgInfo {
	if c, ok := it.cfgs[fn]; ok {
		return c
	}
	n := len(fn.Blocks)
	c := &cfgInfo{fn: fn, n: n, ipdom: make([]int, n), isHeader: make([]bool, n), back: map[[2]int]bool{}}
	succ := make([][]int, n+1)
	for _, b := range fn.Blocks {
		if len(b.Succs) == 0 {
			succ[b.Index] = []int{n}
			continue
		}
		for _, s := range b.Succs {
			if s.Dominates(b) {
				c.back[[2]int{b.Index, s.Index}] = true
				c.isHeader[s.Index] = true
				succ[b.Index] = append(succ[b.Index], n)
			} else {
				succ[b.Index] = append(succ[b.Index], s.Index)
			}
		}
	}
	// post-dominator sets as bitsets over n+1 nodes
	words := (n + 1 + 63) / 64
	full := make([]uint64, words)
	for i := 0; i <= n; i++ {
		full[i/64] |= 1 << uint(i%64)
	}
	pd := make([][]uint64, n+1)
	for i := 0; i < n; i++ {
		pd[i] = append([]uint64(nil), full...)
	}
	pd[n] = make([]uint64, words)
	pd[n][n/64] |= 1 << uint(n%64)
	changed := true
	for changed {
		changed = false
		for i := n - 1; i >= 0; i-- {
			nw := append([]uint64(nil), full...)
			for _, s := range succ[i] {
				for w := range nw {
					nw[w] &= pd[s][w]
				}
			}
			nw[i/64] |= 1 << uint(i%64)
			for w := range nw {
				if nw[w] != pd[i][w] {
					changed = true
				}
			}
			pd[i] = nw
		}
	}
	count := func(s []uint64) int {
		k := 0
		for _, w := range s {
			for ; w != 0; w &= w - 1 {
				k++
			}
		}
		return k
	}
	sizes := make([]int, n+1)
	for i := 0; i <= n; i++ {
		sizes[i] = count(pd[i])
	}
	for i := 0; i < n; i++ {
		best, bestSize := n, -1
		for j := 0; j <= n; j++ {
			if j == i || pd[i][j/64]>>uint(j%64)&1 == 0 {
				continue
			}
			if sizes[j] > bestSize {
				best, bestSize = j, sizes[j]
			}
		}
		c.ipdom[i] = best
	}
	it.cfgs[fn] = c
	return c
}

// Ipdom returns the immediate post-dominator block of b (nil = function exit).
func (c *cfgInfo) Ipdom(b *ssa.BasicBlock) *ssa.BasicBlock {
	i := c.ipdom[b.Index]
	if i >= c.n {
		return nil
	}
	return c.fn.Blocks[i]
}
