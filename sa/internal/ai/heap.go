package ai

import (
	"fmt"
	"go/types"
	"sort"
	"strconv"
	"strings"

	"golang.org/x/tools/go/ssa"
)

// ObjMode says how a cell that was never written reads.
type ObjMode uint8

const (
	ModeZero   ObjMode = iota // fresh allocation: zero values
	ModeSym                   // generic state: a distinct symbolic value per cell
	ModeOpaque                // host/library memory: unknown
)

// Object is an abstract allocation (allocation site, global, or opaque host object).
type Object struct {
	ID   int
	Name string
	T    types.Type // type of the allocated variable (struct, array, scalar ...)
	Site ssa.Value  // *ssa.Alloc, *ssa.MakeSlice, *ssa.Global, ... (nil for synthetic)
	Mode ObjMode
	// TypeKey names the location class for field invariants ("ppu.PPU", "global:cpu.bits").
	TypeKey string
	// MinLen: for '< len' pseudo objects, the smallest length the slice can have
	// (so that small constants are known to be below the length as well).
	MinLen    int64
	MinLenSet bool
}

type CellKey struct {
	Obj  int
	Path string
}

func (k CellKey) String() string { return fmt.Sprintf("#%d%s", k.Obj, k.Path) }

type objCells struct {
	m     map[string]Value
	owner *State
	mode  ObjMode
}

// Heap is a frozen snapshot.
type Heap struct {
	objs map[int]*objCells
}

// State is one abstract machine state on one path.
type State struct {
	it       *Interp
	base     *Heap
	objs     map[int]*objCells
	env      map[ssa.Value]Value
	rets     []Value
	PathDeps Deps
	// Log of path conditions (for diagnostics)
	Conds []CondRec
}

type CondRec struct {
	At  ssa.Instruction
	C   *Bool
	Out bool
}

func (it *Interp) NewState() *State {
	return &State{it: it, base: &Heap{objs: map[int]*objCells{}}, objs: map[int]*objCells{}, env: map[ssa.Value]Value{}}
}

// Fork returns an independent copy (copy-on-write at object granularity).
func (s *State) Fork() *State {
	n := &State{it: s.it, base: s.base, objs: make(map[int]*objCells, len(s.objs)+2), PathDeps: s.PathDeps}
	for k, v := range s.objs {
		n.objs[k] = v
	}
	// after a fork neither side owns the shared cell maps
	for _, v := range s.objs {
		v.owner = nil
	}
	n.env = make(map[ssa.Value]Value, len(s.env)+8)
	for k, v := range s.env {
		n.env[k] = v
	}
	n.rets = s.rets
	n.Conds = s.Conds[:len(s.Conds):len(s.Conds)]
	return n
}

// Freeze turns the state's heap into a new immutable base and returns it.
func (s *State) Freeze() *Heap {
	h := &Heap{objs: make(map[int]*objCells, len(s.base.objs)+len(s.objs))}
	for k, v := range s.base.objs {
		h.objs[k] = v
	}
	for k, v := range s.objs {
		v.owner = nil
		h.objs[k] = v
	}
	return h
}

// StateOn returns a fresh state on top of a frozen heap.
func (it *Interp) StateOn(h *Heap) *State {
	return &State{it: it, base: h, objs: map[int]*objCells{}, env: map[ssa.Value]Value{}}
}

func (s *State) cellsRO(o *Object) *objCells {
	if c, ok := s.objs[o.ID]; ok {
		return c
	}
	if c, ok := s.base.objs[o.ID]; ok {
		return c
	}
	return nil
}

func (s *State) cellsRW(o *Object) *objCells {
	if c, ok := s.objs[o.ID]; ok {
		if c.owner == s {
			return c
		}
		n := &objCells{m: make(map[string]Value, len(c.m)+4), owner: s, mode: c.mode}
		for k, v := range c.m {
			n.m[k] = v
		}
		s.objs[o.ID] = n
		return n
	}
	if c, ok := s.base.objs[o.ID]; ok {
		n := &objCells{m: make(map[string]Value, len(c.m)+4), owner: s, mode: c.mode}
		for k, v := range c.m {
			n.m[k] = v
		}
		s.objs[o.ID] = n
		return n
	}
	n := &objCells{m: map[string]Value{}, owner: s, mode: o.Mode}
	s.objs[o.ID] = n
	return n
}

// ModeOf returns the current default mode of an object in this state.
func (s *State) ModeOf(o *Object) ObjMode {
	if c := s.cellsRO(o); c != nil {
		return c.mode
	}
	return o.Mode
}

// ResetObject re-initialises an object (a re-executed allocation site).
func (s *State) ResetObject(o *Object, mode ObjMode) {
	s.objs[o.ID] = &objCells{m: map[string]Value{}, owner: s, mode: mode}
}

// SetMode changes the default mode of an object and drops the given cells.
func (s *State) SetMode(o *Object, mode ObjMode) {
	c := s.cellsRW(o)
	c.mode = mode
}

// RawCells exposes the explicit cells of an object (read only).
func (s *State) RawCells(o *Object) map[string]Value {
	if c := s.cellsRO(o); c != nil {
		return c.m
	}
	return nil
}

// DropCell removes an explicit cell so that it reads as the object's default.
func (s *State) DropCell(o *Object, path string) {
	c := s.cellsRW(o)
	delete(c.m, path)
}

// SetCell writes an explicit cell without any hooks.
func (s *State) SetCell(o *Object, path string, v Value) {
	c := s.cellsRW(o)
	c.m[path] = v
}

// TouchedObjects lists the objects whose cells differ from the base.
func (s *State) TouchedObjects() []int {
	ids := make([]int, 0, len(s.objs))
	for id := range s.objs {
		ids = append(ids, id)
	}
	sort.Ints(ids)
	return ids
}

// ---------------------------------------------------------------------------
// paths

// leafTypeAt navigates t along path.
func leafTypeAt(t types.Type, path string) types.Type {
	for path != "" {
		switch path[0] {
		case '.':
			end := 1
			for end < len(path) && path[end] != '.' && path[end] != '[' {
				end++
			}
			name := path[1:end]
			path = path[end:]
			st, ok := t.Underlying().(*types.Struct)
			if !ok {
				return nil
			}
			found := false
			for i := 0; i < st.NumFields(); i++ {
				if st.Field(i).Name() == name {
					t = st.Field(i).Type()
					found = true
					break
				}
			}
			if !found {
				return nil
			}
		case '[':
			end := strings.IndexByte(path, ']')
			path = path[end+1:]
			switch u := t.Underlying().(type) {
			case *types.Array:
				t = u.Elem()
			case *types.Slice:
				t = u.Elem()
			default:
				return nil
			}
		default:
			return nil
		}
	}
	return t
}

// normPath replaces every index by [*] (location class for invariants).
func normPath(path string) string {
	if !strings.Contains(path, "[") {
		return path
	}
	var sb strings.Builder
	for i := 0; i < len(path); {
		if path[i] == '[' {
			end := strings.IndexByte(path[i:], ']') + i
			sb.WriteString("[*]")
			i = end + 1
		} else {
			sb.WriteByte(path[i])
			i++
		}
	}
	return sb.String()
}

const perIndexLimit = 256

// isScalarLeaf reports whether t is stored as a single cell.
func isScalarLeaf(t types.Type) bool {
	switch u := t.Underlying().(type) {
	case *types.Struct:
		return false
	case *types.Array:
		_ = u
		return false
	}
	return true
}

// leafPaths enumerates the relative leaf paths of a composite type.
func leafPaths(t types.Type, prefix string, out *[]string) {
	switch u := t.Underlying().(type) {
	case *types.Struct:
		for i := 0; i < u.NumFields(); i++ {
			leafPaths(u.Field(i).Type(), prefix+"."+u.Field(i).Name(), out)
		}
	case *types.Array:
		if u.Len() <= perIndexLimit {
			for i := int64(0); i < u.Len(); i++ {
				leafPaths(u.Elem(), prefix+"["+strconv.FormatInt(i, 10)+"]", out)
			}
		} else {
			leafPaths(u.Elem(), prefix+"[*]", out)
		}
	default:
		*out = append(*out, prefix)
	}
}

// ---------------------------------------------------------------------------
// default values

func (it *Interp) zeroValue(t types.Type) Value {
	switch u := t.Underlying().(type) {
	case *types.Basic:
		switch {
		case u.Info()&types.IsBoolean != 0:
			return NewConstBool(false)
		case u.Info()&types.IsInteger != 0:
			w, s, _ := typeWidthArch(t)
			return NewConstInt(w, s, 0)
		case u.Info()&types.IsFloat != 0:
			return &Float{Lo: 0, Hi: 0}
		case u.Info()&types.IsString != 0:
			return &Str{Known: true, S: ""}
		}
		return &Top{T: t}
	case *types.Pointer, *types.Signature, *types.Slice, *types.Interface, *types.Map, *types.Chan:
		return &NilV{T: t}
	case *types.Struct, *types.Array:
		return it.zeroAgg(t)
	}
	return &Top{T: t}
}

func (it *Interp) zeroAgg(t types.Type) Value {
	var leaves []string
	leafPaths(t, "", &leaves)
	m := make(map[string]Value, len(leaves))
	for _, p := range leaves {
		m[p] = it.zeroValue(leafTypeAt(t, p))
	}
	return &Agg{T: t, M: m}
}

// SymFor returns (creating on demand) the symbol standing for the initial
// content of a cell in the generic state.
func (it *Interp) SymFor(o *Object, path string) Sym {
	k := CellKey{o.ID, path}
	if s, ok := it.symOf[k]; ok {
		return s
	}
	s := it.NewSym(o.Name+path, k)
	it.symOf[k] = s
	return s
}

func (it *Interp) NewSym(name string, k CellKey) Sym {
	it.Syms = append(it.Syms, SymInfo{Name: name, Cell: k})
	return Sym(len(it.Syms) - 1)
}

// SymName renders a symbol.
func (it *Interp) SymName(s Sym) string {
	if int(s) < len(it.Syms) {
		return it.Syms[s].Name
	}
	return fmt.Sprintf("sym%d", s)
}

func (it *Interp) DepNames(d Deps) []string {
	out := make([]string, 0, len(d))
	for _, s := range d {
		out = append(out, it.SymName(s))
	}
	sort.Strings(out)
	return out
}

// InvKey is the location class of a cell for field invariants.
func InvKey(o *Object, path string) string { return o.TypeKey + normPath(path) }

func (it *Interp) symValue(o *Object, path string, t types.Type) Value {
	s := it.SymFor(o, path)
	switch u := t.Underlying().(type) {
	case *types.Basic:
		switch {
		case u.Info()&types.IsBoolean != 0:
			k := CellKey{o.ID, path}
			return &Bool{B: Bit{K: BSrc, S: s}, D: Deps{s}, VID: it.symVID(s), From: &k}
		case u.Info()&types.IsInteger != 0:
			w, sg, _ := typeWidthArch(t)
			v := NewSymInt(w, sg, s)
			v.VID = it.symVID(s)
			k := CellKey{o.ID, path}
			v.From = &k
			if inv, ok := it.Inv[InvKey(o, path)]; ok {
				v = inv.Apply(v, o)
			}
			return v
		case u.Info()&types.IsFloat != 0:
			return &Float{Lo: negInf, Hi: posInf, D: Deps{s}}
		}
	}
	return &Top{T: t, D: Deps{s}}
}

func (it *Interp) symVID(s Sym) int64 {
	if v, ok := it.symVIDs[s]; ok {
		return v
	}
	v := nextVID()
	it.symVIDs[s] = v
	return v
}

// Invariant is an inferred or declared fact about a location class that holds
// at every step boundary.
type Invariant struct {
	Lo, Hi     int64
	KnownZeros uint64
	KnownOnes  uint64
	LtLenField string // value < len(sibling slice field) of the same object, e.g. ".rom"
	Bottom     bool   // no value seen yet
}

// Apply narrows a symbolic value by the invariant.
func (inv *Invariant) Apply(v *Int, o *Object) *Int {
	if inv.Bottom {
		return v
	}
	r := v.clone()
	if inv.Lo > r.Lo {
		r.Lo = inv.Lo
	}
	if inv.Hi < r.Hi {
		r.Hi = inv.Hi
	}
	for i := range r.Bits {
		if i < 64 {
			if inv.KnownZeros>>uint(i)&1 == 1 {
				r.Bits[i] = bit0
			} else if inv.KnownOnes>>uint(i)&1 == 1 {
				r.Bits[i] = bit1
			}
		}
	}
	return r.normalize()
}

// ---------------------------------------------------------------------------
// cell access

// expandPaths turns a pointer path with "[?]" placeholders into concrete cell
// paths. exact reports that the pointer denotes exactly one cell.
func expandPaths(p *Ptr) (paths []string, exact bool) {
	if len(p.Idx) == 0 {
		return []string{p.Path}, !strings.Contains(p.Path, "[*]")
	}
	paths = []string{""}
	rest := p.Path
	k := 0
	for {
		i := strings.Index(rest, "[?")
		if i < 0 {
			for j := range paths {
				paths[j] += rest
			}
			break
		}
		end := strings.IndexByte(rest[i:], ']') + i
		// placeholder syntax: [?N] where N is the array length
		n, _ := strconv.ParseInt(rest[i+2:end], 10, 64)
		idx := p.Idx[k]
		k++
		lo, hi := idx.Lo, idx.Hi
		if lo < 0 {
			lo = 0
		}
		if hi > n-1 {
			hi = n - 1
		}
		var next []string
		for _, pre := range paths {
			for x := lo; x <= hi; x++ {
				next = append(next, pre+rest[:i]+"["+strconv.FormatInt(x, 10)+"]")
			}
		}
		if len(next) > 8192 {
			return nil, false
		}
		paths = next
		rest = rest[end+1:]
	}
	return paths, false
}

func (s *State) defaultCell(o *Object, path string, t types.Type, mode ObjMode) Value {
	switch mode {
	case ModeZero:
		return s.it.zeroValue(t)
	case ModeSym:
		return s.it.symValue(o, path, t)
	}
	// opaque memory: an unknown value that depends on "the contents of this object"
	return s.it.topOf(t, Deps{s.it.SymFor(o, "[opaque]")})
}

// readLeaf reads one scalar cell.
func (s *State) readLeaf(o *Object, path string, t types.Type) Value {
	c := s.cellsRO(o)
	mode := o.Mode
	if c != nil {
		mode = c.mode
		if v, ok := c.m[path]; ok {
			return v
		}
		// an element of a summarised array
		if strings.Contains(path, "[") {
			if v, ok := c.m[normSummary(path)]; ok {
				return v
			}
		}
	}
	return s.defaultCell(o, path, t, mode)
}

// normSummary is unused for per-index arrays; summarised arrays always use [*].
func normSummary(path string) string { return path }

// LoadPtr reads the value a pointer designates.
func (s *State) LoadPtr(p *Ptr) Value {
	t := p.Elem
	if t == nil {
		t = leafTypeAt(p.Obj.T, p.Path)
	}
	if t == nil {
		return &Top{}
	}
	paths, _ := expandPaths(p)
	if paths == nil {
		return s.it.topOf(t, DepsOf(p))
	}
	var res Value
	for _, path := range paths {
		var v Value
		if isScalarLeaf(t) {
			v = s.readLeaf(p.Obj, path, t)
			k := CellKey{p.Obj.ID, path}
			switch x := v.(type) {
			case *Int:
				if x.From == nil || *x.From != k {
					c := *x
					c.From = &k
					v = &c
				}
			case *Bool:
				if x.From == nil || *x.From != k {
					c := *x
					c.From = &k
					v = &c
				}
			}
		} else {
			var leaves []string
			leafPaths(t, "", &leaves)
			m := make(map[string]Value, len(leaves))
			for _, lp := range leaves {
				m[lp] = s.readLeaf(p.Obj, path+lp, leafTypeAt(t, lp))
			}
			v = &Agg{T: t, M: m}
		}
		if res == nil {
			res = v
		} else {
			res = s.it.Join(res, v, nil, nil)
		}
	}
	if len(p.Idx) > 0 {
		res = WithDeps(res, DepsOf(p))
	}
	if strings.Contains(p.Path, "[*]") {
		// element of a summarised array: never identifies a single cell
		switch x := res.(type) {
		case *Int:
			c := *x
			c.From = nil
			c.VID = nextVID()
			res = &c
		case *Bool:
			c := *x
			c.From = nil
			c.VID = nextVID()
			res = &c
		}
	} else if len(paths) == 1 && len(p.Idx) == 0 {
		res = s.it.tagSliceSource(res, CellKey{p.Obj.ID, paths[0]})
	}
	return res
}

// tagSliceSource marks a slice value loaded from a cell: its length is "the
// length of the slice held by that cell", whichever backing store that is. A
// later "x % len(cell)" then proves "x < len(cell)" for every alternative.
func (it *Interp) tagSliceSource(v Value, k CellKey) Value {
	switch x := v.(type) {
	case *Slice:
		ref := it.lenCellObject(k)
		c := *x
		ln := x.Len.clone()
		ln.IsLen = ref
		if !ref.MinLenSet || x.Len.Lo < ref.MinLen {
			ref.MinLen, ref.MinLenSet = x.Len.Lo, true
		}
		c.Len = ln
		c.LenRef = ref
		return &c
	case *Multi:
		any := false
		alts := make([]Value, len(x.Alts))
		for i, a := range x.Alts {
			alts[i] = a
			if sl, ok := a.(*Slice); ok {
				alts[i] = it.tagSliceSource(sl, k)
				any = true
			}
		}
		if any {
			return &Multi{Alts: alts}
		}
	}
	return v
}

func (it *Interp) lenCellObject(k CellKey) *Object {
	if it.lenCells == nil {
		it.lenCells = map[CellKey]*Object{}
	}
	if o, ok := it.lenCells[k]; ok {
		return o
	}
	name := "len(" + k.String() + ")"
	if obj := it.ObjectByIDFast(k.Obj); obj != nil {
		name = "len(" + obj.Name + k.Path + ")"
	}
	o := &Object{ID: -(len(it.lenCells) + 1), Name: name, Mode: ModeOpaque}
	it.lenCells[k] = o
	return o
}

// LenCellOf returns the cell a '< len' pseudo object stands for.
func (it *Interp) LenCellOf(o *Object) (CellKey, bool) {
	for k, v := range it.lenCells {
		if v == o {
			return k, true
		}
	}
	return CellKey{}, false
}

// StorePtr writes v through p. Returns the cell keys written and whether the update was strong.
func (s *State) StorePtr(p *Ptr, v Value) (keys []CellKey, strong bool) {
	t := p.Elem
	if t == nil {
		t = leafTypeAt(p.Obj.T, p.Path)
	}
	paths, exact := expandPaths(p)
	if paths == nil {
		// too many cells: make the object opaque
		c := s.cellsRW(p.Obj)
		c.mode = ModeOpaque
		c.m = map[string]Value{}
		return []CellKey{{p.Obj.ID, "*"}}, false
	}
	strong = exact && len(paths) == 1
	cells := s.cellsRW(p.Obj)
	write := func(path string, t types.Type, v Value) {
		keys = append(keys, CellKey{p.Obj.ID, path})
		if strong {
			cells.m[path] = v
			return
		}
		old, ok := cells.m[path]
		if !ok {
			old = s.defaultCell(p.Obj, path, t, cells.mode)
		}
		cells.m[path] = s.it.Join(old, v, nil, Union(DepsOf(p), s.PathDeps))
	}
	for _, path := range paths {
		if t != nil && !isScalarLeaf(t) {
			ag, ok := v.(*Agg)
			var leaves []string
			leafPaths(t, "", &leaves)
			for _, lp := range leaves {
				lt := leafTypeAt(t, lp)
				var lv Value
				if ok {
					lv = ag.M[lp]
				}
				if lv == nil {
					lv = s.it.topOf(lt, DepsOf(v))
				}
				write(path+lp, lt, lv)
			}
		} else {
			write(path, t, v)
		}
	}
	return keys, strong
}

func (it *Interp) topOf(t types.Type, d Deps) Value {
	if t == nil {
		return &Top{D: d}
	}
	switch u := t.Underlying().(type) {
	case *types.Basic:
		switch {
		case u.Info()&types.IsBoolean != 0:
			return &Bool{B: bitTop, D: d, VID: nextVID()}
		case u.Info()&types.IsInteger != 0:
			w, s, _ := typeWidthArch(t)
			return NewTopInt(w, s, d)
		case u.Info()&types.IsFloat != 0:
			return &Float{Lo: negInf, Hi: posInf, D: d}
		case u.Info()&types.IsString != 0:
			return &Str{D: d}
		}
	case *types.Struct, *types.Array:
		var leaves []string
		leafPaths(t, "", &leaves)
		m := make(map[string]Value, len(leaves))
		for _, p := range leaves {
			m[p] = it.topOf(leafTypeAt(t, p), d)
		}
		return &Agg{T: t, M: m}
	}
	return &Top{T: t, D: d}
}
