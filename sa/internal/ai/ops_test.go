package ai

import (
	"go/token"
	"testing"
)

func TestShift(t *testing.T) {
	x := NewSymInt(8, false, 5)
	one := NewConstInt(64, true, 1)
	r, _ := BinInt(token.SHL, x, one)
	t.Log("shl", r.String())
	four := NewConstInt(8, false, 4)
	a, _ := BinInt(token.SHL, x, four)
	b, _ := BinInt(token.SHR, x, four)
	o, _ := BinInt(token.OR, a, b)
	t.Log("swap", a.String(), b.String(), o.String())
}
