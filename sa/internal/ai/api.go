package ai

import (
	"go/types"

	"golang.org/x/tools/go/ssa"
)

// TypeShape returns the integer shape of a Go type (honouring the int-width override).
func TypeShape(t types.Type) (int, bool) {
	w, s, ok := typeWidthArch(t)
	if !ok {
		return 64, true
	}
	return w, s
}

// NewSymBool returns the symbolic boolean named by s.
func NewSymBool(s Sym) *Bool {
	return &Bool{B: Bit{K: BSrc, S: s}, D: Deps{s}, VID: nextVID()}
}

// LeafTypeAt exposes path navigation.
func LeafTypeAt(t types.Type, path string) types.Type { return leafTypeAt(t, path) }

// ValueLeq exposes the abstract order.
func (it *Interp) ValueLeq(a, b Value) bool { return it.valueLeq(a, b) }

// StripInt forgets symbolic content: what remains is interval, constant bits and the "< len" tag.
func StripInt(x *Int) *Int {
	if x == nil {
		return nil
	}
	r := &Int{W: x.W, Signed: x.Signed, Bits: make([]Bit, x.W), Lo: x.Lo, Hi: x.Hi, VID: nextVID(), LtLen: x.LtLen}
	for i, b := range x.Bits {
		if b.IsConst() {
			r.Bits[i] = b
		} else {
			r.Bits[i] = bitTop
		}
	}
	return r
}

// StripLen is StripInt that keeps the "is the length of" tag.
func StripLen(x *Int) *Int {
	r := StripInt(x)
	if r != nil {
		r.IsLen = x.IsLen
	}
	return r
}

func StripBool(x *Bool) *Bool {
	b := x.B
	if !b.IsConst() {
		b = bitTop
	}
	return &Bool{B: b, VID: nextVID()}
}

// Rebase returns a state with the same locals but whose heap is h; objects for
// which keep returns true (allocations local to the current evaluation) survive.
func (s *State) Rebase(h *Heap, keep func(*Object) bool) *State {
	n := &State{it: s.it, base: h, objs: map[int]*objCells{}, env: s.env, rets: s.rets, PathDeps: s.PathDeps, Conds: s.Conds}
	for id, c := range s.objs {
		if o := s.it.ObjectByIDFast(id); o != nil && keep != nil && keep(o) {
			n.objs[id] = c
		}
	}
	return n
}

// Symbolise turns an invariant value of a cell into the value the generic state
// holds: constants stay, everything else becomes a named symbolic input
// constrained by the invariant.
func (it *Interp) Symbolise(o *Object, path string, v Value) Value {
	k := CellKey{o.ID, path}
	switch x := v.(type) {
	case *Int:
		if c, ok := x.Const(); ok && x.allBitsConst() {
			r := NewConstInt(x.W, x.Signed, c)
			r.From = &k
			return r
		}
		s := it.SymFor(o, path)
		r := NewSymInt(x.W, x.Signed, s)
		r.VID = it.symVID(s)
		r.From = &k
		r.Lo, r.Hi = x.Lo, x.Hi
		for i, b := range x.Bits {
			if b.IsConst() {
				r.Bits[i] = b
			}
		}
		r.LtLen = x.LtLen
		return r.normalize()
	case *Bool:
		if _, ok := x.Const(); ok {
			r := *x
			r.From = &k
			return &r
		}
		s := it.SymFor(o, path)
		return &Bool{B: Bit{K: BSrc, S: s}, D: Deps{s}, VID: it.symVID(s), From: &k}
	case *Float:
		if x.Lo == x.Hi {
			return x
		}
		s := it.SymFor(o, path)
		return &Float{Lo: x.Lo, Hi: x.Hi, D: Deps{s}}
	case *Top:
		s := it.SymFor(o, path)
		return &Top{T: x.T, D: Deps{s}}
	case *Str:
		if x.Known {
			return x
		}
		s := it.SymFor(o, path)
		return &Str{D: Deps{s}}
	case *Slice:
		r := *x
		if _, ok := x.Len.Const(); !ok {
			s := it.SymFor(o, path+"#len")
			ln := NewSymInt(x.Len.W, x.Len.Signed, s)
			ln.VID = it.symVID(s)
			ln.Lo, ln.Hi = x.Len.Lo, x.Len.Hi
			ln.HasBase = false
			ln.IsLen = x.Len.IsLen
			r.Len = ln.normalize()
		}
		if _, ok := x.Off.Const(); !ok {
			s := it.SymFor(o, path+"#off")
			of := NewSymInt(x.Off.W, x.Off.Signed, s)
			of.Lo, of.Hi = x.Off.Lo, x.Off.Hi
			r.Off = of.normalize()
		}
		return &r
	}
	return v
}

// CellSym returns the symbol of a cell if one was created.
func (it *Interp) CellSym(o *Object, path string) (Sym, bool) {
	s, ok := it.symOf[CellKey{o.ID, path}]
	return s, ok
}

// Operand evaluation helper for checks that need to evaluate a function with hooks.
func (it *Interp) Cfg(fn interface{}) {}

// IntervalString renders only the interval of an integer (diagnostics).
func IntervalString(v Value) string {
	if i, ok := v.(*Int); ok && i != nil {
		return "[" + itoa(i.Lo) + "," + itoa(i.Hi) + "]"
	}
	if i, ok := v.(*Int); ok && i == nil {
		return "<unknown>"
	}
	return ValueString(v)
}

// NormPath exposes index abstraction of a path.
func NormPath(p string) string { return normPath(p) }

// TopOf returns the unconstrained value of a type.
func TopOf(it *Interp, t types.Type, d Deps) Value { return it.topOf(t, d) }

// MeetInt intersects two abstract integers of the same shape (nil if shapes differ).
func MeetInt(a, b *Int) *Int {
	if a.W != b.W || a.Signed != b.Signed {
		return nil
	}
	r := a.clone()
	r.VID = nextVID()
	if b.Lo > r.Lo {
		r.Lo = b.Lo
	}
	if b.Hi < r.Hi {
		r.Hi = b.Hi
	}
	if r.Lo > r.Hi {
		return nil
	}
	for i := range r.Bits {
		if r.Bits[i].K == BTop && b.Bits[i].IsConst() {
			r.Bits[i] = b.Bits[i]
		}
	}
	if r.LtLen == nil {
		r.LtLen = b.LtLen
	}
	return r.normalize()
}

// GlobalObject returns (creating on demand) the abstract object of a package-level variable.
func (it *Interp) GlobalObject(g *ssa.Global) *Object { return it.globalObject(g) }

// NarrowInt restricts an integer to [lo,hi] (used for case splits on address classes).
func NarrowInt(x *Int, lo, hi int64) *Int {
	r := x.clone()
	if lo > r.Lo {
		r.Lo = lo
	}
	if hi < r.Hi {
		r.Hi = hi
	}
	return r.normalize()
}

// WithBit returns x with bit i forced to the given constant (case split on a bit).
func WithBit(x *Int, i int, one bool) *Int {
	r := x.clone()
	if one {
		r.Bits[i] = bit1
	} else {
		r.Bits[i] = bit0
	}
	return r.normalize()
}

// HostSym returns the symbol standing for "whatever host function <name> answers".
func (it *Interp) HostSym(name string) Sym {
	if it.hostSyms == nil {
		it.hostSyms = map[string]Sym{}
	}
	if s, ok := it.hostSyms[name]; ok {
		return s
	}
	s := it.NewSym("host:"+name, CellKey{})
	it.hostSyms[name] = s
	return s
}

// IsHostSym reports whether s stands for a host answer.
func (it *Interp) IsHostSym(s Sym) bool {
	return int(s) < len(it.Syms) && len(it.Syms[s].Name) > 5 && it.Syms[s].Name[:5] == "host:"
}

// DependsOnHost reports whether a dependence set contains a host answer.
func (it *Interp) DependsOnHost(d Deps) bool {
	for _, s := range d {
		if it.IsHostSym(s) {
			return true
		}
	}
	return false
}

// LenCells lists the cells whose slice length is used by '< len' proofs.
func (it *Interp) LenCells() []CellKey {
	var out []CellKey
	for k := range it.lenCells {
		out = append(out, k)
	}
	return out
}

// LenCellObject returns the pseudo object of a cell's slice length (nil if none).
func (it *Interp) LenCellObject(k CellKey) *Object { return it.lenCells[k] }

// BitOp2 is the abstract AND / OR / XOR of two bits ("and", "or", "xor"): what the interpreter itself
// computes, exported so that a check can state the expected bit of a bitwise instruction.
func BitOp2(op string, a, b Bit) Bit {
	switch op {
	case "and":
		return bitAnd(a, b)
	case "or":
		return bitOr(a, b)
	}
	return bitXor(a, b)
}
