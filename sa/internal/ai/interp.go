package ai

import (
	"fmt"
	"go/constant"
	"go/token"
	"go/types"
	"math"
	"sort"
	"strconv"
	"strings"

	"golang.org/x/tools/go/ssa"
)

var (
	negInf = math.Inf(-1)
	posInf = math.Inf(1)
)

// Hooks are the observation points checks attach to.
type Hooks struct {
	// Store is called for every store with the cells written.
	Store func(st *State, at ssa.Instruction, p *Ptr, keys []CellKey, v Value, strong bool)
	// Load is called for every load through a pointer.
	Load func(st *State, at ssa.Instruction, p *Ptr, v Value)
	// Index is called for every array/slice indexing obligation.
	Index func(st *State, at ssa.Instruction, idx *Int, length *Int, proven bool)
	// Div is called for every integer division/modulo with the divisor.
	Div func(st *State, at ssa.Instruction, divisor *Int, proven bool)
	// Deref is called when a possibly nil value is dereferenced or called.
	Deref func(st *State, at ssa.Instruction, v Value, proven bool)
	// Panic is called when an explicit panic instruction is reachable.
	Panic func(st *State, at ssa.Instruction)
	// Exit is called when a process-exit call is reachable.
	Exit func(st *State, at ssa.Instruction, callee string)
	// Wrap is called for arithmetic that may leave its type's range.
	Wrap func(st *State, at ssa.Instruction, op token.Token, x, y *Int)
	// Trunc is called for integer conversions that may lose information.
	Trunc func(st *State, at ssa.Instruction, x *Int, to types.Type)
	// Extern is called for calls whose body is not interpreted.
	Extern func(st *State, at ssa.Instruction, name string, args []Value)
	// Send is called for channel sends.
	Send func(st *State, at ssa.Instruction, ch, v Value)
	// Call is called before every interpreted call.
	Call func(st *State, at ssa.Instruction, callee *ssa.Function, args []Value)
	// Undecided is called when the interpreter meets something it cannot model.
	Undecided func(st *State, at ssa.Instruction, what string)
	// Branch is called at every conditional branch with a non-constant condition.
	Branch func(st *State, at *ssa.If, c *Bool)
	// UnknownCall is called for a call through a function value the interpreter
	// cannot resolve; it returns the state to continue with (e.g. a havocked one).
	UnknownCall func(st *State, at ssa.Instruction) *State
	// Args lets a check narrow the arguments of a call (a reviewed assumption
	// about a parameter, stated explicitly by the check that uses it).
	Args func(callee *ssa.Function, args []Value) []Value
	// LoadOverride lets a check replace the value a load yields (case split on
	// an input byte, e.g. one byte of the cartridge header).
	LoadOverride func(st *State, at ssa.Instruction, p *Ptr, v Value) (Value, bool)
	// Elem is called for every element address computation with the array it
	// indexes (object + path of the array), the index and the array length (-1 unknown).
	Elem func(st *State, at ssa.Instruction, obj *Object, path string, idx *Int, length int64)
	// TypeAssert is called for single-result type assertions that may fail.
	TypeAssert func(st *State, at ssa.Instruction)
}

// Intercept replaces the interpretation of a function.
type Intercept func(st *State, at ssa.Instruction, args []Value) (Value, *State)

type Interp struct {
	Prog        *ssa.Program
	RepoPkg     func(*types.Package) bool // is this package part of the repository
	Syms        []SymInfo
	symOf       map[CellKey]Sym
	symVIDs     map[Sym]int64
	objBySite   map[siteKey]*Object
	instrIDs    map[ssa.Instruction]int
	objByName   map[string]*Object
	Objects     []*Object
	Inv         map[string]*Invariant
	Hooks       Hooks
	Intercepts  map[*ssa.Function]Intercept
	Thresholds  []int64
	CellThr     map[CellKey][]int64 // constants each cell's content is compared with (widening ladder)
	fnThr       map[*ssa.Function][]int64
	Stack       []*ssa.Function
	CallSites   []ssa.Instruction
	MaxDepth    int
	UnrollLimit int
	cfgs        map[*ssa.Function]*cfgInfo
	curInstr    ssa.Instruction
	Stats       struct{ Calls, Instrs, Forks, Joins, LoopFix int }
	// Steps bounds the work of one top-level evaluation (fail closed on runaway).
	StepBudget int
	// SkipCalls lists functions treated as no-ops returning Top (e.g. host output).
	nextObj     int
	hostSyms    map[string]Sym
	pathSplitFn map[*ssa.Function]bool
	appendSeq   int
	// PreciseMap tells whether maps of this type may be modelled entry by entry (set by the
	// world: true iff no code reachable in the run phase updates or deletes from a map of that type)
	PreciseMap func(types.Type) bool
	// LenProofUsed: the '< len' references that actually discharged an index obligation
	LenProofUsed map[*Object]bool
	lenCells     map[CellKey]*Object // pseudo objects naming "the slice held by this cell" for '< len' facts
}

func NewInterp(prog *ssa.Program, repo func(*types.Package) bool) *Interp {
	it := &Interp{
		Prog: prog, RepoPkg: repo,
		symOf: map[CellKey]Sym{}, symVIDs: map[Sym]int64{},
		objBySite: map[siteKey]*Object{}, objByName: map[string]*Object{}, instrIDs: map[ssa.Instruction]int{},
		Inv: map[string]*Invariant{}, Intercepts: map[*ssa.Function]Intercept{},
		MaxDepth: 40, UnrollLimit: 300, cfgs: map[*ssa.Function]*cfgInfo{},
		CellThr: map[CellKey][]int64{}, fnThr: map[*ssa.Function][]int64{},
	}
	it.Syms = append(it.Syms, SymInfo{Name: "<none>"})
	return it
}

func typeKeyOf(t types.Type) string {
	if n, ok := t.(*types.Named); ok {
		if n.Obj().Pkg() != nil {
			return n.Obj().Pkg().Name() + "." + n.Obj().Name()
		}
		return n.Obj().Name()
	}
	return t.String()
}

// ObjectFor returns the abstract object of an allocation site.
//
// Objects are identified by allocation site plus the chain of call sites that
// led to it (there is no recursion, so the chains are finite): a helper that
// allocates (a closure constructor capturing its parameters) yields a distinct
// object per call site instead of one merged object.
func (it *Interp) ObjectFor(site ssa.Value, t types.Type, name string, mode ObjMode) *Object {
	key := siteKey{site: site}
	// Only cells that hold a captured variable (parameters and locals lifted to the
	// heap because a closure refers to them) are split per calling context:
	// closure constructors are called many times with different bindings.
	// Component objects (composite literals, new, make) stay one object per site:
	// the constructors that allocate them run once per instance.
	if a, isAlloc := site.(*ssa.Alloc); isAlloc {
		switch a.Comment {
		case "complit", "new", "makeslice", "slicelit", "varargs", "":
		default:
			key.ctx = it.ctxKey()
		}
	}
	if o, ok := it.objBySite[key]; ok {
		return o
	}
	it.nextObj++
	if key.ctx != "" {
		name = name + "<" + it.ctxName() + ">"
	}
	o := &Object{ID: it.nextObj, Name: name, T: t, Site: site, Mode: mode, TypeKey: typeKeyOf(t)}
	if g, ok := site.(*ssa.Global); ok {
		o.TypeKey = "global:" + g.Pkg.Pkg.Name() + "." + g.Name()
	}
	it.objBySite[key] = o
	it.Objects = append(it.Objects, o)
	return o
}

type siteKey struct {
	site ssa.Value
	ctx  string
}

func (it *Interp) instrID(at ssa.Instruction) int {
	if id, ok := it.instrIDs[at]; ok {
		return id
	}
	id := len(it.instrIDs) + 1
	it.instrIDs[at] = id
	return id
}

func (it *Interp) ctxKey() string {
	if len(it.CallSites) == 0 {
		return ""
	}
	var sb strings.Builder
	for _, at := range it.CallSites {
		if at == nil {
			continue
		}
		sb.WriteString(strconv.Itoa(it.instrID(at)))
		sb.WriteByte('.')
	}
	return sb.String()
}

func (it *Interp) ctxName() string {
	var parts []string
	for _, at := range it.CallSites {
		if at == nil || at.Parent() == nil {
			continue
		}
		pos := at.Parent().Prog.Fset.Position(at.Pos())
		parts = append(parts, fmt.Sprintf("%s:%d", shortFn(at.Parent()), pos.Line))
	}
	return strings.Join(parts, "/")
}

// NewObject creates a synthetic object.
func (it *Interp) NewObject(name string, t types.Type, mode ObjMode) *Object {
	if o, ok := it.objByName[name]; ok {
		return o
	}
	it.nextObj++
	o := &Object{ID: it.nextObj, Name: name, T: t, Mode: mode, TypeKey: typeKeyOf(t)}
	it.objByName[name] = o
	it.Objects = append(it.Objects, o)
	return o
}

func (it *Interp) ObjectByID(id int) *Object {
	for _, o := range it.Objects {
		if o.ID == id {
			return o
		}
	}
	return nil
}

func siteName(v ssa.Value) string {
	switch x := v.(type) {
	case *ssa.Global:
		return x.Pkg.Pkg.Name() + "." + x.Name()
	case *ssa.Alloc:
		fn := x.Parent()
		pos := fn.Prog.Fset.Position(x.Pos())
		name := x.Comment
		if name == "" {
			name = "new"
		}
		return fmt.Sprintf("%s@%s:%d", name, shortFn(fn), pos.Line)
	case ssa.Instruction:
		fn := x.Parent()
		pos := fn.Prog.Fset.Position(x.Pos())
		return fmt.Sprintf("%s@%s:%d", v.Name(), shortFn(fn), pos.Line)
	}
	return v.Name()
}

func shortFn(fn *ssa.Function) string {
	s := fn.String()
	s = strings.ReplaceAll(s, "github.com/scottyw/tetromino/gameboy/", "")
	s = strings.ReplaceAll(s, "github.com/scottyw/tetromino/", "")
	return s
}

// ---------------------------------------------------------------------------
// joins

// Join computes the join of two values; gate (optional) is the literal that
// selects t; extra are dependences added when the values differ.
func (it *Interp) Join(t, f Value, gate *Bit, extra Deps) Value {
	if t == f {
		return t
	}
	if t == nil {
		return f
	}
	if f == nil {
		return t
	}
	switch a := t.(type) {
	case *Int:
		if b, ok := f.(*Int); ok {
			return JoinInt(a, b, gate, extra)
		}
	case *Bool:
		if b, ok := f.(*Bool); ok {
			if a.B == b.B && DepsEqual(a.D, b.D) {
				if a.VID == b.VID {
					return a
				}
				return &Bool{B: a.B, D: a.D, VID: nextVID()}
			}
			nb := bitTop
			if a.B == b.B {
				nb = a.B
			} else if gate != nil {
				nb = gateBit(*gate, a.B, b.B)
			}
			d := Union(a.D, b.D)
			if a.B != b.B || a.B.K == BTop {
				d = Union(d, extra)
			}
			return &Bool{B: nb, D: d, VID: nextVID()}
		}
	case *Float:
		if b, ok := f.(*Float); ok {
			if a.Lo == b.Lo && a.Hi == b.Hi && DepsEqual(a.D, b.D) {
				return a
			}
			return &Float{Lo: math.Min(a.Lo, b.Lo), Hi: math.Max(a.Hi, b.Hi), D: Union3(a.D, b.D, extra)}
		}
	case *Ptr:
		if b, ok := f.(*Ptr); ok && a.Obj == b.Obj && a.Path == b.Path && len(a.Idx) == len(b.Idx) {
			if len(a.Idx) == 0 {
				return a
			}
			idx := make([]*Int, len(a.Idx))
			for i := range idx {
				idx[i] = JoinInt(a.Idx[i], b.Idx[i], gate, extra)
			}
			return &Ptr{Obj: a.Obj, Path: a.Path, Idx: idx, Elem: a.Elem}
		}
	case *NilV:
		if _, ok := f.(*NilV); ok {
			return a
		}
	case *Func:
		if b, ok := f.(*Func); ok && a.Fn == b.Fn && len(a.Bind) == len(b.Bind) {
			same := true
			for i := range a.Bind {
				if !it.sameValue(a.Bind[i], b.Bind[i]) {
					same = false
				}
			}
			if same {
				return a
			}
		}
	case *Slice:
		if b, ok := f.(*Slice); ok && a.Obj == b.Obj && a.Path == b.Path {
			return &Slice{Obj: a.Obj, Path: a.Path, Off: JoinInt(a.Off, b.Off, gate, extra), Len: JoinInt(a.Len, b.Len, gate, extra), Elem: a.Elem, CapKnown: a.CapKnown && b.CapKnown && a.Cap == b.Cap, Cap: a.Cap}
		}
	case *Iface:
		if b, ok := f.(*Iface); ok && types.Identical(a.T, b.T) {
			return &Iface{T: a.T, V: it.Join(a.V, b.V, gate, extra)}
		}
	case *Str:
		if b, ok := f.(*Str); ok {
			if a.Known && b.Known && a.S == b.S {
				return a
			}
			return &Str{D: Union3(a.D, b.D, extra)}
		}
	case *Agg:
		if b, ok := f.(*Agg); ok {
			m := make(map[string]Value, len(a.M))
			for k, av := range a.M {
				m[k] = it.Join(av, b.M[k], gate, extra)
			}
			for k, bv := range b.M {
				if _, ok := m[k]; !ok {
					m[k] = bv
				}
			}
			return &Agg{T: a.T, M: m}
		}
	case *Tuple:
		if b, ok := f.(*Tuple); ok && len(a.Vs) == len(b.Vs) {
			vs := make([]Value, len(a.Vs))
			for i := range vs {
				vs[i] = it.Join(a.Vs[i], b.Vs[i], gate, extra)
			}
			return &Tuple{Vs: vs}
		}
	case *Top:
		if b, ok := f.(*Top); ok {
			return &Top{T: a.T, D: Union3(a.D, b.D, extra)}
		}
		return &Top{T: a.T, D: Union3(a.D, DepsOf(f), extra)}
	}
	if b, ok := f.(*Top); ok {
		return &Top{T: b.T, D: Union3(b.D, DepsOf(t), extra)}
	}
	// reference-like values that differ: keep the alternatives
	return it.multi(t, f)
}

func isRefLike(v Value) bool {
	switch v.(type) {
	case *Ptr, *NilV, *Func, *Slice, *Iface, *Multi:
		return true
	}
	return false
}

func (it *Interp) multi(t, f Value) Value {
	if !isRefLike(t) || !isRefLike(f) {
		return &Top{D: Union(DepsOf(t), DepsOf(f))}
	}
	var alts []Value
	// alternatives denoting the same reference (same slice backing, same
	// interface type, same pointer target) are merged, not duplicated
	sameRef := func(x, y Value) bool {
		switch a := x.(type) {
		case *Slice:
			b, ok := y.(*Slice)
			return ok && a.Obj == b.Obj && a.Path == b.Path
		case *Iface:
			b, ok := y.(*Iface)
			return ok && types.Identical(a.T, b.T)
		case *Ptr:
			b, ok := y.(*Ptr)
			return ok && a.Obj == b.Obj && a.Path == b.Path && len(a.Idx) == len(b.Idx)
		case *NilV:
			_, ok := y.(*NilV)
			return ok
		}
		return it.sameValue(x, y)
	}
	addOne := func(v Value) {
		for i, e := range alts {
			if e == v || it.sameValue(e, v) {
				return
			}
			if sameRef(e, v) {
				alts[i] = it.Join(e, v, nil, nil)
				return
			}
		}
		alts = append(alts, v)
	}
	add := func(v Value) {
		if m, ok := v.(*Multi); ok {
			for _, a := range m.Alts {
				addOne(a)
			}
			return
		}
		addOne(v)
	}
	add(t)
	add(f)
	if len(alts) == 1 {
		return alts[0]
	}
	if len(alts) > 300 {
		return &Top{}
	}
	return &Multi{Alts: alts}
}

func (it *Interp) sameValue(a, b Value) bool {
	if a == b {
		return true
	}
	switch x := a.(type) {
	case *Ptr:
		y, ok := b.(*Ptr)
		return ok && x.Obj == y.Obj && x.Path == y.Path && len(x.Idx) == 0 && len(y.Idx) == 0
	case *NilV:
		_, ok := b.(*NilV)
		return ok
	case *Func:
		y, ok := b.(*Func)
		if !ok || x.Fn != y.Fn || len(x.Bind) != len(y.Bind) {
			return false
		}
		for i := range x.Bind {
			if !it.sameValue(x.Bind[i], y.Bind[i]) {
				return false
			}
		}
		return true
	case *Iface:
		y, ok := b.(*Iface)
		return ok && types.Identical(x.T, y.T) && it.sameValue(x.V, y.V)
	case *Slice:
		y, ok := b.(*Slice)
		return ok && x.Obj == y.Obj && x.Path == y.Path && (x.Len.VID == y.Len.VID || (x.Len.Lo == y.Len.Lo && x.Len.Hi == y.Len.Hi && x.Off.Lo == y.Off.Lo && x.Off.Hi == y.Off.Hi))
	case *Int:
		y, ok := b.(*Int)
		if !ok {
			return false
		}
		if x.VID == y.VID {
			return true
		}
		cx, okx := x.Const()
		cy, oky := y.Const()
		return okx && oky && cx == cy && x.allBitsConst() && y.allBitsConst()
	case *Bool:
		y, ok := b.(*Bool)
		return ok && x.B == y.B && x.B.K != BTop
	}
	return false
}

// JoinStates joins two states arriving at the same program point. Both inputs
// are consumed (t is updated in place and returned).
// pre are the path dependences before the split (nil for an ungated join).
func (it *Interp) JoinStates(t, f *State, gate *Bool, pre Deps) *State {
	if t == nil {
		return f
	}
	if f == nil {
		return t
	}
	it.Stats.Joins++
	var g *Bit
	if gate != nil && gate.B.K == BSrc {
		b := gate.B
		g = &b
	}
	var extra Deps
	var outDeps Deps
	if gate != nil {
		xt := t.PathDeps.Minus(pre).Minus(gate.D)
		xf := f.PathDeps.Minus(pre).Minus(gate.D)
		extra = Union3(gate.D, xt, xf)
		if len(xt) == 0 && len(xf) == 0 {
			outDeps = pre
		} else {
			outDeps = Union(pre, extra)
		}
	} else {
		extra = Union(t.PathDeps, f.PathDeps)
		outDeps = extra
	}
	owned := func(id int, o *Object) *objCells {
		ct, ok := t.objs[id]
		if ok && ct.owner == t {
			return ct
		}
		src := ct
		if !ok {
			src = t.base.objs[id]
		}
		n := &objCells{owner: t, mode: o.Mode}
		if src != nil {
			n.mode = src.mode
			n.m = make(map[string]Value, len(src.m)+4)
			for k, v := range src.m {
				n.m[k] = v
			}
		} else {
			n.m = map[string]Value{}
		}
		t.objs[id] = n
		return n
	}
	joinObj := func(id int, cf *objCells) {
		o := it.ObjectByIDFast(id)
		// cf == nil: f did not touch the object; its version is the base
		if cf == nil {
			cf = f.base.objs[id]
		}
		if cf == nil {
			if _, isGlobal := o.Site.(*ssa.Global); !isGlobal && o.Site != nil {
				// the allocation was never executed on f's path: the object does
				// not exist there, so nothing on that path can observe it
				owned(id, o)
				return
			}
		}
		if _, inT := t.objs[id]; !inT && t.base.objs[id] == nil && cf != nil {
			if _, isGlobal := o.Site.(*ssa.Global); !isGlobal && o.Site != nil {
				n := &objCells{owner: t, mode: cf.mode, m: make(map[string]Value, len(cf.m))}
				for k, v := range cf.m {
					n.m[k] = v
				}
				t.objs[id] = n
				return
			}
		}
		n := owned(id, o)
		modeT, modeF := n.mode, o.Mode
		if cf != nil {
			modeF = cf.mode
		}
		if cf != nil {
			for k, vf := range cf.m {
				vt, ok := n.m[k]
				if ok && vt == vf {
					continue
				}
				if !ok {
					lt := leafTypeAt(o.T, k)
					if lt == nil {
						continue
					}
					vt = t.defaultCell(o, k, lt, modeT)
				}
				n.m[k] = it.Join(vt, vf, g, extra)
			}
		}
		for k, vt := range n.m {
			if cf != nil {
				if _, ok := cf.m[k]; ok {
					continue
				}
			}
			lt := leafTypeAt(o.T, k)
			if lt == nil {
				continue
			}
			vf := f.defaultCell(o, k, lt, modeF)
			n.m[k] = it.Join(vt, vf, g, extra)
		}
		if modeT != modeF {
			n.mode = ModeOpaque
		}
	}
	for id, cf := range f.objs {
		if ct, ok := t.objs[id]; ok && ct == cf {
			continue
		}
		joinObj(id, cf)
	}
	for id := range t.objs {
		if _, ok := f.objs[id]; !ok {
			joinObj(id, nil)
		}
	}
	for k, vf := range f.env {
		vt, ok := t.env[k]
		if !ok {
			t.env[k] = vf
		} else if vt != vf {
			t.env[k] = it.Join(vt, vf, g, extra)
		}
	}
	if len(t.rets) == len(f.rets) && len(t.rets) > 0 {
		rets := make([]Value, len(t.rets))
		for i := range t.rets {
			rets[i] = it.Join(t.rets[i], f.rets[i], g, extra)
		}
		t.rets = rets
	} else if len(t.rets) == 0 {
		t.rets = f.rets
	}
	t.PathDeps = outDeps
	t.Conds = nil
	return t
}

var objIndex []*Object

func (it *Interp) ObjectByIDFast(id int) *Object {
	// objects are appended with increasing IDs starting at 1
	if id-1 < len(it.Objects) && id >= 1 && it.Objects[id-1].ID == id {
		return it.Objects[id-1]
	}
	return it.ObjectByID(id)
}

// ---------------------------------------------------------------------------
// constants

func (it *Interp) constValue(c *ssa.Const) Value {
	t := c.Type()
	if c.Value == nil {
		// zero value / nil
		return it.zeroValue(t)
	}
	switch u := t.Underlying().(type) {
	case *types.Basic:
		switch {
		case u.Info()&types.IsBoolean != 0:
			return NewConstBool(constant.BoolVal(c.Value))
		case u.Info()&types.IsInteger != 0:
			w, s, _ := typeWidthArch(t)
			if i, ok := constant.Int64Val(constant.ToInt(c.Value)); ok {
				return NewConstInt(w, s, i)
			}
			if ui, ok := constant.Uint64Val(constant.ToInt(c.Value)); ok {
				return NewConstInt(w, s, int64(ui))
			}
			return NewTopInt(w, s, nil)
		case u.Info()&types.IsFloat != 0:
			f, _ := constant.Float64Val(c.Value)
			return &Float{Lo: f, Hi: f}
		case u.Info()&types.IsString != 0:
			return &Str{Known: true, S: constant.StringVal(c.Value)}
		}
	}
	return &Top{T: t}
}

// collectThresholds gathers the integer constants of the repository for widening.
func (it *Interp) CollectThresholds(fns []*ssa.Function) {
	set := map[int64]bool{0: true, 1: true}
	for _, fn := range fns {
		for _, b := range fn.Blocks {
			for _, ins := range b.Instrs {
				for _, op := range ins.Operands(nil) {
					if c, ok := (*op).(*ssa.Const); ok && c.Value != nil && c.Value.Kind() == constant.Int {
						if v, ok := constant.Int64Val(c.Value); ok {
							set[v] = true
							set[v-1] = true
							set[v+1] = true
						}
					}
				}
			}
		}
	}
	for _, w := range []uint{7, 8, 15, 16, 31, 32} {
		set[(int64(1)<<w)-1] = true
	}
	it.Thresholds = it.Thresholds[:0]
	for v := range set {
		it.Thresholds = append(it.Thresholds, v)
	}
	sort.Slice(it.Thresholds, func(i, j int) bool { return it.Thresholds[i] < it.Thresholds[j] })
}

func itoa(i int64) string { return strconv.FormatInt(i, 10) }
