// Package load brings the whole tetromino program (all 13 packages, including the
// host-facing ones whose cgo dependencies are replaced by API stubs) in front of
// the analyser as type-checked syntax plus SSA.
package load

import (
	"fmt"
	"os"
	"sort"
	"strings"

	"golang.org/x/tools/go/packages"
	"golang.org/x/tools/go/ssa"
	"golang.org/x/tools/go/ssa/ssautil"
)

const ModulePath = "github.com/scottyw/tetromino"

// RepoDir is the directory the repository sources are read from.
var RepoDir = "/repo"

// Program is the loaded, type-checked and SSA-built repository.
type Program struct {
	Pkgs     []*packages.Package // repository packages only, sorted by path
	AllPkgs  []*packages.Package
	SSA      *ssa.Program
	SSAPkgs  map[string]*ssa.Package // by import path (repository packages)
	Funcs    []*ssa.Function         // all source functions of the repository incl. anonymous and bound wrappers
	NumInstr int
	Dir      string
}

// Load loads the repository from dir (the harness module directory whose go.mod
// replaces the tetromino module by /repo's working tree).
func Load(dir string, extraPatterns ...string) (*Program, error) {
	os.Unsetenv("GOWORK")
	goflags := "GOFLAGS=-mod=mod"
	// GBCHECK_REPO: analyse a scratch copy of the repository instead of /repo (used by the
	// thorough tier to confirm that the rules still fire on seeded variants of the CURRENT tree).
	if alt := os.Getenv("GBCHECK_REPO"); alt != "" {
		tmp, err := os.MkdirTemp("", "gbcheck-mod")
		if err != nil {
			return nil, err
		}
		defer os.RemoveAll(tmp)
		mod, err := os.ReadFile(dir + "/go.mod")
		if err != nil {
			return nil, err
		}
		ms := strings.ReplaceAll(string(mod), "=> /repo", "=> "+alt)
		ms = strings.ReplaceAll(ms, "=> ./stubs/", "=> "+dir+"/stubs/")
		if err := os.WriteFile(tmp+"/go.mod", []byte(ms), 0o644); err != nil {
			return nil, err
		}
		if sum, err := os.ReadFile(dir + "/go.sum"); err == nil {
			os.WriteFile(tmp+"/go.sum", sum, 0o644)
		}
		goflags = "GOFLAGS=-mod=mod -modfile=" + tmp + "/go.mod"
		RepoDir = alt
	}
	cfg := &packages.Config{
		Mode:  packages.LoadAllSyntax,
		Dir:   dir,
		Tests: false,
		Env: append(os.Environ(),
			goflags, "GOPROXY=off", "GOSUMDB=off", "GOTOOLCHAIN=local", "GOWORK=off"),
	}
	patterns := append([]string{ModulePath + "/..."}, extraPatterns...)
	initial, err := packages.Load(cfg, patterns...)
	if err != nil {
		return nil, fmt.Errorf("packages.Load: %w", err)
	}
	var errs []string
	packages.Visit(initial, nil, func(p *packages.Package) {
		for _, e := range p.Errors {
			errs = append(errs, fmt.Sprintf("%s: %s", p.PkgPath, e.Error()))
		}
	})
	if len(errs) > 0 {
		sort.Strings(errs)
		if len(errs) > 10 {
			errs = errs[:10]
		}
		return nil, fmt.Errorf("load/type errors (fail closed):\n  %s", strings.Join(errs, "\n  "))
	}
	prog, _ := ssautil.AllPackages(initial, ssa.InstantiateGenerics)
	// Only the repository's own packages need function bodies: everything else is
	// host code that the analyser treats as external.
	for _, ip := range initial {
		if ip.PkgPath == ModulePath || strings.HasPrefix(ip.PkgPath, ModulePath+"/") || strings.HasPrefix(ip.PkgPath, "verif/") {
			if sp := prog.Package(ip.Types); sp != nil {
				sp.Build()
			}
		}
	}
	p := &Program{SSA: prog, SSAPkgs: map[string]*ssa.Package{}, Dir: dir, AllPkgs: initial}
	for _, ip := range initial {
		if ip.PkgPath == ModulePath || strings.HasPrefix(ip.PkgPath, ModulePath+"/") ||
			strings.HasPrefix(ip.PkgPath, "verif/") {
			p.Pkgs = append(p.Pkgs, ip)
			if sp := prog.Package(ip.Types); sp != nil {
				p.SSAPkgs[ip.PkgPath] = sp
			}
		}
	}
	sort.Slice(p.Pkgs, func(i, j int) bool { return p.Pkgs[i].PkgPath < p.Pkgs[j].PkgPath })
	if len(p.Pkgs) == 0 {
		return nil, fmt.Errorf("no repository packages loaded (fail closed)")
	}
	for fn := range ssautil.AllFunctions(prog) {
		if fn.Pkg == nil && fn.Origin() == nil && fn.Parent() == nil && fn.Synthetic == "" {
			continue
		}
		pk := fn.Pkg
		if pk == nil && fn.Parent() != nil {
			pk = fn.Parent().Pkg
		}
		if pk == nil {
			// bound method wrappers / thunks: attribute by receiver's package
			if fn.Object() != nil && fn.Object().Pkg() != nil {
				if sp := p.SSAPkgs[fn.Object().Pkg().Path()]; sp != nil {
					pk = sp
				}
			}
		}
		if pk == nil || p.SSAPkgs[pk.Pkg.Path()] == nil {
			continue
		}
		p.Funcs = append(p.Funcs, fn)
		for _, b := range fn.Blocks {
			p.NumInstr += len(b.Instrs)
		}
	}
	sort.Slice(p.Funcs, func(i, j int) bool { return p.Funcs[i].String() < p.Funcs[j].String() })
	return p, nil
}

// Func finds a package-level function or method by package path suffix and name,
// e.g. Func("gameboy/cpu", "(*CPU).next") or Func("gameboy", "New").
func (p *Program) Func(pkgSuffix, name string) *ssa.Function {
	sp := p.Pkg(pkgSuffix)
	if sp == nil {
		return nil
	}
	if strings.HasPrefix(name, "(") {
		// method: (*T).m or (T).m
		end := strings.Index(name, ")")
		recv := name[1:end]
		m := name[end+2:]
		ptr := strings.HasPrefix(recv, "*")
		recv = strings.TrimPrefix(recv, "*")
		tm := sp.Type(recv)
		if tm == nil {
			return nil
		}
		T := tm.Type()
		if ptr {
			return p.SSA.LookupMethod(typesPointer(T), sp.Pkg, m)
		}
		return p.SSA.LookupMethod(T, sp.Pkg, m)
	}
	return sp.Func(name)
}

// Pkg returns the repository SSA package whose import path ends in suffix.
func (p *Program) Pkg(suffix string) *ssa.Package {
	full := ModulePath
	if suffix != "" {
		full += "/" + suffix
	}
	if sp, ok := p.SSAPkgs[full]; ok {
		return sp
	}
	if sp, ok := p.SSAPkgs[suffix]; ok {
		return sp
	}
	return nil
}
