package load

import "go/types"

func typesPointer(t types.Type) types.Type { return types.NewPointer(t) }
