// Package positive is a tiny program that violates the zero-count rules on
// purpose. It is analysed on every run next to the repository: a rule whose
// expected count on tetromino is zero must still fire here, otherwise the rule
// has gone blind.
package positive

import (
	"math/rand"
	"time"
)

var frames int            // package-level state written by a step
var cache = map[int]int{} // package-level state written by a step

type Machine struct {
	ticks int
	seen  map[int]bool
	ch    chan int
}

func New() *Machine { return &Machine{seen: map[int]bool{}, ch: make(chan int, 1)} }

// Step contains one instance of every construct the determinism and
// independence rules forbid inside an emulation step.
func (m *Machine) Step() int {
	frames++
	cache[m.ticks] = frames
	m.ticks += int(time.Now().UnixNano() & 1)
	m.ticks += rand.Intn(2)
	sum := 0
	for k := range m.seen {
		sum += k
	}
	go func() { m.ch <- 1 }()
	select {
	case v := <-m.ch:
		sum += v
	default:
	}
	return sum
}
