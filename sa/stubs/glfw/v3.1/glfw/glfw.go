// Package glfw is a pure-Go API stub of github.com/go-gl/glfw/v3.1/glfw used only
// so that static analysis can type-check the host-facing packages of tetromino in
// a sandbox without X11 headers. It replaces a third-party library, never
// repository code.
package glfw

type Window struct{ closed bool }
type Monitor struct{}
type Key int
type Action int
type ModifierKey int
type Hint int

const (
	ContextVersionMajor Hint = iota
	ContextVersionMinor
	Resizable
)

const (
	Release Action = iota
	Press
	Repeat
)

const (
	KeyA Key = iota
	KeyS
	KeyZ
	KeyX
	KeyUp
	KeyDown
	KeyLeft
	KeyRight
)

type KeyCallback func(w *Window, key Key, scancode int, action Action, mods ModifierKey)

func Init() error                  { return nil }
func Terminate()                   {}
func WindowHint(h Hint, value int) {}
func SwapInterval(i int)           {}
func PollEvents()                  {}
func CreateWindow(width, height int, title string, monitor *Monitor, share *Window) (*Window, error) {
	return &Window{}, nil
}
func (w *Window) MakeContextCurrent()                          {}
func (w *Window) SwapBuffers()                                 {}
func (w *Window) ShouldClose() bool                            { return w.closed }
func (w *Window) SetKeyCallback(cb KeyCallback) (previous KeyCallback) { return nil }
