module github.com/go-gl/glfw

go 1.14
