module github.com/gordonklaus/portaudio

go 1.14
