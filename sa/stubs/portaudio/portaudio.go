// Package portaudio is a pure-Go API stub of github.com/gordonklaus/portaudio used
// only so that static analysis can type-check tetromino's speakers package in a
// sandbox without PortAudio headers.
package portaudio

type Stream struct{}
type DeviceInfo struct{}
type HostApiInfo struct {
	DefaultOutputDevice *DeviceInfo
}
type StreamParameters struct{}

func Initialize() error                   { return nil }
func Terminate() error                    { return nil }
func DefaultHostApi() (*HostApiInfo, error) { return &HostApiInfo{}, nil }
func LowLatencyParameters(in, out *DeviceInfo) StreamParameters { return StreamParameters{} }
func OpenStream(p StreamParameters, args ...interface{}) (*Stream, error) {
	return &Stream{}, nil
}
func (s *Stream) Start() error { return nil }
func (s *Stream) Close() error { return nil }
