// Package gl is a pure-Go API stub of github.com/go-gl/gl/v2.1/gl (see ../../../glfw).
package gl

import "unsafe"

const (
	TEXTURE_2D         = 0x0DE1
	TEXTURE_MIN_FILTER = 0x2801
	TEXTURE_MAG_FILTER = 0x2800
	TEXTURE_WRAP_S     = 0x2802
	TEXTURE_WRAP_T     = 0x2803
	NEAREST            = 0x2600
	CLAMP_TO_EDGE      = 0x812F
	RGBA               = 0x1908
	UNSIGNED_BYTE      = 0x1401
	QUADS              = 0x0007
)

func Init() error                                         { return nil }
func Enable(cap uint32)                                   {}
func GenTextures(n int32, textures *uint32)               {}
func BindTexture(target uint32, texture uint32)           {}
func TexParameteri(target uint32, pname uint32, param int32) {}
func TexImage2D(target uint32, level int32, internalformat int32, width int32, height int32, border int32, format uint32, xtype uint32, pixels unsafe.Pointer) {
}
func Begin(mode uint32)              {}
func End()                           {}
func TexCoord2f(s float32, t float32) {}
func Vertex2f(x float32, y float32)  {}
func Ptr(data interface{}) unsafe.Pointer { return nil }
