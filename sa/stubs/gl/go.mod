module github.com/go-gl/gl

go 1.14
