#!/bin/sh
# Builds the analyser from the files on disk (offline). Idempotent.
set -e
cd "$(dirname "$0")/sa"
export GOFLAGS=-mod=mod GOPROXY=off GOSUMDB=off GOTOOLCHAIN=local GOWORK=off
mkdir -p ../bin ../evidence ../replay
go build -o ../bin/gbcheck ./cmd/gbcheck
echo "built $(cd .. && pwd)/bin/gbcheck"
