#!/usr/bin/env python3
"""usage: mk_seed_prompts.py <round> <outdir> <wtroot>   writes one prompt per property for the seeding sub-agents.
Each prompt holds only the property's text, the summaries of the changes already collected for it (so that the
agent does not repeat them) and generic guidance; nothing about how the checks work."""
import json, sys, glob, os
rnd, out, wtroot = sys.argv[1], sys.argv[2], sys.argv[3]
here = os.path.dirname(os.path.abspath(__file__))
tmpl = open(os.path.join(here, "seed_prompt_template.txt")).read()
hints = {
 "5": """This is the fifth round: the obvious, the second-order and the 'accuracy improvement' places have been used. Prefer changes of these kinds, one of each if you can:
  (1) the breaking effect lives somewhere a reader tends to overlook: a deferred call, a closure that captures a variable, a method value or function stored in a field or table, a struct copied by value (the copy is updated, the original is not - or the reverse), an embedded struct, a helper with a value receiver, an init() function, a goroutine;
  (2) two cooperating edits in DIFFERENT files or packages that each look fine alone (a producer and a consumer that now disagree on a unit, an index base, a bit position, an order of calls);
  (3) a change in the ORDER in which things happen inside one machine cycle or one register access (which component sees which state first, a flag tested before instead of after it is updated, a value latched one step late), so that only a particular alignment exposes it.""",
 "6": """This is the sixth round: the obvious places, 'accuracy improvements', initialisation/reset paths, hidden mechanisms (defer, closures, value receivers, init tables), cross-package disagreements and reorderings inside a machine cycle have been used. Prefer changes of these kinds, one of each if you can:
  (1) a boundary of a counter, index or range: the wrap-around, the first or last element, an unsigned subtraction that underflows, a change of integer width or signedness, a comparison that is off only at one extreme value;
  (2) defensive code added 'for robustness' - a guard, a clamp, an early return, an error path, a nil/zero check - that silently changes behaviour in a legitimate corner case;
  (3) an encapsulation refactor - a getter/setter, a cached or lazily computed derived value, a dirty flag, a small state machine replacing booleans - where the derived value goes stale or one transition is missing on one rarely taken path.""",
}
os.makedirs(out, exist_ok=True)
for l in open(os.path.join(here, "..", "properties.jsonl")):
    d = json.loads(l)
    pid = d["id"]
    prop = {k: d[k] for k in ("id", "title", "statement", "quantifier")}
    a = dict(d.get("anchors", {})); a.pop("hook_needed", None); prop["anchors"] = a
    have = []
    for m in sorted(glob.glob(os.path.join(here, "..", "seeded", pid + "-*", "meta.json"))):
        s = json.load(open(m)).get("summary", "")
        have.append("  - " + s[:260].replace("\n", " "))
    body = json.dumps(prop, indent=1)
    body += "\n\nThe following changes have ALREADY been collected for this property; do not repeat them or close variants of them (same routine and same kind of slip):\n" + "\n".join(have)
    body += "\n\n" + hints[rnd]
    wt = f"{wtroot}/{pid}"
    t = tmpl.replace("__PROP__", body).replace("__WT__", wt).replace("__OUT__", wt + "-out").replace("/tmp/wt ", wtroot + " ")
    t = t.replace("with the concrete input that shows it.", "with the concrete input that shows it. Note: the anchors in the property text may name fields that were since renamed or moved (the repository has had bug fixes); rely on the code as it is.")
    open(os.path.join(out, f"prompt_{pid}.txt"), "w").write(t)
print("written", out)
