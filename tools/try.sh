#!/bin/bash
# usage: try.sh <seed-id|patch.diff|-> <checks,comma> [full]   run checks on a scratch copy of /repo with the change applied ("-": unchanged)
seed=$1; checks=$2; full=$3
here="$(cd "$(dirname "$0")/.." && pwd)"
tmp=$(mktemp -d /tmp/try.XXXXXX); trap 'rm -rf "$tmp"' EXIT
rsync -a --exclude .git --exclude testdata --exclude testresults --exclude screenshots /repo/ $tmp/repo/
if [ "$seed" != "-" ]; then
  p=$seed; [ -f "$p" ] || p=$here/seeded/$seed/patch.diff
  patch -p1 -s -f -d $tmp/repo -i "$p" || { echo "patch failed"; exit 2; }
fi
mkdir -p $tmp/out
export GOFLAGS=-mod=mod GOPROXY=off GOSUMDB=off GOTOOLCHAIN=local GOWORK=off VERIF_DIR=$here GBCHECK_REPO=$tmp/repo GBCHECK_OUT=$tmp/out
if [ -n "$full" ]; then ${GBCHECK_BIN:-$here/bin/gbcheck} multi $checks quick 2>&1 | cut -c1-400
else ${GBCHECK_BIN:-$here/bin/gbcheck} multi $checks quick 2>&1 | grep -E "^  [^ ]|^RESULT|quick:" | cut -c1-260; fi
