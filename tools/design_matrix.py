#!/usr/bin/env python3
"""Regenerate the full seed matrix table of DESIGN.md section 0.5 from seeded/detection*.json."""
import json, glob, os, re
V = os.environ.get('VERIF_DIR', '/verif')
det = json.load(open(f'{V}/seeded/detection.json'))
detail = json.load(open(f'{V}/seeded/detection_detail.json'))
rows = []
def key(s):
    m = re.match(r'C(\d+)-(\d+)', s); return (int(m.group(1)), int(m.group(2)))
for sid in sorted(det, key=key):
    meta = json.load(open(f'{V}/seeded/{sid}/meta.json'))
    summ = meta['summary'].replace('\n', ' ').replace('|', '/')
    if len(summ) > 150: summ = summ[:150] + '...'
    own = sid.split('-')[0]
    rules = sorted({r.split('/')[0] for r in detail.get(sid, {}).get(own, [])})
    rows.append(f"| {sid} | {summ} | {', '.join(det[sid])} | {', '.join(rules)} |")
hdr = "| seed | change | reported by | rules of its own property |\n|------|--------|-------------|---------------------------|\n"
text = open(f'{V}/DESIGN.md').read()
i = text.index(hdr)
j = i + len(hdr)
# end of table: first line not starting with '|'
k = j
for line in text[j:].splitlines(keepends=True):
    if not line.startswith('|'): break
    k += len(line)
text = text[:j] + '\n'.join(rows) + '\n' + text[k:]
open(f'{V}/DESIGN.md', 'w').write(text)
print(len(rows), 'rows')
