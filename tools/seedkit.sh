#!/bin/bash
# Creates /tmp/seedkit: go.alt.mod (= /repo's go.mod with the three host libraries replaced by pure-Go API stubs copied
# to /tmp/seedkit/stubs), so that a scratch worktree builds and runs its tests (ROM suites included) without
# X11/PortAudio. Scratch-only helper for validating fix: commits and seeded changes; no registered check uses it.
set -e
# up to date already (several verifications may run side by side: do not pull the files from under them)
if [ -f /tmp/seedkit/go.alt.mod ] && [ -d /tmp/seedkit/stubs ] && [ /tmp/seedkit/go.alt.mod -nt /repo/go.mod ] && [ -z "$(find /verif/sa/stubs -newer /tmp/seedkit/go.alt.mod -print -quit)" ]; then
  echo /tmp/seedkit/go.alt.mod; exit 0
fi
mkdir -p /tmp/seedkit
rm -rf /tmp/seedkit/stubs
cp -r /verif/sa/stubs /tmp/seedkit/stubs
{
  cat /repo/go.mod
  echo
  echo "replace github.com/go-gl/glfw => /tmp/seedkit/stubs/glfw"
  echo "replace github.com/go-gl/gl => /tmp/seedkit/stubs/gl"
  echo "replace github.com/gordonklaus/portaudio => /tmp/seedkit/stubs/portaudio"
} > /tmp/seedkit/go.alt.mod
: > /tmp/seedkit/go.alt.sum
echo /tmp/seedkit/go.alt.mod
