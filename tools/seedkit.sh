#!/bin/bash
# Creates /tmp/seedkit/go.alt.mod: /repo's go.mod with the three host libraries replaced by the API stubs of
# /verif/sa/stubs, so that a scratch worktree builds and runs its tests (ROM suites included) without X11/PortAudio.
# Scratch-only helper for validating fix: commits and seeded changes; no registered check uses it.
set -e
mkdir -p /tmp/seedkit
{
  cat /repo/go.mod
  echo
  echo "replace github.com/go-gl/glfw => /verif/sa/stubs/glfw"
  echo "replace github.com/go-gl/gl => /verif/sa/stubs/gl"
  echo "replace github.com/gordonklaus/portaudio => /verif/sa/stubs/portaudio"
} > /tmp/seedkit/go.alt.mod
: > /tmp/seedkit/go.alt.sum
echo /tmp/seedkit/go.alt.mod
