#!/usr/bin/env python3
"""Generates /verif/MANIFEST.json from the table below (kept next to the checks)."""
import json, os, sys
HERE = os.path.dirname(os.path.dirname(os.path.abspath(__file__)))
props = [json.loads(l) for l in open(os.path.join(HERE, "properties.jsonl"))]
claims = json.load(open(os.path.join(HERE, "tools", "claims.json")))
checks, na = [], []
for p in props:
    pid = p["id"]
    c = claims.get(pid)
    if not c or c.get("not_applicable"):
        na.append({"property_id": pid, "reason": (c or {}).get("not_applicable", "no check is registered for this property yet; nothing is claimed")})
        continue
    checks.append({
        "property_id": pid,
        "quick_cmd": f"./check {pid} quick",
        "thorough_cmd": f"./check {pid} thorough",
        "evidence_file": f"/verif/evidence/{pid}.json",
        "replay_cmd_template": f"./check {pid} --explain {{path}}",
        "engine": "gbcheck",
        "level_claimed": {"category": c["level"], "text": c["text"], "design_ref": c.get("design_ref", f"DESIGN.md section 6, {pid}")},
        "level_note": c["note"],
        "technique": c["technique"],
    })
manifest = {
    "version": 1,
    "setup_cmd": "./setup.sh",
    "hooks": {
        "guard": "verif",
        "enable": "none: the analysis reads /repo's sources; no instrumentation is compiled in (the tag is reserved and unused)",
        "baseline_off_cmd": "cd /repo && go test -vet=off -count=1 ./gameboy/cpu/ ./gameboy/timer/",
        "source_commits": [],
        "add_only": True,
    },
    "engines": [{
        "name": "gbcheck",
        "path": "/verif/sa",
        "serves_properties": [c["property_id"] for c in checks],
        "kind_free_text": "repository-specific static analyser: go/packages + go/ssa loader (host GUI/audio libraries replaced by API stubs), abstract interpreter (known bits with provenance x intervals x dependences, gated joins, inferred step-boundary invariants), table extraction, CFG/ownership rules",
    }],
    "checks": checks,
    "not_applicable": na,
    "notes": "All checks are static: they load and analyse /repo's current working tree on every run and never execute emulator code. Findings are keyed rule+construct (no line numbers); genuine defects that are recorded rather than repaired are listed in /verif/known_findings.jsonl.",
}
json.dump(manifest, open(os.path.join(HERE, "MANIFEST.json"), "w"), indent=1)
print(f"MANIFEST.json: {len(checks)} checks, {len(na)} not_applicable")
