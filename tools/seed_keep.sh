#!/bin/bash
# usage: seed_keep.sh <property> <k> <srcdir>  -> verifies and stores under /verif/seeded/<property>-<k>/
id=$1; k=$2; src=$3
res=$(/verif/tools/seed_verify.sh "$src" 2>&1 | grep RESULT)
echo "$id-$k: $res"
case "$res" in
  *"apply=ok build=ok tests44=ok demo_without=pass demo_with=fail"*) ;;
  *) echo "  NOT KEPT"; exit 1;;
esac
dst=/verif/seeded/$id-$k
mkdir -p "$dst"
cp "$src"/patch.diff "$dst"/
for f in "$src"/*.go; do [ -f "$f" ] && cp "$f" "$dst"/; done
python3 - "$src/meta.json" "$dst/meta.json" "$id" "$res" <<'PY'
import json,sys
m=json.load(open(sys.argv[1]))
m["property"]=sys.argv[3]
m["confirmed"]={"how":"tools/seed_verify.sh in a scratch worktree of /repo HEAD: git apply, go build -modfile (stub GUI/audio libs), pinned 44 tests, demonstration without and with the change","result":sys.argv[4]}
json.dump(m,open(sys.argv[2],"w"),indent=1)
PY
