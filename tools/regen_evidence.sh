#!/bin/bash
# Re-runs every registered quick check on /repo's unchanged tree so that the committed evidence files
# describe a run on the tree as committed.  Refuses if /repo is dirty.  Exit 1 if any check alarms.
cd /verif || exit 2
git -C /repo diff --quiet || { echo "/repo has uncommitted changes"; exit 2; }
rc=0
for id in $(python3 -c "import json;print(' '.join(c['property_id'] for c in json.load(open('MANIFEST.json'))['checks']))"); do
  out=$(./check $id quick 2>&1 | tail -1)
  case "$out" in *"findings=0"*) ;; *) echo "ALARM: $out"; rc=1;; esac
done
python3-vt - <<'PY'
import json, jsonschema, glob
s = json.load(open('/root/.vp/EVIDENCE.schema.json'))
m = json.load(open('/verif/MANIFEST.json'))
jsonschema.validate(m, json.load(open('/root/.vp/MANIFEST.schema.json')))
bad = 0
for c in m['checks']:
    e = json.load(open(c['evidence_file']))
    jsonschema.validate(e, s)
    cov = e['coverage']
    if e['level'] != c['level_claimed']['category'] or e['tier'] != 'quick' or e.get('violations', 0) != 0:
        print("BAD", c['property_id'], e['level'], e['tier'], e.get('violations')); bad += 1
    if e['level'] == 'proof' and cov['obligations'] != cov['discharged']:
        print("BAD proof", c['property_id']); bad += 1
print("evidence files valid:", len(m['checks']) - bad, "of", len(m['checks']))
PY
exit $rc
