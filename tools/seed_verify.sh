#!/bin/bash
# usage: seed_verify.sh <dir with patch.diff, demo file(s), meta.json>
# Confirms in a scratch worktree of /repo (HEAD) that the seeded change applies, builds, passes the
# pinned tests, and that its demonstration fails with the change and passes without it.
set -u
d="$(cd "$1" && pwd)"
export GOFLAGS=-mod=mod GOPROXY=off GOSUMDB=off GOTOOLCHAIN=local
/verif/tools/seedkit.sh >/dev/null
wt=$(mktemp -d /tmp/seedverify.XXXXXX)
git -C /repo worktree add -q --detach "$wt" HEAD || exit 2
cleanup() { git -C /repo worktree remove --force "$wt" >/dev/null 2>&1; rm -rf "$wt"; }
trap cleanup EXIT
cd "$wt"
demo_dir=$(python3 -c "import json,sys;print(json.load(open('$d/meta.json')).get('demo_dir','').strip('/'))")
demo_cmd=$(python3 -c "import json,sys;print(json.load(open('$d/meta.json')).get('demo_cmd',''))")
demo_cmd=${demo_cmd#*GOTOOLCHAIN=local }
if ! git apply --check "$d/patch.diff" 2>/dev/null; then echo "RESULT apply=FAIL"; exit 1; fi
# with the change: build and pinned tests (before the demonstration file is added)
git apply "$d/patch.diff"
go build -modfile=/tmp/seedkit/go.alt.mod ./... >/dev/null 2>&1 && bld=ok || bld=FAIL
go test -vet=off -count=1 ./gameboy/cpu/ ./gameboy/timer/ >/dev/null 2>&1 && tst=ok || tst=FAIL
for f in "$d"/*_test.go; do [ -f "$f" ] && cp "$f" "$wt/$demo_dir/" ; done 2>/dev/null
mut=$(eval "$demo_cmd" 2>&1 | tail -3 | tr '\n' ' ')
echo "$mut" | grep -q "FAIL" && m=fail || m=pass
# without the change
git apply -R "$d/patch.diff"
base=$(eval "$demo_cmd" 2>&1 | tail -3 | tr '\n' ' ')
echo "$base" | grep -q "^ok\|	ok\|ok  " && b=pass || b=fail
echo "RESULT apply=ok build=$bld tests44=$tst demo_without=$b demo_with=$m"
