#!/bin/sh
# usage: mut.sh '<sed expression>' <file relative to /repo> <check ids...>
# applies an ad-hoc textual mutation to /repo, runs the checks, and restores the file.
expr="$1"; file="$2"; shift 2
export GBCHECK_OUT=$(mktemp -d /tmp/gbout.XXXXXX); trap 'rm -rf "$GBCHECK_OUT"' EXIT  # scratch runs never overwrite /verif/evidence
cd /repo || exit 2
sed -i "$expr" "$file"
if git diff --quiet; then echo "MUTATION DID NOT APPLY"; exit 3; fi
git diff --stat | tail -1
for id in "$@"; do /verif/check "$id" quick 2>&1 | grep -E "^VIOLATION|^  |quick:" | cut -c1-220 | head -8; done
git checkout -- . 
