#!/usr/bin/env python3
"""Builds seeded/detection.json: for every kept seeded change, which property checks report a violation
when the change is applied to a scratch copy of /repo's current working tree.  Every check is run on
every seed (one analyser process per seed, all 26 checks on one load; GBCHECK_REPO / GBCHECK_OUT keep
/repo and /verif's evidence untouched)."""
import json, os, subprocess, sys, tempfile, shutil, glob, re, concurrent.futures as cf
HERE = os.path.dirname(os.path.dirname(os.path.abspath(__file__)))
BIN = os.path.join(HERE, "bin", "gbcheck")
props = [json.loads(l)["id"] for l in open(os.path.join(HERE, "properties.jsonl"))]
seeds = sorted(d for d in glob.glob(os.path.join(HERE, "seeded", "*")) if os.path.exists(os.path.join(d, "patch.diff")))
only = set(sys.argv[1:])
if only:
    seeds = [s for s in seeds if os.path.basename(s) in only]
env0 = dict(os.environ, GOFLAGS="-mod=mod", GOPROXY="off", GOSUMDB="off", GOTOOLCHAIN="local", GOWORK="off", VERIF_DIR=HERE)

def run(seed):
    sid = os.path.basename(seed)
    tmp = tempfile.mkdtemp(prefix="seedmx-")
    try:
        repo = os.path.join(tmp, "repo")
        subprocess.run(["rsync", "-a", "--exclude", ".git", "--exclude", "testdata", "--exclude", "testresults", "--exclude", "screenshots", "/repo/", repo + "/"], check=True)
        if subprocess.run(["patch", "-p1", "-s", "-f", "-d", repo, "-i", os.path.join(seed, "patch.diff")]).returncode != 0:
            return sid, None, None
        out = os.path.join(tmp, "out")
        os.makedirs(out)
        p = subprocess.run([BIN, "multi", ",".join(props), "quick"], env=dict(env0, GBCHECK_REPO=repo, GBCHECK_OUT=out), capture_output=True, text=True)
        det, rules = [], {}
        cur = []
        for l in p.stdout.splitlines():
            if l.startswith("  ") and not l.startswith("    ") and "[" in l:
                cur.append(l[l.rindex("[")+1:].split("]")[0])
            m = re.match(r"RESULT (\S+) (\d+)", l)
            if m:
                if m.group(2) == "1":
                    det.append(m.group(1))
                    rules[m.group(1)] = sorted(set(cur))
                elif m.group(2) != "0":
                    rules[m.group(1)] = ["EXIT " + m.group(2)]
                cur = []
        if "RESULT" not in p.stdout:
            rules["*"] = ["analyser failed: " + (p.stdout + p.stderr)[-300:]]
        return sid, det, rules
    finally:
        shutil.rmtree(tmp, ignore_errors=True)

result, detail = {}, {}
with cf.ThreadPoolExecutor(max_workers=int(os.environ.get("JOBS", "6"))) as ex:
    for sid, det, rules in ex.map(run, seeds):
        if det is None:
            print(sid, "DOES NOT APPLY", flush=True)
            continue
        result[sid], detail[sid] = det, rules
        print(sid, "->", det, {k: v for k, v in rules.items() if k not in det} or "", flush=True)
if only:
    # partial run: merge into the stored matrix
    rp, dp = os.path.join(HERE, "seeded", "detection.json"), os.path.join(HERE, "seeded", "detection_detail.json")
    old_r, old_d = json.load(open(rp)), json.load(open(dp))
    old_r.update(result); old_d.update(detail)
    result, detail = old_r, old_d
if True:
    json.dump(result, open(os.path.join(HERE, "seeded", "detection.json"), "w"), indent=1, sort_keys=True)
    json.dump(detail, open(os.path.join(HERE, "seeded", "detection_detail.json"), "w"), indent=1, sort_keys=True)
