#!/usr/bin/env python3
"""Builds seeded/detection.json: for every kept seeded change, which property checks report a violation
when the change is applied to a scratch copy of /repo's current working tree.  Every check is run on
every seed (GBCHECK_REPO / GBCHECK_OUT keep /repo and /verif's evidence untouched)."""
import json, os, subprocess, sys, tempfile, shutil, glob, concurrent.futures as cf
HERE = os.path.dirname(os.path.dirname(os.path.abspath(__file__)))
BIN = os.path.join(HERE, "bin", "gbcheck")
props = [json.loads(l)["id"] for l in open(os.path.join(HERE, "properties.jsonl"))]
seeds = sorted(d for d in glob.glob(os.path.join(HERE, "seeded", "*")) if os.path.exists(os.path.join(d, "patch.diff")))
only = set(sys.argv[1:])
if only:
    seeds = [s for s in seeds if os.path.basename(s) in only]
env0 = dict(os.environ, GOFLAGS="-mod=mod", GOPROXY="off", GOSUMDB="off", GOTOOLCHAIN="local", GOWORK="off", VERIF_DIR=HERE)

def prepare(seed):
    tmp = tempfile.mkdtemp(prefix="seedmx-")
    repo = os.path.join(tmp, "repo")
    subprocess.run(["rsync", "-a", "--exclude", ".git", "--exclude", "testdata", "--exclude", "testresults", "--exclude", "screenshots", "/repo/", repo + "/"], check=True)
    ok = subprocess.run(["patch", "-p1", "-s", "-f", "-d", repo, "-i", os.path.join(seed, "patch.diff")]).returncode == 0
    return tmp, repo, ok

def run(args):
    seed, repo, prop, tmp = args
    out = os.path.join(tmp, "out-" + prop)
    os.makedirs(out, exist_ok=True)
    p = subprocess.run([BIN, prop, "quick"], env=dict(env0, GBCHECK_REPO=repo, GBCHECK_OUT=out), capture_output=True, text=True)
    kinds = set()
    for l in p.stdout.splitlines():
        if l.startswith("  ") and not l.startswith("    ") and "[" in l:
            kinds.add(l[l.rindex("[")+1:].split("]")[0])
    return os.path.basename(seed), prop, p.returncode, sorted(kinds)

result = {}
detail = {}
with cf.ThreadPoolExecutor(max_workers=int(os.environ.get("JOBS", "10"))) as ex:
    for seed in seeds:
        tmp, repo, ok = prepare(seed)
        sid = os.path.basename(seed)
        if not ok:
            print(sid, "DOES NOT APPLY", flush=True)
            shutil.rmtree(tmp)
            continue
        rs = list(ex.map(run, [(seed, repo, p, tmp) for p in props]))
        result[sid] = [p for _, p, rc, _ in rs if rc == 1]
        detail[sid] = {p: k for _, p, rc, k in rs if rc == 1}
        odd = [p for _, p, rc, _ in rs if rc not in (0, 1)]
        print(sid, "->", result[sid], ("ERRORS " + str(odd)) if odd else "", flush=True)
        shutil.rmtree(tmp)
if not only:
    json.dump(result, open(os.path.join(HERE, "seeded", "detection.json"), "w"), indent=1, sort_keys=True)
    json.dump(detail, open(os.path.join(HERE, "seeded", "detection_detail.json"), "w"), indent=1, sort_keys=True)
