#!/bin/bash
# usage: seed_run.sh <patch.diff> <check ids...>   applies the change to /repo, runs the checks, restores /repo
p="$(cd "$(dirname "$1")" && pwd)/$(basename "$1")"; shift
export GBCHECK_OUT=$(mktemp -d /tmp/gbout.XXXXXX); trap 'rm -rf "$GBCHECK_OUT"' EXIT  # scratch runs never overwrite /verif/evidence
cd /repo || exit 2
git diff --quiet || { echo "/repo is dirty"; exit 2; }
git apply "$p" || { echo "patch does not apply"; exit 3; }
for id in "$@"; do /verif/check "$id" quick 2>&1 | grep -E "^VIOLATION|^  [^ ]|quick:" | cut -c1-240 | head -7; done
git checkout -- . ; git clean -fdq
