#!/bin/bash
# usage: romtest.sh [--head] [outfile]
# Runs the pinned tests and the blargg/mooneye ROM suites on a scratch copy of /repo (working tree, or HEAD
# with --head), built against the stub host libraries; writes one line per ROM ("pass|fail <rom>") to outfile
# (default: stdout).  The two ROM images emptied in this sandbox are dropped from the test lists.
# Engineering diligence for "fix:" commits only; never part of a check.
export GOFLAGS=-mod=mod GOPROXY=off GOSUMDB=off GOTOOLCHAIN=local
/verif/tools/seedkit.sh >/dev/null
head=0; [ "$1" = "--head" ] && { head=1; shift; }
out=${1:-/dev/stdout}
wt=$(mktemp -d /tmp/romtest.XXXXXX)
trap 'rm -rf "$wt"' EXIT
if [ $head = 1 ]; then git -C /repo archive HEAD | tar -x -C "$wt"; else rsync -a --exclude .git /repo/ "$wt"/; fi
cd "$wt"
sed -i '/rom_32Mb.gb\|rom_64Mb.gb/d' gameboy/mooneye_test.go
# optional extra mooneye ROMs (paths relative to gameboy/testdata/mts-.../), space separated in $EXTRA_ROMS
if [ -n "$EXTRA_ROMS" ]; then
cat > gameboy/extra_roms_test.go <<'GO'
package gameboy

import (
	"os"
	"strings"
	"testing"
)

func TestExtraROMs(t *testing.T) {
	for _, f := range strings.Fields(os.Getenv("EXTRA_ROMS")) {
		filename := "testdata/mts-20221022-1430-8d742b9/" + f
		t.Run(filename, func(t *testing.T) { runMooneyeTest(t, filename) })
	}
}
GO
fi
go test -v -modfile=/tmp/seedkit/go.alt.mod -count=1 ./gameboy/... > "$wt/log" 2>&1
{
  grep -E "^ *--- (PASS|FAIL): " "$wt/log" | sed -E 's/^ *--- (PASS|FAIL): ([^ ]+).*/\1 \2/' | sort -k2
  grep -E "^(ok|FAIL|panic)" "$wt/log" | sed 's/[0-9.]*s$//' | sort -u
} > "$out"
