#!/usr/bin/env python3
"""Runs all 26 checks on every behaviour-preserving refactoring under selftest/refactors (scratch copies of
/repo's current tree): every check must stay at exit 0.  Prints the alarms; exit 1 if there is one."""
import json, os, subprocess, sys, tempfile, shutil, glob, re, concurrent.futures as cf
HERE = os.path.dirname(os.path.dirname(os.path.abspath(__file__)))
BIN = os.path.join(HERE, "bin", "gbcheck")
props = [json.loads(l)["id"] for l in open(os.path.join(HERE, "properties.jsonl"))]
diffs = sorted(glob.glob(os.path.join(HERE, "selftest", "refactors", "*.diff")))
only = set(sys.argv[1:])
if only:
    diffs = [d for d in diffs if os.path.basename(d)[:-5] in only]
env0 = dict(os.environ, GOFLAGS="-mod=mod", GOPROXY="off", GOSUMDB="off", GOTOOLCHAIN="local", GOWORK="off", VERIF_DIR=HERE)
def run(diff):
    name = os.path.basename(diff)[:-5]
    tmp = tempfile.mkdtemp(prefix="refrun-")
    try:
        repo = os.path.join(tmp, "repo")
        subprocess.run(["rsync", "-a", "--exclude", ".git", "--exclude", "testdata", "--exclude", "testresults", "--exclude", "screenshots", "/repo/", repo + "/"], check=True)
        if subprocess.run(["patch", "-p1", "-s", "-f", "-d", repo, "-i", diff]).returncode != 0:
            return name, None, ""
        out = os.path.join(tmp, "out"); os.makedirs(out)
        p = subprocess.run([BIN, "multi", ",".join(props), "quick"], env=dict(env0, GBCHECK_REPO=repo, GBCHECK_OUT=out), capture_output=True, text=True)
        bad = [m.group(1) for m in re.finditer(r"RESULT (\S+) ([1-9]\d*)", p.stdout)]
        lines = [l for l in p.stdout.splitlines() if l.startswith("  ") and not l.startswith("    ")]
        if "RESULT" not in p.stdout:
            bad = ["analyser failed"]; lines = [(p.stdout + p.stderr)[-400:]]
        return name, bad, "\n".join(lines[:12])
    finally:
        shutil.rmtree(tmp, ignore_errors=True)
alarm = False
with cf.ThreadPoolExecutor(max_workers=int(os.environ.get("JOBS", "6"))) as ex:
    for name, bad, lines in ex.map(run, diffs):
        if bad is None:
            print(name, "DOES NOT APPLY"); continue
        print(name, "silent" if not bad else "ALARM " + str(bad), flush=True)
        if bad:
            alarm = True; print(lines)
sys.exit(1 if alarm else 0)
