#!/usr/bin/env python3
"""Adds floors (expect.json) for rules that have none yet, from the instance counts of the evidence files
of the current tree: 90 % of today's count for rules with more than 20 instances, half for smaller ones.
Existing floors are kept; a floor above today's count is reported."""
import json, glob
exp = json.load(open('/verif/expect.json'))
added = {}
for f in sorted(glob.glob('/verif/evidence/C*.json')):
    e = json.load(open(f))
    pid = e['property_id']
    for rule, n in e['coverage'].get('instances_per_rule', {}).items():
        old = exp.get(pid, {}).get(rule)
        if old is None:
            fl = int(n * 0.9) if n > 20 else max(1, n // 2)
            exp.setdefault(pid, {})[rule] = fl
            added.setdefault(pid, []).append(f"{rule}:{n}->{fl}")
        elif old > n:
            print('FLOOR ABOVE CURRENT', pid, rule, old, n)
json.dump(exp, open('/verif/expect.json', 'w'), indent=1, sort_keys=True)
for k, v in added.items():
    print(k, ' '.join(v))
