#!/usr/bin/env python3
"""Creates the behaviour-preserving refactorings of /repo's current tree used as silent controls
(/verif/selftest/refactors/*.diff). Each is written as a small source transformation so that it can be
regenerated when the tree changes; every refactoring must build and pass the pinned tests, and every check
must stay at exit 0 on it (tools/refactor_run.sh)."""
import os, re, subprocess, sys, tempfile, shutil
OUT = os.path.join(os.path.dirname(os.path.dirname(os.path.abspath(__file__))), "selftest", "refactors")
os.makedirs(OUT, exist_ok=True)

def edit(path, fn):
    s = open(path).read()
    t = fn(s)
    assert t != s, "no change in " + path
    open(path, "w").write(t)

def sub(pat, rep, count=0, flags=0):
    return lambda s: re.sub(pat, rep, s, count=count, flags=flags)

def rep(a, b, n=-1):
    def f(s):
        assert a in s, a
        return s.replace(a, b, n)
    return f

R = {}
# 1 rename a flag helper everywhere
def r_rename(d):
    for f in ["gameboy/cpu/flags.go", "gameboy/cpu/instructions.go"]:
        p = os.path.join(d, f)
        s = open(p).read()
        if "hc8(" in s:
            open(p, "w").write(re.sub(r"\bhc8\(", "halfCarryAdd8(", s))
R["01-rename-helper"] = r_rename
# 2 += under if  ->  |=
def r_or(d):
    edit(os.path.join(d, "gameboy/interrupts/interrupts.go"), lambda s: s.replace("ifr += 0x", "ifr |= 0x").replace("ier += 0x", "ier |= 0x"))
R["02-add-to-or"] = r_or
# 3 addr-0xc000 -> addr&0x1fff ; mirror likewise
def r_mask(d):
    edit(os.path.join(d, "gameboy/memory/mapper.go"), lambda s: s.replace("m.internalRAM[addr-0xc000]", "m.internalRAM[addr&0x1fff]").replace("m.internalRAM[addr-0xe000]", "m.internalRAM[addr&0x1fff]"))
R["03-sub-to-mask"] = r_mask
# 4 extract an enterMode2 helper in the PPU
def r_helper(d):
    p = os.path.join(d, "gameboy/ppu/ppu.go")
    def f(s):
        s = s.replace("""				ppu.mode = 2
				ppu.oam.EnterMode2()
				// If the oam interrupt is enabled in stat
				// then the stat interrupt occurs
				if ppu.oamInterrupt {
					ppu.interrupts.RequestStat()
				}""", "				ppu.startOAMScan()")
        s = s.replace("""			ppu.mode = 2
			ppu.oam.EnterMode2()
			// If the oam interrupt is enabled in stat
			// then the stat interrupt occurs on line 0 too
			if ppu.oamInterrupt {
				ppu.interrupts.RequestStat()
			}""", "			ppu.startOAMScan()")
        s = s.replace("func (ppu *PPU) checkOverlappingSprites(", """// startOAMScan enters mode 2 at the start of a visible line
func (ppu *PPU) startOAMScan() {
	ppu.mode = 2
	ppu.oam.EnterMode2()
	if ppu.oamInterrupt {
		ppu.interrupts.RequestStat()
	}
}

func (ppu *PPU) checkOverlappingSprites(""")
        return s
    edit(p, f)
R["04-extract-mode2-helper"] = r_helper
# 5 hoist literals into named constants
def r_const(d):
    p = os.path.join(d, "gameboy/ppu/ppu.go")
    def f(s):
        s = s.replace("ppu.ticks / 114", "ppu.ticks / ticksPerLine").replace("ppu.ticks % 114", "ppu.ticks % ticksPerLine").replace("ppu.ticks == 17556", "ppu.ticks == ticksPerFrame")
        s = s.replace("type PPU struct {", "const (\n\tticksPerLine  = 114\n\tticksPerFrame = 154 * ticksPerLine\n)\n\ntype PPU struct {", 1)
        return s
    edit(p, f)
R["05-named-constants"] = r_const
# 6 reorder independent cases of the decoder
def r_reorder(d):
    p = os.path.join(d, "gameboy/memory/mapper.go")
    def f(s):
        a = "\tcase addr == SB:\n\t\treturn m.serial.ReadSB()\n"
        b = "\tcase addr == SC:\n\t\treturn m.serial.ReadSC()\n"
        assert a + b in s
        s = s.replace(a + b, b + a)
        a = "\tcase addr == TIMA:\n\t\tm.timer.WriteTIMA(value)\n"
        b = "\tcase addr == TMA:\n\t\tm.timer.WriteTMA(value)\n"
        assert a + b in s
        return s.replace(a + b, b + a)
    edit(p, f)
R["06-reorder-cases"] = r_reorder
# 7 square channel: period through a helper
def r_period(d):
    p = os.path.join(d, "gameboy/audio/square.go")
    def f(s):
        s = s.replace("s.timer = (2048 - s.frequency) * 4", "s.timer = s.period()")
        s = s.replace("func (s *square) tickTimer() {", "func (s *square) period() uint16 {\n\treturn (2048 - s.frequency) << 2\n}\n\nfunc (s *square) tickTimer() {")
        return s
    edit(p, f)
R["07-period-helper-shift"] = r_period
# 8 rtc carry chain written with early returns
def r_rtc(d):
    p = os.path.join(d, "gameboy/memory/rtc.go")
    def f(s):
        a = s.index("func (r *rtc) increment() {")
        b = s.index("func (r *rtc) latchLow() {")
        new = '''func (r *rtc) increment() {
	defer r.mask()
	r.s++
	if r.s != 60 {
		return
	}
	r.s = 0
	r.m++
	if r.m != 60 {
		return
	}
	r.m = 0
	r.h++
	if r.h != 24 {
		return
	}
	r.h = 0
	r.d++
	if r.d == 512 {
		r.d = 0
		r.carry = true
	}
}

// Make sure we're not using more bits than we should
func (r *rtc) mask() {
	r.s &= 0x3f
	r.m &= 0x3f
	r.h &= 0x1f
	r.d &= 0x01ff
}

'''
        return s[:a] + new + s[b:]
    edit(p, f)
R["08-rtc-early-returns"] = r_rtc
# 9 controller: table driven key handling
def r_ctl(d):
    p = os.path.join(d, "gameboy/controller/controller.go")
    def f(s):
        a = s.index("// ButtonAction turns UI key presses")
        new = '''type keyLine struct {
	direction bool
	mask      uint8
	opposite  uint8
}

var keyLines = map[Button]keyLine{
	Start: {false, 0x8, 0}, Select: {false, 0x4, 0}, B: {false, 0x2, 0}, A: {false, 0x1, 0},
	Down: {true, 0x8, 0x4}, Up: {true, 0x4, 0x8}, Left: {true, 0x2, 0x1}, Right: {true, 0x1, 0x2},
}

// ButtonAction turns UI key presses into emulator button presses corresponding to the Gameboy controls
func (c *Controller) ButtonAction(button Button, pressed bool) {
	k, ok := keyLines[button]
	if !ok {
		return
	}
	lines := &c.buttonInput
	if k.direction {
		lines = &c.directionInput
	}
	if pressed {
		*lines &^= k.mask
		*lines |= k.opposite
	} else {
		*lines |= k.mask
	}
}
'''
        return s[:a] + new
    edit(p, f)
R["09-controller-table"] = r_ctl
# 10 timer: fields reordered and renamed
def r_timer(d):
    p = os.path.join(d, "gameboy/timer/timer.go")
    edit(p, lambda s: re.sub(r"\breloadStep\b", "cyclesSinceOverflow", s))
R["10-timer-rename-field"] = r_timer
# 11 interrupt sequences built by a helper with a loop
def r_seq(d):
    p = os.path.join(d, "gameboy/cpu/dispatch.go")
    def f(s):
        s = s.replace("cpu.veryShortInterrupt = []func(){cpu.handleInterrupt}", "cpu.veryShortInterrupt = cpu.interruptSequence(0)")
        s = s.replace("cpu.shortInterrupt = []func(){nop, nop, nop, nop, cpu.handleInterrupt}", "cpu.shortInterrupt = cpu.interruptSequence(4)")
        s = s.replace("cpu.longInterrupt = []func(){nop, nop, nop, nop, nop, cpu.handleInterrupt}", "cpu.longInterrupt = cpu.interruptSequence(5)")
        s = s.replace("func nop() {", "func (cpu *CPU) interruptSequence(idle int) []func() {\n\tseq := []func(){}\n\tfor i := 0; i < idle; i++ {\n\t\tseq = append(seq, nop)\n\t}\n\treturn append(seq, cpu.handleInterrupt)\n}\n\nfunc nop() {", 1)
        return s
    edit(p, f)
R["11-interrupt-sequence-helper"] = r_seq
# 12 mbc5: bank register kept as two bytes
def r_mbc5(d):
    p = os.path.join(d, "gameboy/memory/mbc5.go")
    def f(s):
        s = s.replace("		m.romBank = m.romBank&0xff00 + uint16(value)\n		m.romBank %= uint16(len(m.rom))", "		m.romBank = (m.romBank&0xff00 | uint16(value)) % uint16(len(m.rom))")
        s = s.replace("		m.romBank = uint16(value)<<8 + m.romBank&0x00ff\n		m.romBank %= uint16(len(m.rom))", "		m.romBank = (uint16(value)<<8 | m.romBank&0x00ff) % uint16(len(m.rom))")
        return s
    edit(p, f)
R["12-mbc5-or-instead-of-add"] = r_mbc5

# 13 rename the per-line overlap table
def r_overlap(d):
    for f in ["gameboy/ppu/ppu.go", "gameboy/ppu/render.go"]:
        p = os.path.join(d, f)
        s = open(p).read()
        if "spriteOverlaps" in s:
            open(p, "w").write(s.replace("spriteOverlaps", "objectOnLine"))
R["13-rename-overlap-table"] = r_overlap
# 14 the OAM-bug step behind a CPU helper
def r_oamhelper(d):
    edit(os.path.join(d, "gameboy/cpu/execution.go"), lambda s: s.replace("\tcpu.oam.Corrupt()\n\tcpu.currentCycle++", "\tcpu.applyOAMBug()\n\tcpu.currentCycle++") + """
// applyOAMBug applies any OAM corruption armed by this machine cycle's accesses
func (cpu *CPU) applyOAMBug() {
	cpu.oam.Corrupt()
}
""")
R["14-oam-bug-helper"] = r_oamhelper
# 15 ADC / SBC in wider arithmetic
def r_adc(d):
    p = os.path.join(d, "gameboy/cpu/instructions.go")
    def f(s):
        i = s.index("func (cpu *CPU) adc(u8 uint8) {")
        j = s.index("\n}\n", i) + 3
        s = s[:i] + """func (cpu *CPU) adc(u8 uint8) {
	carry := uint16(0)
	if cpu.cf() {
		carry = 1
	}
	sum := uint16(cpu.a) + uint16(u8) + carry
	half := uint16(cpu.a&0x0f) + uint16(u8&0x0f) + carry
	cpu.a = uint8(sum)
	// [Z 0 H C]
	cpu.setZf(cpu.a == 0)
	cpu.setNf(false)
	cpu.setHf(half > 0x0f)
	cpu.setCf(sum > 0xff)
}
""" + s[j:]
        return s
    edit(p, f)
R["15-adc-wide-arithmetic"] = r_adc
# 16 JR through one conversion chain
def r_jr(d):
    edit(os.path.join(d, "gameboy/cpu/instructions.go"), rep("\ti8 := int8(cpu.u8a)\n\tcpu.pc = uint16(int16(cpu.pc) + int16(i8))", "\tcpu.pc += uint16(int16(int8(cpu.u8a)))"))
R["16-jr-add-sign-extended"] = r_jr
# 17 DAA in the other textbook order (high correction decided on the original A first)
def r_daa(d):
    p = os.path.join(d, "gameboy/cpu/instructions.go")
    def f(s):
        i = s.index("func (cpu *CPU) daa() {")
        j = s.index("\n}\n", i) + 3
        return s[:i] + """func (cpu *CPU) daa() {
	a := int(cpu.a)
	if cpu.nf() {
		if cpu.hf() {
			a -= 0x06
		}
		if cpu.cf() {
			a -= 0x60
		}
	} else {
		adjust := 0
		if cpu.cf() || a > 0x99 {
			adjust += 0x60
			cpu.setCf(true)
		}
		if cpu.hf() || a&0x0f > 0x09 {
			adjust += 0x06
		}
		a += adjust
	}
	cpu.a = uint8(a)
	// [Z - 0 C]
	cpu.setZf(cpu.a == 0)
	cpu.setHf(false)
}
""" + s[j:]
    edit(p, f)
R["17-daa-other-order"] = r_daa
# 18 the close query through a local and a method
def r_close(d):
    edit(os.path.join(d, "gameboy/display/display.go"), rep("\treturn d.window.ShouldClose()", "\tclosing := d.window.ShouldClose()\n\treturn closing"))
R["18-close-query-local"] = r_close
# 19 NR42 parsing moved into a helper of the channel
def r_nr42(d):
    p = os.path.join(d, "gameboy/audio/registers.go")
    def f(s):
        i = s.index("func (a *Audio) WriteNR42(value uint8) {")
        j = s.index("\n}\n", i) + 3
        body = s[i:j]
        assert "a.ch4." in body
        helper = body.replace("func (a *Audio) WriteNR42(value uint8) {", "func (a *Audio) setNoiseEnvelope(value uint8) {")
        # keep the power gate in the register handler if there is one
        return s[:i] + "func (a *Audio) WriteNR42(value uint8) {\n\ta.setNoiseEnvelope(value)\n}\n\n" + helper + s[j:]
    edit(p, f)
R["19-nr42-helper"] = r_nr42
# 20 INC rr through the pair accessors
def r_inc16(d):
    edit(os.path.join(d, "gameboy/cpu/instructions.go"), rep("\tnew := uint16(*msb)<<8 + uint16(*lsb) + 1\n", "\tnew := (uint16(*msb)<<8 | uint16(*lsb)) + 1\n"))
R["20-inc16-or"] = r_inc16

# 21 the TMA-write flag cleared where it is consumed (was seeded change C12-2; behaviour-preserving since the D28 repair)
def r_tmaflag(d):
    edit(os.path.join(d, "gameboy/timer/timer.go"), lambda s: s.replace("\t\tif t.tmaWrite {\n\t\t\tt.tima = t.tma\n\t\t}\n\t}\n\tt.tmaWrite = false\n", "\t\tif t.tmaWrite {\n\t\t\tt.tima = t.tma\n\t\t\tt.tmaWrite = false\n\t\t}\n\t}\n"))
R["21-tma-flag-cleared-where-consumed"] = r_tmaflag

# 22 the metadata loop counts its entries (a plain counter in a map loop during package init)
def r_initcount(d):
    p = os.path.join(d, "gameboy/cpu/instruction_metadata.go")
    def f(s):
        s = s.replace("\tfor addrStr, instruction := range instructionMap {\n", "\tentries := 0\n\tfor addrStr, instruction := range instructionMap {\n\t\tentries++\n", 1)
        s = s.replace("\t\t(*arrayToInit)[addr] = instruction\n\t}\n}", "\t\t(*arrayToInit)[addr] = instruction\n\t}\n\tif entries > 256 {\n\t\tpanic(\"Metadata error: more than 256 entries\")\n\t}\n}", 1)
        return s
    edit(p, f)
R["22-init-loop-counter"] = r_initcount
# 23 MBC5 dump through a preallocated buffer and copy with an int offset
def r_dumpcopy(d):
    edit(os.path.join(d, "gameboy/memory/mbc5.go"), rep("\tvar dump []byte\n\tfor _, r := range m.ram {\n\t\tdump = append(dump, r[:]...)\n\t}\n\treturn dump", "\tdump := make([]byte, len(m.ram)*0x2000)\n\tfor i := range m.ram {\n\t\tcopy(dump[i*0x2000:], m.ram[i][:])\n\t}\n\treturn dump"))
R["23-dump-copy-int-offset"] = r_dumpcopy
# 24 Pending() as one masked expression (the correct version of two seeded slips)
def r_pending(d):
    edit(os.path.join(d, "gameboy/interrupts/interrupts.go"), rep("\treturn i.JoypadPending() ||\n\t\ti.SerialPending() ||\n\t\ti.TimerPending() ||\n\t\ti.StatPending() ||\n\t\ti.VblankPending()", "\treturn i.ReadIE()&i.ReadIF()&0x1f != 0"))
R["24-pending-masked-expression"] = r_pending
# 25 SB delivery through a one-byte array
def r_sbarray(d):
    edit(os.path.join(d, "gameboy/serial/serial.go"), rep("\t_, err := s.writer.Write([]byte{value})", "\tbuf := [1]byte{value}\n\t_, err := s.writer.Write(buf[:])"))
R["25-sb-one-byte-array"] = r_sbarray

# 26 the per-cycle body of runFrame in a helper
def r_stephelper(d):
    p = os.path.join(d, "gameboy/gameboy.go")
    def f(s):
        i = s.index("func (gb *Gameboy) runFrame(")
        j = s.index("\n}\n", i) + 3
        fn = s[i:j]
        a = fn.index("{", fn.index("for ")) + 1
        # the loop body is everything up to the loop's closing brace: find it by indentation
        lines = fn[a:].split("\n")
        body, rest = [], []
        depth_done = False
        for k, ln in enumerate(lines):
            if not depth_done and ln.startswith("\t}"):
                depth_done = True
                rest = lines[k:]
                break
            body.append(ln)
        assert depth_done
        newfn = fn[:a] + "\n\t\tgb.step()\n" + "\n".join(rest)
        helper = "\n// step advances the whole machine by one machine cycle\nfunc (gb *Gameboy) step() {" + "\n".join(l[1:] if l.startswith("\t") else l for l in body) + "\n}\n"
        return s[:i] + newfn + helper + s[j:]
    edit(p, f)
R["26-per-cycle-step-helper"] = r_stephelper

# 27 the negate-calculation flag of channel 1 renamed (S-neg finds it by role)
def r_negflag(d):
    import glob
    n = 0
    for p in glob.glob(os.path.join(d, "gameboy/audio/*.go")):
        if p.endswith("_test.go"):
            continue
        s = open(p).read()
        if "sweepDescending" in s:
            open(p, "w").write(s.replace("sweepDescending", "negateUsed"))
            n += 1
    assert n > 0
R["27-negate-flag-renamed"] = r_negflag

# 28 wave RAM indexed by the low address bits
def r_wavemask(d):
    edit(os.path.join(d, "gameboy/audio/registers.go"), rep("a.ch3.waveram[addr-0xff30]", "a.ch3.waveram[addr&0x0f]"))
R["28-wave-ram-low-bits"] = r_wavemask

# 29 MBC3 clock-register test on bit 3 of the (masked) select register
def r_mbc3bit(d):
    edit(os.path.join(d, "gameboy/memory/mbc3.go"), rep("m.ramBank >= 0x08", "m.ramBank&0x08 != 0"))
R["29-mbc3-select-bit-test"] = r_mbc3bit

# 30 LD (HL),r through one closure-returning helper (the correct version of seeded change C23-11)
def r_ldhlr(d):
    seed = os.path.join(os.path.dirname(OUT), "..", "seeded", "C23-11", "patch.diff")
    subprocess.run(["patch", "-p1", "-s", "-d", d, "-i", os.path.abspath(seed)], check=True)
    edit(os.path.join(d, "gameboy/cpu/dispatch.go"), rep("normal[0x75] = []func(){nop, cpu.ldHLR(&cpu.h)}", "normal[0x75] = []func(){nop, cpu.ldHLR(&cpu.l)}"))
R["30-ld-hl-r-closure-helper"] = r_ldhlr

# 31 the serial writer guard turned around
def r_sbguard(d):
    edit(os.path.join(d, "gameboy/serial/serial.go"), rep("""	if s.writer == nil {
		return
	}
	_, err := s.writer.Write([]byte{value})
	if err != nil {
		panic(fmt.Sprintf("Write to SB failed: %v", err))
	}
""", """	if s.writer != nil {
		if _, err := s.writer.Write([]byte{value}); err != nil {
			panic(fmt.Sprintf("Write to SB failed: %v", err))
		}
	}
"""))
R["31-serial-guard-turned-around"] = r_sbguard

only = sys.argv[1:]
for name, fn in R.items():
    if only and name not in only:
        continue
    tmp = tempfile.mkdtemp(prefix="refac-")
    try:
        subprocess.run(["git", "-C", "/repo", "worktree", "add", "-q", "--detach", tmp + "/wt", "HEAD"], check=True)
        wt = tmp + "/wt"
        fn(wt)
        subprocess.run(["gofmt", "-w", wt + "/gameboy"], check=True)
        diff = subprocess.run(["git", "-C", wt, "diff"], capture_output=True, text=True).stdout
        env = dict(os.environ, GOFLAGS="-mod=mod", GOPROXY="off", GOSUMDB="off", GOTOOLCHAIN="local")
        subprocess.run(["/verif/tools/seedkit.sh"], capture_output=True)
        b = subprocess.run(["go", "build", "-modfile=/tmp/seedkit/go.alt.mod", "./..."], cwd=wt, env=env, capture_output=True, text=True)
        t = subprocess.run(["go", "test", "-vet=off", "-count=1", "./gameboy/cpu/", "./gameboy/timer/"], cwd=wt, env=env, capture_output=True, text=True)
        ok = b.returncode == 0 and t.returncode == 0
        print(name, "build", b.returncode, "tests", t.returncode, "diff lines", len(diff.splitlines()), (b.stderr[-300:] if b.returncode else ""))
        if ok:
            open(os.path.join(OUT, name + ".diff"), "w").write(diff)
    finally:
        subprocess.run(["git", "-C", "/repo", "worktree", "remove", "--force", tmp + "/wt"], capture_output=True)
        shutil.rmtree(tmp, ignore_errors=True)
